(* Crash.v — where transaction-controlled values can stop the node, as written in
   data/balance/coin.go (logger.Fatal = os.Exit on mismatching currencies / nil amounts),
   action/base.go (fee step) and app/controller.go (txDeliverer / txChecker).
   Outcomes are three-valued: the node answers (Done / Refused) or it stops (Crash).
   No proofs here. *)
From Coq Require Import ZArith List Bool String.
Import ListNotations.
Local Open Scope Z_scope.

Inductive outcome (A : Type) := Done (a : A) | Refused | Crash.
Arguments Done {A} a.  Arguments Refused {A}.  Arguments Crash {A}.

(* balance.Coin: Currency (the zero Currency{} has the empty name: None) and *Amount (nil: None) *)
Record coin := { c_cur : option Z ; c_amt : option Z }.

Definition cur_eqb (a b : option Z) : bool :=
  match a, b with Some x, Some y => x =? y | None, None => true | _, _ => false end.

(* action.Amount.ToCoin: an unregistered currency yields the zero Coin{} *)
Definition to_coin (registered : Z -> bool) (cur v : Z) : coin :=
  if registered cur then {| c_cur := Some cur ; c_amt := Some v |} else {| c_cur := None ; c_amt := None |}.

(* Coin.MultiplyInt64: dereferences the amount *)
Definition coin_mul (c : coin) (k : Z) : outcome coin :=
  match c_amt c with None => Crash | Some v => Done {| c_cur := c_cur c ; c_amt := Some (v * k) |} end.

(* Coin.Minus: nil receiver amount reads as 0; mismatching currency names -> logger.Fatal;
   nil argument amount -> nil dereference; negative result -> ErrInsufficientBalance *)
Definition coin_minus (a b : coin) : outcome coin :=
  if negb (cur_eqb (c_cur a) (c_cur b)) then Crash
  else match c_amt b with
       | None => Crash
       | Some vb => let va := match c_amt a with Some x => x | None => 0 end in
                    if va - vb <? 0 then Refused else Done {| c_cur := c_cur a ; c_amt := Some (va - vb) |}
       end.

(* Coin.Plus: nil receiver amount -> Fatal; mismatching currencies -> Fatal *)
Definition coin_plus (a b : coin) : outcome coin :=
  match c_amt a with
  | None => Crash
  | Some va => if negb (cur_eqb (c_cur a) (c_cur b)) then Crash
               else match c_amt b with None => Crash | Some vb => Done {| c_cur := c_cur a ; c_amt := Some (va + vb) |} end
  end.

(* Coin.IsValid / Amount.IsValid: registered currency, amount present and >= 0 *)
Definition amount_valid (registered : Z -> bool) (cur v : Z) : bool := registered cur && (0 <=? v).

(* ---- the fee step (BasicFeeHandling) ---- *)
Record feectx := {
  fee_cur : Z ;                   (* the fee currency option *)
  min_price : Z ;                 (* FeeOption.MinFee *)
  registered : Z -> bool ;        (* CurrencySet *)
  payer_balance : option Z -> Z ; (* balance record of the payer in the currency of that name *)
  pool : Z                        (* fee pool amount, a coin in the fee currency *)
}.

Record feein := { nsigs : nat ; price_cur : Z ; price_val : Z ; used : Z ; gas_limit : Z }.

(* [sig_guard]: the fee step checks len(Signatures) before indexing (fix 5b9d413) *)
Definition fee_step (sig_guard : bool) (x : feectx) (i : feein) : outcome (Z * Z) :=
  if gas_limit i <? used i then Refused
  else match nsigs i with
       | O => if sig_guard then Refused else Crash        (* Signatures[0] on an empty list *)
       | S _ =>
           match coin_mul (to_coin (registered x) (price_cur i) (price_val i)) (used i) with
           | Crash => Crash | Refused => Refused
           | Done charge =>
               match coin_minus {| c_cur := c_cur charge ; c_amt := Some (payer_balance x (c_cur charge)) |} charge with
               | Crash => Crash | Refused => Refused
               | Done newbal =>
                   match coin_plus {| c_cur := Some (fee_cur x) ; c_amt := Some (pool x) |} charge with
                   | Crash => Crash | Refused => Refused
                   | Done newpool =>
                       Done (match c_amt newbal with Some b => b | None => 0 end,
                             match c_amt newpool with Some p => p | None => 0 end)
                   end
               end
           end
       end.

(* action.ValidateFee + ValidateBasic's count check, as far as the fee step depends on them *)
Definition validate_fee (x : feectx) (nsigners : nat) (i : feein) : bool :=
  (price_cur i =? fee_cur x) && (min_price x <=? price_val i) && Nat.eqb (nsigs i) nsigners.

(* ---- a handler that debits an amount named in the payload and credits a pool (the shape of
   SENDPOOL, fund, purchase, delegate ...) ---- *)
Definition debit_credit (checks_amount : bool) (reg : Z -> bool) (cur v bal poolcur poolamt : Z)
  : outcome (Z * Z) :=
  if checks_amount && negb (amount_valid reg cur v) then Refused
  else let c := to_coin reg cur v in
       match coin_minus {| c_cur := c_cur c ; c_amt := Some bal |} c with
       | Crash => Crash | Refused => Refused
       | Done nb =>
           match coin_plus {| c_cur := Some poolcur ; c_amt := Some poolamt |} c with
           | Crash => Crash | Refused => Refused
           | Done np => Done (match c_amt nb with Some b => b | None => 0 end,
                              match c_amt np with Some p => p | None => 0 end)
           end
       end.

(* ---- txDeliverer: Validate (when the deliverer calls it) guards handler and fee step ---- *)
Definition deliver_fee (calls_validate sig_guard : bool) (x : feectx) (nsigners : nat) (i : feein)
  : outcome (Z * Z) :=
  if calls_validate && negb (validate_fee x nsigners i) then Refused else fee_step sig_guard x i.

(* classification of the explicit stop sites srcfacts finds (panic / logger.Fatal / os.Exit) *)
Inductive sclass :=
| SCoinArith        (* data/balance Coin arithmetic: guarded by validation (theorems above) *)
| SValidateInvariant(* "no default currency": currency id 0 is registered at genesis *)
| SGenesisInvariant (* a governance option is missing: options are written at InitChain *)
| SHookStoreError   (* a block hook failing to write a matured amount: state corruption only *)
| SNodeLocalJob     (* witness/job-bus code and chain drivers: not on the CheckTx/DeliverTx path *)
| SStartUp          (* init() registration, database opening *)
| SStorageInternal  (* database failure or API misuse (CommitTxSession without session; IterateRange on a cache) *)
| SEvmInternal      (* EVM adapter internal consistency (refund underflow, unknown revision, negative balance) *)
| SKnownC10         (* fee distribution in GetEndBlockUpdate: reachable through findings recorded under C10 *)
| SUnclassified.

Definition site_class (table : list (string * sclass)) (s : string) : sclass :=
  match List.find (fun '(id, _) => String.eqb id s) table with Some (_, c) => c | None => SUnclassified end.
Definition unclassified (table : list (string * sclass)) (sites : list string) : list string :=
  List.filter (fun s => match site_class table s with SUnclassified => true | _ => false end) sites.
