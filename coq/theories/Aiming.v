(* Aiming.v — the shared store singletons of app/context.go.  Each store object holds a mutable
   pointer to either the check state or the deliver state (X.WithState(s) overwrites it and
   returns the same object).  CheckTx re-aims every store at the check state.  No proofs here. *)
From stdpp Require Import gmap list.
From Coq Require Import ZArith String.
From OL Require Import theories.Store theories.Abci.

Inductive target := Check | Deliver.

Record world := { dl : state ; ck : state ; ptr : string -> target }.

(* one use of a store inside a consensus hook: optionally re-aimed at the deliver state at the
   use (X.WithState(deliver).f(...)), then an arbitrary program runs on whatever state the
   store's pointer designates *)
Inductive cuse := CUse (id : string) (reaim : bool) (p : prog).

Inductive event :=
| EHook (us : list cuse)      (* a consensus ABCI call: BeginBlock / DeliverTx / EndBlock *)
| ECheck (p : prog).          (* a CheckTx call, interleaved at a call boundary *)

Definition set_ptr (f : string -> target) (id : string) (t : target) : string -> target :=
  fun i => if String.eqb i id then t else f i.

Definition run_use (w : world) (u : cuse) : bool * world :=
  match u with
  | CUse id reaim p =>
      let ptr' := if reaim then set_ptr (ptr w) id Deliver else ptr w in
      match ptr' id with
      | Deliver => let '(r, d') := exec p (dl w) in (r, {| dl := d' ; ck := ck w ; ptr := ptr' |})
      | Check => let '(r, c') := exec p (ck w) in (r, {| dl := dl w ; ck := c' ; ptr := ptr' |})
      end
  end.

Fixpoint run_hook (w : world) (us : list cuse) : list bool * world :=
  match us with
  | [] => ([], w)
  | u :: rest => let '(r, w1) := run_use w u in
                 let '(rs, w2) := run_hook w1 rest in (r :: rs, w2)
  end.

(* Context.Action(header, check): every store now points at the check state *)
Definition run_check (w : world) (p : prog) : world :=
  {| dl := dl w ; ck := (exec p (ck w)).2 ; ptr := fun _ => Check |}.

Fixpoint run_events (w : world) (evs : list event) : list (list bool) * world :=
  match evs with
  | [] => ([], w)
  | EHook us :: rest => let '(r, w1) := run_hook w us in
                        let '(rs, w2) := run_events w1 rest in (r :: rs, w2)
  | ECheck p :: rest => run_events (run_check w p) rest
  end.

Definition is_hook (e : event) : bool := match e with EHook _ => true | ECheck _ => false end.
Definition strip_checks (evs : list event) : list event := List.filter is_hook evs.

(* every bare use in a hook is preceded, in the same hook, by a re-aim of that store *)
Fixpoint aimed_from (aimed : list string) (us : list cuse) : bool :=
  match us with
  | [] => true
  | CUse id true _ :: rest => aimed_from (id :: aimed) rest
  | CUse id false _ :: rest => existsb (String.eqb id) aimed && aimed_from aimed rest
  end.
Definition hook_aimed (us : list cuse) : bool := aimed_from [] us.
Definition well_aimed (evs : list event) : bool :=
  forallb (fun e => match e with EHook us => hook_aimed us | ECheck _ => true end) evs.

(* ---- the same walk over the facts srcfacts extracts from package app ---- *)
(* a use: (store, (aimed at the use, nested under a condition)).  "*" = Action(header, deliver).
   [audited] lists (hook, store) pairs whose bare first use is accepted on the strength of a
   manual audit recorded in props/C07.v *)
Definition fact_use := (string * (bool * bool))%type.

Definition root_of (s : string) : string :=
  match index 0 "." s with Some n => substring 0 n s | None => s end.

Fixpoint facts_aimed_from (hook : string) (audited : list (string * string)) (aimed : list string)
         (us : list fact_use) : list (string * string) :=
  match us with
  | [] => []
  | (st, (true, cond)) :: rest =>
      facts_aimed_from hook audited (if cond then aimed else root_of st :: aimed) rest
  | (st, (false, _)) :: rest =>
      let ok := existsb (String.eqb "*") aimed || existsb (String.eqb (root_of st)) aimed ||
                existsb (fun '(h, s) => String.eqb h hook && String.eqb s (root_of st)) audited in
      (if ok then [] else [(hook, st)]) ++ facts_aimed_from hook audited aimed rest
  end.

(* the un-aimed, un-audited uses of all hooks but InitChain (no CheckTx can precede InitChain) *)
Definition unaimed_uses (audited : list (string * string))
           (hooks : list (string * list fact_use)) : list (string * string) :=
  flat_map (fun '(h, us) => if String.eqb h "chainInitializer" then []
                            else facts_aimed_from h audited [] us) hooks.
