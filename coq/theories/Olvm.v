(* Olvm.v — the OLT ledger under OLVM (embedded EVM) and native transactions.
   Sources modelled: vm/state_transition.go (preCheck, buyGas, IntrinsicGas, TransitionDb,
   refundGas, gasUsed), vm/evm.go (Apply), action/olvm/handler.go (runOLVM, Validate,
   validateEthTx), action/base.go (ContractFeeHandling, BasicFeeHandling), app/controller.go
   (txDeliverer: commit iff ok && feeOk), data/balance/keeper.go (the EVM account is a keeper
   record {sequence, code hash} plus the balance READ FROM THE BALANCE STORE — one record per
   address), data/fees/store.go (AddToPool), action/transfer/send.go.
   The EVM interpreter proper (go-ethereum's) is an ORACLE.  No proofs here. *)
From stdpp Require Import gmap list.
From Coq Require Import ZArith.
Local Open Scope Z_scope.

Definition addr := N.

(* ---------- state ---------- *)
(* [bal]  : the balance store, key b_<addr>_OLT (the ONLY place an OLT balance lives)
   [seqs] : the keeper records keeper_<addr> (presence = record exists; value = Sequence)
   [pool] : the fee pool record f_<POOL_KEY> *)
Record state := { bal : gmap addr Z ; seqs : gmap addr Z ; pool : Z }.

Definition balance (s : state) (a : addr) : Z := default 0 (bal s !! a).
Definition nonce_of (s : state) (a : addr) : Z := default 0 (seqs s !! a).

Definition set_bal (s : state) (a : addr) (v : Z) : state :=
  {| bal := <[a := v]> (bal s) ; seqs := seqs s ; pool := pool s |}.
Definition add_bal (s : state) (a : addr) (d : Z) : state := set_bal s a (balance s a + d).
Definition set_nonce (s : state) (a : addr) (n : Z) : state :=
  {| bal := bal s ; seqs := <[a := n]> (seqs s) ; pool := pool s |}.
Definition add_pool (s : state) (d : Z) : state :=
  {| bal := bal s ; seqs := seqs s ; pool := pool s + d |}.

(* ---------- the two views of an account's OLT balance ---------- *)
(* native: balance.Store.GetBalanceForCurr *)
Definition native_view (s : state) (a : addr) : Z := balance s a.

(* EVM: CommitStateDB.GetBalance -> getStateObject -> keeper.GetAccount:
   coin := getOrCreateCurrencyBalance(addr)   (the balance store);
   no keeper record: legacyFix — an account iff the balance is non-zero, else ErrAccountNotFound
   (-> no state object -> GetBalance answers 0);  record present: ea.Coins := coin *)
Record account := { a_coins : Z ; a_seq : Z }.
Definition keeper_get (s : state) (a : addr) : option account :=
  let coin := balance s a in
  match seqs s !! a with
  | None => if coin =? 0 then None else Some {| a_coins := coin ; a_seq := 0 |}
  | Some n => Some {| a_coins := coin ; a_seq := n |}
  end.
Definition evm_view (s : state) (a : addr) : Z :=
  match keeper_get s a with Some acc => a_coins acc | None => 0 end.
Definition evm_nonce (s : state) (a : addr) : Z :=
  match keeper_get s a with Some acc => a_seq acc | None => 0 end.

(* ---------- constants (go-ethereum params; vm/evm.go) — checked against the running code by
   the correspondence harness, which prints the real values into every cases file ---------- *)
Definition TxGas : Z := 21000.
Definition TxGasContractCreation : Z := 53000.
Definition TxDataNonZeroGas : Z := 16.   (* TxDataNonZeroGasEIP2028 *)
Definition TxDataZeroGas : Z := 4.
Definition RefundQuotient : Z := 3.      (* vm.RefundQuotientFrankenstein *)
Definition MaxUint64 : Z := 2^64 - 1.
Definition MaxInt64 : Z := 2^63 - 1.
Definition wrap64 (z : Z) : Z := ((z + 2^63) mod 2^64) - 2^63.
Definition SimulationBlockGasLimit : Z := 100000000.

(* ---------- an OLVM transaction ---------- *)
Record otx := {
  t_from : addr ;
  t_to : option addr ;        (* None = contract creation *)
  t_value : Z ;
  t_gas : Z ;                 (* RawTx.Fee.Gas, an int64 *)
  t_price : Z ;               (* RawTx.Fee.Price *)
  t_nonce : Z ;
  t_nz : Z ;                  (* non-zero bytes of the call data / init code *)
  t_z : Z ;                   (* zero bytes *)
  t_chain_ok : bool ;         (* signed over, and declaring, this chain's id; signature by t_from *)
  t_memo_ok : bool            (* memo = decimal nonce *)
}.

(* what the transaction reads besides the ledger *)
Record env := {
  e_block_gas : Z ;           (* GetAvailableGas: block gas limit - consumed (a Go int) *)
  e_sender_code : bool ;      (* the sender's keeper record carries a non-empty code hash *)
  e_created : addr ;          (* CreateAddress(sender, state nonce): recipient of a creation *)
  e_dup : bool                (* the same bytes are in the node's tx index (earlier block) *)
}.

(* the interpreter's answer for the top-level call/create frame *)
Record oracle := {
  o_left : Z ;                (* gas returned by evm.Call / evm.Create *)
  o_refund : Z ;              (* refund counter at the end of execution *)
  o_failed : bool ;           (* vmerr <> nil (revert, out of gas, invalid opcode, collision, ...) *)
  o_int : list (addr * Z) ;   (* net OLT moved by the code itself (inner CALLs with value,
                                 SELFDESTRUCT); undone with everything else when o_failed *)
  o_dead : list addr          (* accounts that executed SELFDESTRUCT (state objects marked
                                 suicided at Finalise) *)
}.

Definition gas_u64 (t : otx) : Z := t_gas t mod 2^64.          (* uint64(raw.Fee.Gas) *)
Definition is_create (t : otx) : bool := match t_to t with None => true | Some _ => false end.
Definition recipient (e : env) (t : otx) : addr :=
  match t_to t with Some a => a | None => e_created e end.

(* vm.IntrinsicGas (empty access list); None = ErrGasUintOverflow *)
Definition intrinsic_gas (t : otx) : option Z :=
  let g0 := if is_create t then TxGasContractCreation else TxGas in
  if (t_nz t + t_z t) =? 0 then Some g0
  else if (MaxUint64 - g0) / TxDataNonZeroGas <? t_nz t then None
  else let g1 := g0 + t_nz t * TxDataNonZeroGas in
       if (MaxUint64 - g1) / TxDataZeroGas <? t_z t then None
       else Some (g1 + t_z t * TxDataZeroGas).

(* stages at which TransitionDb returns a consensus error *)
Inductive reject := RNonceHigh | RNonceLow | RNotEOA | RFunds | RBlockGas | RIntrOverflow | RIntrinsic
                  | RFundsTransfer.

Fixpoint apply_int (s : state) (l : list (addr * Z)) : state :=
  match l with
  | [] => s
  | (a, d) :: rest => apply_int (add_bal s a d) rest
  end.

(* Finalise on a suicided state object: deleteStateObject -> keeper.RemoveAccount deletes the
   keeper record and writes the object's balance (zero after SELFDESTRUCT, i.e. what the EVM
   computed) to the balance store: the balance record follows the EVM's logical state *)
Definition drop_account (s : state) (a : addr) : state :=
  {| bal := bal s ; seqs := delete a (seqs s) ; pool := pool s |}.
Definition restore_dead (s : state) (l : list addr) : state :=
  fold_left drop_account l s.

(* refundGas + gasUsed: gas handed back to the sender, given what the interpreter left *)
Definition gas_final (g : Z) (o : oracle) : Z :=
  let used0 := g - o_left o in
  let r := used0 / RefundQuotient in
  o_left o + (if o_refund o <? r then o_refund o else r).

(* StateTransition.TransitionDb followed by Finalise, on the transaction's session.
   inl r : consensus error (the session state is returned too: buyGas may already have debited);
   inr (failed, usedGas) *)
Definition transition (s : state) (e : env) (t : otx) (o : oracle)
  : (reject + (bool * Z)) * state :=
  let from := t_from t in
  let g := gas_u64 t in
  let mgval := g * t_price t in
  (* preCheck *)
  if evm_nonce s from <? t_nonce t then (inl RNonceHigh, s)           (* stNonce < msgNonce *)
  else if t_nonce t <? evm_nonce s from then (inl RNonceLow, s)       (* stNonce > msgNonce *)
  else if e_sender_code e then (inl RNotEOA, s)
  (* buyGas *)
  else if evm_view s from <? mgval then (inl RFunds, s)
  else if e_block_gas e <? g then (inl RBlockGas, s)                  (* gp.SubGas *)
  else
    let s1 := add_bal s from (- mgval) in
    match intrinsic_gas t with
    | None => (inl RIntrOverflow, s1)
    | Some ig =>
      if g <? ig then (inl RIntrinsic, s1)
      else if (0 <? t_value t) && (evm_view s1 from <? t_value t) then (inl RFundsTransfer, s1)
      else
        (* nonce: SetNonce(GetNonce+1) before Call; inside evm.Create before its snapshot *)
        let s2 := set_nonce s1 from (evm_nonce s1 from + 1) in
        (* evm.Call / evm.Create: snapshot; Transfer(value); run code; on error revert *)
        let to := recipient e t in
        let s3 := if o_failed o then s2
                  else
                    let s' := add_bal (add_bal s2 from (- t_value t)) to (t_value t) in
                    let s'' := if is_create t then set_nonce s' to 1 else s' in
                    apply_int s'' (o_int o) in
        (* refundGas *)
        let gf := gas_final g o in
        let s4 := add_bal s3 from (gf * t_price t) in
        (* Apply: Finalise(true) *)
        let s5 := if o_failed o then s4 else restore_dead s4 (o_dead o) in
        (inr (o_failed o, g - gf), s5)
    end.

(* runOLVM: Response (ok, GasUsed).  Apply error -> (false, WrongFee = 0);
   executed (also when the VM failed) -> (true, int64(UsedGas)) *)
Definition handler (s : state) (e : env) (t : otx) (o : oracle) : bool * Z * state :=
  match transition s e t o with
  | (inl _, s') => (false, 0, s')
  | (inr (_, used), s') => (true, wrap64 used, s')
  end.

(* action.ContractFeeHandling(gasUsed := storage.Gas(response.GasUsed)) *)
Definition contract_fee (s : state) (t : otx) (gas_used : Z) : bool * state :=
  if gas_used =? -1 then (true, s)                     (* SkipFee *)
  else if gas_used =? 0 then (false, s)                (* WrongFee *)
  else if t_gas t <? gas_used then (false, s)          (* ErrGasOverflow *)
  else (true, add_pool s (t_price t * gas_used)).      (* FeePool.AddToPool(price * gasUsed) *)

Inductive outcome :=
| Executed (vm_failed : bool) (gas_used : Z)     (* DeliverTx code 0 *)
| NotExecuted                                     (* DeliverTx code 1: nothing is committed *)
| Duplicate.                                      (* cached response, no session opened *)

(* txDeliverer for an OLVM transaction *)
Definition deliver_olvm (s : state) (e : env) (t : otx) (o : oracle) : outcome * state :=
  if e_dup e then (Duplicate, s)
  else
    let '(ok, gu, s1) := handler s e t o in
    let '(fee_ok, s2) := contract_fee s1 t gu in
    if ok && fee_ok
    then (Executed (o_failed o) gu, s2)               (* CommitTxSession *)
    else (NotExecuted, s).                            (* DiscardTxSession *)

(* ---------- native SEND ---------- *)
Record ntx := { n_from : addr ; n_to : addr ; n_amount : Z ; n_price : Z ; n_gas : Z }.

(* transfer.runTx + BasicFeeHandling; [used] = storage gas measured by the wrapper (an input) *)
Definition deliver_send (s : state) (t : ntx) (used : Z) : bool * state :=
  if balance s (n_from t) <? n_amount t then (false, s)
  else
    let s1 := add_bal (add_bal s (n_from t) (- n_amount t)) (n_to t) (n_amount t) in
    if n_gas t <? used then (false, s)
    else
      let charge := n_price t * used in
      if balance s1 (n_from t) <? charge then (false, s)
      else (true, add_pool (add_bal s1 (n_from t) (- charge)) charge).

(* ---------- CheckTx acceptance of an OLVM transaction (olvmTx.Validate, validateEthTx) on the
   check state [s] ---------- *)
Definition validate (s : state) (min_fee : Z) (t : otx) : bool :=
  t_chain_ok t
  && (min_fee <=? t_price t)
  && (0 <=? t_value t)
  && (gas_u64 t <=? SimulationBlockGasLimit)
  && negb (t_nonce t <? evm_nonce s (t_from t))
  && negb (native_view s (t_from t) <? t_value t + gas_u64 t * t_price t)
  && match intrinsic_gas t with None => false | Some ig => negb (gas_u64 t <? ig) end
  && t_memo_ok t.

(* ---------- mixed histories ---------- *)
Inductive step :=
| SOlvm (e : env) (t : otx) (o : oracle)
| SSend (t : ntx) (used : Z).

Definition run_step (s : state) (st : step) : state :=
  match st with
  | SOlvm e t o => (deliver_olvm s e t o).2
  | SSend t used => (deliver_send s t used).2
  end.

Definition run (s : state) (l : list step) : state := fold_left run_step l s.

(* total OLT in a finite set of accounts plus the fee pool *)
Definition total_over (s : state) (l : list addr) : Z :=
  fold_right (fun a acc => balance s a + acc) 0 l + pool s.

(* ---------- triggers of the known deviations ---------- *)
(* a nonce above the account's: still ACCEPTED by CheckTx (validateEthTx rejects only
   state > msg), rejected at execution by preCheck *)
Definition nonce_gap (s : state) (t : otx) : bool := evm_nonce s (t_from t) <? t_nonce t.

(* SELFDESTRUCT of an account whose balance record is non-zero before the transaction *)
Definition selfdestruct_funded (s : state) (o : oracle) : bool :=
  negb (o_failed o) && existsb (fun a => negb (balance s a =? 0)) (o_dead o).

(* net effect of the code's own transfers on one account *)
Fixpoint delta_int (l : list (addr * Z)) (a : addr) : Z :=
  match l with
  | [] => 0
  | (b, d) :: rest => (if decide (a = b) then d else 0) + delta_int rest a
  end.

(* the value that actually changed hands at the top level *)
Definition moved (t : otx) (failed : bool) : Z := if failed then 0 else t_value t.

Definition sum_int (l : list (addr * Z)) : Z := fold_right (fun p acc => p.2 + acc) 0 l.

(* the oracle's answer respects the gas it was given *)
Definition oracle_ok (t : otx) (o : oracle) : Prop :=
  match intrinsic_gas t with
  | Some ig => 0 <= o_left o <= gas_u64 t - ig
  | None => True
  end /\ 0 <= o_refund o.
Definition oracle_okb (t : otx) (o : oracle) : bool :=
  match intrinsic_gas t with
  | Some ig => (0 <=? o_left o) && (o_left o <=? gas_u64 t - ig)
  | None => true
  end && (0 <=? o_refund o).
