(* OnsCheck.v — executable comparison and monitor functions for the C20 correspondence check.
   Evaluated with vm_compute on the traces the Go harness records from the real application
   (harness/c20.go): after every delivered transaction the d_* records, the actors' OLT balances
   and the fee pool are decoded from the deliver state.  No proofs here. *)
From Coq Require Import ZArith Ascii String.
From stdpp Require Import gmap list strings.
From OL Require Import theories.Ons.
Local Open Scope Z_scope.

Definition mkd := Build_domain.

Record obs := { ob_reg : list (name * domain) ; ob_bal : list Z ; ob_pool : Z }.

Inductive cstep :=
| STx (o : op) (h v : Z) (fee : option Z) (sok nb : bool) (ok : bool) (ob : obs)
| SEnd (ob : obs)
(* the ONS options PERSISTED in the deliver state's governance store changed (a finalised
   config-update proposal): every later transaction is priced with them *)
| SOpts (perblock base : Z)
(* a transaction outside the ONS (governance proposal / fund / vote, or a CheckTx): must leave
   the registry and the actors' balances alone; the fee pool is re-read *)
| SAux (ob : obs).

Definition with_prices (o : opts) (pb base : Z) : opts :=
  {| o_perblock := pb; o_base := base; o_tlds := o_tlds o |}.

Record case := { c_opts : opts ; c_init : obs ; c_steps : list cstep }.

Definition obs_reg (ob : obs) : gmap name domain := list_to_map (ob_reg ob).
Definition obs_names (ob : obs) : list name := map fst (ob_reg ob).
Definition obs_bal (ob : obs) : gmap addr Z :=
  list_to_map (imap (fun i z => (N.of_nat i, z)) (ob_bal ob)).

Definition state_of_obs (ob : obs) : state :=
  {| reg := obs_reg ob; snap := list_to_set (obs_names ob); bal := obs_bal ob; pool := ob_pool ob |}.

(* at most one record per name in what was decoded from the tree *)
Definition names_nodup (ob : obs) : bool := bool_decide (NoDup (obs_names ob)).

Definition state_matches (s : state) (ob : obs) : bool :=
  names_nodup ob && bool_decide (reg s = obs_reg ob)
  && forallb (fun '(i, z) => getbal (bal s) i =? z) (imap (fun i z => (N.of_nat i, z)) (ob_bal ob))
  && (pool s =? ob_pool ob).

Definition mk_tx (o : opts) (op0 : op) (h v : Z) (fee : option Z) (sok nb : bool) : tx :=
  {| t_op := op0; t_env := {| e_h := h; e_v := v; e_opts := o |}; t_payer := signer op0; t_fee := fee;
     t_static_ok := sok; t_nil_benef := nb |}.

(* ---- boolean trigger predicates over a model step (guards of the _partial theorems) ---- *)
(* C20.purchase_misses_uncommitted_sub *)
Definition trig_purchase_uncommitted (s : state) (o : op) : bool :=
  match o with
  | Purchase _ _ p _ =>
      existsb (fun n => is_sub_of p n && negb (bool_decide (n ∈ snap s))) (map fst (map_to_list (reg s)))
  | _ => false
  end.

(* ---- model vs implementation ---- *)
Fixpoint mm_steps (o : opts) (s : state) (i : nat) (steps : list cstep) : option nat :=
  match steps with
  | [] => None
  | STx op0 h v fee sok nb ok ob :: rest =>
      let t := mk_tx o op0 h v fee sok nb in
      let '(s', ok') := deliver s t in
      if Bool.eqb ok ok' && state_matches s' ob then mm_steps o s' (S i) rest else
      (* inside the known-trigger region the comparison is one-sided: the implementation may
         behave like the (defective) model — above — or satisfy the property: a purchase meeting
         an uncommitted sub-name deletes that sub-name as well *)
      let sc := {| reg := reg s; snap := dom (reg s); bal := bal s; pool := pool s |} in
      let '(s2, ok2) := deliver sc t in
      let s2' := {| reg := reg s2; snap := snap s; bal := bal s2; pool := pool s2 |} in
      if trig_purchase_uncommitted s op0 && Bool.eqb ok ok2 && state_matches s2' ob
      then mm_steps o s2' (S i) rest else Some i
  | SEnd ob :: rest =>
      let s' := end_block s in
      (* the pool is re-read at block end (block-level bookkeeping is outside this model) *)
      let s'' := {| reg := reg s'; snap := snap s'; bal := bal s'; pool := ob_pool ob |} in
      if state_matches s'' ob then mm_steps o s'' (S i) rest else Some i
  | SOpts pb base :: rest => mm_steps (with_prices o pb base) s (S i) rest
  | SAux ob :: rest =>
      let s'' := {| reg := reg s; snap := snap s; bal := bal s; pool := ob_pool ob |} in
      if state_matches s'' ob then mm_steps o s'' (S i) rest else Some i
  end.

Fixpoint model_mismatches (i : nat) (cs : list case) : list (nat * nat) :=
  match cs with
  | [] => []
  | c :: rest =>
      match mm_steps (c_opts c) (state_of_obs (c_init c)) 0 (c_steps c) with
      | Some j => (i, j) :: model_mismatches (S i) rest
      | None => model_mismatches (S i) rest
      end
  end.

(* ---- monitors: the property evaluated on what the IMPLEMENTATION did ---- *)

Definition bal_at (ob : obs) (a : addr) : Z := default 0 (ob_bal ob !! N.to_nat a).
Definition nactors (ob : obs) : list addr := map N.of_nat (seq 0 (length (ob_bal ob))).

(* every actor's balance moved by exactly: - offer (buyer) + q (seller) - fee (payer) *)
Definition deltas_ok (b a : obs) (buyer seller payer : addr) (offer q fee : Z) : bool :=
  forallb (fun x =>
    bal_at a x - bal_at b x =?
      (if bool_decide (x = seller) then q else 0) - (if bool_decide (x = buyer) then offer else 0)
      - (if bool_decide (x = payer) then fee else 0)) (nactors b).

(* a purchase of p that paid: the asking price to the previous owner (on-sale branch) or at
   least the base price to the pool (expired name) *)
Definition paid_purchase (o : opts) (listed : list (name * addr)) (b a : obs) (p : name) (buyer : addr)
    (offer v fee : Z) : bool :=
  match obs_reg b !! p with
  | None => false
  | Some d =>
    let e := {| e_h := v + 1; e_v := v; e_opts := o |} in
    if sale_branch e d then
      match d_price d with
      | Some q => (q <=? offer) && bool_decide ((p, d_owner d) ∈ listed)
                  && deltas_ok b a buyer (d_owner d) buyer offer q fee
                  && (ob_pool a - ob_pool b =? offer - q + fee)
      | None => false
      end
    else (d_expiry d <? v) && (o_base o <=? offer)
         && deltas_ok b a buyer buyer buyer offer 0 fee && (ob_pool a - ob_pool b =? offer + fee)
  end.

Definition owner_is (r : gmap name domain) (n : name) (a : addr) : bool :=
  match r !! n with Some d => bool_decide (d_owner d = a) | None => false end.

(* is the change of record n between b and a justified by transaction op0? *)
Definition justified (o : opts) (listed : list (name * addr)) (b a : obs) (op0 : op) (v fee : Z)
    (n : name) : bool :=
  let rb := obs_reg b in let ra := obs_reg a in
  owner_is rb n (signer op0)
  || existsb (fun '(p, d) => is_sub_of p n && bool_decide (d_owner d = signer op0)) (ob_reg b)
  || match op0 with
     | Create ow _ n' _ _ _ =>
         bool_decide (n' = n) && bool_decide (rb !! n = None) && negb (is_sub n) && owner_is ra n ow
     | Purchase buyer _ p offer =>
         (bool_decide (p = n) || is_sub_of p n && bool_decide (ra !! n = None))
         && paid_purchase o listed b a p buyer offer v fee
     | _ => false
     end.

Definition changed_names (b a : obs) : list name :=
  filter (fun n => obs_reg b !! n <> obs_reg a !! n) (remove_dups (obs_names b ++ obs_names a)).

(* every sub-name has its parent, owned by the same account, and does not outlive it *)
Definition sub_inv (ob : obs) : bool :=
  forallb (fun '(n, d) =>
    negb (is_sub n) ||
    match obs_reg ob !! parent_name n with
    | Some p => bool_decide (d_owner p = d_owner d)
    | None => false
    end) (ob_reg ob).
Definition sub_expiry_inv (ob : obs) : bool :=
  forallb (fun '(n, d) =>
    negb (is_sub n) ||
    match obs_reg ob !! parent_name n with
    | Some p => d_expiry d <=? d_expiry p
    | None => false
    end) (ob_reg ob).

(* known trigger C20.purchase_misses_uncommitted_sub: a purchase of p while a sub-name of p
   written in this block is not yet in the committed tree *)
Definition trig_uncommitted_sub (committed : list name) (b : obs) (op0 : op) : bool :=
  match op0 with
  | Purchase _ _ p _ | Renew _ p _ =>
      existsb (fun n => is_sub_of p n && negb (bool_decide (n ∈ committed))) (obs_names b)
  | _ => false
  end.

(* "a sub-name expires with its parent": the sub-names of the new state whose expiry differs
   from their parent's although it did not before (or they are new) *)
Definition expiry_agrees (r : gmap name domain) (n : name) (d : domain) : bool :=
  match r !! parent_name n with Some p => d_expiry d =? d_expiry p | None => true end.
Definition sub_expiry_broken (b a : obs) : list name :=
  map fst (filter (fun '(n, d) =>
    is_sub n && negb (expiry_agrees (obs_reg a) n d) &&
    match obs_reg b !! n with Some d0 => expiry_agrees (obs_reg b) n d0 | None => true end) (ob_reg a)).
(* such a sub-name is inside the known trigger region iff it is not in the committed tree and
   the transaction renews or purchases its parent *)
Definition sub_expiry_known (committed : list name) (op0 : op) (n : name) : bool :=
  negb (bool_decide (n ∈ committed)) &&
  match op0 with
  | Purchase _ _ p _ | Renew _ p _ => bool_decide (p = parent_name n)
  | _ => false
  end.

(* ideal (unbounded) expiry the transaction should produce for its name; None = no statement *)
Definition ideal_expiry (o : opts) (b : obs) (op0 : op) (v : Z) : option (name * Z) :=
  match op0 with
  | Create _ _ n _ _ price =>
      if is_sub n then
        match obs_reg b !! parent_name n with Some p => Some (n, d_expiry p) | None => None end
      else Some (n, v + (price - o_base o) / o_perblock o)
  | Renew _ n price =>
      match obs_reg b !! n with Some d => Some (n, d_expiry d + price / o_perblock o) | None => None end
  | Purchase _ _ n offer =>
      match obs_reg b !! n with
      | Some d =>
        let e := {| e_h := v + 1; e_v := v; e_opts := o |} in
        if sale_branch e d
        then Some (n, Z.max (d_expiry d) v + (offer - default 0 (d_price d)) / o_perblock o)
        else Some (n, v + (offer - o_base o) / o_perblock o)
      | None => None
      end
  | _ => None
  end.

(* sale status: every on-sale record of the new state was on sale before for the same owner at the
   same price, or the transaction is that owner's successful Sell at that price
   (mirrors proofs/OnsProofs.v listing_ok) *)
Definition listing_okb (b a : obs) (op0 : op) (ok : bool) : bool :=
  forallb (fun '(n, d') =>
    negb (d_onsale d') ||
    match obs_reg b !! n with
    | Some d => d_onsale d && bool_decide (d_owner d = d_owner d') && bool_decide (d_price d = d_price d')
    | None => false
    end ||
    match op0 with
    | Sell ow n' price false =>
        ok && bool_decide (n' = n) && bool_decide (ow = d_owner d') && owner_is (obs_reg b) n ow
        && bool_decide (d_price d' = Some price)
    | _ => false
    end) (ob_reg a).

(* who signed the current listing of each name (from the successful transactions seen so far) *)
Definition listed_after (listed : list (name * addr)) (op0 : op) (ok : bool) : list (name * addr) :=
  if negb ok then listed else
  match op0 with
  | Sell ow n _ cancel =>
      let l := filter (fun x => x.1 <> n) listed in if cancel then l else (n, ow) :: l
  | Purchase _ _ n _ => filter (fun x => x.1 <> n) listed
  | _ => listed
  end.

(* classes: 0 none; 7 a name is on sale without its owner's sell transaction;
   8 a sub-name no longer expires with its parent; 1 unauthorised change; 3 expiry not the blocks bought; 4 sub-name
   invariant broken; 5 failed transaction left a trace; 6 two records for one name;
   11 = class 4 inside the known trigger region *)
Definition monitor_step (o : opts) (committed : list name) (listed : list (name * addr)) (b : obs)
    (st : cstep) : nat :=
  match st with
  | SOpts _ _ => 0%nat
  | SEnd a | SAux a =>
      if negb (names_nodup a) then 6%nat
      else if negb (bool_decide (obs_reg b = obs_reg a)) || negb (bool_decide (ob_bal b = ob_bal a)) then 5%nat
      else 0%nat
  | STx op0 h v fee sok nb ok a =>
      if negb (names_nodup a) then 6%nat else
      if negb ok then
        (if bool_decide (obs_reg b = obs_reg a) && bool_decide (ob_bal b = ob_bal a)
            && (ob_pool b =? ob_pool a) then 0%nat else 5%nat)
      else
        let f := default 0 fee in
        if negb (forallb (justified o listed b a op0 v f) (changed_names b a)) then 1%nat else
        if negb (listing_okb b a op0 ok) then 7%nat else
        if match ideal_expiry o b op0 v with
           | Some (n, x) => match obs_reg a !! n with Some d => negb (d_expiry d =? x) | None => true end
           | None => false
           end
        then 3%nat else
        if sub_inv b && negb (sub_inv a)
        then (if trig_uncommitted_sub committed b op0 then 11%nat else 4%nat) else
        if sub_expiry_inv b && negb (sub_expiry_inv a)
        then (if trig_uncommitted_sub committed b op0 then 11%nat else 4%nat) else
        if negb (forallb (sub_expiry_known committed op0) (sub_expiry_broken b a))
        then 8%nat else
        if (0 <? length (sub_expiry_broken b a))%nat then 11%nat
        else 0%nat
  end.

Definition step_obs (b : obs) (st : cstep) : obs :=
  match st with STx _ _ _ _ _ _ _ a => a | SEnd a | SAux a => a | SOpts _ _ => b end.
Definition step_opts (o : opts) (st : cstep) : opts :=
  match st with SOpts pb base => with_prices o pb base | _ => o end.

Fixpoint mon_steps (o : opts) (committed : list name) (listed : list (name * addr)) (b : obs) (i : nat)
    (steps : list cstep) : list (nat * nat) :=
  match steps with
  | [] => []
  | st :: rest =>
      let a := step_obs b st in
      let committed' := match st with SEnd _ => obs_names a | _ => committed end in
      let cl := monitor_step o committed listed b st in
      let listed' := match st with STx op0 _ _ _ _ _ ok _ => listed_after listed op0 ok | _ => listed end in
      (if (cl =? 0)%nat then [] else [(i, cl)]) ++ mon_steps (step_opts o st) committed' listed' a (S i) rest
  end.

Fixpoint monitor_violations (i : nat) (cs : list case) : list (nat * nat * nat) :=
  match cs with
  | [] => []
  | c :: rest =>
      map (fun '(j, cl) => (i, j, cl)) (mon_steps (c_opts c) (obs_names (c_init c)) [] (c_init c) 0 (c_steps c))
      ++ monitor_violations (S i) rest
  end.

(* measured coverage: [steps; ok txs; txs that changed some record; changed records justified by
   owner / ancestor owner / fresh create / paid purchase is not split here] *)
Fixpoint stat_steps (b : obs) (steps : list cstep) : Z * Z * Z :=
  match steps with
  | [] => (0, 0, 0)
  | st :: rest =>
      let a := step_obs b st in
      let '(x, y, z) := stat_steps a rest in
      match st with
      | STx _ _ _ _ _ _ ok _ =>
          (x + 1, (if ok then y + 1 else y), (if (0 <? length (changed_names b a))%nat then z + 1 else z))
      | _ => (x, y, z)
      end
  end.
Definition stats (cs : list case) : list Z :=
  let '(x, y, z) := foldr (fun c '(x, y, z) =>
      let '(x', y', z') := stat_steps (c_init c) (c_steps c) in (x + x', y + y', z + z')) (0, 0, 0) cs in
  [x; y; z].

Definition flat2 (l : list (nat * nat)) : list Z :=
  flat_map (fun '(a, b) => [Z.of_nat a; Z.of_nat b]) l.
Definition flat3 (l : list (nat * nat * nat)) : list Z :=
  flat_map (fun '(a, b, c) => [Z.of_nat a; Z.of_nat b; Z.of_nat c]) l.

(* the trigger region C20.purchase_misses_uncommitted_sub for renewals as well: the parent is
   renewed or purchased while one of its sub-names is not yet in the committed tree *)
Definition trig_uncommitted (s : state) (o : op) : bool :=
  match o with
  | Purchase _ _ p _ | Renew _ p _ =>
      existsb (fun n => is_sub_of p n && negb (bool_decide (n ∈ snap s))) (map fst (map_to_list (reg s)))
  | _ => false
  end.
