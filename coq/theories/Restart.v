(* Restart.v — blocks, ABCI call boundaries, crash + restart over the store model.
   A block is BeginBlock (a fresh deliver state, optionally metered, then an arbitrary hook
   program), delivered transactions (arbitrary handler/fee programs, wrapped as in Abci.v),
   EndBlock (an arbitrary hook program) and Commit.  A crash at a call boundary loses everything
   but the saved versions ([do_reopen]); Tendermint then replays the whole block.  No proofs. *)
From stdpp Require Import gmap list.
From Coq Require Import ZArith.
From OL Require Import theories.Store theories.Abci.
Local Open Scope Z_scope.

Record blk := { b_limit : option Z ; b_begin : prog ; b_txs : list tx ; b_end : prog }.

(* consensus-visible transcript of a block: hook verdicts, per-transaction verdicts, the
   version committed, the committed tree and the tree-call log (the root hash is a function
   of the log) *)
Record bres := { r_begin : bool ; r_txs : list bool ; r_end : bool ; r_version : Z ;
                 r_tree : gmap key val ; r_log : list treeop }.

Definition run_blk (s : state) (b : blk) : bres * state :=
  let s0 := do_fresh s (b_limit b) in
  let '(r0, s1) := exec (b_begin b) s0 in
  let '(rs, s2) := run_block s1 (b_txs b) in
  let '(r1, s3) := exec (b_end b) s2 in
  let s4 := (do_commit s3).2 in
  ({| r_begin := r0 ; r_txs := rs ; r_end := r1 ; r_version := version s4 ;
      r_tree := tree s4 ; r_log := wlog s4 |}, s4).

(* the call boundaries inside a block at which the process may die *)
Inductive cut :=
| CutBefore                 (* before BeginBlock *)
| CutBegin                  (* after BeginBlock *)
| CutTx (k : nat)           (* after the k-th DeliverTx (k >= 1; more than the block has = all) *)
| CutEnd.                   (* after EndBlock, before Commit *)

Definition run_cut (s : state) (b : blk) (c : cut) : state :=
  match c with
  | CutBefore => s
  | CutBegin => (exec (b_begin b) (do_fresh s (b_limit b))).2
  | CutTx k => (run_block (exec (b_begin b) (do_fresh s (b_limit b))).2 (take k (b_txs b))).2
  | CutEnd =>
      (exec (b_end b) (run_block (exec (b_begin b) (do_fresh s (b_limit b))).2 (b_txs b)).2).2
  end.

(* the block is attempted, dies at each of the given boundaries in turn (restart = reopen the
   database), and finally runs to its commit *)
Fixpoint run_blk_crashy (s : state) (b : blk) (cs : list cut) : bres * state :=
  match cs with
  | [] => run_blk s b
  | c :: rest => run_blk_crashy (do_reopen (run_cut s b c)) b rest
  end.

(* a chain: blocks, each with its crashes; [after] = the process also dies right after the
   commit of that block *)
Record cblk := { cb_blk : blk ; cb_cuts : list cut ; cb_after : bool }.

Fixpoint run_chain (s : state) (bs : list blk) : list bres * state :=
  match bs with
  | [] => ([], s)
  | b :: rest => let '(r, s1) := run_blk s b in
                 let '(rs, s2) := run_chain s1 rest in (r :: rs, s2)
  end.

Fixpoint run_chain_crashy (s : state) (bs : list cblk) : list bres * state :=
  match bs with
  | [] => ([], s)
  | cb :: rest =>
      let '(r, s1) := run_blk_crashy s (cb_blk cb) (cb_cuts cb) in
      let s1' := if cb_after cb then do_reopen s1 else s1 in
      let '(rs, s2) := run_chain_crashy s1' rest in (r :: rs, s2)
  end.

(* what Info reports after a restart *)
Definition info (s : state) : Z * gmap key val := (version s, tree s).

(* durable: the latest version is on disk and is the working tree (true after every commit) *)
Definition durable (s : state) : Prop := saved s !! version s = Some (tree s).
Definition rot_ok (s : state) : Prop :=
  0 <= recent (rot s) /\ 0 <= every (rot s) /\ 0 <= cycles (rot s) /\ 0 <= version s.

Definition with_lv (s : state) (lv : Z) : state :=
  {| sess := sess s ; cache := cache s ; gas := gas s ; tree := tree s ; saved := saved s ;
     version := version s ; lastversion := lv ; rot := rot s ; wlog := wlog s |}.
