(* Rewards.v — executable model of the block-reward code of Oneledger/protocol (C13).
   No proofs here (see proofs/RewardsProofs.v).

   (a) split      : app/controller.go handleBlockRewards / handleDelegationRewards /
                    getRewardForValidator
   (b) calculator : data/rewards/calculator.go (Calculate, secondsPerCycleLatest,
                    numofMoreBlocksBeforeYearClose, getCycleNo, cacheResult) and
                    data/rewards/store_cumulative.go PullRewards / ConsumeRewards
   (c) cumulative : store_cumulative.go AddMaturedBalance / WithdrawRewards and the
                    interval chunks of store.go (AddToAddress, GetMaturedAmount)          *)
From Coq Require Import ZArith List Bool.
Import ListNotations.
Local Open Scope Z_scope.

Definition wrap64 (z : Z) : Z := ((z + 2^63) mod 2^64) - 2^63.

Fixpoint zsum (l : list Z) : Z := match l with [] => 0 | x :: r => x + zsum r end.

(* math/big Int.Div is Euclidean division (remainder >= 0).  Division by zero panics in Go; the
   callers below test for it before they use [ediv]. *)
Definition ediv (a b : Z) : Z := if 0 <? b then a / b else - (a / (- b)).

(* ------------------------------------------------------------------------------------------ *)
(* (a) the split                                                                                *)

(* utils.PadZero(strconv.FormatInt(power,10)) parsed base 10 = power * 10^18 *)
Definition UNIT : Z := 10 ^ 18.

Record vote := mkVote {
  v_addr : Z;        (* identity of the validator address *)
  v_power : Z;       (* abci Validator.Power (int64) *)
  v_signed : bool;   (* SignedLastBlock *)
  v_known : bool     (* address well formed and present in the validator store *)
}.

Record consts := mkConsts { COMM : Z; BPC : Z }.  (* COMMISSION_PERCENTAGE, BLOCK_PROPOSER_COMMISSION *)

Definition vpow (v : vote) : Z := v_power v * UNIT.

(* validatorPowerMap[addr]: a Go map filled in vote order, so the last vote of an address wins *)
Fixpoint pow_lookup (votes : list vote) (a : Z) (acc : Z) : Z :=
  match votes with
  | [] => acc
  | v :: r => pow_lookup r a (if v_addr v =? a then vpow v else acc)
  end.

Record dresp := mkDresp {
  d_rewards : Z;                 (* resp.DelegationRewards *)
  d_proposer : Z;                (* resp.ProposerReward *)
  d_commission : Z;              (* resp.Commission *)
  d_credits : list (Z * Z)       (* AddRewardsBalance(addr, amount), in iteration order *)
}.

Definition dresp0 : dresp := mkDresp 0 0 0 [].

(* handleDelegationRewards; [T] is delegCtx.TotalPower, [dp] delegCtx.DelegationPower (> 0 here).
   The two early returns are the error results of Amount.Minus (negative difference). *)
Definition deleg_split (k : consts) (R dp T : Z) (delegs : list (Z * Z)) : dresp :=
  let D := ediv (R * dp) T in
  let C := ediv (COMM k * D) 100 in
  let P := ediv (BPC k * C) 100 in
  if D - C <? 0 then mkDresp (D - C) P 0 []
  else if C - P <? 0 then mkDresp (D - C) P (C - P) []
  else mkDresp (D - C) P (C - P)
         (map (fun d => (fst d, ediv ((D - C) * snd d) dp)) delegs).

(* One validator's credit.  NOTE the divisor of the commission share: the Go code passes
   totValPower, but `totalPower := totValPower` copies the POINTER and
   `totalPower.Add(totalPower, delegationPower)` mutates the shared big.Int, so totValPower is
   the grand total [T] as well. *)
Definition val_amount (votes : list vote) (R dp T : Z) (dr : dresp) (proposer : Z) (v : vote) : Z :=
  let p := pow_lookup votes (v_addr v) 0 in
  let reward := ediv (R * p) T in
  let comm := if 0 <? dp
              then ediv (d_commission dr * p) T + (if v_addr v =? proposer then d_proposer dr else 0)
              else 0 in
  reward + comm.

Definition credited (v : vote) : bool := v_known v && v_signed v.

Record split_out := mkSplit {
  so_vals : list (Z * Z);     (* Reward.AddToAddress(addr, height, amount) in vote order *)
  so_delegs : list (Z * Z);   (* delegator credits *)
  so_consumed : Z             (* totalConsumed passed to ConsumeRewards *)
}.

(* None = the Go code divides by a zero big.Int (panic) *)
Definition split (k : consts) (votes : list vote) (dp : Z) (delegs : list (Z * Z))
    (proposer : Z) (R : Z) : option split_out :=
  let T := zsum (map vpow votes) + dp in
  let cr := filter credited votes in
  if (T =? 0) && ((0 <? dp) || negb (match cr with [] => true | _ => false end)) then None
  else
    let dr := if 0 <? dp then deleg_split k R dp T delegs else dresp0 in
    let vals := map (fun v => (v_addr v, val_amount votes R dp T dr proposer v)) cr in
    Some (mkSplit vals (d_credits dr)
            ((if 0 <? dp then d_rewards dr else 0) + zsum (map snd vals))).

(* ------------------------------------------------------------------------------------------ *)
(* (b) the calculator                                                                           *)

Record opts := mkOpts {
  o_cycle : Z;        (* BlockSpeedCalculateCycle *)
  o_est : Z;          (* EstimatedSecondsPerCycle *)
  o_window : Z;       (* YearCloseWindow *)
  o_shares : list Z;  (* YearBlockRewardShares *)
  o_burnout : Z;      (* BurnoutRate *)
  o_interval : Z      (* RewardInterval *)
}.

Record year := mkYear { y_close : Z (* ns *); y_dist : Z; y_till : Z }.

Record cache := mkCache { c_year : Z; c_cycle : Z; c_burned : bool; c_amt : Z }.
Definition cold : cache := mkCache (-1) 0 false 0.        (* NewRewardCached *)
Definition warm (c : cache) : bool := 0 <? c_cycle c.     (* available() *)

Definition NS : Z := 1000000000.
(* int64(d.Seconds()) for a time.Duration of d nanoseconds.  Exact when |d| < 2^32 s and the
   sub-second part is at most 999_999_000 ns (see dur_guard); beyond that the float64 sum
   float64(sec) + float64(nsec)/1e9 may round up to the next integer. *)
Definition dur_secs (d : Z) : Z := Z.quot d NS.
Definition dur_guard (d : Z) : bool :=
  (Z.abs d <? 2^32 * NS) && (Z.abs (Z.rem d NS) <=? 999999000).

(* int64(float64(a) / float64(b)).  For |a|,|b| < 2^52 and b <> 0 this is truncated division;
   for b = 0 the quotient is +-Inf/NaN and the amd64 conversion yields the "integer indefinite"
   value -2^63. *)
Definition f2i (a b : Z) : Z := if b =? 0 then - 2^63 else Z.quot a b.
Definition f2i_guard (a b : Z) : bool := (Z.abs a <? 2^52) && (Z.abs b <? 2^52).

Definition cycle_no (o : opts) (h : Z) : Z := (h - 1) / o_cycle o + 1.
Definition first_in_cycle (o : opts) (h : Z) : bool := (h - 1) mod o_cycle o =? 0.
Definition last_in_cycle (o : opts) (h : Z) : bool := h mod o_cycle o =? 0.
Definition cycle_end (o : opts) (h : Z) : Z := (h - 1) / o_cycle o * o_cycle o + 1.

(* secondsPerCycleLatest: (secsPerCycle, tEnd); [bt] = header time (ns) of the block meta.
   Since 0cc9fdb a measured duration (or estimate) below one second counts as one second. *)
Definition secs_per_cycle (o : opts) (bt : Z -> Z) (h : Z) : Z * Z :=
  if o_cycle o <? h then
    let e := cycle_end o h in
    let b := e - o_cycle o in
    (Z.max 1 (dur_secs (bt e - bt b)), bt e)
  else (Z.max 1 (o_est o), bt 1).

(* numofMoreBlocksBeforeYearClose: first year inside the window with a non-zero forecast *)
Fixpoint more_blocks (o : opts) (secs tend : Z) (ys : list year) (i : Z) : Z * Z :=
  match ys with
  | [] => (0, -1)
  | y :: r =>
      let toclose := dur_secs (y_close y - tend) in
      if o_window o <=? toclose then
        let n := f2i (wrap64 (toclose * o_cycle o)) secs in
        if n =? 0 then more_blocks o secs tend r (i + 1) else (n, i)
      else more_blocks o secs tend r (i + 1)
  end.

Inductive cres := COk (amt : Z) | CErr.

Definition nthZ {A} (l : list A) (i : Z) (d : A) : A := nth (Z.to_nat i) l d.

Definition recompute (o : opts) (bt : Z -> Z) (ys : list year) (h : Z) (c : cache) : cres * cache :=
  let st := secs_per_cycle o bt h in
  let nb := more_blocks o (fst st) (snd st) ys 0 in
  if fst nb =? 0 then (COk (o_burnout o), mkCache (snd nb) (cycle_no o h) true (o_burnout o))
  else
    let left := nthZ (o_shares o) (snd nb) 0 - y_till (nthZ ys (snd nb) (mkYear 0 0 0)) in
    if left <? 0 then (CErr, cold)   (* 47bb3a6: the cached result of the previous cycle is dropped *)
    else let a := ediv left (fst nb) in
         (COk a, mkCache (snd nb) (cycle_no o h) false a).

(* RewardCalculator.Calculate after Reset(h, ys).  Since 6bfa5cf a cached burnout is recalculated
   at the first block of every cycle like any other result. *)
Definition calculate (o : opts) (bt : Z -> Z) (ys : list year) (h : Z) (c : cache) : cres * cache :=
  if warm c then
    if negb (first_in_cycle o h) then (COk (c_amt c), c)
    else recompute o bt ys h c
  else recompute o bt ys h c.

(* the year picked by the forecast has already distributed more than its supply ("never happen
   by design" in Calculate): the calculation fails, at every block of the cycle and on every node *)
Definition overdrawn (o : opts) (bt : Z -> Z) (ys : list year) (h : Z) : bool :=
  match fst (recompute o bt ys h cold) with CErr => true | COk _ => false end.

(* the forecast is shorter than the cycle that is about to start, so the cycle pulls the
   per-block amount more often than forecast: the year's TOTAL can then exceed its supply
   (each single pull is still within what was left at the cycle start) *)
Definition short_forecast (o : opts) (bt : Z -> Z) (ys : list year) (h : Z) : bool :=
  let st := secs_per_cycle o bt h in
  let nb := more_blocks o (fst st) (snd st) ys 0 in
  (0 <? fst nb) && (fst nb <? o_cycle o).

(* the bound the property states for a pulled amount [a], relative to the year records [ys] of the
   block and the cache [c] after the calculation (c_year = the current reward year) *)
Definition year_left (o : opts) (ys : list year) (i : Z) : Z :=
  nthZ (o_shares o) i 0 - y_till (nthZ ys i (mkYear 0 0 0)).
Definition pull_bound (o : opts) (ys : list year) (pool : Z) (c : cache) (a : Z) : bool :=
  if c_burned c then a <=? Z.min (o_burnout o) pool
  else a <=? year_left o ys (c_year c).

(* what a calculation reads of the year records: close times and TillLastCycle (not Distributed) *)
Definition sched (ys : list year) : list year := map (fun y => mkYear (y_close y) 0 (y_till y)) ys.

(* invariant of the cache w.r.t. the year records: a cached amount is the burnout rate, or at
   most what the cached year had left *)
Definition cache_inv (o : opts) (ys : list year) (c : cache) : Prop :=
  warm c = true ->
  if c_burned c then c_amt c = o_burnout o else c_amt c <= year_left o ys (c_year c).

(* RewardCumulativeStore.PullRewards *)
Definition pull (o : opts) (bt : Z -> Z) (ys : list year) (h pool : Z) (c : cache) : cres * cache :=
  match calculate o bt ys h c with
  | (COk a, c') => (COk (if c_burned c' && (pool <? a) then pool else a), c')
  | r => r
  end.

(* a run of blocks h, h+1, ...: per block the pool balance and the amount handleBlockRewards then
   reports to ConsumeRewards (arbitrary here); a failed pull skips ConsumeRewards, as
   handleBlockRewards returns early.  [all_bounded] = every successful pull of the run is within
   the bound. *)
Fixpoint upd_year (ys : list year) (i : nat) (f : year -> year) : list year :=
  match ys, i with
  | [], _ => []
  | y :: r, O => f y :: r
  | y :: r, S j => y :: upd_year r j f
  end.

(* ConsumeRewards, year part (the total part is tdist += consumed).  With an out-of-range year
   index the Go code would panic; that needs a non-burned cache with year -1, which
   cacheResult never produces. *)
Definition consume (o : opts) (ys : list year) (h : Z) (c : cache) (consumed : Z) : list year :=
  if c_burned c then ys
  else if c_year c <? 0 then ys
  else upd_year ys (Z.to_nat (c_year c))
         (fun y => let d := y_dist y + consumed in
                   mkYear (y_close y) d (if last_in_cycle o h then d else y_till y)).

Fixpoint all_bounded (o : opts) (bt : Z -> Z) (ys : list year) (c : cache) (h : Z)
    (steps : list (Z * Z)) : Prop :=
  match steps with
  | [] => True
  | (pool, x) :: r =>
      match pull o bt ys h pool c with
      | (COk a, c') => pull_bound o ys pool c' a = true /\
                       all_bounded o bt (consume o ys h c' x) c' (h + 1) r
      | (CErr, c') => all_bounded o bt ys c' (h + 1) r
      end
  end.

(* ------------------------------------------------------------------------------------------ *)
(* (c) cumulative records: address -> (matured balance, withdrawn)                              *)

Definition cstate := list (Z * (Z * Z)).

Fixpoint cget (s : cstate) (v : Z) : Z * Z :=
  match s with
  | [] => (0, 0)
  | (a, x) :: r => if a =? v then x else cget r v
  end.
Definition cset (s : cstate) (v : Z) (x : Z * Z) : cstate := (v, x) :: s.

Inductive cop := AddMatured (v a : Z) | Withdraw (v a : Z).

(* AddMaturedBalance / WithdrawRewards; the boolean is "no error" *)
Definition cstep (s : cstate) (op : cop) : cstate * bool :=
  match op with
  | AddMatured v a => let x := cget s v in (cset s v (fst x + a, snd x), true)
  | Withdraw v a =>
      let x := cget s v in
      if fst x - a <? 0 then (s, false)
      else (cset s v (fst x - a, snd x + a), true)
  end.

Definition crun (s : cstate) (ops : list cop) : cstate := fold_left (fun s op => fst (cstep s op)) ops s.

(* total matured amount ever added for v (ghost) *)
Fixpoint matured_of (ops : list cop) (v : Z) : Z :=
  match ops with
  | [] => 0
  | AddMatured a x :: r => (if a =? v then x else 0) + matured_of r v
  | Withdraw _ _ :: r => matured_of r v
  end.
(* total paid out by successful withdrawals for v *)
Fixpoint paid_of (s : cstate) (ops : list cop) (v : Z) : Z :=
  match ops with
  | [] => 0
  | op :: r =>
      let st := cstep s op in
      (match op with Withdraw a x => if (a =? v) && snd st then x else 0 | _ => 0 end)
      + paid_of (fst st) r v
  end.

Definition matured_ok (op : cop) : bool := match op with AddMatured _ a => 0 <=? a | _ => true end.

(* interval chunks (data/rewards/store.go).  An interval record {LastIndex, LastHeight} is written
   when the reward interval option changes, and ONE record {index of the open chunk, 2} when the
   state is imported from an exported genesis.  GetInterval(h): the record with the largest
   LastHeight in (0, h], default {0, 0}. *)
Record ivl := mkIvl { iv_index : Z; iv_height : Z }.
Fixpoint get_interval_aux (ivs : list ivl) (h : Z) (best : ivl) : ivl :=
  match ivs with
  | [] => best
  | i :: r => get_interval_aux r h
                (if (iv_height best <? iv_height i) && (iv_height i <=? h) then i else best)
  end.
Definition get_interval (ivs : list ivl) (h : Z) : ivl := get_interval_aux ivs h (mkIvl 0 0).
(* generateKey: index of the chunk credited at height h *)
Definition chunk_idx (o : opts) (ivs : list ivl) (h : Z) : Z :=
  let i := get_interval ivs h in iv_index i + Z.quot (h - iv_height i) (o_interval o) + 1.
Definition chunk_index (o : opts) (h : Z) : Z := chunk_idx o [] h.
Definition matures_at (o : opts) (h : Z) : bool := Z.rem h (o_interval o) =? 0.
(* generateMaturedKey: the chunk that matures at h (when h mod interval = 0); an index below 0
   names no record (the Go code builds no key for index < 2, and chunk indices start at 1) *)
Definition matured_idx (o : opts) (ivs : list ivl) (h : Z) : Z := chunk_idx o ivs h - 2.
Definition matured_index (o : opts) (h : Z) : Z := matured_idx o [] h.

(* state export / import (RewardStore.dumpState / loadState, the save_state -> genesis -> InitChain
   path).  dumpState at committed version V writes the single interval record
   {chunk_idx at V, 2}; loadState stores exactly the dumped records (chunks are copied as they are). *)
Definition dump_interval (o : opts) (ivs : list ivl) (V : Z) : ivl := mkIvl (chunk_idx o ivs V) 2.
Definition load_intervals (d : ivl) : list ivl := [d].
(* the last maturity height of the exporting chain and the chunk that matured there *)
Definition last_maturity_height (o : opts) (V : Z) : Z := V / o_interval o * o_interval o.

(* ------------------------------------------------------------------------------------------ *)
(* the WITHDRAW_REWARD transaction (action/rewards/withdraw.go) as far as the cumulative records go.
   [value] is the amount field as sent (whole OLT).  Validate (run by CheckTx and, since d276709, by
   DeliverTx) refuses a negative value (45cfd0d: WithdrawAmount.IsValid) and a value that does not
   fit int64 (ed95e98: big.Int.IsInt64); runWithdraw then narrows it with ToCoinWithBase —
   big.Int.Int64(), i.e. wrap64, the identity on what Validate lets through — and multiplies by
   10^18; the transaction fails (and its session is discarded) when the matured balance or the
   rewards pool is short.  Result: (accepted, balance', withdrawn'). *)
Definition withdraw_amount_ok (value : Z) : bool := (0 <=? value) && (value <? 2^63).
Definition withdraw_tx (value bal wd pool : Z) : bool * Z * Z :=
  if negb (withdraw_amount_ok value) then (false, bal, wd)
  else
    let a := wrap64 value * UNIT in
    if (bal - a <? 0) || (pool - a <? 0) then (false, bal, wd)
    else (true, bal - a, wd + a).
