(* Tendermint.v — the acceptance rule of tendermint v0.33.3 types.ValidatorSet.UpdateWithChangeSet
   (types/validator_set.go: processChanges, verifyRemovals, verifyUpdates, the empty-set test)
   and the H+2 pipeline: updates returned by EndBlock(H) produce the validator set of height H+2;
   LastCommitInfo of block H lists the validator set of height H-1.  No proofs here.

   A validator set is a list of (key, power) with distinct keys.  verifyUpdates rejects when a
   running total over the updates (sorted by increasing delta) exceeds MaxTotalVotingPower;
   because the deltas are sorted and the set's total is itself within the bound, the running
   total exceeds the bound iff the final total does, which is what [acceptb] tests.  The model
   is validated against the real ValidatorSet on every check run. *)
From stdpp Require Import gmap list.
From Coq Require Import ZArith.
From OL Require Import theories.Election.
Local Open Scope Z_scope.

Definition vset := list upd.
Definition MaxTotalVotingPower : Z := (2^63 - 1) / 8.

Definition vkeys (s : vset) : list key := map fst s.
Definition total (s : vset) : Z := foldr (fun x a => x.2 + a) 0 s.

Definition apply1 (s : vset) (u : upd) : vset :=
  let s' := List.filter (fun x => negb (N.eqb x.1 u.1)) s in
  if 0 <? u.2 then s' ++ [u] else s'.
Definition apply_updates (s : vset) (ups : list upd) : vset := fold_left apply1 ups s.

Fixpoint nodupb (l : list key) : bool :=
  match l with [] => true | x :: r => negb (memb x r) && nodupb r end.

Definition deletes (ups : list upd) : list upd := List.filter (fun u => u.2 =? 0) ups.
Definition num_new (s : vset) (ups : list upd) : nat :=
  length (List.filter (fun u => (0 <? u.2) && negb (memb u.1 (vkeys s))) ups).

Definition acceptb (s : vset) (ups : list upd) : bool :=
  match ups with
  | [] => true
  | _ =>
      nodupb (map fst ups)                                                    (* no duplicate keys *)
      && forallb (fun u => (0 <=? u.2) && (u.2 <=? MaxTotalVotingPower)) ups  (* power range *)
      && negb ((num_new s ups =? 0)%nat && (length s =? length (deletes ups))%nat)  (* not emptied *)
      && forallb (fun u => memb u.1 (vkeys s)) (deletes ups)                  (* removals are members *)
      && (total (apply_updates s ups) <=? MaxTotalVotingPower)                (* total in range *)
  end.

(* ---- the pipeline: state before block ch_height+1 ---- *)
Record chain := mkch {
  ch_prev : vset;            (* validator set of height H-1 (signs LastCommitInfo of block H) *)
  ch_cur : vset;             (* of height H *)
  ch_next : vset;            (* of height H+1: the set the updates of EndBlock(H) are applied to *)
  ch_purge : gmap key Z;     (* purged_ records *)
  ch_height : Z }.           (* H-1 *)

(* what the rest of the application decides in one block; all arbitrary *)
Record env := mke {
  e_cands : list cand; e_opts : opts; e_mal : list key; e_byz : bool;
  e_el : list cand }.        (* the election made by the heap: any valid one (tie oracle) *)

Definition chain_init (g : vset) : chain := mkch [] g g ∅ 0.

Definition chain_updates (ch : chain) (e : env) : list upd * gmap key Z :=
  finish (ch_height ch + 1) (e_byz e) (e_cands e) (e_el e) (vkeys (ch_prev ch)) (ch_purge ch).

(* None = Tendermint rejects the update list (the chain halts) *)
Definition chain_step (ch : chain) (e : env) : option chain :=
  let r := chain_updates ch e in
  if acceptb (ch_next ch) r.1
  then Some (mkch (ch_cur ch) (ch_next ch) (apply_updates (ch_next ch) r.1) r.2 (ch_height ch + 1))
  else None.

Fixpoint chain_run (ch : chain) (es : list env) : option chain :=
  match es with
  | [] => Some ch
  | e :: r => match chain_step ch e with Some ch' => chain_run ch' r | None => None end
  end.
