(* AuthCheck.v — comparison helpers for the C04 correspondence (evaluated by vm_compute on the
   verdicts the real action.ValidateBasic returned). *)
From Coq Require Import ZArith List Bool.
Import ListNotations.
From OL Require Import theories.Auth.
Local Open Scope Z_scope.

Definition msg_of (i : Z) : rawtx :=
  {| r_type := 1 ; r_data := i ; r_feecur := 0 ; r_feeprice := 1000000000 ; r_feegas := 1000 + i ; r_memo := i |}.

Definition mksig (key : Z) (alg_ok : bool) (by_ over : Z) : sigrec :=
  {| s_key := key ; s_alg_ok := alg_ok ; s_by := by_ ; s_over := msg_of over |}.

Record vbcase := { vb_msg : rawtx ; vb_signers : list Z ; vb_sigs : list sigrec ; vb_real : bool }.
Definition mkcase (m : Z) (signers : list Z) (sigs : list sigrec) (real : bool) : vbcase :=
  {| vb_msg := msg_of m ; vb_signers := signers ; vb_sigs := sigs ; vb_real := real |}.

Fixpoint vb_mismatches (i : Z) (cs : list vbcase) : list Z :=
  match cs with
  | [] => []
  | c :: rest =>
      (if Bool.eqb (validate_basic (vb_msg c) (vb_signers c) (vb_sigs c)) (vb_real c) then [] else [i])
      ++ vb_mismatches (i + 1) rest
  end.
