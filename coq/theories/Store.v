(* Store.v — executable model of storage/{state,session_cache,chainstate,gas}.go.
   No proofs in this file (see proofs/StoreProofs.v); it must keep building and running
   when a proof breaks. *)
From stdpp Require Import gmap list.
From Coq Require Import ZArith.
Local Open Scope Z_scope.

Definition key := N.
Definition val := list N.            (* a byte string *)

(* storage/const.go: TOMBSTONE = "⛼" = E2 9B BC; tied to the source by gen/Facts_Consts.v *)
Definition TOMB : val := [226; 155; 188]%N.

Definition is_tomb (v : val) : bool := bool_decide (v = TOMB).

(* sessionCache / cacheSession: a value map plus the first-write order of keys *)
Record overlay := { ovals : gmap key val ; okeys : list key }.
Definition oempty : overlay := {| ovals := ∅ ; okeys := [] |}.
Definition oset (o : overlay) (k : key) (v : val) : overlay :=
  {| ovals := <[k:=v]> (ovals o);
     okeys := match ovals o !! k with Some _ => okeys o | None => okeys o ++ [k] end |}.
Definition odel (o : overlay) (k : key) : overlay := oset o k TOMB.
Definition oget (o : overlay) (k : key) : option val := ovals o !! k.

(* cacheSession.Commit: replay keys in first-write order into the parent *)
Definition replay (o p : overlay) : overlay :=
  fold_left (fun acc k => match ovals o !! k with Some v => oset acc k v | None => acc end)
            (okeys o) p.

(* gas.go *)
Record gasc := { glimit : Z ; gused : Z }.
Definition READFLAT := 20.  Definition READBYTES := 2.
Definition WRITEFLAT := 200. Definition WRITEBYTES := 20.
Definition CHECKEXIST := 20. Definition DELETEGAS := 50.

(* Consume(amount, category, allowOverflow=false) *)
Definition consume_strict (g : gasc) (amount cat : Z) : bool * gasc :=
  if glimit g <=? gused g then (false, g)
  else (true, {| glimit := glimit g ; gused := gused g + amount * cat |}).
(* Consume(amount, category, allowOverflow=true) *)
Definition consume_over (g : gasc) (amount cat : Z) : gasc :=
  {| glimit := glimit g ; gused := gused g + amount * cat |}.

Definition vlen (v : val) : Z := Z.of_nat (length v).

(* the sequence of calls made on the IAVL tree; the root hash is a function of it *)
Inductive treeop := TSet (k : key) (v : val) | TRemove (k : key) | TSave.

Record rotation := { recent : Z ; every : Z ; cycles : Z }.

Record state := {
  sess : option overlay ;            (* State.txSession *)
  cache : overlay ;                  (* State.cache (block level) *)
  gas : option gasc ;                (* None: NewState ; Some: WithGas *)
  tree : gmap key val ;              (* ChainState.Delivered working tree *)
  saved : gmap Z (gmap key val) ;    (* saved versions *)
  version : Z ;                      (* ChainState.Version *)
  lastversion : Z ;                  (* ChainState.LastVersion *)
  rot : rotation ;
  wlog : list treeop                 (* ghost: tree calls so far, newest last *)
}.

Definition init (r : rotation) : state :=
  {| sess := None ; cache := oempty ; gas := None ; tree := ∅ ; saved := ∅ ;
     version := 0 ; lastversion := 0 ; rot := r ; wlog := [] |}.

Inductive op :=
| Get (k : key) | Set_ (k : key) (v : val) | Exists_ (k : key) | Delete (k : key)
| BeginTx | CommitTx | DiscardTx
| Write                      (* State.Write: flush the block cache into the working tree *)
| BlockCommit                (* State.Commit *)
| GetVersioned (ver : Z) (k : key)
| Fresh (limit : option Z)   (* storage.NewState(cs) [.WithGas(limit)] — what BeginBlock does *)
| Reopen.                    (* process restart: NewChainState on the same database *)

Inductive out :=
| OVal (v : option val)      (* Get / GetVersioned *)
| OBool (b : bool)           (* Exists ; Delete *)
| OErr                       (* Set refused (gas limit) *)
| OUnit
| OPanic                     (* CommitTxSession without a session *)
| OVersion (v : Z).          (* BlockCommit *)

Definition with_gas (s : state) (g : option gasc) : state :=
  {| sess := sess s ; cache := cache s ; gas := g ; tree := tree s ; saved := saved s ;
     version := version s ; lastversion := lastversion s ; rot := rot s ; wlog := wlog s |}.
Definition with_sess (s : state) (o : option overlay) : state :=
  {| sess := o ; cache := cache s ; gas := gas s ; tree := tree s ; saved := saved s ;
     version := version s ; lastversion := lastversion s ; rot := rot s ; wlog := wlog s |}.
Definition with_cache (s : state) (c : overlay) : state :=
  {| sess := sess s ; cache := c ; gas := gas s ; tree := tree s ; saved := saved s ;
     version := version s ; lastversion := lastversion s ; rot := rot s ; wlog := wlog s |}.

(* a stored marker reads as absent (State.Get / State.Exists hide it) *)
Definition hide (v : val) : option val := if is_tomb v then None else Some v.

(* s.cache.Get through the (optional) GasStore; None = ErrNotFound / ErrExceedGasLimit *)
Definition cache_get (s : state) (k : key) : option val * option gasc :=
  match gas s with
  | None => (oget (cache s) k, None)
  | Some g =>
      let '(ok, g1) := consume_strict g 1 READFLAT in
      if ok then
        match oget (cache s) k with
        | Some v => (Some v, Some (consume_over g1 (vlen v) READBYTES))
        | None => (None, Some g1)
        end
      else (None, Some g1)
  end.

Definition do_get (s : state) (k : key) : option val * state :=
  match (match sess s with Some o => oget o k | None => None end) with
  | Some v => (hide v, s)
  | None =>
      let '(r, g') := cache_get s k in
      match r with
      | Some v => (hide v, with_gas s g')
      | None => (tree s !! k, with_gas s g')
      end
  end.

(* s.cache.Exists through the GasStore *)
Definition cache_exists (s : state) (k : key) : bool * option gasc :=
  match gas s with
  | None => (bool_decide (is_Some (oget (cache s) k)), None)
  | Some g =>
      let '(ok, g1) := consume_strict g 1 CHECKEXIST in
      if ok then (bool_decide (is_Some (oget (cache s) k)), Some g1) else (false, Some g1)
  end.

Definition do_exists (s : state) (k : key) : bool * state :=
  match (match sess s with Some o => oget o k | None => None end) with
  | Some v => (negb (is_tomb v), s)
  | None =>
      let '(e, g') := cache_exists s k in
      let s1 := with_gas s g' in
      if e then
        (* the key is in the block cache: read it to see whether it is a delete marker *)
        let '(r, g'') := cache_get s1 k in
        match r with
        | Some v => (negb (is_tomb v), with_gas s1 g'')
        | None => (true, with_gas s1 g'')
        end
      else (bool_decide (is_Some (tree s !! k)), s1)
  end.

Definition do_set (s : state) (k : key) (v : val) : out * state :=
  match sess s with
  | Some o => (OUnit, with_sess s (Some (oset o k v)))
  | None =>
      match gas s with
      | None => (OUnit, with_cache s (oset (cache s) k v))
      | Some g =>
          let '(ok, g1) := consume_strict g 1 WRITEFLAT in
          if ok then (OUnit, with_gas (with_cache s (oset (cache s) k v))
                                      (Some (consume_over g1 (vlen v) WRITEBYTES)))
          else (OErr, s)
      end
  end.

Definition do_delete (s : state) (k : key) : out * state :=
  match sess s with
  | Some o => (OBool true, with_sess s (Some (odel o k)))
  | None =>
      match gas s with
      | None => (OBool true, with_cache s (odel (cache s) k))
      | Some g =>
          let '(ok, g1) := consume_strict g 1 DELETEGAS in
          if ok then (OBool true, with_gas (with_cache s (odel (cache s) k)) (Some g1))
          else (OBool true, s)   (* State.Delete ignores the GasStore's refusal *)
      end
  end.

(* State.Write: iterate the block cache in first-write order *)
Definition flush_step (acc : gmap key val * list treeop) (kv : key * val)
  : gmap key val * list treeop :=
  let '(t, l) := acc in
  let '(k, v) := kv in
  if is_tomb v then (delete k t, l ++ [TRemove k]) else (<[k:=v]> t, l ++ [TSet k v]).

Definition okvs (o : overlay) : list (key * val) :=
  omap (fun k => match ovals o !! k with Some v => Some (k, v) | None => None end) (okeys o).

Definition do_write (s : state) : state :=
  let '(t, l) := fold_left flush_step (okvs (cache s)) (tree s, wlog s) in
  {| sess := sess s ; cache := cache s ; gas := gas s ; tree := t ; saved := saved s ;
     version := version s ; lastversion := lastversion s ; rot := rot s ; wlog := l |}.

(* ChainState.Commit after SaveVersion: the rotation rule; deleting a version that does not
   exist (or the latest one) is an error that the code only logs *)
Definition rotate (r : rotation) (lastv : Z) (sv : gmap Z (gmap key val)) : gmap Z (gmap key val) :=
  let release := lastv - recent r in
  if 0 <? release then
    let sv1 := if (every r =? 0) || negb (release mod every r =? 0) then delete release sv else sv in
    if negb (cycles r =? 0) && negb (every r =? 0) && (release mod every r =? 0)
    then delete (release - cycles r * every r) sv1 else sv1
  else sv.

Definition do_commit (s : state) : out * state :=
  let s1 := do_write s in
  let v := version s1 + 1 in
  let sv := <[v := tree s1]> (saved s1) in
  (OVersion v,
   (* State.Commit installs a plain (unmetered) session cache: metering ends here *)
   {| sess := None ; cache := oempty ; gas := None ; tree := tree s1 ;
      saved := rotate (rot s1) (version s1) sv ;
      version := v ; lastversion := version s1 ; rot := rot s1 ; wlog := wlog s1 ++ [TSave] |}).

Definition do_reopen (s : state) : state :=
  {| sess := None ; cache := oempty ; gas := None ;
     tree := default ∅ (saved s !! version s) ; saved := saved s ;
     version := version s ; lastversion := 0 ; rot := rot s ; wlog := wlog s |}.

Definition do_fresh (s : state) (limit : option Z) : state :=
  {| sess := None ; cache := oempty ;
     gas := match limit with Some l => Some {| glimit := l ; gused := 0 |} | None => None end ;
     tree := tree s ; saved := saved s ; version := version s ; lastversion := lastversion s ;
     rot := rot s ; wlog := wlog s |}.

Definition step (s : state) (o : op) : out * state :=
  match o with
  | Get k => let '(r, s') := do_get s k in (OVal r, s')
  | Set_ k v => do_set s k v
  | Exists_ k => let '(b, s') := do_exists s k in (OBool b, s')
  | Delete k => do_delete s k
  | BeginTx => (OUnit, with_sess s (Some oempty))
  | CommitTx =>
      match sess s with
      | Some o => (OUnit, with_sess (with_cache s (replay o (cache s))) None)
      | None => (OPanic, s)
      end
  | DiscardTx => (OUnit, with_sess s None)
  | Write => (OUnit, do_write s)
  | BlockCommit => do_commit s
  | GetVersioned ver k => (OVal (saved s !! ver ≫= (fun t => t !! k)), s)
  | Fresh limit => (OUnit, do_fresh s limit)
  | Reopen => (OUnit, do_reopen s)
  end.

Fixpoint run (s : state) (ops : list op) : list out * state :=
  match ops with
  | [] => ([], s)
  | o :: rest => let '(r, s1) := step s o in let '(rs, s2) := run s1 rest in (r :: rs, s2)
  end.

Definition outputs (s : state) (ops : list op) : list out := fst (run s ops).
Definition final (s : state) (ops : list op) : state := snd (run s ops).
