(* EvmSpec.v — reference semantics of the EVM state interface (go-ethereum v1.10.8
   core/state.StateDB as seen through vm.StateDB), as simple as possible:
   accounts are a finite map, Snapshot pushes a copy of the whole logical state,
   RevertToSnapshot restores it, Finalise deletes self-destructed and empty accounts and
   promotes storage to committed storage.  Executable model only (no proofs). *)
From stdpp Require Import gmap list.
From Coq Require Import ZArith.
Local Open Scope Z_scope.

Definition addr := N.
Definition key := N.
Definition RIPEMD : addr := 3%N.

(* code is identified with its hash: 0 = no code (hash of the empty string) *)
Definition code_size (c : N) : Z := if (c =? 0)%N then 0 else 10 + Z.of_N c.

Inductive op :=
  | CreateAccount (x : addr)
  | SubBalance (x : addr) (v : Z) | AddBalance (x : addr) (v : Z) | GetBalance (x : addr)
  | GetNonce (x : addr) | SetNonce (x : addr) (n : Z)
  | GetCodeHash (x : addr) | GetCode (x : addr) | SetCode (x : addr) (c : N) | GetCodeSize (x : addr)
  | AddRefund (g : Z) | SubRefund (g : Z) | GetRefund
  | GetCommittedState (x : addr) (k : key) | GetState (x : addr) (k : key) | SetState (x : addr) (k : key) (v : Z)
  | Suicide (x : addr) | HasSuicided (x : addr) | Exist (x : addr) | Empty (x : addr)
  | AlAddAddr (x : addr) | AlAddSlot (x : addr) (k : key) | AlHasAddr (x : addr) | AlHasSlot (x : addr) (k : key)
  | Snapshot | RevertToSnapshot (id : Z)
  | AddLog (x : addr) (t : N) | GetLogs
  | Finalise       (* Finalise(true) followed by Prepare(next transaction hash) *)
  | BlockCommit.   (* Finalise(true), commit of the block, fresh per-block state *)

Inductive out :=
  | OUnit | OZ (z : Z) | OBool (b : bool) | OList (l : list Z) | OPanic.

Record acct := {
  bal : Z; nonce : Z; code : N;
  stor : gmap key Z;      (* current storage (absent = 0) *)
  comm : gmap key Z;      (* committed storage: as of the last Finalise *)
  suic : bool }.

Definition new_acct (b : Z) : acct :=
  {| bal := b; nonce := 0; code := 0%N; stor := ∅; comm := ∅; suic := false |}.
Definition acct_empty (a : acct) : bool :=
  (nonce a =? 0) && (bal a =? 0) && (code a =? 0)%N.
Definition sget (m : gmap key Z) (k : key) : Z := default 0 (m !! k).

Definition with_bal (a : acct) (b : Z) : acct :=
  {| bal := b; nonce := nonce a; code := code a; stor := stor a; comm := comm a; suic := suic a |}.
Definition with_nonce (a : acct) (n : Z) : acct :=
  {| bal := bal a; nonce := n; code := code a; stor := stor a; comm := comm a; suic := suic a |}.
Definition with_code (a : acct) (c : N) : acct :=
  {| bal := bal a; nonce := nonce a; code := c; stor := stor a; comm := comm a; suic := suic a |}.
Definition with_stor (a : acct) (m : gmap key Z) : acct :=
  {| bal := bal a; nonce := nonce a; code := code a; stor := m; comm := comm a; suic := suic a |}.
Definition with_suic (a : acct) (b : bool) : acct :=
  {| bal := bal a; nonce := nonce a; code := code a; stor := stor a; comm := comm a; suic := b |}.

(* the part of the state that a snapshot copies *)
Record core := {
  accts : gmap addr acct;
  refund : Z;
  logs : list (N * N * Z);          (* logs of the current transaction: address, topic, block-wide index *)
  logsize : Z;
  al_addrs : gmap addr unit;
  al_slots : gmap (addr * key) unit }.

Record sstate := {
  cur : core;
  snaps : list (Z * core);          (* live revisions, oldest first *)
  nextid : Z }.

Definition with_accts (c : core) (m : gmap addr acct) : core :=
  {| accts := m; refund := refund c; logs := logs c; logsize := logsize c;
     al_addrs := al_addrs c; al_slots := al_slots c |}.
Definition with_refund (c : core) (r : Z) : core :=
  {| accts := accts c; refund := r; logs := logs c; logsize := logsize c;
     al_addrs := al_addrs c; al_slots := al_slots c |}.
Definition with_cur (s : sstate) (c : core) : sstate :=
  {| cur := c; snaps := snaps s; nextid := nextid s |}.

(* GetOrNewStateObject *)
Definition get_or_new (m : gmap addr acct) (x : addr) : acct := default (new_acct 0) (m !! x).
Definition upd_acct (c : core) (x : addr) (f : acct -> acct) : core :=
  with_accts c (<[x := f (get_or_new (accts c) x)]> (accts c)).

Definition finalise_accts (m : gmap addr acct) : gmap addr acct :=
  (fun a => {| bal := bal a; nonce := nonce a; code := code a; stor := stor a; comm := stor a; suic := false |})
    <$> filter (fun p => suic p.2 = false /\ acct_empty p.2 = false) m.

Definition finalise_core (c : core) : core :=
  {| accts := finalise_accts (accts c); refund := 0; logs := []; logsize := logsize c;
     al_addrs := ∅; al_slots := ∅ |}.

(* sort.Search over the live revisions (ids are increasing): index and saved state *)
Fixpoint find_snap (id : Z) (l : list (Z * core)) (i : nat) : option (nat * core) :=
  match l with
  | [] => None
  | (j, c) :: rest => if j =? id then Some (i, c) else if id <? j then None else find_snap id rest (S i)
  end.

(* storage maps are kept canonical: a zero word is an absent key *)
Definition cset (k : key) (v : Z) (m : gmap key Z) : gmap key Z :=
  if v =? 0 then delete k m else <[k := v]> m.

Definition flat_logs (l : list (N * N * Z)) : list Z :=
  flat_map (fun '(a, t, i) => [Z.of_N a; Z.of_N t; i]) l.

Definition spec_step (s : sstate) (o : op) : out * sstate :=
  let c := cur s in
  let m := accts c in
  match o with
  | CreateAccount x =>
      let b := match m !! x with Some a => bal a | None => 0 end in
      (OUnit, with_cur s (with_accts c (<[x := new_acct b]> m)))
  | SubBalance x v =>
      (* go-ethereum does not check: the balance may go negative (the interpreter checks CanTransfer first) *)
      (OUnit, with_cur s (upd_acct c x (fun a => with_bal a (bal a - v))))
  | AddBalance x v => (OUnit, with_cur s (upd_acct c x (fun a => with_bal a (bal a + v))))
  | GetBalance x => (OZ (match m !! x with Some a => bal a | None => 0 end), s)
  | GetNonce x => (OZ (match m !! x with Some a => nonce a | None => 0 end), s)
  | SetNonce x n => (OUnit, with_cur s (upd_acct c x (fun a => with_nonce a n)))
  | GetCodeHash x => (OZ (match m !! x with Some a => Z.of_N (code a) | None => -1 end), s)
  | GetCode x => (OZ (match m !! x with Some a => Z.of_N (code a) | None => 0 end), s)
  | SetCode x cd => (OUnit, with_cur s (upd_acct c x (fun a => with_code a cd)))
  | GetCodeSize x => (OZ (match m !! x with Some a => code_size (code a) | None => 0 end), s)
  | AddRefund g => (OUnit, with_cur s (with_refund c (refund c + g)))
  | SubRefund g => if refund c <? g then (OPanic, s) else (OUnit, with_cur s (with_refund c (refund c - g)))
  | GetRefund => (OZ (refund c), s)
  | GetCommittedState x k => (OZ (match m !! x with Some a => sget (comm a) k | None => 0 end), s)
  | GetState x k => (OZ (match m !! x with Some a => sget (stor a) k | None => 0 end), s)
  | SetState x k v => (OUnit, with_cur s (upd_acct c x (fun a => with_stor a (cset k v (stor a)))))
  | Suicide x =>
      match m !! x with
      | None => (OBool false, s)
      | Some a => (OBool true, with_cur s (with_accts c (<[x := with_suic (with_bal a 0) true]> m)))
      end
  | HasSuicided x => (OBool (match m !! x with Some a => suic a | None => false end), s)
  | Exist x => (OBool (match m !! x with Some _ => true | None => false end), s)
  | Empty x => (OBool (match m !! x with Some a => acct_empty a | None => true end), s)
  | AlAddAddr x =>
      (OUnit, with_cur s {| accts := m; refund := refund c; logs := logs c; logsize := logsize c;
                            al_addrs := <[x := tt]> (al_addrs c); al_slots := al_slots c |})
  | AlAddSlot x k =>
      (OUnit, with_cur s {| accts := m; refund := refund c; logs := logs c; logsize := logsize c;
                            al_addrs := <[x := tt]> (al_addrs c); al_slots := <[(x, k) := tt]> (al_slots c) |})
  | AlHasAddr x => (OBool (bool_decide (is_Some (al_addrs c !! x))), s)
  | AlHasSlot x k =>
      (OList [if bool_decide (is_Some (al_addrs c !! x)) then 1 else 0;
              if bool_decide (is_Some (al_slots c !! (x, k))) then 1 else 0], s)
  | Snapshot =>
      (OZ (nextid s), {| cur := c; snaps := snaps s ++ [(nextid s, c)]; nextid := nextid s + 1 |})
  | RevertToSnapshot id =>
      match find_snap id (snaps s) 0 with
      | Some (i, c') => (OUnit, {| cur := c'; snaps := take i (snaps s); nextid := nextid s |})
      | None => (OPanic, s)
      end
  | AddLog x t =>
      (OUnit, with_cur s {| accts := m; refund := refund c; logs := logs c ++ [(x, t, logsize c)];
                            logsize := logsize c + 1; al_addrs := al_addrs c; al_slots := al_slots c |})
  | GetLogs => (OList (flat_logs (logs c)), s)
  | Finalise => (OBool true, {| cur := finalise_core c; snaps := []; nextid := nextid s |})
  | BlockCommit =>
      (OUnit, {| cur := {| accts := finalise_accts m; refund := 0; logs := []; logsize := 0;
                           al_addrs := ∅; al_slots := ∅ |}; snaps := []; nextid := 0 |})
  end.

Fixpoint spec_run (s : sstate) (ops : list op) : list out * sstate :=
  match ops with
  | [] => ([], s)
  | o :: rest => let '(r, s') := spec_step s o in let '(rs, s'') := spec_run s' rest in (r :: rs, s'')
  end.
Definition spec_outputs (s : sstate) (ops : list op) : list out := (spec_run s ops).1.

(* starting accounts (shared with the adapter model) *)
Record start_acct := {
  sa_addr : addr; sa_bal : Z; sa_nonce : Z; sa_code : N; sa_stor : list (key * Z);
  sa_native : bool }.   (* true: only a native balance record (an ordinary OLT account) *)

Definition start_acct_of (a : start_acct) : acct :=
  if sa_native a then new_acct (sa_bal a)
  else let m := list_to_map (sa_stor a) in
       {| bal := sa_bal a; nonce := sa_nonce a; code := sa_code a; stor := m; comm := m; suic := false |}.

Definition spec_init (l : list start_acct) : sstate :=
  {| cur := {| accts := list_to_map ((fun a => (sa_addr a, start_acct_of a)) <$> l);
               refund := 0; logs := []; logsize := 0; al_addrs := ∅; al_slots := ∅ |};
     snaps := []; nextid := 0 |}.
