(* EvmAdapter.v — the chain's EVM state adapter AS WRITTEN in /repo/vm
   (statedb.go, statedb_aux.go, state_objects.go, journal.go, statedb_logs.go) over a model of
   the persistent layer (data/balance/keeper.go, data/evm/contract.go).
   The slice + index-map representations of the Go code are kept:
     stateObjects + addressToObjectIndex, journal.dirties + addressToJournalIndex,
     originStorage/dirtyStorage + keyToOriginStorageIndex/keyToDirtyStorageIndex.
   A Go run-time panic (index out of range, nil dereference, explicit panic) is [None].
   Executable model only (no proofs). *)
From stdpp Require Import gmap list.
From Coq Require Import ZArith.
From OL Require Import theories.EvmSpec.
Local Open Scope Z_scope.

(* ---- persistent layer ------------------------------------------------------------------- *)
Record pers := {
  p_keeper : gmap addr (Z * N);     (* keeper_<addr> -> (Sequence, CodeHash); the balance is NOT here *)
  p_bal : gmap addr Z;              (* b_<addr>_OLT: the native balance record *)
  p_cstore : gmap (addr * key) Z;   (* contracts/0x02 <addr> <keccak(addr,key)> -> non-zero word *)
  p_codes : gmap N unit }.          (* contracts/0x01 <hash> -> code *)

Definition pbal (p : pers) (x : addr) : Z := default 0 (p_bal p !! x).
Definition pslot (p : pers) (x : addr) (k : key) : Z := default 0 (p_cstore p !! (x, k)).

(* ---- state objects ---------------------------------------------------------------------- *)
Record obj := {
  o_bal : Z; o_nonce : Z;
  o_hash : N;                       (* account.CodeHash (0 = emptyCodeHash) *)
  o_cache : N;                      (* so.code (0 = nil) *)
  o_dirtycode : bool; o_suic : bool;
  o_origin : list (key * Z); o_oidx : gmap key nat;
  o_dirty : list (key * Z); o_didx : gmap key nat }.

Definition mk_obj (b n : Z) (h : N) : obj :=
  {| o_bal := b; o_nonce := n; o_hash := h; o_cache := 0%N; o_dirtycode := false; o_suic := false;
     o_origin := []; o_oidx := ∅; o_dirty := []; o_didx := ∅ |}.

Definition set_bal (o : obj) (b : Z) : obj :=
  {| o_bal := b; o_nonce := o_nonce o; o_hash := o_hash o; o_cache := o_cache o; o_dirtycode := o_dirtycode o;
     o_suic := o_suic o; o_origin := o_origin o; o_oidx := o_oidx o; o_dirty := o_dirty o; o_didx := o_didx o |}.
Definition set_nonce (o : obj) (n : Z) : obj :=
  {| o_bal := o_bal o; o_nonce := n; o_hash := o_hash o; o_cache := o_cache o; o_dirtycode := o_dirtycode o;
     o_suic := o_suic o; o_origin := o_origin o; o_oidx := o_oidx o; o_dirty := o_dirty o; o_didx := o_didx o |}.
Definition set_code (o : obj) (h c : N) : obj :=
  {| o_bal := o_bal o; o_nonce := o_nonce o; o_hash := h; o_cache := c; o_dirtycode := true;
     o_suic := o_suic o; o_origin := o_origin o; o_oidx := o_oidx o; o_dirty := o_dirty o; o_didx := o_didx o |}.
Definition set_suic (o : obj) (b : bool) : obj :=
  {| o_bal := o_bal o; o_nonce := o_nonce o; o_hash := o_hash o; o_cache := o_cache o; o_dirtycode := o_dirtycode o;
     o_suic := b; o_origin := o_origin o; o_oidx := o_oidx o; o_dirty := o_dirty o; o_didx := o_didx o |}.
Definition set_origin (o : obj) (l : list (key * Z)) (m : gmap key nat) : obj :=
  {| o_bal := o_bal o; o_nonce := o_nonce o; o_hash := o_hash o; o_cache := o_cache o; o_dirtycode := o_dirtycode o;
     o_suic := o_suic o; o_origin := l; o_oidx := m; o_dirty := o_dirty o; o_didx := o_didx o |}.
Definition set_dirty (o : obj) (l : list (key * Z)) (m : gmap key nat) : obj :=
  {| o_bal := o_bal o; o_nonce := o_nonce o; o_hash := o_hash o; o_cache := o_cache o; o_dirtycode := o_dirtycode o;
     o_suic := o_suic o; o_origin := o_origin o; o_oidx := o_oidx o; o_dirty := l; o_didx := m |}.

Definition obj_empty (o : obj) : bool := (o_nonce o =? 0) && (o_bal o =? 0) && (o_hash o =? 0)%N.

(* stateObject.Code *)
Definition obj_code (p : pers) (o : obj) : N :=
  if negb (o_cache o =? 0)%N then o_cache o
  else if (o_hash o =? 0)%N then 0%N
  else match p_codes p !! o_hash o with Some _ => o_hash o | None => 0%N end.

(* stateObject.GetCommittedState: cached original value, else the contract store (and cache it) *)
Definition obj_committed (p : pers) (x : addr) (o : obj) (k : key) : option (Z * obj) :=
  match o_oidx o !! k with
  | Some i => e ← o_origin o !! i; Some (e.2, o)
  | None => let v := pslot p x k in
            Some (v, set_origin o (o_origin o ++ [(k, v)]) (<[k := length (o_origin o)]> (o_oidx o)))
  end.
(* stateObject.GetState *)
Definition obj_getstate (p : pers) (x : addr) (o : obj) (k : key) : option (Z * obj) :=
  match o_didx o !! k with
  | Some i => e ← o_dirty o !! i; Some (e.2, o)
  | None => obj_committed p x o k
  end.
(* stateObject.setState *)
Definition obj_setstate (o : obj) (k : key) (v : Z) : option obj :=
  match o_didx o !! k with
  | Some i => e ← o_dirty o !! i; Some (set_dirty o (<[i := (e.1, v)]> (o_dirty o)) (o_didx o))
  | None => Some (set_dirty o (o_dirty o ++ [(k, v)]) (<[k := length (o_dirty o)]> (o_didx o)))
  end.

(* ---- journal ---------------------------------------------------------------------------- *)
Inductive entry :=
  | ECreate (x : addr) | EReset (x : addr) (prev : obj)
  | ESuicide (x : addr) (prev : bool) (prevbal : Z)
  | EBalance (x : addr) (prev : Z) | ENonce (x : addr) (prev : Z)
  | EStorage (x : addr) (k : key) (prev : Z)
  | ECode (x : addr) (prevhash prevcode : N)
  | ERefund (prev : Z) | ELog | ETouch (x : addr)
  | EAlAddr (x : addr) | EAlSlot (x : addr) (k : key).

Definition dirtied (e : entry) : option addr :=
  match e with
  | ECreate x | ESuicide x _ _ | EBalance x _ | ENonce x _ | EStorage x _ _ | ECode x _ _ | ETouch x => Some x
  | _ => None
  end.

Record astate := {
  a_pers : pers;
  a_objs : list (addr * obj);        (* stateObjects *)
  a_oidx : gmap addr nat;            (* addressToObjectIndex *)
  a_entries : list entry;            (* journal.entries *)
  a_dirties : list (addr * Z);       (* journal.dirties: address, number of changes *)
  a_jidx : gmap addr nat;            (* journal.addressToJournalIndex *)
  a_revs : list (Z * nat);           (* validRevisions: id, journal length *)
  a_nextid : Z;
  a_refund : Z;
  a_logs : list (N * N * Z); a_logsize : Z;
  a_al_addrs : gmap addr unit; a_al_slots : gmap (addr * key) unit }.

Definition w_objs (a : astate) l m : astate :=
  {| a_pers := a_pers a; a_objs := l; a_oidx := m; a_entries := a_entries a; a_dirties := a_dirties a;
     a_jidx := a_jidx a; a_revs := a_revs a; a_nextid := a_nextid a; a_refund := a_refund a;
     a_logs := a_logs a; a_logsize := a_logsize a; a_al_addrs := a_al_addrs a; a_al_slots := a_al_slots a |}.
Definition w_dirties (a : astate) l m : astate :=
  {| a_pers := a_pers a; a_objs := a_objs a; a_oidx := a_oidx a; a_entries := a_entries a; a_dirties := l;
     a_jidx := m; a_revs := a_revs a; a_nextid := a_nextid a; a_refund := a_refund a;
     a_logs := a_logs a; a_logsize := a_logsize a; a_al_addrs := a_al_addrs a; a_al_slots := a_al_slots a |}.
Definition w_entries (a : astate) l : astate :=
  {| a_pers := a_pers a; a_objs := a_objs a; a_oidx := a_oidx a; a_entries := l; a_dirties := a_dirties a;
     a_jidx := a_jidx a; a_revs := a_revs a; a_nextid := a_nextid a; a_refund := a_refund a;
     a_logs := a_logs a; a_logsize := a_logsize a; a_al_addrs := a_al_addrs a; a_al_slots := a_al_slots a |}.
Definition w_revs (a : astate) l n : astate :=
  {| a_pers := a_pers a; a_objs := a_objs a; a_oidx := a_oidx a; a_entries := a_entries a; a_dirties := a_dirties a;
     a_jidx := a_jidx a; a_revs := l; a_nextid := n; a_refund := a_refund a;
     a_logs := a_logs a; a_logsize := a_logsize a; a_al_addrs := a_al_addrs a; a_al_slots := a_al_slots a |}.
Definition w_refund (a : astate) r : astate :=
  {| a_pers := a_pers a; a_objs := a_objs a; a_oidx := a_oidx a; a_entries := a_entries a; a_dirties := a_dirties a;
     a_jidx := a_jidx a; a_revs := a_revs a; a_nextid := a_nextid a; a_refund := r;
     a_logs := a_logs a; a_logsize := a_logsize a; a_al_addrs := a_al_addrs a; a_al_slots := a_al_slots a |}.
Definition w_logs (a : astate) l n : astate :=
  {| a_pers := a_pers a; a_objs := a_objs a; a_oidx := a_oidx a; a_entries := a_entries a; a_dirties := a_dirties a;
     a_jidx := a_jidx a; a_revs := a_revs a; a_nextid := a_nextid a; a_refund := a_refund a;
     a_logs := l; a_logsize := n; a_al_addrs := a_al_addrs a; a_al_slots := a_al_slots a |}.
Definition w_al (a : astate) m1 m2 : astate :=
  {| a_pers := a_pers a; a_objs := a_objs a; a_oidx := a_oidx a; a_entries := a_entries a; a_dirties := a_dirties a;
     a_jidx := a_jidx a; a_revs := a_revs a; a_nextid := a_nextid a; a_refund := a_refund a;
     a_logs := a_logs a; a_logsize := a_logsize a; a_al_addrs := m1; a_al_slots := m2 |}.

(* journal.addDirty / substractDirty / getDirty / deleteDirty *)
Definition add_dirty (a : astate) (x : addr) : option astate :=
  match a_jidx a !! x with
  | Some i => d ← a_dirties a !! i; Some (w_dirties a (<[i := (d.1, d.2 + 1)]> (a_dirties a)) (a_jidx a))
  | None => Some (w_dirties a (a_dirties a ++ [(x, 1)]) (<[x := length (a_dirties a)]> (a_jidx a)))
  end.
Definition sub_dirty (a : astate) (x : addr) : option astate :=
  match a_jidx a !! x with
  | Some i => d ← a_dirties a !! i;
              if d.2 =? 0 then Some a
              else Some (w_dirties a (<[i := (d.1, d.2 - 1)]> (a_dirties a)) (a_jidx a))
  | None => Some a
  end.
Definition get_dirty (a : astate) (x : addr) : option Z :=
  match a_jidx a !! x with
  | Some i => d ← a_dirties a !! i; Some d.2
  | None => Some 0
  end.
(* dirties = append(dirties[:idx], dirties[idx+1:]...); since fix 4b2faa6 the entries behind the
   removed one are re-indexed *)
Fixpoint reindex_d (l : list (addr * Z)) (i : nat) (m : gmap addr nat) : gmap addr nat :=
  match l with
  | [] => m
  | (y, _) :: rest => reindex_d rest (S i) (<[y := i]> m)
  end.
Definition delete_dirty (a : astate) (x : addr) : option astate :=
  match a_jidx a !! x with
  | Some i => if decide (i < length (a_dirties a))%nat
              then Some (w_dirties a (take i (a_dirties a) ++ drop (S i) (a_dirties a))
                                   (reindex_d (drop (S i) (a_dirties a)) i (delete x (a_jidx a))))
              else None
  | None => Some a
  end.
(* journal.append *)
Definition j_append (a : astate) (e : entry) : option astate :=
  let a1 := w_entries a (a_entries a ++ [e]) in
  match dirtied e with Some x => add_dirty a1 x | None => Some a1 end.

(* ---- object cache ----------------------------------------------------------------------- *)
(* keeper.GetAccount (+ legacyFix): the record, else an account made up from a non-zero native balance *)
Definition load (p : pers) (x : addr) : option obj :=
  match p_keeper p !! x with
  | Some (n, h) => Some (mk_obj (pbal p x) n h)
  | None => if pbal p x =? 0 then None else Some (mk_obj (pbal p x) 0 0%N)
  end.

(* setStateObject *)
Definition set_obj (a : astate) (x : addr) (o : obj) : option astate :=
  match a_oidx a !! x with
  | Some i => e ← a_objs a !! i; Some (w_objs a (<[i := (e.1, o)]> (a_objs a)) (a_oidx a))
  | None => Some (w_objs a (a_objs a ++ [(x, o)]) (<[x := length (a_objs a)]> (a_oidx a)))
  end.
(* getStateObject: live object, else load it from the keeper into the live list *)
Definition get_obj (a : astate) (x : addr) : option (astate * option obj) :=
  match a_oidx a !! x with
  | Some i => e ← a_objs a !! i; Some (a, Some e.2)
  | None => match load (a_pers a) x with
            | Some o => a' ← set_obj a x o; Some (a', Some o)
            | None => Some (a, None)
            end
  end.
(* createObject *)
Definition create_obj (a : astate) (x : addr) : option (astate * obj * option obj) :=
  '(a1, prev) ← get_obj a x;
  let o := mk_obj (pbal (a_pers a1) x) 0 0%N in      (* NewAccountWithAddress: starts from the native balance *)
  a2 ← j_append a1 (match prev with None => ECreate x | Some po => EReset x po end);
  a3 ← set_obj a2 x o;
  Some (a3, o, prev).
(* GetOrNewStateObject *)
Definition get_or_new_obj (a : astate) (x : addr) : option (astate * obj) :=
  '(a1, so) ← get_obj a x;
  match so with
  | Some o => Some (a1, o)
  | None => '(a2, o, _) ← create_obj a1 x; Some (a2, o)
  end.
(* stateObject.SetBalance (journalled) *)
Definition so_set_balance (a : astate) (x : addr) (o : obj) (b : Z) : option astate :=
  a1 ← j_append a (EBalance x (o_bal o)); set_obj a1 x (set_bal o b).

(* balanceChange.revert / suicideChange.revert: since fix 4b2faa6 the balance is restored through
   account.SetBalance, without journalling *)
Definition so_set_balance_in_revert (a : astate) (x : addr) (o : obj) (b : Z) : option astate :=
  set_obj a x (set_bal o b).

(* createObjectChange.revert: remove the entry, shift the later ones left, re-index them *)
Fixpoint reindex (l : list (addr * obj)) (i : nat) (m : gmap addr nat) : gmap addr nat :=
  match l with
  | [] => m
  | (y, _) :: rest => reindex rest (S i) (<[y := i]> m)
  end.
Definition remove_obj (a : astate) (x : addr) : astate :=
  match a_oidx a !! x with
  | None => a
  | Some i =>
      let m := delete x (a_oidx a) in
      if decide (length (a_objs a) = 1%nat) then w_objs a [] m
      else w_objs a (take i (a_objs a) ++ drop (S i) (a_objs a)) (reindex (drop (S i) (a_objs a)) i m)
  end.

(* ---- journal entries: revert ------------------------------------------------------------ *)
Definition live_obj (a : astate) (x : addr) : option (astate * obj) :=
  '(a1, so) ← get_obj a x; o ← so; Some (a1, o).     (* nil dereference = panic *)

Definition revert_entry (a : astate) (e : entry) : option astate :=
  match e with
  | ECreate x => Some (remove_obj a x)
  | EReset x prev => set_obj a x prev
  | ESuicide x prev prevbal =>
      '(a1, so) ← get_obj a x;
      match so with
      | Some o => let o' := set_suic o prev in a2 ← set_obj a1 x o'; so_set_balance_in_revert a2 x o' prevbal
      | None => Some a1
      end
  | EBalance x prev => '(a1, o) ← live_obj a x; so_set_balance_in_revert a1 x o prev
  | ENonce x prev => '(a1, o) ← live_obj a x; set_obj a1 x (set_nonce o prev)
  | EStorage x k prev => '(a1, o) ← live_obj a x; o' ← obj_setstate o k prev; set_obj a1 x o'
  | ECode x ph pc => '(a1, o) ← live_obj a x; set_obj a1 x (set_code o ph pc)
  | ERefund prev => Some (w_refund a prev)
  | ELog => Some (w_logs a (removelast (a_logs a)) (a_logsize a - 1))
  | ETouch _ => Some a
  | EAlAddr x => Some (w_al a (delete x (a_al_addrs a)) (a_al_slots a))
  | EAlSlot x k => Some (w_al a (a_al_addrs a) (delete (x, k) (a_al_slots a)))
  end.

(* journal.revert: entries from the newest down to [snapshot]; whatever a revert appended to the
   journal meanwhile is cut off together with the reverted entries *)
Fixpoint revert_list (a : astate) (es : list entry) : option astate :=   (* es: newest first *)
  match es with
  | [] => Some a
  | e :: rest =>
      a1 ← revert_entry a e;
      a2 ← match dirtied e with
           | Some x => a' ← sub_dirty a1 x; n ← get_dirty a' x;
                       if n =? 0 then delete_dirty a' x else Some a'
           | None => Some a1
           end;
      revert_list a2 rest
  end.
Definition j_revert (a : astate) (snapshot : nat) : option astate :=
  let es := a_entries a in
  a1 ← revert_list a (rev (drop snapshot es));
  Some (w_entries a1 (take snapshot es)).

Fixpoint find_rev (id : Z) (l : list (Z * nat)) (i : nat) : option (nat * nat) :=
  match l with
  | [] => None
  | (j, n) :: rest => if j =? id then Some (i, n) else if id <? j then None else find_rev id rest (S i)
  end.

(* ---- Finalise --------------------------------------------------------------------------- *)
Definition p_set_cstore (p : pers) m : pers :=
  {| p_keeper := p_keeper p; p_bal := p_bal p; p_cstore := m; p_codes := p_codes p |}.

(* stateObject.commitState *)
Definition commit_slot (x : addr) (o : obj) (p : pers) (kv : key * Z) : pers :=
  let '(k, v) := kv in
  let p1 := if v =? 0 then p_set_cstore p (delete (x, k) (p_cstore p)) else p in
  match o_oidx o !! k with
  | None => p1
  | Some i =>
      if v =? 0 then p1
      else match o_origin o !! i with
           | Some e => if e.2 =? v then p1 else p_set_cstore p1 (<[(x, k) := v]> (p_cstore p1))
           | None => p1
           end
  end.
Definition commit_state (x : addr) (o : obj) (p : pers) : pers := fold_left (commit_slot x o) (o_dirty o) p.

Definition finalise_obj (dirty : gmap addr unit) (p : pers) (xo : addr * obj) : pers :=
  let '(x, o) := xo in
  let is_dirty := bool_decide (is_Some (dirty !! x)) in
  if o_suic o || (is_dirty && obj_empty o) then
    (* deleteStateObject -> RemoveAccount: the keeper record is deleted and (since fix 8b9b1c9) the
       object's in-memory balance is written to the native balance record; storage words stay *)
    {| p_keeper := delete x (p_keeper p); p_bal := <[x := o_bal o]> (p_bal p); p_cstore := p_cstore p; p_codes := p_codes p |}
  else if is_dirty then
    let p1 := commit_state x o p in
    let codes := if negb (o_cache o =? 0)%N && o_dirtycode o then <[o_hash o := tt]> (p_codes p1) else p_codes p1 in
    (* updateStateObject -> SetAccount: keeper record without the coins, balance into the balance store *)
    {| p_keeper := <[x := (o_nonce o, o_hash o)]> (p_keeper p1); p_bal := <[x := o_bal o]> (p_bal p1);
       p_cstore := p_cstore p1; p_codes := codes |}
  else p.

Definition dirty_set (a : astate) : gmap addr unit :=
  fold_left (fun m (d : addr * Z) => match a_oidx a !! d.1 with Some _ => <[d.1 := tt]> m | None => m end)
            (a_dirties a) ∅.

Definition a_finalise (a : astate) (block : bool) : astate :=
  let p := fold_left (finalise_obj (dirty_set a)) (a_objs a) (a_pers a) in
  {| a_pers := p; a_objs := []; a_oidx := ∅; a_entries := []; a_dirties := []; a_jidx := ∅;
     a_revs := []; a_nextid := if block then 0 else a_nextid a; a_refund := 0;
     a_logs := []; a_logsize := if block then 0 else a_logsize a; a_al_addrs := ∅; a_al_slots := ∅ |}.

(* ---- the interface ---------------------------------------------------------------------- *)
Definition read_obj (a : astate) (x : addr) (f : option obj -> out) : option (out * astate) :=
  '(a1, so) ← get_obj a x; Some (f so, a1).

Definition astep_opt (a : astate) (op : op) : option (out * astate) :=
  match op with
  | CreateAccount x =>
      '(a1, o, prev) ← create_obj a x;
      match prev with
      | Some po => a2 ← so_set_balance a1 x o (o_bal po); Some (OUnit, a2)
      | None => Some (OUnit, a1)
      end
  | AddBalance x v =>
      '(a1, o) ← get_or_new_obj a x;
      if v =? 0 then
        if obj_empty o then
          a2 ← j_append a1 (ETouch x);
          a3 ← (if (x =? RIPEMD)%N then add_dirty a2 x else Some a2);
          Some (OUnit, a3)
        else Some (OUnit, a1)
      else a2 ← so_set_balance a1 x o (o_bal o + v); Some (OUnit, a2)
  | SubBalance x v =>
      '(a1, o) ← get_or_new_obj a x;
      if v =? 0 then Some (OUnit, a1)
      else if o_bal o - v <? 0 then None      (* Coin.Minus fails: panic("Failed to minus balance") *)
      else a2 ← so_set_balance a1 x o (o_bal o - v); Some (OUnit, a2)
  | GetBalance x => read_obj a x (fun so => OZ (match so with Some o => o_bal o | None => 0 end))
  | GetNonce x => read_obj a x (fun so => OZ (match so with Some o => o_nonce o | None => 0 end))
  | SetNonce x n =>
      '(a1, o) ← get_or_new_obj a x;
      a2 ← j_append a1 (ENonce x (o_nonce o));
      a3 ← set_obj a2 x (set_nonce o n); Some (OUnit, a3)
  | GetCodeHash x => read_obj a x (fun so => OZ (match so with Some o => Z.of_N (o_hash o) | None => -1 end))
  | GetCode x => read_obj a x (fun so => OZ (match so with Some o => Z.of_N (obj_code (a_pers a) o) | None => 0 end))
  | GetCodeSize x =>
      read_obj a x (fun so => OZ (match so with Some o => code_size (obj_code (a_pers a) o) | None => 0 end))
  | SetCode x c =>
      '(a1, o) ← get_or_new_obj a x;
      a2 ← j_append a1 (ECode x (o_hash o) (obj_code (a_pers a) o));
      a3 ← set_obj a2 x (set_code o c c); Some (OUnit, a3)
  | AddRefund g =>
      a1 ← j_append a (ERefund (a_refund a)); Some (OUnit, w_refund a1 (a_refund a + g))
  | SubRefund g =>
      a1 ← j_append a (ERefund (a_refund a));
      if a_refund a <? g then None else Some (OUnit, w_refund a1 (a_refund a - g))
  | GetRefund => Some (OZ (a_refund a), a)
  | GetCommittedState x k =>
      '(a1, so) ← get_obj a x;
      match so with
      | Some o => '(v, o') ← obj_committed (a_pers a) x o k; a2 ← set_obj a1 x o'; Some (OZ v, a2)
      | None => Some (OZ 0, a1)
      end
  | GetState x k =>
      '(a1, so) ← get_obj a x;
      match so with
      | Some o => '(v, o') ← obj_getstate (a_pers a) x o k; a2 ← set_obj a1 x o'; Some (OZ v, a2)
      | None => Some (OZ 0, a1)
      end
  | SetState x k v =>
      '(a1, o) ← get_or_new_obj a x;
      '(prev, o1) ← obj_getstate (a_pers a) x o k;
      a2 ← set_obj a1 x o1;
      if prev =? v then Some (OUnit, a2)
      else a3 ← j_append a2 (EStorage x k prev);
           o2 ← obj_setstate o1 k v;
           a4 ← set_obj a3 x o2; Some (OUnit, a4)
  | Suicide x =>
      '(a1, so) ← get_obj a x;
      match so with
      | None => Some (OBool false, a1)
      | Some o =>
          a2 ← j_append a1 (ESuicide x (o_suic o) (o_bal o));
          let o' := set_suic o true in
          a3 ← set_obj a2 x o';
          a4 ← so_set_balance a3 x o' 0; Some (OBool true, a4)
      end
  | HasSuicided x => read_obj a x (fun so => OBool (match so with Some o => o_suic o | None => false end))
  | Exist x => read_obj a x (fun so => OBool (match so with Some _ => true | None => false end))
  | Empty x => read_obj a x (fun so => OBool (match so with Some o => obj_empty o | None => true end))
  | AlAddAddr x =>
      match a_al_addrs a !! x with
      | Some _ => Some (OUnit, a)
      | None => a1 ← j_append (w_al a (<[x := tt]> (a_al_addrs a)) (a_al_slots a)) (EAlAddr x); Some (OUnit, a1)
      end
  | AlAddSlot x k =>
      a1 ← match a_al_addrs a !! x with
           | Some _ => Some a
           | None => j_append (w_al a (<[x := tt]> (a_al_addrs a)) (a_al_slots a)) (EAlAddr x)
           end;
      match a_al_slots a1 !! (x, k) with
      | Some _ => Some (OUnit, a1)
      | None => a2 ← j_append (w_al a1 (a_al_addrs a1) (<[(x, k) := tt]> (a_al_slots a1))) (EAlSlot x k); Some (OUnit, a2)
      end
  | AlHasAddr x => Some (OBool (bool_decide (is_Some (a_al_addrs a !! x))), a)
  | AlHasSlot x k =>
      Some (OList [if bool_decide (is_Some (a_al_addrs a !! x)) then 1 else 0;
                   if bool_decide (is_Some (a_al_slots a !! (x, k))) then 1 else 0], a)
  | Snapshot =>
      Some (OZ (a_nextid a), w_revs a (a_revs a ++ [(a_nextid a, length (a_entries a))]) (a_nextid a + 1))
  | RevertToSnapshot id =>
      '(i, n) ← find_rev id (a_revs a) 0;
      a1 ← j_revert a n;
      Some (OUnit, w_revs a1 (take i (a_revs a1)) (a_nextid a1))
  | AddLog x t =>
      a1 ← j_append a ELog;
      Some (OUnit, w_logs a1 (a_logs a1 ++ [(x, t, a_logsize a1)]) (a_logsize a1 + 1))
  | GetLogs => Some (OList (flat_logs (a_logs a)), a)
  | Finalise => Some (OBool true, a_finalise a false)
  | BlockCommit => Some (OUnit, a_finalise a true)
  end.

Definition astep (a : astate) (o : op) : out * astate :=
  match astep_opt a o with Some r => r | None => (OPanic, a) end.

Fixpoint arun (a : astate) (ops : list op) : list out * astate :=
  match ops with
  | [] => ([], a)
  | o :: rest => let '(r, a') := astep a o in let '(rs, a'') := arun a' rest in (r :: rs, a'')
  end.
Definition aoutputs (a : astate) (ops : list op) : list out := (arun a ops).1.

(* ---- starting state --------------------------------------------------------------------- *)
Definition pers_add (p : pers) (s : start_acct) : pers :=
  let x := sa_addr s in
  if sa_native s then
    {| p_keeper := p_keeper p; p_bal := <[x := sa_bal s]> (p_bal p); p_cstore := p_cstore p; p_codes := p_codes p |}
  else
    {| p_keeper := <[x := (sa_nonce s, sa_code s)]> (p_keeper p);
       p_bal := <[x := sa_bal s]> (p_bal p);
       p_cstore := fold_left (fun m (kv : key * Z) => <[(x, kv.1) := kv.2]> m) (sa_stor s) (p_cstore p);
       p_codes := if (sa_code s =? 0)%N then p_codes p else <[sa_code s := tt]> (p_codes p) |}.

Definition a_init_pers (p : pers) : astate :=
  {| a_pers := p; a_objs := []; a_oidx := ∅; a_entries := []; a_dirties := []; a_jidx := ∅;
     a_revs := []; a_nextid := 0; a_refund := 0; a_logs := []; a_logsize := 0;
     a_al_addrs := ∅; a_al_slots := ∅ |}.
Definition a_init (l : list start_acct) : astate :=
  a_init_pers (fold_left pers_add l {| p_keeper := ∅; p_bal := ∅; p_cstore := ∅; p_codes := ∅ |}).
