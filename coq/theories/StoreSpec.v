(* StoreSpec.v — the reference: a transactional, versioned map.  Reads return the most recent
   write in scope (session, then block, then working tree); [None] in an overlay = deleted. *)
From stdpp Require Import gmap list.
From Coq Require Import ZArith.
From OL Require Import theories.Store.
Local Open Scope Z_scope.

Notation layer := (gmap key (option val)).

Record spec := {
  p_sess : option layer ;
  p_blk : layer ;
  p_tree : gmap key val ;
  p_saved : gmap Z (gmap key val) ;
  p_version : Z ;
  p_last : Z ;
  p_rot : rotation
}.

Definition spec_init (r : rotation) : spec :=
  {| p_sess := None ; p_blk := ∅ ; p_tree := ∅ ; p_saved := ∅ ; p_version := 0 ; p_last := 0 ;
     p_rot := r |}.

Definition pick (b : option (option val)) (t : option val) : option val :=
  match b with Some w => w | None => t end.

(* the surviving writes of a layer applied to a map *)
Definition apply_layer (l : layer) (t : gmap key val) : gmap key val := merge pick l t.

Definition spec_read (p : spec) (k : key) : option val :=
  match (match p_sess p with Some l => l !! k | None => None end) with
  | Some w => w
  | None => pick (p_blk p !! k) (p_tree p !! k)
  end.

Definition spec_write (p : spec) (k : key) (w : option val) : spec :=
  match p_sess p with
  | Some l => {| p_sess := Some (<[k:=w]> l) ; p_blk := p_blk p ; p_tree := p_tree p ;
                 p_saved := p_saved p ; p_version := p_version p ; p_last := p_last p ;
                 p_rot := p_rot p |}
  | None => {| p_sess := None ; p_blk := <[k:=w]> (p_blk p) ; p_tree := p_tree p ;
               p_saved := p_saved p ; p_version := p_version p ; p_last := p_last p ;
               p_rot := p_rot p |}
  end.

Definition spec_step (p : spec) (o : op) : out * spec :=
  match o with
  | Get k => (OVal (spec_read p k), p)
  | Set_ k v => (OUnit, spec_write p k (Some v))
  | Exists_ k => (OBool (bool_decide (is_Some (spec_read p k))), p)
  | Delete k => (OBool true, spec_write p k None)
  | BeginTx => (OUnit, {| p_sess := Some ∅ ; p_blk := p_blk p ; p_tree := p_tree p ;
                          p_saved := p_saved p ; p_version := p_version p ; p_last := p_last p ;
                          p_rot := p_rot p |})
  | CommitTx =>
      match p_sess p with
      | Some l => (OUnit, {| p_sess := None ; p_blk := l ∪ p_blk p ; p_tree := p_tree p ;
                             p_saved := p_saved p ; p_version := p_version p ;
                             p_last := p_last p ; p_rot := p_rot p |})
      | None => (OPanic, p)
      end
  | DiscardTx => (OUnit, {| p_sess := None ; p_blk := p_blk p ; p_tree := p_tree p ;
                            p_saved := p_saved p ; p_version := p_version p ; p_last := p_last p ;
                            p_rot := p_rot p |})
  | Write => (OUnit, {| p_sess := p_sess p ; p_blk := p_blk p ;
                        p_tree := apply_layer (p_blk p) (p_tree p) ;
                        p_saved := p_saved p ; p_version := p_version p ; p_last := p_last p ;
                        p_rot := p_rot p |})
  | BlockCommit =>
      let t := apply_layer (p_blk p) (p_tree p) in
      let v := p_version p + 1 in
      (OVersion v,
       {| p_sess := None ; p_blk := ∅ ; p_tree := t ;
          p_saved := rotate (p_rot p) (p_version p) (<[v:=t]> (p_saved p)) ;
          p_version := v ; p_last := p_version p ; p_rot := p_rot p |})
  | GetVersioned ver k => (OVal (p_saved p !! ver ≫= (fun t => t !! k)), p)
  | Fresh _ => (OUnit, {| p_sess := None ; p_blk := ∅ ; p_tree := p_tree p ;
                          p_saved := p_saved p ; p_version := p_version p ; p_last := p_last p ;
                          p_rot := p_rot p |})
  | Reopen => (OUnit, {| p_sess := None ; p_blk := ∅ ;
                         p_tree := default ∅ (p_saved p !! p_version p) ;
                         p_saved := p_saved p ; p_version := p_version p ; p_last := 0 ;
                         p_rot := p_rot p |})
  end.

Fixpoint spec_run (p : spec) (ops : list op) : list out * spec :=
  match ops with
  | [] => ([], p)
  | o :: rest => let '(r, p1) := spec_step p o in let '(rs, p2) := spec_run p1 rest in (r :: rs, p2)
  end.

Definition spec_outputs (p : spec) (ops : list op) : list out := fst (spec_run p ops).
