(* Nondet.v — Go map iteration as an explicit permutation oracle, the loop idioms srcfacts
   finds in the consensus packages, and the classification of the generated site tables.
   No proofs here. *)
From stdpp Require Import gmap list sorting.
From Coq Require Import ZArith String.
Local Open Scope Z_scope.

(* a Go map is a finite map; `for k, v := range m` visits map_to_list m in SOME order: any
   permutation [l] of the entries, chosen afresh by the runtime at every loop *)
Definition range_order {V} (m : gmap Z V) (l : list (Z * V)) : Prop := l ≡ₚ map_to_list m.

(* idiom 1: collect the keys, sort them, then iterate the sorted slice (effects allowed) *)
Definition collect_sort (keys : list Z) : list Z := merge_sort Z.le keys.
(* idiom 2: build another map / set from the entries (one insert per key) *)
Definition build_map {V W} (f : Z -> V -> W) (l : list (Z * V)) : gmap Z W :=
  list_to_map (map (fun kv => (kv.1, f kv.1 kv.2)) l).
(* idiom 3: commutative accumulation (sums, counts) *)
Definition accumulate {V} (f : Z -> V -> Z) (l : list (Z * V)) : Z :=
  foldr (fun kv acc => f kv.1 kv.2 + acc) 0 l.
(* idiom 4: look up the unique entry satisfying a predicate *)
Definition find_unique {V} (p : Z -> V -> bool) (l : list (Z * V)) : option (Z * V) :=
  list_find (fun kv => p kv.1 kv.2 = true) l ≫= (fun r => Some r.2).

(* classes srcfacts sites are assigned to (by the audited table in props/C01.v, keyed by the
   site id AND the hash of the normalised loop statement: an edited loop is unclassified) *)
Inductive idiom :=
| ICollectSort | IBuildMap | IAccumulate | IFindUnique
| INotConsensus      (* RPC/CLI/debug printing/start-up registration: never feeds state or results *)
| IEffectfulKnown    (* effectful body in map order: a recorded finding *)
| IUnclassified.

Definition site_class (table : list (string * string * idiom)) (site : string * string) : idiom :=
  match List.find (fun '(id, h, _) => String.eqb id site.1 && String.eqb h site.2) table with
  | Some (_, _, c) => c
  | None => IUnclassified
  end.

Definition bad_sites (table : list (string * string * idiom)) (allow_known : bool)
           (sites : list (string * string)) : list string :=
  map fst (List.filter (fun s => match site_class table s with
                            | IUnclassified => true
                            | IEffectfulKnown => negb allow_known
                            | _ => false end) sites).

Definition unlisted (allowed : list string) (sites : list string) : list string :=
  List.filter (fun s => negb (existsb (String.eqb s) allowed)) sites.
