(* Options.v — the in-memory copies of governance options held by the long-lived store objects.

   Part 1: an executable model of ONE option: its record in the deliver state, its record in the check
           state, the committed record, and the copy in memory that handlers read.  Events are the ABCI
           calls as far as they touch the option.  No proofs here.
   Part 2: the audit of who calls the accessors of the copies (gen/Facts_Options.v, regenerated from
           /repo): readers, writers, and the mode in which the governance update functions are invoked. *)
From Coq Require Import String Ascii List Bool ZArith.
Import ListNotations.
Local Open Scope string_scope.

(* ---------- Part 1 ---------- *)
Record ost := { com : Z; rec_d : Z; rec_c : Z; copy : Z }.

Inductive oev :=
| OStart                        (* process (re)start: states and copy are rebuilt from the committed record *)
| OBegin (reload : bool)        (* BeginBlock; [reload]: the hook re-reads the copy from the deliver state (fee option) *)
| OFinalD (v : Z)               (* a block finalises a proposal for value v: record and copy are written together *)
| OCommit                       (* the block is committed; the check state starts again from it *)
| OCheck (v : Z) (applies : bool)  (* CheckTx of a finalize for value v: the check-state record is written; the
                                      update function WRITES THE COPY iff it was run in update mode [applies] *)
| OCheckValidate (v : Z) (early : bool) (* CheckTx / DeliverTx of a creation: the update function runs in validate-only
                                      mode; it writes the copy iff a setter precedes its validate-only return *)
| ORead.                        (* a consensus call reads the copy (DeliverTx pricing a fee) *)

Definition ostep (s : ost) (e : oev) : ost * list Z :=
  match e with
  | OStart => ({| com := com s; rec_d := com s; rec_c := com s; copy := com s |}, [])
  | OBegin reload => ({| com := com s; rec_d := rec_d s; rec_c := rec_c s; copy := if reload then rec_d s else copy s |}, [])
  | OFinalD v => ({| com := com s; rec_d := v; rec_c := rec_c s; copy := v |}, [])
  | OCommit => ({| com := rec_d s; rec_d := rec_d s; rec_c := rec_d s; copy := copy s |}, [])
  | OCheck v applies => ({| com := com s; rec_d := rec_d s; rec_c := v; copy := if applies then v else copy s |}, [])
  | OCheckValidate v early => ({| com := com s; rec_d := rec_d s; rec_c := rec_c s; copy := if early then v else copy s |}, [])
  | ORead => (s, [copy s])
  end.

Fixpoint orun (s : ost) (evs : list oev) : ost * list Z :=
  match evs with
  | [] => (s, [])
  | e :: r => let '(s1, o1) := ostep s e in let '(s2, o2) := orun s1 r in (s2, (o1 ++ o2)%list)
  end.

(* the specification: a consensus read sees the option as persisted in the deliver state *)
Definition sstep (s : ost) (e : oev) : ost * list Z :=
  match e with
  | ORead => (s, [rec_d s])
  | _ => ostep s e
  end.

Fixpoint srun (s : ost) (evs : list oev) : ost * list Z :=
  match evs with
  | [] => (s, [])
  | e :: r => let '(s1, o1) := sstep s e in let '(s2, o2) := srun s1 r in (s2, (o1 ++ o2)%list)
  end.

Definition is_check (e : oev) : bool :=
  match e with OCheck _ _ | OCheckValidate _ _ => true | _ => false end.

Definition strip_ochecks (evs : list oev) : list oev := filter (fun e => negb (is_check e)) evs.

(* the writer discipline: no mempool-reachable run of an update function writes the copy *)
Definition disciplined_ev (e : oev) : bool :=
  match e with OCheck _ true | OCheckValidate _ true => false | _ => true end.
Definition disciplined (evs : list oev) : bool := forallb disciplined_ev evs.

Definition no_reads (evs : list oev) : bool := forallb (fun e => match e with ORead => false | _ => true end) evs.

(* ---------- Part 2 ---------- *)
Fixpoint ends_with (suf s : string) : bool :=
  match s with
  | EmptyString => String.eqb suf EmptyString
  | String _ r => String.eqb s suf || ends_with suf r
  end.

Definition one_of (l : list string) (s : string) : bool := existsb (String.eqb s) l.

(* start-up, genesis and the per-request copies built for the RPC services *)
Definition startup_callers : list string :=
  ["app.App.Prepare"; "app.App.setupState"; "app.context.Services"; "app.context.Storage"].

(* who may call which accessor.  Readers of the fee option are the Validate methods of the transaction
   kinds and the block-end fee distribution; it is the one copy that BeginBlock reloads.  The other copies
   have no reader on a transaction path except the ones listed (all of them read values that no update
   function changes without writing the record in the same step). *)
Definition audited_call (acc caller : string) : bool :=
  one_of startup_callers caller ||
  if String.prefix "data/balance.CurrencySet.Get" acc || String.eqb acc "data/balance.CurrencySet.Len" then true
       (* the currency set is filled at start-up only (see Register below) *)
  else if String.eqb acc "data/balance.CurrencySet.Register" then String.eqb caller "data/balance.Currencies.GetCurrencySet"
  else if String.eqb acc "data/fees.Store.GetOpt" then
    ends_with ".Validate" caller || String.eqb caller "identity.ValidatorStore.GetEndBlockUpdate"
  else if String.eqb acc "data/fees.Store.Get" then
    one_of ["app.App.blockEnder"; "data/fees.Store.AddToAddress"; "data/fees.Store.MinusFromAddress";
            "identity.ValidatorStore.GetEndBlockUpdate"] caller
  else if String.eqb acc "data/fees.Store.SetupOpt" then
    one_of ["app.App.blockBeginner"; "action.feeOptionminFeeDecimal"] caller
  else if String.eqb acc "data/ethereum.TrackerStore.GetOption" then String.prefix "event.JobETH" caller
  else if String.eqb acc "data/governance.ProposalStore.GetOptionsByType" then String.eqb caller "action/governance.distributeFunds"
  else if String.eqb acc "data/governance.ProposalStore.SetOptions" then String.prefix "action.propOptions" caller
  else if String.eqb acc "data/ons.DomainStore.SetOptions" then String.prefix "action.onsOptions" caller
  else if String.prefix "data/rewards." acc then
    String.prefix "data/rewards." caller || one_of ["app.handleBlockRewards"; "action/rewards.runWithdraw"] caller
  else false.

Definition unaudited_calls (cs : list (string * string * bool)) : list (string * string) :=
  map (fun '(a, c, _) => (a, c)) (filter (fun '(a, c, _) => negb (audited_call a c)) cs).

(* setter calls that precede the validate-only return of the function they are in *)
Definition is_setter (acc : string) : bool :=
  ends_with ".SetupOpt" acc || ends_with ".SetOptions" acc || ends_with ".SetupOption" acc || ends_with ".SetOption" acc
  || ends_with ".SetConfig" acc || ends_with ".Register" acc || ends_with ".UpdateOptions" acc.
Definition early_writes (cs : list (string * string * bool)) : list (string * string) :=
  map (fun '(a, c, _) => (a, c)) (filter (fun '(a, _, b) => b && is_setter a) cs).

(* direct uses of a copy stay inside the methods of the object that holds it *)
Fixpoint owner_of (field : string) : string :=   (* "pkg.Type.field" -> "pkg.Type." *)
  match field with
  | EmptyString => EmptyString
  | String c r => if existsb (fun ch => Ascii.eqb ch "."%char) (list_ascii_of_string r) then String c (owner_of r) else String c EmptyString
  end.
Definition foreign_uses (us : list (string * string * string)) : list (string * string) :=
  map (fun '(f, fn, _) => (f, fn)) (filter (fun '(f, fn, _) => negb (String.prefix (owner_of f) fn)) us).

(* the modes in which update functions are run: update mode only on the deliver path *)
Definition audited_modes : list (string * string * string) :=
  [("action/governance.FinalizeProposal.ProcessCheck", "runFinalizeProposal", "action.ValidateOnly");
   ("action/governance.FinalizeProposal.ProcessDeliver", "runFinalizeProposal", "action.ValidateAndUpdate");
   ("action/governance.runFinalizeProposal", "<function value>", "behaviour");
   ("action/governance.runTx", "<function value>", "action.ValidateOnly")].
Definition mode_eqb (a b : string * string * string) : bool :=
  let '(x, y, z) := a in let '(x', y', z') := b in String.eqb x x' && String.eqb y y' && String.eqb z z'.
Definition unaudited_modes (ms : list (string * string * string)) : list (string * string * string) :=
  filter (fun m => negb (existsb (mode_eqb m) audited_modes)) ms.

(* copies that have a reader on a consensus path are rebuilt by Prepare() when a process starts *)
Definition restored_setters : list string :=
  ["data/fees.Store.SetupOpt"; "data/ethereum.TrackerStore.SetupOption"; "data/governance.ProposalStore.SetOptions";
   "data/rewards.RewardMasterStore.SetOptions"; "data/balance.CurrencySet.Register"].
Definition not_restored (cs : list (string * string * bool)) : list string :=
  filter (fun st => negb (existsb (fun '(a, c, _) => String.eqb a st && String.eqb c "app.App.Prepare") cs)) restored_setters.
