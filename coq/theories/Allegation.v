(* Allegation.v — executable model of the allegation / vote / release machinery.
   Go anchors: action/evidence/{allegation,vote,release}.go, data/evidence/{store,allegation,history,
   status}.go, identity/validator_set_allegation.go (CheckMaliciousValidators,
   ExecuteAllegationTracker), identity/validator_set.go (GetEndBlockUpdate: status records, active
   count), action/staking/{stake,unstake,withdraw}.go (IsFrozenValidator guards), app/controller.go.

   Model only (no proofs).  Conventions:
   * addresses and request ids are Z; the harness numbers them in byte/string order, so that the
     model's sorted insertion = Go's sort by address bytes / sort.Strings.
   * times are seconds (the harness uses whole-second block times; AddDate(0,0,d) on UTC times
     is + d*86400 s).
   * what the modelled code reads but does not own is an input of the operation: the missed-votes
     candidates of BeginBlock ([low]: addresses whose cumulative vote count is below
     MinVotesRequired and that have a validator record one version back), the validator queue of
     EndBlock ([queue]: (address, power) of the records one version back), the outcome of the
     non-allegation part of the staking handlers ([envok], [delta]).
   * the tracker loop of EndBlock takes an explicit order parameter (the Go code ranged over a map
     until /repo commit b3db1ad; it now sorts the ids = order [], which the correspondence uses).
   * the tally is exact integer arithmetic (since /repo d95b5d2); [rndp] (rounding of a rational to
     p bits) remains for the bit-exact big.Float model of the penalty. *)
From stdpp Require Import gmap list.
From Coq Require Import ZArith Bool.
Local Open Scope Z_scope.

(* ---------- configuration (evidence options, staking options, currency) ---------- *)
Record Cfg := {
  votePct : Z; voteDec : Z;          (* ValidatorVotePercentage / ValidatorVoteDecimals *)
  allegPct : Z; allegDec : Z;        (* AllegationPercentage / AllegationDecimals *)
  penBase : Z; penDec : Z;           (* PenaltyBasePercentage / PenaltyBaseDecimals *)
  bountyPct : Z; bountyDec : Z;      (* PenaltyBountyPercentage / PenaltyBountyDecimals *)
  releaseDays : Z;                   (* ValidatorReleaseTime *)
  blockVotesDiff : Z;                (* BlockVotesDiff *)
  minPower : Z; topN : Z;            (* MinSelfDelegationAmount, TopValidatorCount *)
  oltDec : Z                         (* 10^decimals of OLT *)
}.

Definition cfg_ok (c : Cfg) : bool :=
  (0 <=? votePct c) && (0 <? voteDec c) && (0 <=? allegPct c) && (0 <? allegDec c) &&
  (0 <=? penBase c) && (0 <? penDec c) && (0 <=? bountyPct c) && (0 <? bountyDec c) &&
  (0 <=? releaseDays c) && (0 <? oltDec c).

(* ---------- constants of data/evidence ---------- *)
Definition VOTING : Z := 1.   Definition INNOCENT : Z := 2.   Definition GUILTY : Z := 3.
Definition YES : Z := 1.      Definition NO : Z := 2.
Definition MISSED : Z := 1.   Definition BYZ : Z := 2.
Definition DAY : Z := 86400.

(* ---------- big.Float rounding of a nonnegative rational ---------- *)
(* a binary float is (m, e) with value m * 2^e *)
Definition scaled (n d s : Z) : Z * Z := if 0 <=? s then (n * 2 ^ s, d) else (n, d * 2 ^ (- s)).
Definition rndp (p n d : Z) : Z * Z :=
  if n <=? 0 then (0, 0) else
  let s0 := p - 1 - (Z.log2 n - Z.log2 d) in
  let t0 := (let '(a, b) := scaled n d s0 in a / b) in
  let s := if 2 ^ p <=? t0 then s0 - 1 else if t0 <? 2 ^ (p - 1) then s0 + 1 else s0 in
  let '(a, b) := scaled n d s in
  let t := a / b in let r := a mod b in
  let t' := if b <? 2 * r then t + 1
            else if 2 * r =? b then (if Z.odd t then t + 1 else t) else t in
  (t', - s).
(* the tally of ExecuteAllegationTracker, exact integer arithmetic (/repo d95b5d2; before that
   commit float64 quotients were compared, which decided exact-equality boundaries by rounding):
   required = ceil(active * pct / dec);  yes/required > pct/dec;  no/required > 1 - pct/dec *)
Definition required_x (c : Cfg) (active : Z) : Z := - ((- (active * votePct c)) / voteDec c).
Definition guilty_x (c : Cfg) (yes req : Z) : bool := yes * allegDec c >? allegPct c * req.
Definition innocent_x (c : Cfg) (no req : Z) : bool := no * allegDec c >? (allegDec c - allegPct c) * req.
(* verdict of one request: GUILTY is tested first *)
Definition verdict_x (c : Cfg) (yes no req : Z) : Z :=
  if guilty_x c yes req then GUILTY else if innocent_x c no req then INNOCENT else VOTING.

(* penalty: big.Float (stake*base/dec + 0.5) truncated; exact below 2^63 (see PenaltyGuard) *)
Definition penalty (c : Cfg) (stake : Z) : Z := (2 * stake * penBase c + penDec c) / (2 * penDec c).
Definition penalty_guard (c : Cfg) (stake : Z) : bool := (0 <=? stake) && (stake * penBase c <? 2 ^ 63).
(* the same through big.Float with 64-bit mantissa, as the Go code does it *)
Definition fadd_half (p : Z) (x : Z * Z) : Z * Z :=
  if 0 <=? x.2 then rndp p (2 * x.1 * 2 ^ x.2 + 1) 2
  else rndp p (2 * x.1 + 2 ^ (- x.2)) (2 * 2 ^ (- x.2)).
Definition ftrunc (x : Z * Z) : Z := if 0 <=? x.2 then x.1 * 2 ^ x.2 else x.1 / 2 ^ (- x.2).
Definition penalty_bigfloat (c : Cfg) (stake : Z) : Z :=
  let p := Z.max 64 (Z.log2 stake + 1) in
  let prod := rndp p (stake * penBase c) 1 in
  let quo := if 0 <=? prod.2 then rndp p (prod.1 * 2 ^ prod.2) (penDec c)
             else rndp p prod.1 (penDec c * 2 ^ (- prod.2)) in
  ftrunc (fadd_half p quo).
(* bounty in base units: penalty (whole OLT) * 10^18 * pct / dec, big.Int division *)
Definition bounty_of (c : Cfg) (pen : Z) : Z := pen * oltDec c * bountyPct c / bountyDec c.

(* ---------- state ---------- *)
Record Req := { r_rep : Z; r_mal : Z; r_h : Z; r_status : Z; r_votes : list (Z * Z) }.
Record Lvh := { l_status : Z; l_fh : Z; l_fat : Z; l_rh : Z; l_rat : option Z }.
Record VStat := { v_active : bool; v_height : Z }.

Record St := {
  reqs : gmap Z Req;        (* es__ark_<id>, deliver view *)
  ckeys : list Z;           (* request keys present in the committed tree (what IterateRange sees) *)
  tracker : list Z;         (* es__atark, sorted, no duplicates *)
  susp : gmap Z Lvh;        (* es__ssvk_<addr> *)
  vstat : gmap Z VStat;     (* es__vss_<addr> *)
  stake : gmap Z Z;         (* st__t_<addr>, whole OLT *)
  bounty : Z;               (* total credited to the bounty program address, base units *)
  malicious : list Z;       (* ValidatorStore.maliciousValidators (keys), set in BeginBlock *)
  height : Z; now : Z
}.

Definition init : St :=
  {| reqs := ∅; ckeys := []; tracker := []; susp := ∅; vstat := ∅; stake := ∅; bounty := 0;
     malicious := []; height := 0; now := 0 |}.
Definition init_with (stk : list (Z * Z)) : St :=
  {| reqs := ∅; ckeys := []; tracker := []; susp := ∅; vstat := ∅; stake := list_to_map stk;
     bounty := 0; malicious := []; height := 0; now := 0 |}.

Definition set_reqs (s : St) x := {| reqs := x; ckeys := ckeys s; tracker := tracker s; susp := susp s; vstat := vstat s; stake := stake s; bounty := bounty s; malicious := malicious s; height := height s; now := now s |}.
Definition set_ckeys (s : St) x := {| reqs := reqs s; ckeys := x; tracker := tracker s; susp := susp s; vstat := vstat s; stake := stake s; bounty := bounty s; malicious := malicious s; height := height s; now := now s |}.
Definition set_tracker (s : St) x := {| reqs := reqs s; ckeys := ckeys s; tracker := x; susp := susp s; vstat := vstat s; stake := stake s; bounty := bounty s; malicious := malicious s; height := height s; now := now s |}.
Definition set_susp (s : St) x := {| reqs := reqs s; ckeys := ckeys s; tracker := tracker s; susp := x; vstat := vstat s; stake := stake s; bounty := bounty s; malicious := malicious s; height := height s; now := now s |}.
Definition set_vstat (s : St) x := {| reqs := reqs s; ckeys := ckeys s; tracker := tracker s; susp := susp s; vstat := x; stake := stake s; bounty := bounty s; malicious := malicious s; height := height s; now := now s |}.
Definition set_stake (s : St) x b := {| reqs := reqs s; ckeys := ckeys s; tracker := tracker s; susp := susp s; vstat := vstat s; stake := x; bounty := b; malicious := malicious s; height := height s; now := now s |}.
Definition set_block (s : St) m h t := {| reqs := reqs s; ckeys := ckeys s; tracker := tracker s; susp := susp s; vstat := vstat s; stake := stake s; bounty := bounty s; malicious := m; height := h; now := t |}.

(* ---------- queries ---------- *)
Definition lvh_frozen (l : Lvh) : bool :=
  match l_rat l with None => true | Some r => negb (r >? l_fat l) end.
Definition is_frozen (s : St) (a : Z) : bool :=
  match susp s !! a with Some l => lvh_frozen l | None => false end.
Definition is_active (s : St) (a : Z) : bool :=
  match vstat s !! a with Some v => v_active v | None => false end.
Definition inb (x : Z) (l : list Z) : bool := existsb (Z.eqb x) l.
Definition voted (a : Z) (vs : list (Z * Z)) : bool := existsb (fun v => v.1 =? a) vs.
Fixpoint ins_vote (v : Z * Z) (vs : list (Z * Z)) : list (Z * Z) :=
  match vs with
  | [] => [v]
  | w :: rest => if v.1 <? w.1 then v :: vs else w :: ins_vote v rest
  end.
Fixpoint ins_sorted (x : Z) (l : list Z) : list Z :=
  match l with
  | [] => [x]
  | y :: rest => if x <? y then x :: l else if x =? y then l else y :: ins_sorted x rest
  end.
Definition count_choice (c : Z) (vs : list (Z * Z)) : Z :=
  Z.of_nat (length (filter (fun v => v.2 = c) vs)).
(* CheckRequestExists: ranges over COMMITTED keys, reads the live value *)
Definition request_exists (s : St) (mal : Z) : bool :=
  existsb (fun id => match reqs s !! id with Some r => r_mal r =? mal | None => false end) (ckeys s).

(* CleanTracker: sorted ids of the STORED tracker; deletes later duplicates (same accused) *)
Fixpoint clean_go (ids : list Z) (seen : list Z) (rq : gmap Z Req) : gmap Z Req :=
  match ids with
  | [] => rq
  | id :: rest =>
      match rq !! id with
      | None => clean_go rest seen rq
      | Some r => if inb (r_mal r) seen then clean_go rest (r_mal r :: seen) (delete id rq)
                  else clean_go rest (r_mal r :: seen) rq
      end
  end.
Definition clean (s : St) : St := set_reqs s (clean_go (tracker s) [] (reqs s)).

(* ---------- operations ---------- *)
Inductive Op :=
| OBegin (h t : Z) (low : list Z)
| OAllege (id rep mal bh : Z)
| OVote (id a c : Z)
| ORelease (a : Z)
| OStake (kind v : Z) (envok : bool) (delta : Z)     (* kind 0 stake, 1 unstake, 2 withdraw *)
| OInvalid                                           (* a transaction its handler's Validate refuses (DeliverTx validates since /repo d276709): e.g. not signed by the named validator *)
| OEnd (queue : list (Z * Z)) (order : list Z).      (* EndBlock + Commit *)

Inductive Ev :=
| EvTx (ok : bool)
| EvOpened (id rep mal : Z)
| EvVote (id a c : Z)
| EvVerdict (id mal st yes no req active : Z)
| EvFrozen (a kind h : Z)
| EvPenalty (a stake pen bnty : Z)
| EvReleased (a h t : Z).

(* BeginBlock: CheckMaliciousValidators *)
Definition frozen_keys (s : St) : list Z :=
  filter (fun a => is_frozen s a = true) (map_to_list (susp s)).*1.
Definition scan_one (h t : Z) (c : Cfg) (acc : St * list Z * list Ev) (a : Z) : St * list Z * list Ev :=
  let '(s, m, ev) := acc in
  if inb a m then acc else     (* /repo 5d81591: an existing freeze record is kept *)
  match vstat s !! a with
  | Some v =>
      if v_active v && (v_height v + blockVotesDiff c <=? h) then
        (set_susp s (<[a := {| l_status := MISSED; l_fh := h; l_fat := t; l_rh := 0; l_rat := None |}]> (susp s)),
         a :: m, ev ++ [EvFrozen a MISSED h])
      else acc
  | None => acc
  end.
Definition begin_block (c : Cfg) (s : St) (h t : Z) (low : list Z) : St * list Ev :=
  (* /repo 304e1e1: the frozen validators are collected at every height; only the scan is gated *)
  if h <=? blockVotesDiff c then (set_block s (frozen_keys s) h t, [])
  else
    let '(s1, m, ev) := fold_left (scan_one h t c) low (s, frozen_keys s, []) in
    (set_block s1 m h t, ev).

Definition do_allege (s : St) (id rep mal bh : Z) : St * list Ev :=
  if (bh >? height s) || is_frozen s mal || negb (is_active s rep) || (rep =? mal)
     || bool_decide (is_Some (reqs s !! id)) || request_exists s mal
  then (s, [EvTx false])
  else
    let r := {| r_rep := rep; r_mal := mal; r_h := bh; r_status := VOTING; r_votes := [] |} in
    let s1 := set_reqs s (<[id := r]> (reqs s)) in
    let s2 := clean s1 in                               (* with the stored tracker (id not yet in) *)
    (set_tracker s2 (ins_sorted id (tracker s)), [EvTx true; EvOpened id rep mal]).

Definition do_vote (s : St) (id a c : Z) : St * list Ev :=
  if is_frozen s a || negb (is_active s a) then (s, [EvTx false]) else
  match reqs s !! id with
  | None => (s, [EvTx false])
  | Some r =>
      if negb ((c =? YES) || (c =? NO)) || (r_status r =? GUILTY) || (r_status r =? INNOCENT)
         || voted a (r_votes r)
      then (s, [EvTx false])
      else
        let r' := {| r_rep := r_rep r; r_mal := r_mal r; r_h := r_h r; r_status := r_status r;
                     r_votes := ins_vote (a, c) (r_votes r) |} in
        (set_reqs s (<[id := r']> (reqs s)), [EvTx true; EvVote id a c])
  end.

Definition release_ready (c : Cfg) (l : Lvh) (t : Z) : bool :=
  if l_status l =? MISSED then true
  else if l_status l =? BYZ then t >? l_fat l + releaseDays c * DAY
  else false.
Definition do_release (c : Cfg) (s : St) (a : Z) : St * list Ev :=
  match susp s !! a with
  | None => (s, [EvTx false])
  | Some l =>
      if negb (lvh_frozen l) || negb (release_ready c l (now s)) then (s, [EvTx false])
      else
        let l' := {| l_status := l_status l; l_fh := l_fh l; l_fat := l_fat l;
                     l_rh := height s; l_rat := Some (now s) |} in
        (set_susp s (<[a := l']> (susp s)), [EvTx true; EvReleased a (height s) (now s)])
  end.

Definition do_stake (s : St) (kind v : Z) (envok : bool) (delta : Z) : St * list Ev :=
  if is_frozen s v then (s, [EvTx false])
  else if (kind =? 1) && request_exists s v then (s, [EvTx false])
  else if envok then
    (set_stake s (<[v := default 0 (stake s !! v) + delta]> (stake s)) (bounty s), [EvTx true])
  else (s, [EvTx false]).

(* EndBlock part 1: status records and active count (GetEndBlockUpdate) *)
Definition elect_one (c : Cfg) (mal : list Z) (h : Z) (acc : gmap Z VStat * Z) (q : Z * Z) : gmap Z VStat * Z :=
  let '(vs, cnt) := acc in
  let upd := (minPower c <=? q.2) && (cnt <? topN c) && negb (inb q.1 mal) in
  let vs' := match vs !! q.1 with
             | None => <[q.1 := {| v_active := upd; v_height := h |}]> vs
             | Some v => if Bool.eqb (v_active v) upd then vs
                         else <[q.1 := {| v_active := upd; v_height := h |}]> vs
             end in
  (vs', if upd then cnt + 1 else cnt).
Definition elect (c : Cfg) (s : St) (queue : list (Z * Z)) : gmap Z VStat * Z :=
  fold_left (elect_one c (malicious s) (height s)) queue (vstat s, 0).

(* EndBlock part 2: one request of ExecuteAllegationTracker *)
Definition process_req (c : Cfg) (queue : list (Z * Z)) (active req : Z)
    (acc : St * list Z * list Ev) (id : Z) : St * list Z * list Ev :=
  let '(s, decided, ev) := acc in
  match reqs s !! id with
  | None => acc
  | Some r =>
      let yes := count_choice YES (r_votes r) in
      let no := count_choice NO (r_votes r) in
      if guilty_x c yes req then
        let l := {| l_status := BYZ; l_fh := height s; l_fat := now s; l_rh := 0; l_rat := None |} in
        let s1 := set_susp s (<[r_mal r := l]> (susp s)) in
        let ev1 := ev ++ [EvFrozen (r_mal r) BYZ (height s)] in
        if negb (inb (r_mal r) queue.*1) then (s1, decided, ev1)    (* no validator record: `continue` *)
        else
          let amt := default 0 (stake s1 !! r_mal r) in
          let p := penalty c amt in
          let b := bounty_of c p in
          let s2 := if (0 <=? amt - p) then set_stake s1 (<[r_mal r := amt - p]> (stake s1)) (bounty s1 + b) else s1 in
          let ev2 := ev1 ++ (if (0 <=? amt - p) then [EvPenalty (r_mal r) amt p b] else [])
                         ++ [EvVerdict id (r_mal r) GUILTY yes no req active] in
          (set_reqs s2 (delete id (reqs s2)), id :: decided, ev2)
      else if innocent_x c no req then
        (set_reqs s (delete id (reqs s)), id :: decided,
         ev ++ [EvVerdict id (r_mal r) INNOCENT yes no req active])
      else acc
  end.

(* the order in which the tracker map is ranged over: ids of [order] that are tracked, then the rest *)
Definition range_order (tr order : list Z) : list Z :=
  filter (fun i => inb i tr = true) (remove_dups order)
  ++ filter (fun i => inb i order = false) tr.

Definition end_block (c : Cfg) (s : St) (queue : list (Z * Z)) (order : list Z) : St * list Ev :=
  let fin (x : St) := set_ckeys x (map_to_list (reqs x)).*1 in
  if height s <=? 1 then (fin s, []) else
  let '(vs, active) := elect c s queue in
  let s1 := set_vstat s vs in
  if active =? 0 then (fin s1, []) else
  if (voteDec c <=? 0) || (allegDec c <=? 0) then (fin s1, []) else   (* the tracker returns an error *)
  let s2 := clean s1 in
  let req := required_x c active in
  let '(s3, decided, ev) :=
    fold_left (process_req c queue active req) (range_order (tracker s2) order) (s2, [], []) in
  (fin (set_tracker s3 (filter (fun i => inb i decided = false) (tracker s3))), ev).

Definition step (c : Cfg) (s : St) (o : Op) : St * list Ev :=
  match o with
  | OBegin h t low => begin_block c s h t low
  | OAllege id rep mal bh => do_allege s id rep mal bh
  | OVote id a ch => do_vote s id a ch
  | ORelease a => do_release c s a
  | OStake k v ok d => do_stake s k v ok d
  | OInvalid => (s, [EvTx false])
  | OEnd q ord => end_block c s q ord
  end.

Fixpoint run (c : Cfg) (s : St) (ops : list Op) : St * list Ev :=
  match ops with
  | [] => (s, [])
  | o :: rest => let '(s1, e1) := step c s o in let '(s2, e2) := run c s1 rest in (s2, e1 ++ e2)
  end.

(* ---------- predicates used by the theorems and as known-finding triggers ---------- *)
Definition byz_frozen_m (s : St) (a : Z) : bool :=
  match susp s !! a with Some l => lvh_frozen l && (l_status l =? BYZ) | None => false end.
(* trigger C19.guilty_without_validator_record: the YES votes of request [r] cross the share but the
   accused has no validator record one version back (it unstaked everything, or never was a
   validator): ExecuteAllegationTracker writes the freeze record and leaves the request open *)
Definition guilty_without_record (c : Cfg) (q : list (Z * Z)) (req : Z) (r : Req) : bool :=
  guilty_x c (count_choice YES (r_votes r)) req && negb (inb (r_mal r) q.*1).

(* strict reading of "votes of distinct currently active validators": only the votes of validators
   that are active (elected) at the tally count.  The code counts every stored vote.
   trigger C19.stale_votes_counted: some voter of the request is not active at the tally *)
Definition active_in (vs : gmap Z VStat) (a : Z) : bool :=
  match vs !! a with Some v => v_active v | None => false end.
Definition count_active_choice (vs : gmap Z VStat) (ch : Z) (votes : list (Z * Z)) : Z :=
  Z.of_nat (length (filter (fun v => v.2 = ch /\ active_in vs v.1 = true) votes)).
Definition stale_votes (vs : gmap Z VStat) (votes : list (Z * Z)) : bool :=
  negb (forallb (fun v => active_in vs v.1) votes).
