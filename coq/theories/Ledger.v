(* Ledger.v — the value ledger of the application (C02 no value creation, C03 no unauthorised debit).
   Executable model only; proofs are in proofs/LedgerProofs.v.

   A ledger record is (owner, bucket, currency, sub-key) -> amount in BASE units.  The Go stores
   behind the buckets (data/balance, data/fees, data/delegation, data/network_delegation,
   data/governance/proposal_fund_store) all do the same three things to a record:
     - subtract with a guard  (Coin.Minus / Amount.Minus fail when the result would be negative),
     - add without a guard    (Coin.Plus / Amount.Plus),
     - overwrite with a value computed from the two above.
   A transaction (and a block hook) is a LIST of such primitive operations applied atomically:
   DeliverTx discards the session when the handler or the fee step fails (C06). *)
From stdpp Require Import gmap list.
From Coq Require Import ZArith NArith.
Local Open Scope Z_scope.

Definition key := (N * N * N * N)%type.        (* owner, bucket, currency, sub-key *)
Definition k_owner (k : key) : N := k.1.1.1.
Definition k_bucket (k : key) : N := k.1.1.2.
Definition k_cur (k : key) : N := k.1.2.
Definition k_sub (k : key) : N := k.2.
Definition mk (o b c s : N) : key := (o, b, c, s).

(* buckets — the numbers are shared with harness/c02.go *)
Definition B_BAL : N := 0.        (* b_<addr>_<cur>                       account / pool balance      *)
Definition B_FEE : N := 1.        (* f_<addr>, f_000..                    fee share / fee pool        *)
Definition B_STAKE : N := 2.      (* st__e_<validator>_<delegator>        locked stake (sub=validator)*)
Definition B_UNSTAKE : N := 3.    (* st__m_<height>                       unlocking stake (sub=height)*)
Definition B_WITHDRAW : N := 4.   (* st__d_b_<delegator>                  withdrawable stake          *)
Definition B_UNDELEG : N := 5.    (* deleg_p_<height>_<addr>              undelegating (sub=height)   *)
Definition B_REWBAL : N := 6.     (* delegRwz_balance_<addr>              delegation reward claim     *)
Definition B_REWPEND : N := 7.    (* delegRwz_pending_<height>_<addr>     reward being withdrawn      *)
Definition B_PROPFUND : N := 8.   (* propFunds_i_<proposal>_<addr>        proposal escrow (sub=prop.) *)
Definition B_DELEGACT : N := 9.   (* deleg_a_<addr>  a CLAIM on the delegation pool's balance: part of
                                     the delegator's holdings (C03), not of the chain total (C02)   *)

(* side records (never in a total or in holdings; monitored): validator reward claims on the reward pool's balance *)
Definition B_VREWBAL : N := 10.   (* rwcum_balance_<validator>    matured reward claim   *)
Definition B_VREWWD : N := 11.    (* rwcum_withdrawn_<validator>  withdrawn so far       *)
Definition B_VREWPEND : N := 12.  (* rwz_<validator>_<interval>   interval rewards       *)

(* side record: the wrapped-currency supply counter (balance of ChainDriverOption.TotalSupplyAddr in ETH / tokens): bookkeeping of
   how much is in circulation, not value (C15) *)
Definition B_SUPPLY : N := 14.

(* bid app: the amount locked by the active bid offer of a conversation (no escrow account exists: the value lives in the offer
   record only); owner = the bidder, sub = conversation.  Counted in the chain total and in the bidder's holdings. *)
Definition B_BIDESCROW : N := 13.

Definition CUR_OLT : N := 0.

Notation ledger := (gmap key Z) (only parsing).

Definition lget (l : ledger) (k : key) : Z := default 0 (l !! k).
(* zero records are not kept: a record "0" and an absent record are the same ledger *)
Definition lset (l : ledger) (k : key) (v : Z) : ledger := if v =? 0 then delete k l else <[k:=v]> l.
Definition ladd (l : ledger) (k : key) (v : Z) : ledger := lset l k (lget l k + v).

(* weighted sum of a ledger: every total of the two properties is one of these *)
Definition wsum (w : key -> Z) (l : ledger) : Z := map_fold (fun k v acc => w k * v + acc) 0 l.

(* C02: everything of currency c except the delegation claims *)
Definition tw (c : N) (k : key) : Z :=
  if (k_cur k =? c)%N && negb (k_bucket k =? B_DELEGACT)%N then 1 else 0.
Definition total (c : N) (l : ledger) : Z := wsum (tw c) l.

(* C03: the holdings of account a in currency c: balances, locked / unlocking / withdrawable stake,
   delegated and undelegating amounts, delegation reward claims (not: fee shares, proposal escrow) *)
Definition holding_bucket (b : N) : bool :=
  (b =? B_BAL)%N || (b =? B_STAKE)%N || (b =? B_UNSTAKE)%N || (b =? B_WITHDRAW)%N ||
  (b =? B_UNDELEG)%N || (b =? B_REWBAL)%N || (b =? B_REWPEND)%N || (b =? B_DELEGACT)%N || (b =? B_BIDESCROW)%N.
Definition hw (a c : N) (k : key) : Z :=
  if (k_owner k =? a)%N && (k_cur k =? c)%N && holding_bucket (k_bucket k) then 1 else 0.
Definition holdings (a c : N) (l : ledger) : Z := wsum (hw a c) l.

Definition nonneg (l : ledger) : Prop := forall k, 0 <= lget l k.
Definition nonnegb (l : ledger) : bool := bool_decide (map_Forall (fun _ v => 0 <= v) l).

(* ---------------- primitive operations ---------------- *)
Inductive lop :=
| Move (src dst : key) (v : Z)     (* guarded subtraction at src, addition at dst, same amount *)
| Burn (src : key) (v : Z)         (* guarded subtraction, nothing added                        *)
| Mint (dst : key) (v : Z).        (* addition, nothing subtracted                              *)

Definition apply_op (l : ledger) (o : lop) : option ledger :=
  match o with
  | Move s d v => if lget l s - v <? 0 then None else Some (ladd (ladd l s (- v)) d v)
  | Burn s v => if lget l s - v <? 0 then None else Some (ladd l s (- v))
  | Mint d v => Some (ladd l d v)
  end.

Fixpoint apply_ops (l : ledger) (ops : list lop) : option ledger :=
  match ops with
  | [] => Some l
  | o :: rest => match apply_op l o with
                 | Some l' => apply_ops l' rest
                 | None => None
                 end
  end.

(* a transaction / hook is atomic: one refused operation leaves the ledger as it was *)
Definition run_tx (l : ledger) (ops : list lop) : ledger := default l (apply_ops l ops).

Definition run_block (l : ledger) (txs : list (list lop)) : ledger := fold_left run_tx txs l.
Definition run_history (l : ledger) (blocks : list (list (list lop))) : ledger := fold_left run_block blocks l.

(* net change of a weighted sum caused by an operation list (when it is applied) *)
Definition op_delta (w : key -> Z) (o : lop) : Z :=
  match o with
  | Move s d v => (w d - w s) * v
  | Burn s v => - (w s * v)
  | Mint d v => w d * v
  end.
Definition ops_delta (w : key -> Z) (ops : list lop) : Z := fold_right (fun o acc => op_delta w o + acc) 0 ops.

(* what an operation list creates / destroys in currency c *)
Definition op_mint (c : N) (o : lop) : Z :=
  match o with Mint d v => tw c d * v | Move s d v => (tw c d - tw c s) * v | Burn _ _ => 0 end.
Definition op_burn (c : N) (o : lop) : Z :=
  match o with Burn s v => tw c s * v | _ => 0 end.
Definition minted (c : N) (ops : list lop) : Z := fold_right (fun o acc => op_mint c o + acc) 0 ops.
Definition burned (c : N) (ops : list lop) : Z := fold_right (fun o acc => op_burn c o + acc) 0 ops.

(* a Move is conservative when both ends are counted alike (same currency, both in / both out of the total) *)
Definition conservative (o : lop) : bool :=
  match o with
  | Move s d _ => (k_cur s =? k_cur d)%N && Bool.eqb (k_bucket s =? B_DELEGACT)%N (k_bucket d =? B_DELEGACT)%N
  | _ => true
  end.

(* amounts ADDED to a record are non-negative (then no record can become negative: subtractions are guarded) *)
Definition credit_nonneg (o : lop) : bool :=
  match o with Move _ _ v => 0 <=? v | Burn _ _ => true | Mint _ v => 0 <=? v end.

(* the owners an operation can take from: the source of a positive subtraction, the target of a negative addition *)
Definition op_debited (o : lop) : list N :=
  match o with
  | Move s d v => if 0 <? v then [k_owner s] else if v <? 0 then [k_owner d] else []
  | Burn s v => if 0 <? v then [k_owner s] else []
  | Mint d v => if v <? 0 then [k_owner d] else []
  end.
Definition debited (ops : list lop) : list N := flat_map op_debited ops.

(* movements between one owner's own records *)
Definition own_move (o : lop) : bool :=
  match o with
  | Move s d _ => (k_owner s =? k_owner d)%N && (k_cur s =? k_cur d)%N &&
                  holding_bucket (k_bucket s) && holding_bucket (k_bucket d)
  | _ => false
  end.

Definition inb (a : N) (l : list N) : bool := existsb (N.eqb a) l.
Definition subsetb (a b : list N) : bool := forallb (fun x => inb x b) a.

(* Go narrowing big.Int -> int64 (Amount.ToCoinWithBase, Currency.NewCoinFromInt) *)
Definition wrap64 (z : Z) : Z := ((z + 2 ^ 63) mod 2 ^ 64) - 2 ^ 63.
Definition fits64 (z : Z) : bool := (- 2 ^ 63 <=? z) && (z <? 2 ^ 63).
Definition E18 : Z := 10 ^ 18.
