(* Tracker.v — executable model of the Ethereum lock / redeem machinery (property C15).

   Modelled Go code (Oneledger/protocol):
     data/ethereum/tracker.go     Tracker, NewTracker, AddVote, CheckIfVoted, GetVotes, Finalized, Failed,
                                  Clean, NextStep
     data/ethereum/store.go       the three stores (prefixes ongoing / passed "success" / failed)
     action/eth/ext_lock.go       runLock
     action/eth/ext_redeem.go     runRedeem
     action/eth/check_finalty.go  runCheckFinality, mintTokens, burnTokens, failedLock, refundTokens
     action/transfer/send.go      runTx, for the wrapped currency only (op Transfer)
     app/controller.go            doEthTransitions (one loop iteration = [transition])
     event/eth_lock_transitions.go, event/eth_redeem_transitions.go, utils/transition/engine.go

   Conventions.  Accounts, tracker names and external transactions (byte strings) are numbered by the
   harness (N); account 0 is the empty address and external transaction 0 the empty byte string (what
   Tracker.Clean leaves).  Everything about the Ethereum side is an oracle in [env]: for a byte
   string, its tracker name (common.BytesToHash = last 32 bytes), whether runLock's decoding /
   VerifyLock / contract-address checks accept it and with which value, and what ParseRedeem returns.
   The witness list is what WitnessStore.GetWitnessAddresses returns (written only at genesis).
   A failing handler leaves the state unchanged (that is C06's theorem about the DeliverTx wrapper).
   The field [log] is a ghost: it records where the model credits or debits wrapped tokens and is
   not part of the implementation's state.  No proofs in this file. *)
From stdpp Require Import gmap list.
From Coq Require Import ZArith.
Local Open Scope Z_scope.

Definition acct := N.
Definition name := N.
Definition txid := N.

(* x_ext: the external (Ethereum) transaction the byte string carries — what it decodes to; two
   byte strings that are encodings / padded copies of one transaction have the same x_ext *)
Record txinfo := { x_name : name ; x_ext : N ; x_lock : option Z ; x_redeem : option Z }.

Record env := {
  e_wits : list acct ;      (* registered Ethereum witnesses, store iteration order *)
  e_cap : Z ;               (* ETHCDOption.TotalSupply *)
  e_supply : acct ;         (* ETHCDOption.TotalSupplyAddr: its wrapped balance is the supply counter *)
  e_tx : txid -> txinfo ;   (* the external chain / go-ethereum decoding, as an oracle *)
  e_key : acct -> bool ;    (* the address is the address of a signing key: a transaction naming it as
                               signer can pass action.ValidateBasic (signatures are C04's subject) *)
  e_len20 : acct -> bool    (* keys.Address.Err() = nil: the address is 20 bytes long *)
}.

(* ProcessType and TrackerState constants (data/ethereum/init.go) *)
Definition T_LOCK : Z := 1.
Definition T_REDEEM : Z := 2.
Definition T_LOCKERC : Z := 3.
Definition T_REDEEMERC : Z := 4.
Definition S_NEW : Z := 0.
Definition S_BUSYBROADCASTING : Z := 1.
Definition S_BROADCASTSUCCESS : Z := 2.
Definition S_BUSYFINALIZING : Z := 3.
Definition S_FINALIZED : Z := 4.
Definition S_RELEASED : Z := 5.
Definition S_FAILED : Z := 6.

Record tracker := {
  t_type : Z ; t_state : Z ; t_name : name ; t_tx : txid ;
  t_wit : list acct ; t_owner : acct ; t_votes : list Z
}.

Definition set_state (t : tracker) (st : Z) : tracker :=
  {| t_type := t_type t; t_state := st; t_name := t_name t; t_tx := t_tx t;
     t_wit := t_wit t; t_owner := t_owner t; t_votes := t_votes t |}.
Definition set_votes (t : tracker) (v : list Z) : tracker :=
  {| t_type := t_type t; t_state := t_state t; t_name := t_name t; t_tx := t_tx t;
     t_wit := t_wit t; t_owner := t_owner t; t_votes := v |}.

(* NewTracker: FinalityVotes = make([]Vote, len(witnesses)) *)
Definition new_tracker (ty : Z) (owner : acct) (x : txid) (n : name) (w : list acct) : tracker :=
  {| t_type := ty; t_state := S_NEW; t_name := n; t_tx := x; t_wit := w; t_owner := owner;
     t_votes := replicate (length w) 0 |}.

(* Tracker.Clean *)
Definition clean (t : tracker) : tracker :=
  {| t_type := t_type t; t_state := t_state t; t_name := t_name t; t_tx := 0%N;
     t_wit := []; t_owner := 0%N; t_votes := [] |}.

Fixpoint count (x : Z) (l : list Z) : Z :=
  match l with [] => 0 | y :: r => (if y =? x then 1 else 0) + count x r end.

Definition yes_votes (t : tracker) : Z := count 1 (t_votes t).
Definition no_votes (t : tracker) : Z := count 2 (t_votes t).
(* num := (l * 2 / 3) + 1 *)
Definition threshold (t : tracker) : Z := Z.of_nat (length (t_wit t)) * 2 / 3 + 1.
Definition finalizedb (t : tracker) : bool := threshold t <=? yes_votes t.
Definition failedb (t : tracker) : bool := threshold t <=? no_votes t.

Fixpoint index_of (a : acct) (l : list acct) : option nat :=
  match l with
  | [] => None
  | b :: r => if N.eqb b a then Some 0%nat else option_map S (index_of a r)
  end.

Definition slot (t : tracker) (i : nat) : Z := default 0 (t_votes t !! i).

(* CheckIfVoted: first position of the address among the witnesses; voted iff its slot is > 0 *)
Definition voted (t : tracker) (a : acct) : bool :=
  match index_of a (t_wit t) with Some i => 0 <? slot t i | None => false end.

Definition vote_code (b : bool) : Z := if b then 1 else 2.

Inductive avres := AVErr | AVPanic | AVOk (t : tracker).

(* Tracker.AddVote(addr, index, vote) *)
Definition add_vote (t : tracker) (a : acct) (idx : Z) (v : bool) : avres :=
  if Z.of_nat (length (t_wit t)) <=? idx then AVErr
  else if voted t a then AVErr
  else if idx <? 0 then AVPanic            (* t.Witnesses[index] with a negative index *)
  else
    let i := Z.to_nat idx in
    match t_wit t !! i with
    | Some b => if N.eqb b a then AVOk (set_votes t (<[i := vote_code v]> (t_votes t))) else AVOk t
    | None => AVOk t
    end.

Inductive event :=
| Minted (n : name) (a : acct) (z : Z)
| Refunded (n : name) (a : acct) (z : Z)
| Debited (n : name) (a : acct) (z : Z).

Record state := {
  ongoing : gmap name tracker ;
  passed : gmap name tracker ;
  failed : gmap name tracker ;
  bal : gmap acct Z ;          (* wrapped-ETH balances, the supply address included *)
  log : list event             (* ghost *)
}.

Definition init (b : gmap acct Z) : state :=
  {| ongoing := ∅; passed := ∅; failed := ∅; bal := b; log := [] |}.

Definition balof (b : gmap acct Z) (a : acct) : Z := default 0 (b !! a).
Definition credit (b : gmap acct Z) (a : acct) (z : Z) : gmap acct Z := <[a := balof b a + z]> b.

Definition has (m : gmap name tracker) (n : name) : bool :=
  match m !! n with Some _ => true | None => false end.

Definition upd_ongoing (s : state) (m : gmap name tracker) : state :=
  {| ongoing := m; passed := passed s; failed := failed s; bal := bal s; log := log s |}.

Inductive out := Ok | Fail | Crash.

(* runLock *)
Definition do_lock (E : env) (s : state) (a : acct) (x : txid) : state * out :=
  let info := e_tx E x in
  match x_lock info with
  | None => (s, Fail)
  | Some amt =>
      if negb (balof (bal s) (e_supply E) + amt <=? e_cap E) then (s, Fail)
      else
        let n := x_name info in
        if has (ongoing s) n || has (passed s) n then (s, Fail)
        else
          ({| ongoing := <[n := new_tracker T_LOCK a x n (e_wits E)]> (ongoing s);
              passed := passed s;
              failed := delete n (failed s);
              bal := bal s; log := log s |}, Ok)
  end.

(* runERC20Lock (action/eth/ext_ERC20Lock.go), store effect only: the token checks and the cap are
   folded into the oracle [x_erc_ok]; since /repo 81bf4e3 the handler has runLock's existence rule
   (refused when the name is ongoing or passed; a failed tracker of that name is deleted) — before,
   it had no existence check at all (former finding C15.erc20_lock_no_existence_check).
   Not part of [op]/[step]: the ERC-20 mint/burn side (a second currency) is not modelled. *)
Definition do_lock_erc (E : env) (x_erc_ok : txid -> bool) (s : state) (a : acct) (x : txid) : state * out :=
  if negb (x_erc_ok x) then (s, Fail)
  else
    let n := x_name (e_tx E x) in
    if has (ongoing s) n || has (passed s) n then (s, Fail)
    else
      ({| ongoing := <[n := new_tracker T_LOCKERC a x n (e_wits E)]> (ongoing s);
          passed := passed s;
          failed := delete n (failed s);
          bal := bal s; log := log s |}, Ok).

(* the input class of the former finding: an ERC-20 lock whose name is already in one of the stores *)
Definition erc_relock (E : env) (s : state) (x : txid) : bool :=
  let n := x_name (e_tx E x) in has (ongoing s) n || has (passed s) n || has (failed s) n.

(* runRedeem *)
Definition do_redeem (E : env) (s : state) (a : acct) (x : txid) : state * out :=
  let info := e_tx E x in
  match x_redeem info with
  | None => (s, Fail)
  | Some amt =>
      if balof (bal s) a - amt <? 0 then (s, Fail)
      else
        let b1 := credit (bal s) a (- amt) in
        if balof b1 (e_supply E) - amt <? 0 then (s, Fail)
        else
          let b2 := credit b1 (e_supply E) (- amt) in
          let n := x_name info in
          if has (ongoing s) n || has (failed s) n || has (passed s) n then (s, Fail)
          else
            ({| ongoing := <[n := new_tracker T_REDEEM a x n (e_wits E)]> (ongoing s);
                passed := passed s; failed := failed s;
                bal := b2; log := Debited n a amt :: log s |}, Ok)
  end.

(* runCheckFinality *)
Definition do_report (E : env) (s : state) (n : name) (locker v : acct) (idx : Z) (succ : bool)
  : state * out :=
  match ongoing s !! n with
  | None => (s, Fail)
  | Some t =>
      if finalizedb t || failedb t then (s, Ok)
      else
        match add_vote t v idx succ with
        | AVErr => (s, Fail)
        | AVPanic => (s, Crash)
        | AVOk t' =>
            if finalizedb t' then
              if t_type t' =? T_LOCK then
                (* mintTokens: the beneficiary is tracker.ProcessOwner (since /repo b01fdf0; before, it
                   was the Locker field of THIS report); the report's Locker field is not used *)
                match x_lock (e_tx E (t_tx t')) with
                | None => (s, Fail)
                | Some amt =>
                    ({| ongoing := <[n := set_state t' S_RELEASED]> (ongoing s);
                        passed := passed s; failed := failed s;
                        bal := credit (credit (bal s) (t_owner t') amt) (e_supply E) amt;
                        log := Minted n (t_owner t') amt :: log s |}, Ok)
                end
              else if t_type t' =? T_REDEEM then
                (* burnTokens: the debit happened at redeem time *)
                (upd_ongoing s (<[n := set_state t' S_RELEASED]> (ongoing s)), Ok)
              else (s, Ok)   (* ERC-20 tracker types: never created by the modelled handlers *)
            else if failedb t' then
              if t_type t' =? T_LOCK then
                (upd_ongoing s (<[n := set_state t' S_FAILED]> (ongoing s)), Ok)
              else if t_type t' =? T_REDEEM then
                (* refundTokens: to tracker.ProcessOwner *)
                match x_redeem (e_tx E (t_tx t')) with
                | None => (s, Crash)     (* req is nil: req.Amount is dereferenced before err is looked at *)
                | Some amt =>
                    ({| ongoing := <[n := set_state t' S_FAILED]> (ongoing s);
                        passed := passed s; failed := failed s;
                        bal := credit (credit (bal s) (t_owner t') amt) (e_supply E) amt;
                        log := Refunded n (t_owner t') amt :: log s |}, Ok)
                end
              else (s, Ok)
            else (upd_ongoing s (<[n := t']> (ongoing s)), Ok)
        end
  end.

(* SEND in the wrapped currency *)
Definition do_transfer (s : state) (f t : acct) (amt : Z) : state * out :=
  if amt <? 0 then (s, Fail)
  else if balof (bal s) f - amt <? 0 then (s, Fail)
  else ({| ongoing := ongoing s; passed := passed s; failed := failed s;
           bal := credit (credit (bal s) f (- amt)) t amt; log := log s |}, Ok).

(* what one iteration of doEthTransitions reads from the node it runs on *)
Record nodelocal := {
  nl_witness : bool ;       (* identity.isETHWitness *)
  nl_addr : acct ;          (* the node's validator address *)
  nl_bjob : list name       (* trackers whose broadcast / sign job is in the node's job store *)
}.

Definition inb (n : name) (l : list name) : bool := existsb (N.eqb n) l.

Definition move_to_passed (s : state) (n : name) (t : tracker) : state :=
  {| ongoing := delete n (ongoing s); passed := <[n := clean t]> (passed s); failed := failed s;
     bal := bal s; log := log s |}.
Definition move_to_failed (s : state) (n : name) (t : tracker) : state :=
  {| ongoing := delete n (ongoing s); passed := passed s; failed := <[n := clean t]> (failed s);
     bal := bal s; log := log s |}.

(* One iteration of the loop in doEthTransitions for the ongoing tracker [n].  An error returned by
   the transition function means `continue`: the session is never committed, nothing is written.
   The job-store writes themselves are assumed not to fail; with that, no branch reads [nl] any
   more (the redeem steps VerifyRedeem / RedeemConfirmed can return "failed to get job", but they
   never change the tracker, so the dropped session contains nothing). *)
Definition transition (nl : nodelocal) (s : state) (n : name) : state * out :=
  match ongoing s !! n with
  | None => (s, Ok)
  | Some t =>
      let st := t_state t in
      if (t_type t =? T_LOCK) || (t_type t =? T_LOCKERC) then
        if st =? S_NEW then (upd_ongoing s (<[n := set_state t S_BUSYBROADCASTING]> (ongoing s)), Ok)
        else if st =? S_BUSYBROADCASTING then
          (* Finalizing: the state advances as soon as there is a vote; what the node then does with
             its own job store (look the broadcast job up, schedule a finality check) no longer
             decides anything: since /repo 3dd4152 a missing broadcast job is not an error (before,
             a witness node that had not voted and held no job returned an error and the state
             change was dropped: former finding C15.lock_finalizing_depends_on_local_jobs) *)
          if 0 <? yes_votes t + no_votes t
               then (upd_ongoing s (<[n := set_state t S_BUSYFINALIZING]> (ongoing s)), Ok)
               else (s, Ok)
        else if st =? S_BUSYFINALIZING then
          if finalizedb t then (upd_ongoing s (<[n := set_state t S_FINALIZED]> (ongoing s)), Ok)
          else (s, Ok)
        else if st =? S_FINALIZED then (s, Crash)   (* NextStep = "minting": not registered, Process panics *)
        else if st =? S_RELEASED then (move_to_passed s n t, Ok)
        else if st =? S_FAILED then (move_to_failed s n t, Ok)
        else (s, Ok)
      else if (t_type t =? T_REDEEM) || (t_type t =? T_REDEEMERC) then
        if st =? S_NEW then (upd_ongoing s (<[n := set_state t S_BUSYBROADCASTING]> (ongoing s)), Ok)
        else if st =? S_BUSYBROADCASTING then (s, Ok)   (* VerifyRedeem never changes the state *)
        else if st =? S_BUSYFINALIZING then (s, Ok)
        else if st =? S_FINALIZED then (s, Crash)   (* NextStep = "burn": not registered *)
        else if st =? S_RELEASED then (move_to_passed s n t, Ok)
        else if st =? S_FAILED then (move_to_failed s n t, Ok)
        else (s, Ok)
      else (s, Ok)
  end.

Definition worse (a b : out) : out :=
  match a, b with Crash, _ | _, Crash => Crash | Fail, _ | _, Fail => Fail | _, _ => Ok end.

(* doEthTransitions: the names collected from the ongoing store, in iteration order *)
Fixpoint end_block (nl : nodelocal) (s : state) (names : list name) : state * out :=
  match names with
  | [] => (s, Ok)
  | n :: r => let '(s1, o1) := transition nl s n in
              let '(s2, o2) := end_block nl s1 r in (s2, worse o1 o2)
  end.

Inductive op :=
| Lock (sender : acct) (x : txid)
| Redeem (sender : acct) (x : txid)
| Report (n : name) (locker validator : acct) (idx : Z) (succ : bool)
| Transfer (f t : acct) (amt : Z)
| EndBlock (nl : nodelocal) (names : list name).

Definition step (E : env) (s : state) (o : op) : state * out :=
  match o with
  | Lock a x => do_lock E s a x
  | Redeem a x => do_redeem E s a x
  | Report n l v i b => do_report E s n l v i b
  | Transfer f t z => do_transfer s f t z
  | EndBlock nl names => end_block nl s names
  end.

(* The kind's Validate function, which DeliverTx calls before the handler since /repo d276709 (and
   CheckTx always did): signatures of the named signer (abstracted by [e_key]), and the static field
   checks — report: VoteIndex >= 0; SEND: amount >= 0 and both addresses 20 bytes long.  The fee
   checks (currency, minimal price) concern OLT and are outside this model. *)
Definition valid (E : env) (o : op) : bool :=
  match o with
  | Lock a _ | Redeem a _ => e_key E a
  | Report _ _ v idx _ => e_key E v && (0 <=? idx)
  | Transfer f t z => e_key E f && (0 <=? z) && e_len20 E f && e_len20 E t
  | EndBlock _ _ => true
  end.

(* one delivered transaction / one block end: a transaction that does not validate has no effect *)
Definition vstep (E : env) (s : state) (o : op) : state * out :=
  if valid E o then step E s o else (s, Fail).

(* the handlers accept the byte string as a lock or as a redeem *)
Definition accepted (E : env) (x : txid) : Prop :=
  x_lock (e_tx E x) <> None \/ x_redeem (e_tx E x) <> None.

(* What strict decoding gives (rlp.DecodeBytes in DecodeTransaction: canonical RLP, nothing before or
   after): two ACCEPTED byte strings that carry the same external transaction are the same bytes,
   hence have the same tracker name.  An oracle hypothesis; the generators submit padded,
   re-prefixed and wrapped copies of every kind to test that the code refuses them. *)
Definition ext_canonical (E : env) : Prop :=
  forall x x', accepted E x -> accepted E x' ->
    x_ext (e_tx E x) = x_ext (e_tx E x') -> x_name (e_tx E x) = x_name (e_tx E x').

(* two operations that differ at most in the node-local inputs of a block end *)
Definition op_sim (o o' : op) : Prop :=
  match o, o' with
  | EndBlock _ names, EndBlock _ names' => names = names'
  | _, _ => o = o'
  end.

Definition run (E : env) (s : state) (ops : list op) : state :=
  fold_left (fun s o => (vstep E s o).1) ops s.

(* sum of all wrapped balances, the supply address included *)
Definition tot (b : gmap acct Z) : Z := map_fold (fun _ v acc => v + acc) 0 b.

(* the supply counter equals the wrapped tokens in circulation *)
Definition supply_ok (E : env) (s : state) : Prop :=
  tot (bal s) = 2 * balof (bal s) (e_supply E).

(* trigger predicates of the known findings (boolean, over the step input) *)

(* a report for an ongoing lock tracker that names a Locker other than the tracker's owner (the
   input class of the former finding C15.mint_to_report_locker, fixed by /repo b01fdf0; kept for
   the generator statistics and the regression example) *)
Definition lying_locker (s : state) (o : op) : bool :=
  match o with
  | Report n l _ _ _ =>
      match ongoing s !! n with
      | Some t => (t_type t =? T_LOCK) && negb (N.eqb l (t_owner t))
      | None => false
      end
  | _ => false
  end.

(* C15.supply_address_transacts: the supply address is the source or the target of a wrapped-token
   movement requested by the operation (as sender, as the owner of the tracker a report is about,
   or as an end of a transfer) *)
Definition trig_supply (E : env) (s : state) (o : op) : bool :=
  match o with
  | Lock a _ | Redeem a _ => N.eqb a (e_supply E)
  | Report n _ _ _ _ =>
      match ongoing s !! n with Some t => N.eqb (t_owner t) (e_supply E) | None => false end
  | Transfer f t _ => N.eqb f (e_supply E) || N.eqb t (e_supply E)
  | EndBlock _ _ => false
  end.

(* a history none of whose steps is inside that trigger *)
Fixpoint supply_guarded (E : env) (s : state) (ops : list op) : Prop :=
  match ops with
  | [] => True
  | o :: r => trig_supply E s o = false /\ supply_guarded E (vstep E s o).1 r
  end.

(* no tracker is owned by the supply address *)
Definition owners_not_supply (E : env) (s : state) : Prop :=
  forall n t, ongoing s !! n = Some t -> t_owner t <> e_supply E.

Definition minted_names (l : list event) : list name :=
  omap (fun e => match e with Minted n _ _ => Some n | _ => None end) l.
Definition refunded_names (l : list event) : list name :=
  omap (fun e => match e with Refunded n _ _ => Some n | _ => None end) l.
