(* LedgerCheck.v — executable monitors and comparison helpers of the C02 / C03 checks
   (evaluated with vm_compute on the ledgers decoded from the real application's state). *)
From stdpp Require Import gmap list.
From Coq Require Import ZArith NArith.
From OL Require Import theories.Ledger theories.LedgerTx.
Local Open Scope Z_scope.

(* one ABCI step of the implementation as observed *)
Record step := {
  s_kind : N ;                    (* 0 BeginBlock, 1 DeliverTx, 2 EndBlock *)
  s_ok : bool ;                   (* DeliverTx: code = 0 *)
  s_upd : list (key * Z) ;        (* ledger records that changed in this step: their new value (0 = gone) *)
  s_side : list (key * Z) ;       (* validator reward claim records (buckets 10..12) that changed: their new value *)
  s_allow : Z ;                   (* OLT allowance of the step: increase of the accrual counter delegRwz_total_rewards *)
  s_allowc : list (N * Z) ;       (* allowance of the step in wrapped currencies: (currency, amount) - the value of a lock whose mint
                                     happens in this step / what the failed redeem being refunded in this step had burnt *)
  s_auth : list N ;               (* owners with authority in this step: accounts whose signature on the (successful)
                                     transaction verifies, the stake address of a signing validator; EndBlock: the stake
                                     address of a validator that received a guilty verdict *)
  s_tk : N ;                      (* DeliverTx: transaction kind (K_* of LedgerTx.v; 0 = other) *)
  s_amt : Z ;                     (* DeliverTx: the amount field of the payload (0 when the kind has none) *)
  s_fin : list N ;                (* EndBlock: proposals (sub-keys) finalised in this step *)
  s_m : option (gmap key Z -> option (list lop))
                                  (* the model of this step when its kind is modelled: from the ledger before the step to
                                     the operation list (None = the model's Validate / handler guard rejects) *)
}.

Record case := {
  c_eoa : list N ;                (* externally owned accounts (owner indices) *)
  c_ncur : N ;                    (* number of currencies seen *)
  c_gen : list (key * Z) ;        (* ledger after InitChain *)
  c_gen_side : list (key * Z) ;   (* validator reward claim records after InitChain *)
  c_steps : list step
}.

Definition apply_upd (l : ledger) (u : list (key * Z)) : ledger :=
  fold_left (fun l kv => lset l kv.1 kv.2) u l.

Definition curs (n : N) : list N := map N.of_nat (seq 0 (N.to_nat n)).

(* changed records of a step as (key, old value, new value); the change of a weighted sum is computed from them
   (LedgerProofs.wsum_lset: wsum w (lset l k v) = wsum w l + w k * (v - lget l k)) *)
Definition changes (before : ledger) (u : list (key * Z)) : list (key * Z * Z) :=
  (fix go l u := match u with
                 | [] => []
                 | kv :: rest => (kv.1, lget l kv.1, kv.2) :: go (lset l kv.1 kv.2) rest
                 end) before u.
Definition wdelta (w : key -> Z) (ch : list (key * Z * Z)) : Z :=
  fold_right (fun x acc => w x.1.1 * (x.2 - x.1.2) + acc) 0 ch.

(* ---- known-finding triggers: Coq-defined predicates over the step input ---- *)
(* C02.proposal_fund_negative: PROPOSAL_FUND carrying a negative amount (accepted by Validate and by the handler) *)
Definition trig_neg_prop_fund (s : step) : bool :=
  (s_kind s =? 1)%N && (s_tk s =? K_PROPOSAL_FUND)%N && (s_amt s <? 0).
(* C02.finalize_stale_fund_records (root cause C14.stale_fund_records): two or more proposals finalised in one EndBlock *)
Definition trig_multi_finalize (s : step) : bool :=
  (s_kind s =? 2)%N && (2 <=? length (s_fin s))%nat.
(* C03.withdraw_funds_negative / C02.withdraw_funds_negative: PROPOSAL_WITHDRAW_FUNDS carrying a negative amount
   (no sign check in Validate or handler): the BENEFICIARY named in the payload is debited, unguarded *)
Definition trig_neg_withdraw_funds (s : step) : bool :=
  (s_kind s =? 1)%N && (s_tk s =? K_PROPOSAL_WITHDRAW_FUNDS)%N && (s_amt s <? 0).
Definition stale_funds (after : ledger) (fin : list N) : Z :=
  wsum (fun k => if (k_bucket k =? B_PROPFUND)%N && inb (k_sub k) fin then 1 else 0) after.

(* ---- monitor classes ----
   1  a DeliverTx step increased the total of a currency            (detail: currency, increase)
   2  a BeginBlock step increased a total by more than its allowance
   3  an EndBlock step increased a total
   4  across a block a total increased by more than the block's allowance
   5  a stored amount is negative                                   (detail: owner, bucket)
   6  across a block the holdings of an externally owned account decreased and the account has no
      authority in the block                                        (detail: owner, currency)
   7  in one step the holdings of an externally owned account decreased and the account has no
      authority in that step                                        (detail: owner, currency)
   13 / 14  = 3 / 4 inside the trigger region of C02.finalize_stale_fund_records with the recorded effect
            (the increase is at most the fund records left behind for the proposals finalised in the step)
   15 = 5 for a proposal-fund record made negative by a C02.proposal_fund_negative transaction
   25 = 5 for a balance made negative by a C02.withdraw_funds_negative transaction
   8  a DeliverTx step RAISED a matured validator reward claim (rwcum_balance_): claims grow in BeginBlock only
      (detail: owner, increase); negative side records are reported as class 5 with their bucket
   16 / 17 = 6 / 7 for an account debited as the beneficiary of a C03.withdraw_funds_negative transaction *)
Definition allowance_c (ac : list (N * Z)) (c : N) : Z :=
  fold_right (fun x acc => if (x.1 =? c)%N then x.2 + acc else acc) 0 ac.
Definition allowance (ac : list (N * Z)) (c : N) (a : Z) : Z := (if (c =? CUR_OLT)%N then a else 0) + allowance_c ac c.

Definition total_viol (cl : nat) (ncur : N) (ch : list (key * Z * Z)) (ac : list (N * Z)) (allow : Z) (slack : Z) : list (nat * Z * Z) :=
  let allowance := allowance ac in
  flat_map (fun c => let d := wdelta (tw c) ch in
                     if allowance c allow <? d
                     then [(if (c =? CUR_OLT)%N && (d <=? allowance c allow + slack) then (cl + 10)%nat else cl, Z.of_N c, d)]
                     else []) (curs ncur).

Definition taint_class (taint : list (key * nat)) (k : key) : nat :=
  match find (fun x => bool_decide (x.1 = k)) taint with Some x => x.2 | None => 5%nat end.
Definition neg_viol (taint : list (key * nat)) (u : list (key * Z)) : list (nat * Z * Z) :=
  flat_map (fun kv => if kv.2 <? 0
                      then [(taint_class taint kv.1, Z.of_N (k_owner kv.1), Z.of_N (k_bucket kv.1))]
                      else []) u.

Definition debit_viol (cl : nat) (eoa : list N) (ncur : N) (ch : list (key * Z * Z)) (auth kauth : list N) : list (nat * Z * Z) :=
  let touched := map (fun x => k_owner x.1.1) ch in
  flat_map (fun a => if inb a auth || negb (inb a touched) then [] else
    flat_map (fun c => if wdelta (hw a c) ch <? 0 then [(if inb a kauth then (cl + 10)%nat else cl, Z.of_N a, Z.of_N c)] else [])
             (curs ncur)) eoa.

Definition claim_viol (kind : N) (sch : list (key * Z * Z)) : list (nat * Z * Z) :=
  if (kind =? 1)%N
  then flat_map (fun x => if (k_bucket x.1.1 =? B_VREWBAL)%N && (x.1.2 <? x.2) then [(8%nat, Z.of_N (k_owner x.1.1), x.2 - x.1.2)] else []) sch
  else [].

Record mstate := { m_ballowc : list (N * Z) ; m_side : ledger ; m_cur : ledger ; m_bch : list (key * Z * Z) ; m_ballow : Z ; m_bauth : list N ;
                   m_bslack : Z ; m_taint : list (key * nat) ; m_bkauth : list N }.

Definition step_viol (c : case) (m : mstate) (s : step) : list (nat * Z * Z) * mstate :=
  let before := m_cur m in
  let after := apply_upd before (s_upd s) in
  let ch := changes before (s_upd s) in
  let kind := s_kind s in
  let fresh := (kind =? 0)%N in
  let bch := ch ++ (if fresh then [] else m_bch m) in
  let ballow := (if fresh then 0 else m_ballow m) + s_allow s in
  let bauth := s_auth s ++ (if fresh then [] else m_bauth m) in
  let slack := if trig_multi_finalize s then Z.max 0 (stale_funds after (s_fin s)) else 0 in
  let bslack := (if fresh then 0 else m_bslack m) + slack in
  let taint := if trig_neg_prop_fund s
               then map (fun kv => (kv.1, 15%nat)) (filter (fun kv => (k_bucket kv.1 =? B_PROPFUND)%N && (kv.2 <? 0)) (s_upd s)) ++ m_taint m
               else if trig_neg_withdraw_funds s
               then map (fun kv => (kv.1, 25%nat)) (filter (fun kv => (k_bucket kv.1 =? B_BAL)%N && (kv.2 <? 0)) (s_upd s)) ++ m_taint m
               else m_taint m in
  let kauth := if trig_neg_withdraw_funds s
               then map (fun x => k_owner x.1.1) (filter (fun x => (k_bucket x.1.1 =? B_BAL)%N && (x.2 <? x.1.2)) ch) else [] in
  let bkauth := kauth ++ (if fresh then [] else m_bkauth m) in
  let ballowc := s_allowc s ++ (if fresh then [] else m_ballowc m) in
  let v1 := if (kind =? 1)%N then total_viol 1 (c_ncur c) ch (s_allowc s) 0 0
            else if (kind =? 0)%N then total_viol 2 (c_ncur c) ch (s_allowc s) (s_allow s) 0
            else total_viol 3 (c_ncur c) ch (s_allowc s) 0 slack in
  let sch := changes (m_side m) (s_side s) in
  let v5 := neg_viol taint (s_upd s) ++ neg_viol [] (s_side s) ++ claim_viol kind sch in
  let v7 := debit_viol 7 (c_eoa c) (c_ncur c) ch (s_auth s) kauth in
  let vblock := if (kind =? 2)%N
                then total_viol 4 (c_ncur c) bch ballowc ballow bslack
                     ++ debit_viol 6 (c_eoa c) (c_ncur c) bch bauth bkauth
                else [] in
  (v1 ++ v5 ++ v7 ++ vblock,
   {| m_ballowc := ballowc ; m_side := apply_upd (m_side m) (s_side s) ; m_cur := after ; m_bch := bch ; m_ballow := ballow ; m_bauth := bauth ; m_bslack := bslack ; m_taint := taint ; m_bkauth := bkauth |}).

Fixpoint monitor (c : case) (i : nat) (m : mstate) (ss : list step) : list (nat * nat * Z * Z) :=
  match ss with
  | [] => []
  | s :: rest => let '(v, m') := step_viol c m s in
                 map (fun x => (i, x.1.1, x.1.2, x.2)) v ++ monitor c (S i) m' rest
  end.

Definition case_monitor (c : case) : list (nat * nat * Z * Z) :=
  let g := apply_upd ∅ (c_gen c) in
  map (fun x => (0%nat, x.1.1, x.1.2, x.2)) (neg_viol [] (c_gen c) ++ neg_viol [] (c_gen_side c)) ++
  monitor c 1 {| m_ballowc := [] ; m_side := apply_upd ∅ (c_gen_side c) ; m_cur := g ; m_bch := [] ; m_ballow := 0 ; m_bauth := [] ; m_bslack := 0 ; m_taint := [] ; m_bkauth := [] |} (c_steps c).

Fixpoint monitor_all (i : nat) (cs : list case) : list Z :=
  match cs with
  | [] => []
  | c :: rest => flat_map (fun x => [Z.of_nat i; Z.of_nat x.1.1.1; Z.of_nat x.1.1.2; x.1.2; x.2]) (case_monitor c)
                 ++ monitor_all (S i) rest
  end.

(* per case: did a known-finding trigger fire? [neg proposal fund; multi finalize; neg withdraw funds] *)
Definition case_triggers (c : case) : list Z :=
  [ if existsb trig_neg_prop_fund (c_steps c) then 1 else 0 ;
    if existsb trig_multi_finalize (c_steps c) then 1 else 0 ;
    if existsb trig_neg_withdraw_funds (c_steps c) then 1 else 0 ].

(* ---- correspondence: the modelled operation list applied to the observed ledger before the step
   must give the observed ledger after it.
   result per modelled step: 0 = agrees; 1 = the step succeeded but the model's ledger differs;
   2 = the step succeeded but the model refuses it; 3 = the step failed and the ledger changed (C06);
   4 = the step failed although the model's operation list applies (the failure has a non-ledger cause
       the effect function does not decide: reported as statistics, not as a mismatch) *)
Definition step_corr (before : ledger) (s : step) : option nat :=
  let after := apply_upd before (s_upd s) in
  match s_m s with
  | None => None
  | Some f =>
      Some (if s_ok s then
              match f before with
              | Some ops => match apply_ops before ops with
                            | Some l' => if bool_decide (l' = after) then 0%nat else 1%nat
                            | None => 2%nat
                            end
              | None => 2%nat
              end
            else if negb (bool_decide (after = before)) then 3%nat
            else match f before with
                 | Some ops => match apply_ops before ops with Some _ => 4%nat | None => 0%nat end
                 | None => 0%nat
                 end)
  end.

Fixpoint corr (i : nat) (cur : ledger) (ss : list step) : list (nat * nat) :=
  match ss with
  | [] => []
  | s :: rest => let after := apply_upd cur (s_upd s) in
                 match step_corr cur s with
                 | Some r => (i, r) :: corr (S i) after rest
                 | None => corr (S i) after rest
                 end
  end.

Fixpoint corr_all (i : nat) (cs : list case) : list Z :=
  match cs with
  | [] => []
  | c :: rest => flat_map (fun x => [Z.of_nat i; Z.of_nat x.1; Z.of_nat x.2]) (corr 1 (apply_upd ∅ (c_gen c)) (c_steps c))
                 ++ corr_all (S i) rest
  end.
