(* StoreCheck.v — executable comparison functions used by the correspondence check
   (evaluated with vm_compute on the traces the Go harness records from storage.State). *)
From stdpp Require Import gmap list.
From Coq Require Import ZArith.
From OL Require Import theories.Store theories.StoreSpec.
Local Open Scope Z_scope.

Definition val_eqb (a b : val) : bool := bool_decide (a = b).
Definition oval_eqb (a b : option val) : bool := bool_decide (a = b).

Definition out_eqb (a b : out) : bool :=
  match a, b with
  | OVal x, OVal y => oval_eqb x y
  | OBool x, OBool y => Bool.eqb x y
  | OErr, OErr | OUnit, OUnit | OPanic, OPanic => true
  | OVersion x, OVersion y => x =? y
  | _, _ => false
  end.

Fixpoint outs_eqb (a b : list out) : bool :=
  match a, b with
  | [], [] => true
  | x :: a', y :: b' => out_eqb x y && outs_eqb a' b'
  | _, _ => false
  end.

Definition gas_okb (s : state) : bool :=
  match gas s with None => true | Some g => gused g + CHECKEXIST <? glimit g end.
Definition op_okb (o : op) : bool :=
  match o with Set_ _ v => negb (is_tomb v) | _ => true end.
Fixpoint guardedb (s : state) (ops : list op) : bool :=
  match ops with
  | [] => true
  | o :: rest => gas_okb s && op_okb o && guardedb (step s o).2 rest
  end.

(* ---------- what must not influence the root hash ----------
   [strip]: the operation sequence without reads, existence checks, versioned reads and without
   the sessions that end up discarded (explicitly, or implicitly by a new BeginTx / BlockCommit /
   Fresh / Reopen, or never closed).  A committed session is re-emitted as one contiguous
   BeginTx ; its writes ; CommitTx at the place of its CommitTx.  [pend] = the writes of the
   currently open session.  The harness runs a second REAL store on [strip ops] and compares the
   root hash after every commit; props/C09.v proves that the model's tree calls agree. *)
Fixpoint strip_aux (pend : option (list op)) (ops : list op) : list op :=
  match ops with
  | [] => []
  | o :: rest =>
      match o with
      | Get _ | Exists_ _ | GetVersioned _ _ => strip_aux pend rest
      | BeginTx => strip_aux (Some []) rest
      | DiscardTx => strip_aux None rest
      | CommitTx =>
          match pend with
          | Some p => BeginTx :: p ++ CommitTx :: strip_aux None rest
          | None => strip_aux None rest
          end
      | Set_ _ _ | Delete _ =>
          match pend with
          | Some p => strip_aux (Some (p ++ [o])) rest
          | None => o :: strip_aux None rest
          end
      | Write => Write :: strip_aux pend rest
      | BlockCommit | Fresh _ | Reopen => o :: strip_aux None rest
      end
  end.
Definition strip (ops : list op) : list op := strip_aux None ops.

Definition op_eqb (a b : op) : bool :=
  match a, b with
  | Get x, Get y | Exists_ x, Exists_ y | Delete x, Delete y => N.eqb x y
  | Set_ x v, Set_ y w => N.eqb x y && val_eqb v w
  | BeginTx, BeginTx | CommitTx, CommitTx | DiscardTx, DiscardTx | Write, Write
  | BlockCommit, BlockCommit | Reopen, Reopen => true
  | GetVersioned i x, GetVersioned j y => (i =? j) && N.eqb x y
  | Fresh None, Fresh None => true
  | Fresh (Some i), Fresh (Some j) => i =? j
  | _, _ => false
  end.
Fixpoint ops_eqb (a b : list op) : bool :=
  match a, b with
  | [], [] => true
  | x :: a', y :: b' => op_eqb x y && ops_eqb a' b'
  | _, _ => false
  end.

(* ---------- the calls the model makes on the IAVL tree, in order ----------
   [wlog] grows by the calls of every step; a reopen throws the uncommitted working tree away,
   which the harness' tree twin has to do as well, so it is marked. *)
Inductive tcall := CSet (k : key) (v : val) | CRemove (k : key) | CSave | CReopen.
Definition tcall_of (t : treeop) : tcall :=
  match t with TSet k v => CSet k v | TRemove k => CRemove k | TSave => CSave end.
Fixpoint tree_calls (s : state) (ops : list op) : list tcall :=
  match ops with
  | [] => []
  | o :: rest =>
      let s' := (step s o).2 in
      map tcall_of (drop (length (wlog s)) (wlog s'))
        ++ (match o with Reopen => [CReopen] | _ => [] end) ++ tree_calls s' rest
  end.
Definition tcall_eqb (a b : tcall) : bool :=
  match a, b with
  | CSet x v, CSet y w => N.eqb x y && val_eqb v w
  | CRemove x, CRemove y => N.eqb x y
  | CSave, CSave | CReopen, CReopen => true
  | _, _ => false
  end.
Fixpoint tcalls_eqb (a b : list tcall) : bool :=
  match a, b with
  | [], [] => true
  | x :: a', y :: b' => tcall_eqb x y && tcalls_eqb a' b'
  | _, _ => false
  end.

(* [c_strip]: the sequence the harness ran on the second real store (None: no twin run);
   [c_tlog]: the tree calls the harness fed to a bare real ChainState, whose root hashes it
   compared with the store's (None: not done, e.g. a small gas limit). *)
Record case := { c_rot : rotation ; c_ops : list op ; c_obs : list out ;
                 c_strip : option (list op) ; c_tlog : option (list tcall) }.

(* indexes of the cases whose twin sequence is not [strip] of the sequence *)
Fixpoint strip_mismatches (i : nat) (cs : list case) : list nat :=
  match cs with
  | [] => []
  | c :: rest =>
      match c_strip c with
      | Some l => if ops_eqb (strip (c_ops c)) l then strip_mismatches (S i) rest
                  else i :: strip_mismatches (S i) rest
      | None => strip_mismatches (S i) rest
      end
  end.

(* indexes of the cases whose tree-call list is not the model's (content AND order) *)
Fixpoint tlog_mismatches (i : nat) (cs : list case) : list nat :=
  match cs with
  | [] => []
  | c :: rest =>
      match c_tlog c with
      | Some l => if tcalls_eqb (tree_calls (init (c_rot c)) (c_ops c)) l
                  then tlog_mismatches (S i) rest else i :: tlog_mismatches (S i) rest
      | None => tlog_mismatches (S i) rest
      end
  end.

(* index of the first differing output, if any *)
Fixpoint first_diff (i : nat) (a b : list out) : option nat :=
  match a, b with
  | [], [] => None
  | x :: a', y :: b' => if out_eqb x y then first_diff (S i) a' b' else Some i
  | _, _ => Some i
  end.

(* model vs implementation: (case index, step index) of every disagreement *)
Fixpoint model_mismatches (i : nat) (cs : list case) : list (nat * nat) :=
  match cs with
  | [] => []
  | c :: rest =>
      match first_diff 0 (outputs (init (c_rot c)) (c_ops c)) (c_obs c) with
      | Some j => (i, j) :: model_mismatches (S i) rest
      | None => model_mismatches (S i) rest
      end
  end.

(* content monitor: the first step at which the implementation answers differently from the model
   although it answered like the model on every earlier step (in particular: refused exactly the
   writes the model refuses).  Kind 1 = the step is an UNMETERED read (a versioned read, or a
   read while no gas store is installed: after a block commit / reopen / Fresh None): the content
   of the store is not what the writes that returned success determine (a refused write landed,
   or an accepted one was lost) — outside the known region of C09.gas_exhausted, which is about
   metered reads and refusals while the counter is at its limit.  Kind 0 = anything else. *)
Fixpoint content_diff (s : state) (ops : list op) (obs : list out) (i : nat) : option (nat * nat) :=
  match ops, obs with
  | o :: ops', b :: obs' =>
      let '(r, s') := step s o in
      if out_eqb r b then content_diff s' ops' obs' (S i)
      else Some (i, match o, gas s with
                    | GetVersioned _ _, _ | Get _, None | Exists_ _, None => 1%nat
                    | _, _ => 0%nat
                    end)
  | _, _ => None
  end.
Fixpoint content_violations (i : nat) (cs : list case) : list (nat * nat * nat) :=
  match cs with
  | [] => []
  | c :: rest =>
      match content_diff (init (c_rot c)) (c_ops c) (c_obs c) 0 with
      | Some (j, kd) => (i, j, kd) :: content_violations (S i) rest
      | None => content_violations (S i) rest
      end
  end.

(* the property monitor: the implementation must answer like the spec.  A disagreement is
   classified by what happened before it in the run: 1 = the delete marker was written as a
   value (known trigger C09.tombstone_alias), 2 = the block gas counter had reached its limit
   (known trigger C09.gas_exhausted), 0 = neither: a violation outside the known triggers. *)
Fixpoint classify (s : state) (p : spec) (ops : list op) (obs : list out) (i : nat)
         (tw gb : bool) : option (nat * nat) :=
  match ops, obs with
  | o :: ops', b :: obs' =>
      let gb' := gb || negb (gas_okb s) in
      let tw' := tw || negb (op_okb o) in
      let '(r, p') := spec_step p o in
      if out_eqb r b then classify (step s o).2 p' ops' obs' (S i) tw' gb'
      else Some (i, if tw' then 1%nat else if gb' then 2%nat else 0%nat)
  | _, _ => None
  end.

(* (case index, step index, class) of the first disagreement of every case that has one *)
Fixpoint spec_violations (i : nat) (cs : list case) : list (nat * nat * nat) :=
  match cs with
  | [] => []
  | c :: rest =>
      match classify (init (c_rot c)) (spec_init (c_rot c)) (c_ops c) (c_obs c) 0 false false with
      | Some (j, cl) => (i, j, cl) :: spec_violations (S i) rest
      | None => spec_violations (S i) rest
      end
  end.

Definition count_guarded (cs : list case) : nat :=
  length (filter (fun c => guardedb (init (c_rot c)) (c_ops c) = true) cs).

(* flat printing helpers: the check greps these lines *)
Definition flat1 (l : list nat) : list Z := map Z.of_nat l.
Definition flat2 (l : list (nat * nat)) : list Z :=
  flat_map (fun '(a, b) => [Z.of_nat a; Z.of_nat b]) l.
Definition flat3 (l : list (nat * nat * nat)) : list Z :=
  flat_map (fun '(a, b, c) => [Z.of_nat a; Z.of_nat b; Z.of_nat c]) l.
