(* StoreCheck.v — executable comparison functions used by the correspondence check
   (evaluated with vm_compute on the traces the Go harness records from storage.State). *)
From stdpp Require Import gmap list.
From Coq Require Import ZArith.
From OL Require Import theories.Store theories.StoreSpec.
Local Open Scope Z_scope.

Definition val_eqb (a b : val) : bool := bool_decide (a = b).
Definition oval_eqb (a b : option val) : bool := bool_decide (a = b).

Definition out_eqb (a b : out) : bool :=
  match a, b with
  | OVal x, OVal y => oval_eqb x y
  | OBool x, OBool y => Bool.eqb x y
  | OErr, OErr | OUnit, OUnit | OPanic, OPanic => true
  | OVersion x, OVersion y => x =? y
  | _, _ => false
  end.

Fixpoint outs_eqb (a b : list out) : bool :=
  match a, b with
  | [], [] => true
  | x :: a', y :: b' => out_eqb x y && outs_eqb a' b'
  | _, _ => false
  end.

Definition gas_okb (s : state) : bool :=
  match gas s with None => true | Some g => gused g + CHECKEXIST <? glimit g end.
Definition op_okb (o : op) : bool :=
  match o with Set_ _ v => negb (is_tomb v) | _ => true end.
Fixpoint guardedb (s : state) (ops : list op) : bool :=
  match ops with
  | [] => true
  | o :: rest => gas_okb s && op_okb o && guardedb (step s o).2 rest
  end.

Record case := { c_rot : rotation ; c_ops : list op ; c_obs : list out }.

(* index of the first differing output, if any *)
Fixpoint first_diff (i : nat) (a b : list out) : option nat :=
  match a, b with
  | [], [] => None
  | x :: a', y :: b' => if out_eqb x y then first_diff (S i) a' b' else Some i
  | _, _ => Some i
  end.

(* model vs implementation: (case index, step index) of every disagreement *)
Fixpoint model_mismatches (i : nat) (cs : list case) : list (nat * nat) :=
  match cs with
  | [] => []
  | c :: rest =>
      match first_diff 0 (outputs (init (c_rot c)) (c_ops c)) (c_obs c) with
      | Some j => (i, j) :: model_mismatches (S i) rest
      | None => model_mismatches (S i) rest
      end
  end.

(* the property monitor: the implementation must answer like the spec.  A disagreement is
   classified by what happened before it in the run: 1 = the delete marker was written as a
   value (known trigger C09.tombstone_alias), 2 = the block gas counter had reached its limit
   (known trigger C09.gas_exhausted), 0 = neither: a violation outside the known triggers. *)
Fixpoint classify (s : state) (p : spec) (ops : list op) (obs : list out) (i : nat)
         (tw gb : bool) : option (nat * nat) :=
  match ops, obs with
  | o :: ops', b :: obs' =>
      let gb' := gb || negb (gas_okb s) in
      let tw' := tw || negb (op_okb o) in
      let '(r, p') := spec_step p o in
      if out_eqb r b then classify (step s o).2 p' ops' obs' (S i) tw' gb'
      else Some (i, if tw' then 1%nat else if gb' then 2%nat else 0%nat)
  | _, _ => None
  end.

(* (case index, step index, class) of the first disagreement of every case that has one *)
Fixpoint spec_violations (i : nat) (cs : list case) : list (nat * nat * nat) :=
  match cs with
  | [] => []
  | c :: rest =>
      match classify (init (c_rot c)) (spec_init (c_rot c)) (c_ops c) (c_obs c) 0 false false with
      | Some (j, cl) => (i, j, cl) :: spec_violations (S i) rest
      | None => spec_violations (S i) rest
      end
  end.

Definition count_guarded (cs : list case) : nat :=
  length (filter (fun c => guardedb (init (c_rot c)) (c_ops c) = true) cs).

(* flat printing helpers: the check greps these lines *)
Definition flat2 (l : list (nat * nat)) : list Z :=
  flat_map (fun '(a, b) => [Z.of_nat a; Z.of_nat b]) l.
Definition flat3 (l : list (nat * nat * nat)) : list Z :=
  flat_map (fun '(a, b, c) => [Z.of_nat a; Z.of_nat b; Z.of_nat c]) l.
