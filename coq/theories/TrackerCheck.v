(* TrackerCheck.v — executable comparison and monitor functions for the C15 correspondence check
   (evaluated with vm_compute on the traces the Go harness records from the real application). *)
From stdpp Require Import gmap list.
From Coq Require Import ZArith.
From OL Require Import theories.Tracker.
Local Open Scope Z_scope.

(* what the harness records per step: the result code as ok/fail and the CHANGES of the projected
   state relative to the previous step (entries written / removed in each tracker store, changed
   wrapped balances); the full observed state is rebuilt by [obs_apply] *)
Record obs := {
  o_ok : bool ;
  o_ongoing : list tracker ; o_ongoing_del : list name ;
  o_passed : list tracker ; o_passed_del : list name ;
  o_failed : list tracker ; o_failed_del : list name ;
  o_bal : list (acct * Z)
}.

Record case := {
  c_wits : list acct ; c_cap : Z ; c_supply : acct ;
  c_txs : list (txid * txinfo) ;
  c_keys : list acct ;     (* accounts that are the address of a signing key *)
  c_len20 : list acct ;    (* accounts whose address is 20 bytes long *)
  c_bal0 : list (acct * Z) ;
  c_ops : list op ;
  c_obs : list obs
}.

Definition no_tx : txinfo := {| x_name := 0%N; x_ext := 0%N; x_lock := None; x_redeem := None |}.
Definition tx_lookup (l : list (txid * txinfo)) (x : txid) : txinfo :=
  match find (fun p => N.eqb p.1 x) l with Some p => p.2 | None => no_tx end.

Definition case_env (c : case) : env :=
  {| e_wits := c_wits c; e_cap := c_cap c; e_supply := c_supply c; e_tx := tx_lookup (c_txs c);
     e_key := fun a => existsb (N.eqb a) (c_keys c); e_len20 := fun a => existsb (N.eqb a) (c_len20 c) |}.

Definition list_eqb {A} (eqb : A -> A -> bool) : list A -> list A -> bool :=
  fix go a b := match a, b with
                | [], [] => true
                | x :: a', y :: b' => eqb x y && go a' b'
                | _, _ => false
                end.

Definition tracker_eqb (a b : tracker) : bool :=
  (t_type a =? t_type b) && (t_state a =? t_state b) && N.eqb (t_name a) (t_name b) &&
  N.eqb (t_tx a) (t_tx b) && list_eqb N.eqb (t_wit a) (t_wit b) && N.eqb (t_owner a) (t_owner b) &&
  list_eqb Z.eqb (t_votes a) (t_votes b).

Definition store_apply (m : gmap name tracker) (set : list tracker) (del : list name) : gmap name tracker :=
  foldr (fun t m => <[t_name t := t]> m) (foldr (fun n m => delete n m) m del) set.

Definition obs_apply (prev : state) (o : obs) : state :=
  {| ongoing := store_apply (ongoing prev) (o_ongoing o) (o_ongoing_del o);
     passed := store_apply (passed prev) (o_passed o) (o_passed_del o);
     failed := store_apply (failed prev) (o_failed o) (o_failed_del o);
     bal := foldr (fun p m => <[p.1 := p.2]> m) (bal prev) (o_bal o); log := [] |}.

Definition store_matches (m1 m2 : gmap name tracker) : bool :=
  (Nat.eqb (size m1) (size m2)) &&
  forallb (fun '(n, t) => match m2 !! n with Some t' => tracker_eqb t t' | None => false end) (map_to_list m1).

Definition bal_matches (b1 b2 : gmap acct Z) : bool :=
  forallb (fun '(a, z) => balof b2 a =? z) (map_to_list b1) &&
  forallb (fun '(a, z) => balof b1 a =? z) (map_to_list b2).

Definition out_matches (o : out) (ok : bool) : bool :=
  match o with Ok => ok | Fail => negb ok | Crash => false end.

Definition state_matches (s o : state) : bool :=
  store_matches (ongoing s) (ongoing o) && store_matches (passed s) (passed o) &&
  store_matches (failed s) (failed o) && bal_matches (bal s) (bal o).

(* the names handed to an EndBlock op (the ongoing store as of the last commit) are distinct
   ongoing trackers *)
Definition names_ok (s : state) (o : op) : bool :=
  match o with
  | EndBlock _ names => forallb (has (ongoing s)) names && bool_decide (NoDup names)
  | _ => true
  end.

Fixpoint first_mismatch (E : env) (s prev : state) (ops : list op) (os : list obs) (i : nat) : option nat :=
  match ops, os with
  | o :: ops', b :: os' =>
      let '(s', r) := vstep E s o in
      let cur := obs_apply prev b in
      if names_ok s o && out_matches r (o_ok b) && state_matches s' cur
      then first_mismatch E s' cur ops' os' (S i) else Some i
  | [], [] => None
  | _, _ => Some i
  end.

Fixpoint model_mismatches (i : nat) (cs : list case) : list (nat * nat) :=
  match cs with
  | [] => []
  | c :: rest =>
      match first_mismatch (case_env c) (init (list_to_map (c_bal0 c))) (init (list_to_map (c_bal0 c))) (c_ops c) (c_obs c) 0 with
      | Some j => (i, j) :: model_mismatches (S i) rest
      | None => model_mismatches (S i) rest
      end
  end.

(* ---------- the property monitor, evaluated on what the IMPLEMENTATION did ---------- *)

Definition keys_of (m : gmap name tracker) : list name := map fst (map_to_list m).

(* K1: one tracker per external transaction name across the three stores *)
Definition k_unique (s : state) : bool :=
  forallb (fun n => negb (has (passed s) n) && negb (has (failed s) n)) (keys_of (ongoing s)) &&
  forallb (fun n => negb (has (failed s) n)) (keys_of (passed s)).

(* K2: the supply counter equals the wrapped tokens in circulation *)
Definition k_supply (E : env) (s : state) : bool :=
  tot (bal s) =? 2 * balof (bal s) (e_supply E).

(* a report that is a countable vote on tracker t: the reporter is the recorded witness of the
   slot it names, the slot is empty, and the tracker has not reached a threshold yet *)
Definition genuine_vote (t : tracker) (v : acct) (idx : Z) : bool :=
  (0 <=? idx) && negb (finalizedb t || failedb t) &&
  match t_wit t !! Z.to_nat idx with Some b => N.eqb b v | None => false end &&
  (slot t (Z.to_nat idx) =? 0) && negb (voted t v).

(* K4: recorded fields never change; a vote slot changes only by a genuine vote, to that vote *)
Definition k_votes (pre : state) (o : op) (post : state) : bool :=
  forallb (fun '(n, t) =>
    match ongoing post !! n with
    | None => true
    | Some t' =>
        (t_type t =? t_type t') && N.eqb (t_name t) (t_name t') && N.eqb (t_tx t) (t_tx t') &&
        list_eqb N.eqb (t_wit t) (t_wit t') && N.eqb (t_owner t) (t_owner t') &&
        (list_eqb Z.eqb (t_votes t) (t_votes t') ||
         match o with
         | Report n' _ v idx b =>
             N.eqb n n' && genuine_vote t v idx &&
             list_eqb Z.eqb (t_votes t') (<[Z.to_nat idx := vote_code b]> (t_votes t))
         | _ => false
         end)
    end) (map_to_list (ongoing pre)).

(* K7: a tracker appears in the ongoing store only by an accepted lock / redeem of that name, with
   the current witnesses and empty slots, and never while the name is in any store *)
Definition k_created (E : env) (pre : state) (o : op) (post : state) : bool :=
  forallb (fun '(n, t') =>
    has (ongoing pre) n ||
    (list_eqb N.eqb (t_wit t') (e_wits E) && forallb (Z.eqb 0) (t_votes t') &&
     Nat.eqb (length (t_votes t')) (length (t_wit t')) && (t_state t' =? S_NEW) &&
     match o with
     | Lock a x => N.eqb (x_name (e_tx E x)) n && N.eqb (t_owner t') a && N.eqb (t_tx t') x &&
                   (t_type t' =? T_LOCK) && negb (has (passed pre) n) &&
                   match x_lock (e_tx E x) with Some _ => true | None => false end
     | Redeem a x => N.eqb (x_name (e_tx E x)) n && N.eqb (t_owner t') a && N.eqb (t_tx t') x &&
                     (t_type t' =? T_REDEEM) && negb (has (passed pre) n) && negb (has (failed pre) n) &&
                     match x_redeem (e_tx E x) with
                     | Some amt => N.eqb a (e_supply E) || (balof (bal post) a =? balof (bal pre) a - amt)
                     | None => false
                     end
     | _ => false
     end)) (map_to_list (ongoing post)).

(* K3: every change of a wrapped balance is justified.  Result per account: 0 fine, 1 violation,
   2 violation with the signature of the repaired defect C15.mint_to_report_locker (the exact
   locked amount went to the Locker named in the threshold-crossing report instead of the owner). *)
Definition k_balance_one (E : env) (pre : state) (o : op) (post : state) (a : acct) : nat :=
  let d := balof (bal post) a - balof (bal pre) a in
  if d =? 0 then 0%nat
  else
    match o with
    | Transfer f t z =>
        if (0 <=? z) && (balof (bal pre) f - z >=? 0) &&
           ((N.eqb a f && N.eqb a t) || (N.eqb a f && (d =? - z)) || (N.eqb a t && (d =? z)))
        then 0%nat else 1%nat
    | Redeem snd x =>
        let info := e_tx E x in
        match x_redeem info with
        | Some amt =>
            if (d =? - amt) && (N.eqb a snd || N.eqb a (e_supply E)) &&
               negb (has (ongoing pre) (x_name info)) && has (ongoing post) (x_name info) &&
               (0 <=? balof (bal post) a)
            then 0%nat else 1%nat
        | None => 1%nat
        end
    | Report n l v idx b =>
        match ongoing pre !! n with
        | None => 1%nat
        | Some t =>
            if negb (genuine_vote t v idx) then 1%nat
            else if b && (t_type t =? T_LOCK) then
              match x_lock (e_tx E (t_tx t)) with
              | Some amt =>
                  if (yes_votes t <? threshold t) && (threshold t <=? yes_votes t + 1) && (d =? amt) &&
                     negb (existsb (N.eqb n) (keys_of (passed pre)))
                  then if N.eqb a (e_supply E) || N.eqb a (t_owner t) then 0%nat
                       else if N.eqb a l then 2%nat else 1%nat
                  else 1%nat
              | None => 1%nat
              end
            else if negb b && (t_type t =? T_REDEEM) then
              match x_redeem (e_tx E (t_tx t)) with
              | Some amt =>
                  if (no_votes t <? threshold t) && (threshold t <=? no_votes t + 1) && (d =? amt) &&
                     (N.eqb a (e_supply E) || N.eqb a (t_owner t))
                  then 0%nat else 1%nat
              | None => 1%nat
              end
            else 1%nat
        end
    | _ => 1%nat
    end.

Definition accounts_of (pre post : state) : list acct :=
  map fst (map_to_list (bal pre)) ++ map fst (map_to_list (bal post)).

Definition k_balance (E : env) (pre : state) (o : op) (post : state) : nat :=
  fold_left (fun acc a => Nat.max acc (k_balance_one E pre o post a)) (accounts_of pre post) 0%nat.

(* K6: the mint / refund happens in the step that crosses the threshold *)
Definition k_crossing (E : env) (pre : state) (o : op) (post : state) (ok : bool) : bool :=
  match o with
  | Report n l v idx b =>
      match ongoing pre !! n with
      | Some t =>
          if ok && genuine_vote t v idx then
            if b && (t_type t =? T_LOCK) && (threshold t <=? yes_votes t + 1) then
              match x_lock (e_tx E (t_tx t)), ongoing post !! n with
              | Some amt, Some t' =>
                  (t_state t' =? S_RELEASED) &&
                  ((amt =? 0) || negb (balof (bal post) (e_supply E) =? balof (bal pre) (e_supply E)))
              | _, _ => false
              end
            else if negb b && (t_type t =? T_REDEEM) && (threshold t <=? no_votes t + 1) then
              match x_redeem (e_tx E (t_tx t)), ongoing post !! n with
              | Some amt, Some t' =>
                  (t_state t' =? S_FAILED) &&
                  ((amt =? 0) || negb (balof (bal post) (e_supply E) =? balof (bal pre) (e_supply E)))
              | _, _ => false
              end
            else true
          else true
      | None => true
      end
  | _ => true
  end.

(* K5: at most one mint and one refund per name over the whole run (names accumulate) *)
Definition pays (pre : state) (o : op) (post : state) : option (bool * name) :=
  match o with
  | Report n _ _ _ b =>
      if existsb (fun a => negb (balof (bal post) a =? balof (bal pre) a)) (accounts_of pre post)
      then Some (b, n) else None
  | _ => None
  end.

(* (check id, class): class 0 = violation outside the known triggers, 2 = C15.supply_address_transacts;
   check id 8 = check 3 failing with the signature of the repaired defect C15.mint_to_report_locker *)
Definition step_findings (E : env) (touched : bool) (minted refunded : list name)
           (pre : state) (o : op) (post : state) (ok : bool) : list (nat * nat) :=
  let here := trig_supply E pre o in
  let sup := touched || here in
  (if k_unique post then [] else [(1%nat, 0%nat)]) ++
  (if k_supply E post || negb (k_supply E pre) then [] else [(2%nat, if sup then 2%nat else 0%nat)]) ++
  (if here then [] else
     match k_balance E pre o post with
     | 0%nat => []
     | 2%nat => [(8%nat, 0%nat)]
     | _ => [(3%nat, 0%nat)]
     end) ++
  (if k_votes pre o post then [] else [(4%nat, 0%nat)]) ++
  (match pays pre o post with
   | Some (true, n) => if inb n minted then [(5%nat, 0%nat)] else []
   | Some (false, n) => if inb n refunded then [(5%nat, 0%nat)] else []
   | None => []
   end) ++
  (if k_crossing E pre o post ok then [] else [(6%nat, 0%nat)]) ++
  (if k_created E pre o post then [] else [(7%nat, 0%nat)]) ++
  (* K9: a transaction that its kind's Validate refuses has no effect *)
  (if valid E o || (negb ok && state_matches pre post) then [] else [(9%nat, 0%nat)]).

(* K11: over all trackers ever created, the external transaction is unique: a tracker that appears
   in the ongoing store (or whose recorded bytes change) must not carry an external transaction
   that a tracker of ANOTHER name was created for.  [born] accumulates (name, external tx). *)
Definition newborn (E : env) (pre post : state) : list (name * N) :=
  omap (fun '(n, t') =>
          match ongoing pre !! n with
          | Some t => if N.eqb (t_tx t) (t_tx t') then None else Some (n, x_ext (e_tx E (t_tx t')))
          | None => Some (n, x_ext (e_tx E (t_tx t')))
          end) (map_to_list (ongoing post)).
Definition k_ext_unique (born fresh : list (name * N)) : bool :=
  forallb (fun '(n, e) => negb (existsb (fun '(n', e') => N.eqb e e' && negb (N.eqb n n')) born)) fresh.
(* K12: at most one mint per external transaction *)
Definition mint_ext (E : env) (pre : state) (o : op) (post : state) : option N :=
  match pays pre o post with
  | Some (true, n) => match ongoing pre !! n with Some t => Some (x_ext (e_tx E (t_tx t))) | None => None end
  | _ => None
  end.

(* K13: the refund of a redeem tracker equals what its owner was debited when the tracker was
   created — both read off the OBSERVED balances of the owner (no oracle involved).  [debits]
   accumulates (name, observed debit) at every accepted redeem that creates a tracker. *)
Definition redeem_debit (E : env) (pre : state) (o : op) (post : state) : option (name * Z) :=
  match o with
  | Redeem a x =>
      let n := x_name (e_tx E x) in
      if negb (has (ongoing pre) n) && has (ongoing post) n && negb (N.eqb a (e_supply E))
      then Some (n, balof (bal pre) a - balof (bal post) a) else None
  | _ => None
  end.
Definition k_refund_eq_debit (E : env) (debits : list (name * Z)) (pre : state) (o : op) (post : state) : bool :=
  match pays pre o post, o with
  | Some (false, n), Report _ _ _ _ _ =>
      match ongoing pre !! n with
      | Some t =>
          if (t_type t =? T_REDEEM) && negb (N.eqb (t_owner t) (e_supply E)) then
            match find (fun p => N.eqb p.1 n) debits with
            | Some (_, d) => balof (bal post) (t_owner t) - balof (bal pre) (t_owner t) =? d
            | None => false
            end
          else true
      | None => true
      end
  | _, _ => true
  end.

Fixpoint monitor_ext (E : env) (born : list (name * N)) (mext : list N) (debits : list (name * Z)) (pre : state)
         (ops : list op) (os : list obs) (i : nat) : list (nat * nat * nat) :=
  match ops, os with
  | o :: ops', b :: os' =>
      let post := obs_apply pre b in
      let fresh := newborn E pre post in
      let me := mint_ext E pre o post in
      (if k_ext_unique born fresh then [] else [(i, 11%nat, 0%nat)]) ++
      (match me with Some e => if existsb (N.eqb e) mext then [(i, 12%nat, 0%nat)] else [] | None => [] end) ++
      (if k_refund_eq_debit E debits pre o post then [] else [(i, 13%nat, 0%nat)]) ++
      monitor_ext E (fresh ++ born) (match me with Some e => e :: mext | None => mext end)
                  (match redeem_debit E pre o post with Some p => p :: debits | None => debits end) post ops' os' (S i)
  | _, _ => []
  end.

Fixpoint monitor (E : env) (touched : bool) (minted refunded : list name) (pre : state)
         (ops : list op) (os : list obs) (i : nat) : list (nat * nat * nat) :=
  match ops, os with
  | o :: ops', b :: os' =>
      let post := obs_apply pre b in
      let f := step_findings E touched minted refunded pre o post (o_ok b) in
      let minted' := match pays pre o post with Some (true, n) => n :: minted | _ => minted end in
      let refunded' := match pays pre o post with Some (false, n) => n :: refunded | _ => refunded end in
      map (fun '(k, cl) => (i, k, cl)) f ++
      monitor E (touched || trig_supply E pre o) minted' refunded' post ops' os' (S i)
  | _, _ => []
  end.

(* (case, step, check id, class) *)
Fixpoint spec_violations (i : nat) (cs : list case) : list (nat * nat * nat * nat) :=
  match cs with
  | [] => []
  | c :: rest =>
      map (fun '(j, k, cl) => (i, j, k, cl))
          (monitor (case_env c) false [] [] (init (list_to_map (c_bal0 c))) (c_ops c) (c_obs c) 0 ++
           monitor_ext (case_env c) [] [] [] (init (list_to_map (c_bal0 c))) (c_ops c) (c_obs c) 0) ++
      spec_violations (S i) rest
  end.

(* measured generator quality: genuine votes, crossings to yes, crossings to no, lying-locker
   crossings, steps inside the supply trigger, on the MODEL run *)
Fixpoint stats_run (E : env) (s : state) (ops : list op) (acc : list Z) : list Z :=
  match ops, acc with
  | o :: ops', [g; cy; cn; ll; ts] =>
      let s' := (vstep E s o).1 in
      let acc' :=
        match o with
        | Report n l v idx b =>
            match ongoing s !! n with
            | Some t =>
                let gv := genuine_vote t v idx in
                let crossy := gv && b && (threshold t <=? yes_votes t + 1) in
                let crossn := gv && negb b && (threshold t <=? no_votes t + 1) in
                [g + (if gv then 1 else 0); cy + (if crossy then 1 else 0); cn + (if crossn then 1 else 0);
                 ll + (if crossy && lying_locker s o then 1 else 0); ts + (if trig_supply E s o then 1 else 0)]
            | None => [g; cy; cn; ll; ts + (if trig_supply E s o then 1 else 0)]
            end
        | _ => [g; cy; cn; ll; ts + (if trig_supply E s o then 1 else 0)]
        end in
      stats_run E s' ops' acc'
  | _, _ => acc
  end.

Fixpoint case_stats (cs : list case) : list Z :=
  match cs with
  | [] => [0; 0; 0; 0; 0]
  | c :: rest =>
      let a := stats_run (case_env c) (init (list_to_map (c_bal0 c))) (c_ops c) [0; 0; 0; 0; 0] in
      let b := case_stats rest in
      match a, b with
      | [a1; a2; a3; a4; a5], [b1; b2; b3; b4; b5] => [a1 + b1; a2 + b2; a3 + b3; a4 + b4; a5 + b5]
      | _, _ => b
      end
  end.

Definition flat2 (l : list (nat * nat)) : list Z :=
  flat_map (fun '(a, b) => [Z.of_nat a; Z.of_nat b]) l.
Definition flat4 (l : list (nat * nat * nat * nat)) : list Z :=
  flat_map (fun '(a, b, c, d) => [Z.of_nat a; Z.of_nat b; Z.of_nat c; Z.of_nat d]) l.
