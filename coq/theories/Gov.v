(* Gov.v — executable model of the governance proposal lifecycle and proposal funds
   (action/governance/*.go, app/internalTX.go, data/governance/proposal_*store.go).
   Model only; proofs are in proofs/GovProofs.v.

   Conventions
   * proposal ids, account addresses and validator addresses are [N] (the harness numbers them);
     amounts, heights, powers and percentages are [Z].
   * one record per proposal id holds what the five proposal stores, the vote store and the fund
     store keep under that id.  [p_store] is the store the record lives in.  The Go code can in
     principle leave one id in two stores (a Set into the new store followed by a Delete from a
     store the record was not read from); the model does not represent two copies: it raises the
     flag [g_anom] in exactly those branches (and when the validator set is empty, where
     distributeFunds divides by zero).  GovProofs shows the flag is never raised from a state that
     satisfies the invariant; the correspondence check compares the flag with "some id is in two
     stores" on the implementation.
   * a handler that returns false has its writes discarded by the caller (DiscardTxSession in
     txDeliverer / ExpireProposals / FinalizeProposals, property C06): the model returns [None].
   * everything the handlers read but governance does not own comes in the [env] of the step:
     the proposal options of the three types as currently stored, the active validator list
     (address, power), the full validator list, the bounty and execution-cost addresses, and the
     ids whose configuration update function reports an error.  Theorems quantify over all envs.
   * every handler is callable from any sender at any height.  Since /repo d276709 DeliverTx runs the kind's
     Validate first (signatures, fee, OLT currency, address / id / opinion syntax); none of these checks looks at
     the governance state, and the model's operations are the ones that pass them (a vote by a non-validator is
     refused by Validate and by the handler alike).  The handlers themselves refuse non-positive fund / withdraw amounts.
   * ResultSoFar decides in exact integer arithmetic since /repo 6d9c57c ([yes*100 >= pass*total],
     [(total-no)*100 < pass*total]), exactly like the model's [tally]; before, it compared in float64 and got the
     boundary (total-no)*100 = pass*total wrong ([tally_float_guard] describes the region where both agreed).  The shares of the
     fund distribution are [int64(percentage*10000)], computed by the harness with the same Go
     expression and passed in as integers.
   * int64 wrap-around of heights / power sums is not modelled (heights and powers < 2^52). *)
From stdpp Require Import gmap list.
From Coq Require Import ZArith.
Local Open Scope Z_scope.

Inductive store := SActive | SPassed | SFailed | SFinalized | SFinFailed.
Inductive status := StFunding | StVoting | StCompleted.
Inductive outcome := OInProgress | OInsufFunds | OInsufVotes | OCompletedNo | OCancelled | OCompletedYes.
Inductive ptype := TConfig | TCode | TGeneral.
Inductive opinion := OpUnknown | OpYes | OpNo | OpGiveup.
Inductive tally_result := RPassed | RFailed | RTBD.

Global Instance store_eq_dec : EqDecision store. Proof. solve_decision. Defined.
Global Instance status_eq_dec : EqDecision status. Proof. solve_decision. Defined.
Global Instance outcome_eq_dec : EqDecision outcome. Proof. solve_decision. Defined.
Global Instance ptype_eq_dec : EqDecision ptype. Proof. solve_decision. Defined.
Global Instance opinion_eq_dec : EqDecision opinion. Proof. solve_decision. Defined.
Global Instance tally_eq_dec : EqDecision tally_result. Proof. solve_decision. Defined.

Record vote := mkVote { v_val : N; v_power : Z; v_op : opinion }.

Record prec := mkP {
  p_store : store; p_status : status; p_outcome : outcome; p_type : ptype; p_proposer : N;
  p_fdl : Z; p_vdl : Z; p_goal : Z; p_pass : Z;
  p_total : Z;                 (* propFunds_t_<id> *)
  p_indiv : list (N * Z);      (* propFunds_i_<id>_<funder>; a key stays (value 0) after a full withdrawal *)
  p_votes : list vote;         (* propVotes_<id>_<validator> *)
  p_snapblk : Z;               (* block counter value when the vote records were written (-1 = never) *)
  p_newf : list (N * Z);       (* funder -> block counter value when its record key was created *)
  p_extra : Z                  (* store bits (8 finalized, 16 finalizeFailed) that hold a stale second copy of the record *)
}.

(* fund distribution shares: int64(percentage * 10000) *)
Record dist := mkDist { d_val : Z; d_prop : Z; d_bounty : Z; d_exec : Z; d_burn : Z }.
Record opts := mkOpts { o_init : Z; o_goal : Z; o_vdelta : Z; o_pass : Z; o_dpass : dist; o_dfail : dist }.

Record env := mkEnv {
  e_cfg : opts; e_code : opts; e_gen : opts;
  e_active : list (N * Z);    (* GetActiveValidatorList: address, power *)
  e_vals : list N;            (* GetValidatorSet: addresses *)
  e_bounty : N; e_exec : N;
  e_cfgfail : list N          (* ids whose update function returns an error at finalisation *)
}.

Definition opts_of (e : env) (t : ptype) : opts :=
  match t with TConfig => e_cfg e | TCode => e_code e | TGeneral => e_gen e end.

Record state := mkS {
  g_h : Z;                     (* header height of the current block *)
  g_props : gmap N prec;
  g_bal : gmap N Z;            (* OLT balances *)
  g_pool : Z;                  (* fee pool (sum of the fee store) *)
  g_qexp : list N;             (* transaction store: expire queue *)
  g_qfin : list N;             (* transaction store: finalize queue *)
  g_anom : bool;
  g_applied : list N;         (* ids whose configuration update was applied, latest first *)
  g_blk : Z                   (* block counter: storage iteration only sees keys committed in earlier blocks *)
}.

Definition init : state := mkS 0 ∅ ∅ 0 [] [] false [] 0.

Inductive event :=
| EvContrib (id f : N) (a : Z)
| EvRefund (id f ben : N) (a : Z)
| EvDistrib (id : N) (paid total : Z)    (* paid = everything credited to accounts and the fee pool *)
| EvConfig (id : N).

Inductive op :=
| OBegin (h : Z)
| OCreate (id : N) (ty : ptype) (proposer : N) (amt fdl vdl goal pass : Z) (cfgvalid : bool)
| OFund (id funder : N) (amt : Z)
| OVote (id val : N) (o : opinion)
| OCancel (id proposer : N)
| OWithdraw (id funder : N) (amt : Z) (ben : N)
| OExpire (id : N)          (* EXPIRE_VOTES sent as a public transaction *)
| OFinalize (id : N)        (* PROPOSAL_FINALIZE sent as a public transaction *)
| OEnd
| OAdjust (a : N) (d : Z).   (* balance movement of a tracked account caused by a non-governance transaction *)

Record txop := mkTx { t_op : op; t_env : env; t_payer : N; t_fee : Z;
  t_cur : N   (* what the static checks of Validate see: 0 = amount in OLT and a well-formed (hexadecimal) proposal id;
                 1..3 = the amount names another registered currency / an unknown name / the empty string;
                 4 = malformed proposal id (since /repo 76734a6 an id must be 64 hexadecimal characters) *) }.

(* ---- small helpers ---- *)
Definition bal (s : state) (a : N) : Z := default 0 (g_bal s !! a).
Definition set_bal (s : state) (a : N) (v : Z) : state :=
  mkS (g_h s) (g_props s) (<[a := v]> (g_bal s)) (g_pool s) (g_qexp s) (g_qfin s) (g_anom s) (g_applied s) (g_blk s).
Definition add_bal (s : state) (a : N) (d : Z) : state := set_bal s a (bal s a + d).
Definition set_prop (s : state) (id : N) (p : prec) : state :=
  mkS (g_h s) (<[id := p]> (g_props s)) (g_bal s) (g_pool s) (g_qexp s) (g_qfin s) (g_anom s) (g_applied s) (g_blk s).
Definition add_pool (s : state) (d : Z) : state :=
  mkS (g_h s) (g_props s) (g_bal s) (g_pool s + d) (g_qexp s) (g_qfin s) (g_anom s) (g_applied s) (g_blk s).
Definition push_applied (s : state) (id : N) : state :=
  mkS (g_h s) (g_props s) (g_bal s) (g_pool s) (g_qexp s) (g_qfin s) (g_anom s) (id :: g_applied s) (g_blk s).
Definition set_anom (s : state) : state :=
  mkS (g_h s) (g_props s) (g_bal s) (g_pool s) (g_qexp s) (g_qfin s) true (g_applied s) (g_blk s).

Fixpoint alookup (k : N) (l : list (N * Z)) : option Z :=
  match l with [] => None | (k', v) :: r => if N.eqb k k' then Some v else alookup k r end.
Fixpoint aupd (k : N) (d : Z) (l : list (N * Z)) : list (N * Z) :=   (* add d to the entry, creating it *)
  match l with
  | [] => [(k, d)]
  | (k', v) :: r => if N.eqb k k' then (k', v + d) :: r else (k', v) :: aupd k d r
  end.
Definition asum (l : list (N * Z)) : Z := fold_right (fun kv acc => kv.2 + acc) 0 l.

Definition with_funds (p : prec) (tot : Z) (ind : list (N * Z)) : prec :=
  mkP (p_store p) (p_status p) (p_outcome p) (p_type p) (p_proposer p) (p_fdl p) (p_vdl p) (p_goal p)
      (p_pass p) tot ind (p_votes p) (p_snapblk p) (p_newf p) (p_extra p).
Definition with_votes (p : prec) (vs : list vote) : prec :=
  mkP (p_store p) (p_status p) (p_outcome p) (p_type p) (p_proposer p) (p_fdl p) (p_vdl p) (p_goal p)
      (p_pass p) (p_total p) (p_indiv p) vs (p_snapblk p) (p_newf p) (p_extra p).
Definition with_stage (p : prec) (st : store) (su : status) (oc : outcome) : prec :=
  mkP st su oc (p_type p) (p_proposer p) (p_fdl p) (p_vdl p) (p_goal p)
      (p_pass p) (p_total p) (p_indiv p) (p_votes p) (p_snapblk p) (p_newf p) (p_extra p).
Definition with_extra (p : prec) (x : Z) : prec :=
  mkP (p_store p) (p_status p) (p_outcome p) (p_type p) (p_proposer p) (p_fdl p) (p_vdl p) (p_goal p)
      (p_pass p) (p_total p) (p_indiv p) (p_votes p) (p_snapblk p) (p_newf p) x.
Definition with_voting (blk : Z) (p : prec) (vdl : Z) (vs : list vote) : prec :=
  mkP (p_store p) StVoting (p_outcome p) (p_type p) (p_proposer p) (p_fdl p) vdl (p_goal p)
      (p_pass p) (p_total p) (p_indiv p) vs blk (p_newf p) (p_extra p).

(* DeleteAllFunds (since /repo 9dda72d: the funders are collected first and the scan skips deleted records): every
   funder record goes and the total is set to 0.  The scan still sees committed keys only; a record written in the
   block of the finalisation would survive, but none can exist: the tally sees the votes only from the block after
   the snapshot on, and contributions stop at the snapshot. *)
Definition del_funds (p : prec) : prec := with_funds p 0 [].

(* AddFunds *)
Definition with_newf (p : prec) (nf : list (N * Z)) : prec :=
  mkP (p_store p) (p_status p) (p_outcome p) (p_type p) (p_proposer p) (p_fdl p) (p_vdl p) (p_goal p)
      (p_pass p) (p_total p) (p_indiv p) (p_votes p) (p_snapblk p) nf (p_extra p).
Definition add_funds (blk : Z) (p : prec) (f : N) (a : Z) : prec :=
  let p1 := match alookup f (p_indiv p) with Some _ => p | None => with_newf p ((f, blk) :: p_newf p) end in
  with_funds p1 (p_total p + a) (aupd f a (p_indiv p)).
(* IsFundedByFunder iterates the committed tree: a record key created in the current block is not seen *)
Definition funded_visible (blk : Z) (p : prec) (f : N) : bool :=
  match alookup f (p_indiv p) with
  | Some _ => negb (bool_decide (alookup f (p_newf p) = Some blk))
  | None => false
  end.

(* ---- tally (ProposalVoteStore.ResultSoFar) ---- *)
Definition power_of (o : opinion) (vs : list vote) : Z :=
  fold_right (fun v acc => (if bool_decide (v_op v = o) then v_power v else 0) + acc) 0 vs.
Definition power_all (vs : list vote) : Z := fold_right (fun v acc => v_power v + acc) 0 vs.

Definition tally (vs : list vote) (pass : Z) : tally_result :=
  let total := power_all vs - power_of OpGiveup vs in
  let yes := power_of OpYes vs in
  let no := power_of OpNo vs in
  if 0 <? total then
    if pass * total <=? yes * 100 then RPassed
    else if (total - no) * 100 <? pass * total then RFailed else RTBD
  else
    if pass <=? 0 then RPassed else if 100 <? pass then RFailed else RTBD.

(* the float computation is exact here *)
Definition tally_float_guard (vs : list vote) (pass : Z) : bool :=
  let total := power_all vs - power_of OpGiveup vs in
  (power_all vs <? 2 ^ 45) && negb ((total - power_of OpNo vs) * 100 =? pass * total).

(* ---- vote store ---- *)
Fixpoint vote_setup (v : N) (pw : Z) (vs : list vote) : list vote :=     (* Setup: Set key *)
  match vs with
  | [] => [mkVote v pw OpUnknown]
  | x :: r => if N.eqb (v_val x) v then mkVote v pw OpUnknown :: r else x :: vote_setup v pw r
  end.
Definition snapshot (act : list (N * Z)) (vs : list vote) : list vote :=
  fold_left (fun acc vp => vote_setup vp.1 vp.2 acc) act vs.
Fixpoint vote_update (v : N) (o : opinion) (vs : list vote) : option (list vote) :=  (* Update: opinion only *)
  match vs with
  | [] => None
  | x :: r => if N.eqb (v_val x) v then Some (mkVote (v_val x) (v_power x) o :: r)
              else match vote_update v o r with Some r' => Some (x :: r') | None => None end
  end.

(* ---- handlers: [option (state * list event)], None = returned false (writes discarded) ---- *)
Definition hres := option (state * list event).

Definition h_create (s : state) (e : env) (id : N) (ty : ptype) (proposer : N)
           (amt fdl vdl goal pass : Z) (cfgvalid : bool) : hres :=
  let o := opts_of e ty in
  if amt <? o_init o then None
  else if o_goal o <=? amt then None
  else if negb (goal =? o_goal o) then None
  else if negb (pass =? o_pass o) then None
  else if negb (vdl - fdl =? o_vdelta o) then None
  else if fdl <=? g_h s then None
  else if bool_decide (ty = TConfig) && negb cfgvalid then None
  else match g_props s !! id with
       | Some _ => None
       | None =>
           if bal s proposer - amt <? 0 then None
           else
             let p := mkP SActive StFunding OInProgress ty proposer fdl vdl goal pass 0 [] [] (-1) [] 0 in
             let s1 := set_prop s id (add_funds (g_blk s) p proposer amt) in
             Some (add_bal s1 proposer (- amt), [EvContrib id proposer amt])
       end.

Definition h_fund (s : state) (e : env) (id funder : N) (amt : Z) : hres :=
  if amt <=? 0 then None else     (* /repo 782c385: a contribution is a positive amount *)
  match g_props s !! id with
  | Some p =>
      if negb (bool_decide (p_store p = SActive)) then None
      else if p_fdl p <? g_h s then None
      else if negb (bool_decide (p_status p = StFunding)) then None
      else
        let p1 := if p_goal p <=? amt + p_total p
                  then with_voting (g_blk s) p (g_h s + o_vdelta (opts_of e (p_type p))) (snapshot (e_active e) (p_votes p))
                  else p in
        if bal s funder - amt <? 0 then None
        else Some (add_bal (set_prop s id (add_funds (g_blk s) p1 funder amt)) funder (- amt), [EvContrib id funder amt])
  | None => None
  end.

Definition h_vote (s : state) (e : env) (id val : N) (o : opinion) : hres :=
  match g_props s !! id with
  | Some p =>
      if negb (bool_decide (p_store p = SActive)) then None
      else if negb (bool_decide (p_status p = StVoting)) then None
      else if p_vdl p <? g_h s then None
      else if negb (bool_decide (val ∈ e_vals e)) then None
      else match vote_update val o (p_votes p) with
           | None => None
           | Some vs =>
               (* ResultSoFar iterates the committed tree: in the block of the snapshot it finds no records *)
               if p_snapblk p =? g_blk s then None else
               let p1 := with_votes p vs in
               let p2 := match tally vs (p_pass p) with   (* /repo 23f7d29: the proposal's own percentage *)
                         | RPassed => with_stage p1 SPassed StCompleted OCompletedYes
                         | RFailed => with_stage p1 SFailed StCompleted OCompletedNo
                         | RTBD => p1
                         end in
               Some (set_prop s id p2, [])
           end
  | None => None
  end.

Definition h_cancel (s : state) (id proposer : N) : hres :=
  match g_props s !! id with
  | Some p =>
      if negb (bool_decide (p_store p = SActive)) then None
      else if negb (bool_decide (p_status p = StFunding)) then None
      else if p_fdl p <? g_h s then None
      else if negb (N.eqb (p_proposer p) proposer) then None
      else Some (set_prop s id (with_stage p SFailed StCompleted OCancelled), [])
  | None => None
  end.

Definition refundable (oc : outcome) : bool :=
  match oc with OCancelled | OInsufFunds => true | _ => false end.

Definition h_withdraw (s : state) (id funder : N) (amt : Z) (ben : N) : hres :=
  match g_props s !! id with
  | Some p =>
      (* /repo 9dda72d: only while the proposal is in the active or the failed store; 19a3caa: positive amounts only *)
      if negb (bool_decide (p_store p = SActive) || bool_decide (p_store p = SFailed)) then None
      else if amt <=? 0 then None
      else
      let step1 : option prec :=
        if refundable (p_outcome p) then Some p
        else if (p_goal p <=? p_total p) || (g_h s <=? p_fdl p) then None
        else (* Set into the failed store, Delete from the active store *)
          Some (with_stage p SFailed StCompleted OInsufFunds) in
      match step1 with
      | None => None
      | Some p1 =>
          match (if funded_visible (g_blk s) p1 funder then alookup funder (p_indiv p1) else None) with
          | None => None
          | Some cur =>
              if cur - amt <? 0 then None
              else if p_total p1 - amt <? 0 then None
              else
                let p2 := with_funds p1 (p_total p1 - amt) (aupd funder (- amt) (p_indiv p1)) in
                Some (add_bal (set_prop s id p2) ben amt, [EvRefund id funder ben amt])
          end
      end
  | None => None
  end.

Definition h_expire (s : state) (id : N) : hres :=
  match g_props s !! id with
  | Some p =>
      if negb (bool_decide (p_store p = SActive)) then None
      (* /repo 0988205: only a proposal in its voting stage whose voting deadline has passed *)
      else if negb (bool_decide (p_status p = StVoting)) then None
      else if g_h s <=? p_vdl p then None
      else Some (set_prop s id (with_stage p SFailed StCompleted OInsufVotes), [])
  | None => None
  end.

(* getPercentageCoin *)
Definition share (tot pct : Z) : Z := tot * pct / 1000000.

(* distributeFunds; returns the state, the total credited, and whether the model gave up *)
Definition distribute (s : state) (e : env) (id : N) (p : prec) (d : dist) : state * Z * bool :=
  let tot := p_total p in
  let n := Z.of_nat (length (e_vals e)) in
  let xv := share tot (d_val d) in
  let each := xv / n in
  let s1 := fold_left (fun acc v => add_bal acc v each) (e_vals e) s in
  let xp := share tot (d_prop d) in
  let s2 := add_bal s1 (p_proposer p) xp in
  let xb := share tot (d_bounty d) in
  let s3 := add_bal s2 (e_bounty e) xb in
  let xe := share tot (d_exec d) in
  let s4 := add_bal s3 (e_exec e) xe in
  let xburn := share tot (d_burn d) in
  let left := tot - xv - xp - xb - xe - xburn in
  let s5 := add_pool s4 left in
  (s5, each * n + xp + xb + xe + left, (n =? 0) || (p_total p <? asum (p_indiv p))).

(* setToFinalizeFromPassed / FromFailed / setToFinalizeFailed: Set into the target store, then Delete from the store the
   code EXPECTS the record in.  The tally is recomputed with the proposal's own pass percentage, whereas the vote
   handler decided the store with the current option percentage: when the two disagree the record is read from the
   other store, the Delete removes nothing and the id ends up in both stores (the first one is what every later
   lookup finds; [p_extra] records the second copy). *)
Definition fin_move (p : prec) (expected target : store) (bit : Z) : prec :=
  if bool_decide (p_store p = expected) then with_stage p target (p_status p) (p_outcome p)
  else with_extra p bit.

Definition h_finalize (s : state) (e : env) (id : N) : hres :=
  match g_props s !! id with
  | Some p =>
      if 8 <=? p_extra p then Some (s, []) else
      match p_store p with
      | SFinalized | SFinFailed => Some (s, [])
      | SActive => None
      | SPassed | SFailed =>
          if negb (bool_decide (p_status p = StCompleted)) then None
          else match (if p_snapblk p =? g_blk s then [] else p_votes p) with
               | [] => None
               | _ =>
                   match tally (p_votes p) (p_pass p) with
                   | RTBD => None
                   | RPassed =>
                       if bool_decide (p_type p = TConfig) && bool_decide (id ∈ e_cfgfail e)
                       then Some (set_prop s id (fin_move p SPassed SFinFailed 16), [])
                       else
                         let evc := if bool_decide (p_type p = TConfig) then [EvConfig id] else [] in
                         let s0 := if bool_decide (p_type p = TConfig) then push_applied s id else s in
                         let '(s1, paid, bad) := distribute s0 e id p (o_dpass (opts_of e (p_type p))) in
                         let p1 := del_funds (fin_move p SPassed SFinalized 8) in
                         let s2 := set_prop s1 id p1 in
                         Some (if bad then set_anom s2 else s2, evc ++ [EvDistrib id paid (p_total p)])
                   | RFailed =>
                       let '(s1, paid, bad) := distribute s e id p (o_dfail (opts_of e (p_type p))) in
                       let p1 := del_funds (fin_move p SFailed SFinalized 8) in
                       let s2 := set_prop s1 id p1 in
                       Some (if bad then set_anom s2 else s2, [EvDistrib id paid (p_total p)])
                   end
               end
      end
  | None => None
  end.

(* ---- BeginBlock: AddInternalTX ---- *)
Definition want_expire (h : Z) (p : prec) : bool :=
  bool_decide (p_store p = SActive) && bool_decide (p_status p = StVoting) && (p_vdl p <? h).
Definition want_finalize (p : prec) : bool :=
  bool_decide (p_status p = StCompleted) &&
  ((bool_decide (p_store p = SPassed) && bool_decide (p_outcome p = OCompletedYes)) ||
   (bool_decide (p_store p = SFailed) && bool_decide (p_outcome p = OCompletedNo))).

Definition ids_where (f : prec -> bool) (m : gmap N prec) : list N :=
  map fst (filter (fun kv => f kv.2 = true) (map_to_list m)).

Definition begin_block (s : state) (h : Z) : state :=
  mkS h (g_props s) (g_bal s) (g_pool s) (ids_where (want_expire h) (g_props s))
      (ids_where want_finalize (g_props s)) (g_anom s) (g_applied s) (g_blk s + 1).

(* ---- EndBlock: ExpireProposals then FinalizeProposals; queues cleared ---- *)
Definition run_queue (h : state -> N -> hres) (q : list N) (s : state) : state * list event :=
  fold_left (fun acc id => match h acc.1 id with
                           | Some (s', ev) => (s', acc.2 ++ ev)
                           | None => acc
                           end) q (s, []).

Definition end_block (s : state) (e : env) : state * list event :=
  let '(s1, ev1) := run_queue h_expire (g_qexp s) s in
  let '(s2, ev2) := run_queue (fun st id => h_finalize st e id) (g_qfin s) s1 in
  (mkS (g_h s2) (g_props s2) (g_bal s2) (g_pool s2) [] [] (g_anom s2) (g_applied s2) (g_blk s2), ev1 ++ ev2).

(* ---- export (cmd/olfullnode/save_state.go DumpGovProposalsToFile) and import (ProposalMasterStore.LoadProposals) ---- *)
Definition with_deadlines (p : prec) (fdl vdl : Z) : prec :=
  mkP (p_store p) (p_status p) (p_outcome p) (p_type p) (p_proposer p) fdl vdl (p_goal p)
      (p_pass p) (p_total p) (p_indiv p) (p_votes p) (p_snapblk p) (p_newf p) (p_extra p).

(* the dump walks the five stores; the deadlines of ACTIVE proposals are made relative to the exported version (the new
   chain starts at height 0), clamped at 0; everything else is written as it is *)
Definition dump_rec (ver : Z) (p : prec) : prec :=
  if bool_decide (p_store p = SActive)
  then with_deadlines p (Z.max 0 (p_fdl p - ver)) (Z.max 0 (p_vdl p - ver)) else p.
Definition dump (s : state) (ver : Z) : list (N * prec) :=
  map (fun kv => (kv.1, dump_rec ver kv.2)) (map_to_list (g_props s)).

(* LoadProposals: Set the record under its store prefix; for every exported vote Setup (validator, power) then Update
   (opinion); for every exported fund record AddFunds (the total is rebuilt as the sum) *)
Definition load_votes (vs : list vote) : list vote :=
  fold_left (fun acc v => match vote_update (v_val v) (v_op v) (vote_setup (v_val v) (v_power v) acc) with
                          | Some acc' => acc' | None => acc end) vs [].
Definition load_funds (blk : Z) (p : prec) (ind : list (N * Z)) : prec :=
  fold_left (fun q kv => add_funds blk q kv.1 kv.2) ind (with_newf (with_funds p 0 []) []).
Definition load_rec (blk : Z) (p : prec) : prec :=
  let q := load_funds blk p (p_indiv p) in
  mkP (p_store q) (p_status q) (p_outcome q) (p_type q) (p_proposer q) (p_fdl q) (p_vdl q) (p_goal q)
      (p_pass q) (p_total q) (p_indiv q) (load_votes (p_votes p)) blk (p_newf q) (p_extra q).
Definition load (blk : Z) (l : list (N * prec)) : gmap N prec :=
  list_to_map (map (fun kv => (kv.1, load_rec blk kv.2)) l).

Definition reload (s : state) (ver : Z) (bals : list (N * Z)) (pool : Z) : state :=
  mkS 0 (load (g_blk s) (dump s ver)) (list_to_map bals) pool [] [] (g_anom s) (g_applied s) (g_blk s).

(* ---- the fee step of a public transaction (BasicFeeHandling); expire/finalize charge nothing ---- *)
Definition charge (r : hres) (payer : N) (fee : Z) : hres :=
  match r with
  | Some (s, ev) => if bal s payer - fee <? 0 then None
                    else Some (add_pool (add_bal s payer (- fee)) fee, ev)
  | None => None
  end.

(* Validate of PROPOSAL_CREATE / PROPOSAL_FUND / PROPOSAL_WITHDRAW_FUNDS (run by CheckTx and, since /repo d276709, by
   DeliverTx before the handler): the amount must be denominated in OLT, whatever the sender owns *)
Definition cur_ok (t : txop) : bool := N.eqb (t_cur t) 0.
Definition cguard (b : bool) (r : hres) : hres := if b then r else None.

(* one step: returns the new state, ok/fail, and the events *)
Definition step (s : state) (t : txop) : state * bool * list event :=
  let e := t_env t in
  let fin (r : hres) := match r with Some (s', ev) => (s', true, ev) | None => (s, false, []) end in
  match t_op t with
  | OBegin h => (begin_block s h, true, [])
  | OEnd => let '(s', ev) := end_block s e in (s', true, ev)
  | OCreate id ty pr amt fdl vdl goal pass cv =>
      fin (charge (cguard (cur_ok t) (h_create s e id ty pr amt fdl vdl goal pass cv)) (t_payer t) (t_fee t))
  | OFund id f amt => fin (charge (cguard (cur_ok t) (h_fund s e id f amt)) (t_payer t) (t_fee t))
  | OVote id v o => fin (charge (h_vote s e id v o) (t_payer t) (t_fee t))
  | OCancel id pr => fin (charge (h_cancel s id pr) (t_payer t) (t_fee t))
  | OWithdraw id f amt ben => fin (charge (cguard (cur_ok t) (h_withdraw s id f amt ben)) (t_payer t) (t_fee t))
  | OExpire id => fin (h_expire s id)
  | OFinalize id => fin (h_finalize s e id)
  | OAdjust a d => fin (charge (Some (add_bal s a d, [])) (t_payer t) (t_fee t))
  end.

Fixpoint run (s : state) (ts : list txop) : state * list event :=
  match ts with
  | [] => (s, [])
  | t :: r => let '(s1, _, ev) := step s t in
              let '(s2, ev2) := run s1 r in (s2, ev ++ ev2)
  end.

(* ---- stage rank ---- *)
Definition rank (p : prec) : nat :=
  match p_store p with
  | SActive => match p_status p with StFunding => 1 | _ => 2 end
  | SPassed | SFailed => 3
  | SFinalized | SFinFailed => 4
  end%nat.
Definition rank_of (s : state) (id : N) : nat :=
  match g_props s !! id with Some p => rank p | None => 0%nat end.

(* ---- triggers of the known findings (Coq-defined predicates over the step input) ---- *)
(* EXPIRE_VOTES arrives as a public transaction (was the trigger of C14.public_expire_votes, fixed by /repo 0988205) *)
Definition trig_public_expire (t : txop) : bool :=
  match t_op t with OExpire _ => true | _ => false end.

(* C14.negative_fund_amount: a contribution / withdrawal with a negative amount (Validate checks the currency, not the sign) *)
Definition trig_negative_amount (t : txop) : bool :=
  match t_op t with
  | OFund _ _ a => a <? 0
  | OWithdraw _ _ a _ => a <? 0
  | _ => false
  end.

(* C14.pass_percentage_drift: the proposal sits in the failed store although its recorded votes pass under its own
   percentage (the vote handler decided with a different, current option percentage) *)
Definition trig_failed_but_passing (p : prec) : bool :=
  bool_decide (p_store p = SFailed) && bool_decide (tally (p_votes p) (p_pass p) = RPassed).

(* ---- histories with relaunches: the chain may be relaunched from an exported state (olfullnode save_state -> genesis ->
   LoadProposals) between two operations; [ver] is the version (height) of the exported state, [bals] / [pool] the
   balances and the fee pool of the new genesis ---- *)
Inductive hop :=
| HOp (t : txop)
| HReload (ver : Z) (bals : list (N * Z)) (pool : Z).

Definition hstep (s : state) (h : hop) : state * bool * list event :=
  match h with
  | HOp t => step s t
  | HReload ver bals pool => (reload s ver bals pool, true, [])
  end.

Fixpoint hrun (s : state) (hs : list hop) : state * list event :=
  match hs with
  | [] => (s, [])
  | h :: r => let '(s1, _, ev) := hstep s h in
              let '(s2, ev2) := hrun s1 r in (s2, ev ++ ev2)
  end.
