(* Stake.v — executable model of the stake lifecycle of Oneledger/protocol (property C11).

   Modelled Go code (all in /repo):
     data/delegation/store.go      Stake/AddToAddress, MinusFromAddress, Unstake, Withdraw,
                                   UpdateWithdrawReward; keys st__t_ / _e_ / _d_e_ / _d_b_ / _m_
     action/staking/stake.go       runCheckStake (+ isStakeAddressClean)
     action/staking/unstake.go     runCheckUnstake
     action/staking/withdraw.go    runWithdraw
     action/types.go               Amount.ToCoinWithBase : big.Int -> int64 narrowing, then * 10^18
     identity/validator_set.go     HandleStake / HandleUnstake / calculatePower, GetEndBlockUpdate
                                   (deletion of records whose power at the previous version is <= 0,
                                   UpdateWithdrawReward(height), ExecuteAllegationTracker)
     identity/validator_set_allegation.go   GUILTY verdict: penalty through the NON-atomic
                                   MinusFromAddress, delayHandleUnstake / fetchPostponedUnstakes

   Amounts in the st__* and v_ records are whole OLT (the transaction's Stake.Value); balances are
   base units (10^18 per OLT).  Addresses are positive numbers (index chosen by the harness).
   Everything the handlers read outside this state is an input of the operation (frozen flag,
   open allegation request, balance of the stake account, maturity option, purge-height block,
   result of the fee step).  A transaction that fails leaves the state unchanged (C06).
   No proofs in this file. *)
From stdpp Require Import gmap list.
Require Import ZArith.
Open Scope Z_scope.

Definition addr := positive.

Definition wrap64 (z : Z) : Z := ((z + 2^63) mod 2^64) - 2^63.
Definition base : Z := 10^18.

Definition zget {K} `{Countable K} (m : gmap K Z) (k : K) : Z := default 0 (m !! k).
Definition zadd {K} `{Countable K} (k : K) (z : Z) (m : gmap K Z) : gmap K Z := <[k := zget m k + z]> m.

(* v_<addr> record, projected *)
Record vrec := VRec { vr_saddr : addr; vr_staking : Z; vr_power : Z }.

Record state := State {
  eff   : gmap (addr * addr) Z;        (* st__e_<validator>_<delegator> *)
  vtot  : gmap addr Z;                 (* st__t_<validator> *)
  deff  : gmap addr Z;                 (* st__d_e_<delegator> *)
  dbnd  : gmap addr Z;                 (* st__d_b_<delegator> : withdrawable *)
  mat   : gmap Z (list (addr * Z));    (* st__m_<height> : maturing entries *)
  vrecs : gmap addr vrec;              (* v_<validator> *)
  vprev : gmap addr vrec;              (* the v_ records of the last committed version *)
  pend  : list (addr * Z);             (* purged_unstake_<h><validator> written in the last end-block *)
  (* ghost history, per delegator *)
  g_staked    : gmap addr Z;           (* whole OLT credited to the stake records by STAKE (+ genesis) *)
  g_withdrawn : gmap addr Z;           (* whole OLT taken out of "bounded" by WITHDRAW *)
  g_pen       : gmap addr Z;           (* whole OLT removed by allegation penalties *)
  g_in        : gmap addr Z;           (* base units debited from the balance by STAKE *)
  g_out       : gmap addr Z;           (* base units credited to the balance by WITHDRAW *)
}.

Definition empty_state : state :=
  State ∅ ∅ ∅ ∅ ∅ ∅ ∅ [] ∅ ∅ ∅ ∅ ∅.

Definition mat_at (s : state) (h : Z) : list (addr * Z) := default [] (mat s !! h).

(* operations; the boolean/Z arguments after the transaction fields are the environment *)
Inductive op :=
| OStake (v d : addr) (a : Z) (frozen : bool) (bal : Z) (h m : Z) (purge_block fee_fail : bool)
| OUnstake (v d : addr) (a : Z) (frozen req_open : bool) (h m : Z) (purge_block fee_fail : bool)
| OWithdraw (v d : addr) (a : Z) (frozen fee_fail : bool)
| OBegin (blocked : list addr)
| OEnd (h : Z) (verdicts : list (addr * Z * Z))
| OGenStake (v d : addr) (a : Z)                    (* genesis: Stake + HandleStake(height 0) *)
| OGenMature (h : Z) (d : addr) (a : Z).            (* genesis: LoadState maturing entry *)

Arguments OStake (v d)%positive_scope a%Z_scope frozen%bool_scope (bal h m)%Z_scope (purge_block fee_fail)%bool_scope.
Arguments OUnstake (v d)%positive_scope a%Z_scope (frozen req_open)%bool_scope (h m)%Z_scope (purge_block fee_fail)%bool_scope.
Arguments OWithdraw (v d)%positive_scope a%Z_scope (frozen fee_fail)%bool_scope.
Arguments OGenStake (v d)%positive_scope a%Z_scope.
Arguments OGenMature h%Z_scope d%positive_scope a%Z_scope.

(* ---- isStakeAddressClean ---- *)
Definition pending_in (s : state) (d : addr) (h : Z) : bool :=
  existsb (fun e => Pos.eqb (fst e) d && negb (snd e =? 0)) (mat_at s h).
Definition has_pending (s : state) (d : addr) (h m : Z) : bool :=
  existsb (pending_in s d) (seqZ h (m + 1)).
Definition clean (s : state) (v : addr) (r : vrec) (h m : Z) : bool :=
  (zget (eff s) (v, vr_saddr r) =? 0) && negb (has_pending s (vr_saddr r) h m)
  && (zget (dbnd s) (vr_saddr r) =? 0).

Definition set_rec (s : state) (v : addr) (r : vrec) : state :=
  State (eff s) (vtot s) (deff s) (dbnd s) (mat s) (<[v := r]> (vrecs s)) (vprev s) (pend s)
        (g_staked s) (g_withdrawn s) (g_pen s) (g_in s) (g_out s).

(* delegation.AddToAddress (no check) *)
Definition add3 (s : state) (v d : addr) (a : Z) : state :=
  State (zadd (v, d) a (eff s)) (zadd v a (vtot s)) (zadd d a (deff s)) (dbnd s) (mat s)
        (vrecs s) (vprev s) (pend s) (g_staked s) (g_withdrawn s) (g_pen s) (g_in s) (g_out s).

(* delegation.MinusFromAddress (since fix cb71748): the three amounts are checked before any of them
   is written — all or nothing.  Result: new state and how many records were written (0 or 3). *)
Definition minus3 (s : state) (v d : addr) (a : Z) : state * nat :=
  if (zget (vtot s) v - a <? 0) || (zget (eff s) (v, d) - a <? 0) || (zget (deff s) d - a <? 0)
  then (s, 0%nat)
  else (State (zadd (v, d) (- a) (eff s)) (zadd v (- a) (vtot s)) (zadd d (- a) (deff s)) (dbnd s) (mat s)
              (vrecs s) (vprev s) (pend s) (g_staked s) (g_withdrawn s) (g_pen s) (g_in s) (g_out s), 3%nat).

(* ---- STAKE : runCheckStake ---- *)
Definition stake_update (s : state) (v d : addr) (h m : Z) : option bool :=
  match vrecs s !! v with
  | Some r => if Pos.eqb (vr_saddr r) d then Some false
              else if clean s v r h m then Some true else None
  | None => Some false
  end.

Definition stake_rec (s : state) (v d : addr) (a : Z) (u : bool) : vrec :=
  match vrecs s !! v with
  | None => VRec d a (wrap64 a)
  | Some r => VRec (if u then d else vr_saddr r) (vr_staking r + a) (wrap64 (vr_staking r + a))
  end.

Definition debit_of (a : Z) : Z := wrap64 a * base.     (* ToCoinWithBase *)

(* fix 48c76fc: the three handlers reject an amount that is negative or does not fit int64 *)
Definition amount_ok (a : Z) : bool := (0 <=? a) && (a <? 2^63).

(* fix d276709: DeliverTx runs the handler's Validate first (as CheckTx does).  Modelled: the
   state/amount-dependent part of stakeTx/unstakeTx/withdrawTx.Validate.  The static part
   (signatures by the stake account and the validator key, fee currency and price, address and
   public-key well-formedness, OLT currency) holds for every generated transaction (assumption). *)
Definition validate_stake (a bal : Z) : bool :=
  (0 <=? debit_of a) && (0 <=? bal - debit_of a).            (* coin.IsValid, CheckBalanceFromAddress *)
Definition saddr_matches (s : state) (v d : addr) : bool :=   (* ErrStakeAddressMismatch *)
  match vrecs s !! v with Some r => Pos.eqb (vr_saddr r) d | None => true end.
Definition validate_unstake (s : state) (v d : addr) (a : Z) : bool :=
  saddr_matches s v d && (0 <? debit_of a).                    (* coin <= 0 is ErrInvalidAmount *)

Definition do_stake (s : state) (v d : addr) (a : Z) (frozen : bool) (bal h m : Z)
           (purge_block fee_fail : bool) : state * bool :=
  if negb (validate_stake a bal) then (s, false) else
  if negb (amount_ok a) then (s, false) else
  if frozen then (s, false) else
  match stake_update s v d h m with
  | None => (s, false)
  | Some u =>
    if bal - debit_of a <? 0 then (s, false) else          (* Balances.MinusFromAddress *)
    if purge_block then (s, false) else                    (* HandleStake: within 2 blocks of a purge *)
    if fee_fail then (s, false) else
    let s1 := set_rec (add3 s v d a) v (stake_rec s v d a u) in
    (State (eff s1) (vtot s1) (deff s1) (dbnd s1) (mat s1) (vrecs s1) (vprev s1) (pend s1)
           (zadd d a (g_staked s1)) (g_withdrawn s1) (g_pen s1) (zadd d (debit_of a) (g_in s1)) (g_out s1), true)
  end.

(* ---- UNSTAKE : runCheckUnstake ---- *)
Definition do_unstake (s : state) (v d : addr) (a : Z) (frozen req_open : bool) (h m : Z)
           (purge_block fee_fail : bool) : state * bool :=
  if negb (validate_unstake s v d a) then (s, false) else
  if negb (amount_ok a) then (s, false) else
  if frozen then (s, false) else
  if req_open then (s, false) else
  match minus3 s v d a with
  | (s1, 3%nat) =>
    match vrecs s !! v with
    | None => (s, false)                                   (* HandleUnstake: vs.Get fails *)
    | Some r =>
      if vr_staking r - a <? 0 then (s, false) else       (* HandleUnstake (e681066): negative stake refused *)
      if purge_block then (s, false) else
      if fee_fail then (s, false) else
      let r' := VRec (vr_saddr r) (vr_staking r - a) (wrap64 (vr_staking r - a)) in
      let s2 := set_rec s1 v r' in
      (State (eff s2) (vtot s2) (deff s2) (dbnd s2)
             (<[h + m := mat_at s2 (h + m) ++ [(d, a)]]> (mat s2))
             (vrecs s2) (vprev s2) (pend s2) (g_staked s2) (g_withdrawn s2) (g_pen s2) (g_in s2) (g_out s2), true)
    end
  | _ => (s, false)
  end.

(* ---- WITHDRAW : runWithdraw ---- *)
Definition do_withdraw (s : state) (v d : addr) (a : Z) (frozen fee_fail : bool) : state * bool :=
  if negb (validate_unstake s v d a) then (s, false) else
  if negb (amount_ok a) then (s, false) else
  if frozen then (s, false) else
  if zget (dbnd s) d - a <? 0 then (s, false) else
  if fee_fail then (s, false) else
  (State (eff s) (vtot s) (deff s) (zadd d (- a) (dbnd s)) (mat s) (vrecs s) (vprev s) (pend s)
         (g_staked s) (zadd d a (g_withdrawn s)) (g_pen s) (g_in s) (zadd d (debit_of a) (g_out s)), true).

(* balance change of the stake account caused by the handler (the fee is not included) *)
Definition bal_delta (o : op) (ok : bool) : Z :=
  if ok then match o with
             | OStake _ _ a _ _ _ _ _ _ => - debit_of a
             | OWithdraw _ _ a _ _ => debit_of a
             | _ => 0
             end
  else 0.

(* ---- BeginBlock: fetchPostponedUnstakes ---- *)
Definition apply_pending (blocked : list addr) (e : addr * Z) (recs : gmap addr vrec) : gmap addr vrec :=
  match recs !! e.1 with
  | None => recs
  | Some r => (* since fix 0ce270f the purge-height rule (the [blocked] input) is not consulted here *)
              if vr_staking r - e.2 <? 0 then recs           (* reduceStake (e681066) *)
              else <[e.1 := VRec (vr_saddr r) (vr_staking r - e.2) (wrap64 (vr_staking r - e.2))]> recs
  end.

Definition do_begin (s : state) (blocked : list addr) : state :=
  State (eff s) (vtot s) (deff s) (dbnd s) (mat s)
        (foldr (apply_pending blocked) (vrecs s) (pend s)) (vprev s) []
        (g_staked s) (g_withdrawn s) (g_pen s) (g_in s) (g_out s).

(* ---- EndBlock: GetEndBlockUpdate ---- *)
(* since fix e681066 the record is deleted only if the CURRENT record is powerless as well *)
Definition powerless_now (recs : gmap addr vrec) (v : addr) : bool :=
  match recs !! v with Some r => vr_power r <=? 0 | None => false end.
Definition delete_powerless (prev recs : gmap addr vrec) : gmap addr vrec :=
  foldr (fun e acc => if (vr_power e.2 <=? 0) && powerless_now recs e.1 then delete e.1 acc else acc)
        recs (map_to_list prev).

(* UpdateWithdrawReward *)
Definition credit_entry (e : addr * Z) (b : gmap addr Z) : gmap addr Z :=
  if e.2 =? 0 then b else zadd e.1 e.2 b.
Definition mature (s : state) (h : Z) : state :=
  let es := mat_at s h in
  State (eff s) (vtot s) (deff s) (foldr credit_entry (dbnd s) es)
        (match es with [] => mat s | _ => <[h := []]> (mat s) end)
        (vrecs s) (vprev s) (pend s) (g_staked s) (g_withdrawn s) (g_pen s) (g_in s) (g_out s).

(* big.Float: amt * pct / dec + 0.5, truncated (exact for the magnitudes reachable here) *)
Definition penalty_amount (t pct dec : Z) : Z := Z.quot (2 * t * pct + dec) (2 * dec).

Definition verdict (s : state) (e : addr * Z * Z) : state :=
  let '(v, pct, dec) := e in
  match vprev s !! v with
  | None => s
  | Some r =>
    let d := vr_saddr r in
    let p := penalty_amount (zget (vtot s) v) pct dec in
    let '(s1, n) := minus3 s v d p in
    State (eff s1) (vtot s1) (deff s1) (dbnd s1) (mat s1) (vrecs s1) (vprev s1)
          (match n with 3%nat => (v, p) :: pend s1 | _ => pend s1 end)     (* cb71748 *)
          (g_staked s1) (g_withdrawn s1)
          (match n with 3%nat => zadd d p (g_pen s1) | _ => g_pen s1 end) (g_in s1) (g_out s1)
  end.

Definition snapshot (s : state) : state :=
  State (eff s) (vtot s) (deff s) (dbnd s) (mat s) (vrecs s) (vrecs s) (pend s)
        (g_staked s) (g_withdrawn s) (g_pen s) (g_in s) (g_out s).

Definition do_end (s : state) (h : Z) (verdicts : list (addr * Z * Z)) : state :=
  if h <=? 1 then snapshot s else
  let s1 := State (eff s) (vtot s) (deff s) (dbnd s) (mat s) (delete_powerless (vprev s) (vrecs s))
                  (vprev s) (pend s) (g_staked s) (g_withdrawn s) (g_pen s) (g_in s) (g_out s) in
  let s2 := mature s1 h in
  snapshot (fold_left verdict verdicts s2).

(* ---- genesis ---- *)
Definition do_genstake (s : state) (v d : addr) (a : Z) : state :=
  let s1 := set_rec (add3 s v d a) v (stake_rec s v d a false) in
  snapshot (State (eff s1) (vtot s1) (deff s1) (dbnd s1) (mat s1) (vrecs s1) (vprev s1) (pend s1)
        (zadd d a (g_staked s1)) (g_withdrawn s1) (g_pen s1) (zadd d (a * base) (g_in s1)) (g_out s1)).

(* a maturing amount in the genesis file stands for stake paid in on the exported chain *)
Definition do_genmature (s : state) (h : Z) (d : addr) (a : Z) : state :=
  State (eff s) (vtot s) (deff s) (dbnd s) (<[h := mat_at s h ++ [(d, a)]]> (mat s))
        (vrecs s) (vprev s) (pend s)
        (zadd d a (g_staked s)) (g_withdrawn s) (g_pen s) (zadd d (a * base) (g_in s)) (g_out s).

Definition step (s : state) (o : op) : state * bool :=
  match o with
  | OStake v d a fz bal h m pb ff => do_stake s v d a fz bal h m pb ff
  | OUnstake v d a fz ro h m pb ff => do_unstake s v d a fz ro h m pb ff
  | OWithdraw v d a fz ff => do_withdraw s v d a fz ff
  | OBegin bl => (do_begin s bl, true)
  | OEnd h vs => (do_end s h vs, true)
  | OGenStake v d a => (do_genstake s v d a, true)
  | OGenMature h d a => (do_genmature s h d a, true)
  end.

Definition run (s : state) (os : list op) : state := fold_left (fun s o => fst (step s o)) os s.

(* ---- trigger predicates (inputs on which the known defects fire) ---- *)
Definition op_amount (o : op) : option Z :=
  match o with
  | OStake _ _ a _ _ _ _ _ _ | OUnstake _ _ a _ _ _ _ _ _ | OWithdraw _ _ a _ _ => Some a
  | _ => None
  end.
(* C11.stake_amount_ge_2p63 (FIXED by 48c76fc; kept to state that such inputs are now rejected):
   the amount does not fit int64 (ToCoinWithBase narrows it) *)
Definition trig_narrow (o : op) : bool :=
  match op_amount o with Some a => (2^63 <=? a) | None => false end.
(* C11.negative_amount_deliver (FIXED by 48c76fc): negative amount (only reachable on the deliver path) *)
Definition trig_negative (o : op) : bool :=
  match op_amount o with Some a => (a <? 0) | None => false end.
Definition trig_amount (o : op) : bool := trig_narrow o || trig_negative o.

(* C11.validator_record_deleted_with_stake (FIXED by e681066; kept to state the former witness): the
   previous version's record was powerless while stake has meanwhile been added *)
Definition trig_deleted_with_stake (s : state) (o : op) : bool :=
  match o with
  | OEnd h _ => (1 <? h) &&
      existsb (fun e => (vr_power e.2 <=? 0) &&
                        match vrecs s !! e.1 with
                        | Some r => negb (vr_staking r =? 0) || negb (zget (vtot s) e.1 =? 0)
                        | None => false end)
              (map_to_list (vprev s))
  | _ => false
  end.

(* C11.postponed_penalty_blocked (FIXED by 0ce270f; kept to state the former witness): the penalty
   decided in the last end-block was applied to the v_ record by HandleUnstake in BeginBlock, which
   refused it within 2 blocks of a purge of that validator *)
Definition trig_postponed_blocked (s : state) (o : op) : bool :=
  match o with
  | OBegin blocked => existsb (fun e => bool_decide (e.1 ∈ blocked)) (pend s)
  | _ => false
  end.

(* C11.withdraw_names_other_validator : a WITHDRAW goes through although a validator whose stake
   address is the withdrawing delegator is frozen (the frozen check looks only at the validator
   NAMED in the transaction, and the withdrawable amount is kept per delegator) *)
Definition frozen_owner (s : state) (frozen_set : list addr) (d : addr) : bool :=
  existsb (fun v => match vrecs s !! v with Some r => Pos.eqb (vr_saddr r) d | None => false end) frozen_set.

(* ---- sums used by the theorems ---- *)
Definition msum {K A} `{Countable K} (w : K -> A -> Z) (m : gmap K A) : Z :=
  map_fold (fun k x acc => w k x + acc) 0 m.
Definition esum_v (s : state) (v : addr) : Z := msum (fun k x => if Pos.eqb (fst k) v then x else 0) (eff s).
Definition esum_d (s : state) (d : addr) : Z := msum (fun k x => if Pos.eqb (snd k) d then x else 0) (eff s).
Definition entries_of (l : list (addr * Z)) (d : addr) : Z :=
  foldr (fun e acc => if Pos.eqb e.1 d then e.2 + acc else acc) 0 l.
Definition maturing (s : state) (d : addr) : Z := msum (fun (_ : Z) l => entries_of l d) (mat s).

(* a verdict whose penalty is applied atomically by MinusFromAddress (all three records or none) *)
Definition verdict_atomic (s : state) (e : addr * Z * Z) : bool :=
  let '(v, pct, dec) := e in
  match vprev s !! v with
  | None => true
  | Some r => let n := snd (minus3 s v (vr_saddr r) (penalty_amount (zget (vtot s) v) pct dec)) in
              Nat.eqb n 0 || Nat.eqb n 3
  end.
Fixpoint verdicts_atomic (s : state) (vs : list (addr * Z * Z)) : bool :=
  match vs with
  | [] => true
  | e :: vs' => verdict_atomic s e && verdicts_atomic (verdict s e) vs'
  end.
(* C11.penalty_not_atomic : complement of the guard of C11_validator_total_partial *)
Definition trig_penalty_not_atomic (s : state) (o : op) : bool :=
  match o with
  | OEnd h vs => (1 <? h) &&
      negb (verdicts_atomic (mature (State (eff s) (vtot s) (deff s) (dbnd s) (mat s) (delete_powerless (vprev s) (vrecs s))
                  (vprev s) (pend s) (g_staked s) (g_withdrawn s) (g_pen s) (g_in s) (g_out s)) h) vs)
  | _ => false
  end.
Fixpoint guarded (trig : state -> op -> bool) (s : state) (os : list op) : bool :=
  match os with
  | [] => true
  | o :: os' => negb (trig s o) && guarded trig (fst (step s o)) os'
  end.

(* ---- the maturity option as persisted state: governance proposals ----
   The handlers read the maturity option from the governance store.  A configuration-update
   proposal about the staking options writes the store only when it is FINALISED (passed vote,
   ExecuteConfigUpdate); creating, checking (CheckTx), refusing, funding or voting one does not.
   [gstep] runs the stake life cycle with the option taken from this persisted value. *)
Inductive gop :=
| GOp (o : op)                                  (* a stake life-cycle operation *)
| GProposal (finalised : bool) (new_m : Z).     (* a proposal event about stakingOptions.maturityTime *)
Definition set_m (m : Z) (o : op) : op :=
  match o with
  | OUnstake v d a fz ro h _ pb ff => OUnstake v d a fz ro h m pb ff
  | OStake v d a fz bal h _ pb ff => OStake v d a fz bal h m pb ff
  | _ => o
  end.
Definition gstep (gs : state * Z) (g : gop) : state * Z :=
  match g with
  | GOp o => (fst (step (fst gs) (set_m (snd gs) o)), snd gs)
  | GProposal fin n => (fst gs, if fin then n else snd gs)
  end.
Definition grun (gs : state * Z) (l : list gop) : state * Z := fold_left gstep l gs.
Definition not_unfinalised (g : gop) : bool := match g with GProposal false _ => false | _ => true end.
