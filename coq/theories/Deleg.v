(* Deleg.v — executable model of network delegation:
     action/network_delegation/{add_network_delegation,network_undelegate,withdraw_rewards,
       reinvest_rewards}.go, action/transfer/sendPool.go (donation to the delegation pool),
     data/network_delegation/{store,rewards_store}.go,
     app/controller.go addMaturedAmountsToBalance / handleDelegationRewards (accrual as input) /
       matureDelegationRewards.
   No proofs in this file (see proofs/DelegProofs.v).

   KEY-LEVEL FIDELITY.  Every pending-undelegation key the Go code ever builds has the form
       "deleg_p_" ++ FormatInt(height) ++ "_" ++ addr.String()
   (SetPendingAmount / PendingExists / GetPendingAmount / LoadDelegators), so the store is a map
   over (height, addr) pairs; the *iteration* at block height h is modelled on the strings:
   IteratePendingAmounts(h) is State.IterateRange(start, Rangefix(start)) with
       start = "deleg_p_" ++ FormatInt(h) ++ "_"
   (the separator after the height was added by /repo commit e19809f; before it the scan of
   height 2 also visited the keys of heights 20..29: former finding
   C12.pending_height_prefix_collision) and the clearing write of addMaturedAmountsToBalance goes to
   the key built from the CURRENT height h (not from the key that was visited).  [in_range] is the
   byte-wise lexicographic range test of the IAVL iterator, [rangefix] is storage.Rangefix.
   The reward store's IteratePD(h) uses start = "delegRwz_pending_" ++ FormatInt(h) ++ "_".

   State.IterateRange collects the keys of the COMMITTED tree and then reads every value through
   the block cache.  Both iterations run in BeginBlock on a fresh deliver state, so all keys of
   earlier blocks are visible; the value of key (h,a) is read AFTER the clearing writes issued for
   keys visited earlier in the same scan.  [mature] keeps the general two-phase shape (keys of
   other heights first — in byte order a key "<pfx><h><more digits>_<a>" precedes "<pfx><h>_<a>" —
   then the keys of height h read through phase one's writes); with exact scans phase one is
   proved to be empty (proofs/DelegProofs.v, no_scan_collides). *)
From stdpp Require Import gmap list.
From Coq Require Import ZArith NArith.
Local Open Scope Z_scope.

Definition addr := N.
Definition bytes := list N.

(* ---- strings ---- *)
Definition SEP : N := 95%N.     (* storage.DB_PREFIX   "_" *)
Definition TILDE : N := 126%N.  (* storage.DB_RANGEFIX "~" *)
(* "deleg_p_" : Prefix(prefix ++ "_" ++ PendingKey) with store prefix "deleg" (app/context.go) *)
Definition PFX_P : bytes := [100;101;108;101;103;95;112;95]%N.
(* "delegRwz_pending_" *)
Definition PFX_R : bytes := [100;101;108;101;103;82;119;122;95;112;101;110;100;105;110;103;95]%N.

(* strconv.FormatInt(n, 10) for n >= 0: little-endian digits (fuel = 1 + log2 n + 1), reversed *)
Fixpoint dec_le (fuel : nat) (n : N) : bytes :=
  match fuel with
  | O => []
  | S f => (48 + n mod 10)%N :: (if (n / 10 =? 0)%N then [] else dec_le f (n / 10)%N)
  end.
Definition dec (n : N) : bytes := rev (dec_le (S (N.to_nat (N.log2 n))) n).

(* byte-wise lexicographic order (bytes.Compare) *)
Fixpoint lex_lt (x y : bytes) : bool :=
  match x, y with
  | _, [] => false
  | [], _ :: _ => true
  | a :: x', b :: y' => if (a <? b)%N then true else if (a =? b)%N then lex_lt x' y' else false
  end.
Definition lex_le (x y : bytes) : bool := negb (lex_lt y x).

(* storage.Rangefix: strip ONE trailing "_" if present, append "~" *)
Fixpoint strip_sep (p : bytes) : bytes :=
  match p with
  | [] => []
  | [c] => if (c =? SEP)%N then [] else [c]
  | c :: p' => c :: strip_sep p'
  end.
Definition rangefix (p : bytes) : bytes := strip_sep p ++ [TILDE].
(* IterateRange(start, end, ascending): start <= key < end *)
Definition in_range (start k : bytes) : bool := lex_le start k && lex_lt k (rangefix start).

Definition pkey_str (pfx : bytes) (astr : addr -> bytes) (n : N) (a : addr) : bytes :=
  pfx ++ dec n ++ SEP :: astr a.
(* does the scan of block h visit the key of (n, a) ? *)
Definition scan_und (astr : addr -> bytes) (h n : N) (a : addr) : bool :=
  in_range (PFX_P ++ dec h ++ [SEP]) (pkey_str PFX_P astr n a).
Definition scan_rw (astr : addr -> bytes) (h n : N) (a : addr) : bool :=
  in_range (PFX_R ++ dec h ++ [SEP]) (pkey_str PFX_R astr n a).

(* ---- state ---- *)
Definition pmap := gmap (N * addr) Z.
Definition fupd (f : addr -> Z) (a : addr) (v : Z) : addr -> Z :=
  fun x => if (x =? a)%N then v else f x.
Definition fupd2 (f : N -> addr -> Z) (n : N) (a : addr) (v : Z) : N -> addr -> Z :=
  fun m x => if ((m =? n) && (x =? a))%N then v else f m x.
Definition pget (p : pmap) (n : N) (a : addr) : Z := default 0 (p !! (n, a)).
Definition aget (m : gmap addr Z) (a : addr) : Z := default 0 (m !! a).
(* sum of the active delegations *)
Definition asum (m : gmap addr Z) : Z := map_fold (fun _ v acc => v + acc) 0 m.

Record st := {
  height : N ;                 (* height of the last begun block (0 = genesis loaded) *)
  matk : N ;                   (* governance option rewardsMaturityTime *)
  bal : addr -> Z ;            (* OLT balances of ordinary accounts *)
  pool : Z ;                   (* OLT balance of the DelegationPool address *)
  active : gmap addr Z ;       (* deleg_a_<addr> *)
  pend : pmap ;                (* deleg_p_<h>_<addr> *)
  rew : addr -> Z ;            (* delegRwz_balance_<addr> *)
  rpend : pmap ;               (* delegRwz_pending_<h>_<addr> *)
  (* ghost bookkeeping, not part of the Go state *)
  donated : Z ;                (* successful direct transfers to the pool *)
  und : N -> addr -> Z ;       (* successfully undelegated, by maturity height *)
  paid : N -> addr -> Z ;      (* credited by addMaturedAmountsToBalance, by block height *)
  rwd : N -> addr -> Z ;       (* reward withdrawals initiated, by maturity height *)
  rpaid : N -> addr -> Z ;     (* credited by matureDelegationRewards, by block height *)
  accrued : addr -> Z ;        (* rewards accrued (input) *)
  taken : addr -> Z ;          (* rewards withdrawn or reinvested *)
  collided : bool              (* some scan visited a key of another height *)
}.

Definition genesis (k : N) (b : addr -> Z) (pl : Z) (ac : gmap addr Z) (pe : pmap)
           (rw : addr -> Z) (rp : pmap) : st :=
  {| height := 0 ; matk := k ; bal := b ; pool := pl ; active := ac ; pend := pe ; rew := rw ;
     rpend := rp ; donated := 0 ; und := fun _ _ => 0 ; paid := fun _ _ => 0 ;
     rwd := fun _ _ => 0 ; rpaid := fun _ _ => 0 ; accrued := fun _ => 0 ; taken := fun _ => 0 ;
     collided := false |}.

(* ---- maturation (generic in the scan predicate) ---- *)
(* phase 1: keys of other heights visited by the scan of block h: pay, clear key (h, a) *)
Definition collide_step (scan : N -> N -> addr -> bool) (h : N) (key : N * addr) (v : Z)
           (acc : (addr -> Z) * pmap) : (addr -> Z) * pmap :=
  let '(n, a) := key in
  if scan h n a && negb (n =? h)%N
  then (fupd acc.1 a (acc.1 a + v), <[(h, a) := 0]> acc.2)
  else acc.
Definition collides (scan : N -> N -> addr -> bool) (h : N) (p : pmap) : bool :=
  negb (bool_decide (map_Forall (fun key _ => scan h key.1 key.2 && negb (key.1 =? h)%N = false) p)).
(* phase 2: the keys of height h: pay the value as read through phase 1's writes, clear *)
Definition own_zero (h : N) (p : pmap) : pmap :=
  map_imap (fun key v => Some (if (key.1 =? h)%N then 0 else v)) p.
Definition mature (scan : N -> N -> addr -> bool) (h : N) (b : addr -> Z) (p : pmap)
  : (addr -> Z) * pmap :=
  let '(b1, p1) := map_fold (collide_step scan h) (b, p) p in
  (* the keys visited in phase 2 are the committed keys (h, a); a key (h, a) created by phase 1
     is not in the committed tree and is not visited — its value is 0 anyway *)
  (fun a => b1 a + pget p1 h a, own_zero h p1).

(* ---- operations ---- *)
Inductive op :=
| Begin (accr : list (addr * Z))      (* BeginBlock of the next height; accr = rewards credited
                                         to delegators by handleDelegationRewards (input) *)
| Delegate (a : addr) (amt fee : Z)
| Undelegate (a : addr) (amt fee : Z)
| WithdrawRw (a : addr) (amt fee : Z)
| Reinvest (a : addr) (amt fee : Z)
| Donate (a : addr) (amt fee : Z).    (* SENDPOOL to "DelegationPool" *)

Definition add_accr (f : addr -> Z) (l : list (addr * Z)) : addr -> Z :=
  fold_left (fun g '(a, v) => fupd g a (g a + v)) l f.

Definition with_tx (s : st) (b : addr -> Z) (pl : Z) (ac : gmap addr Z) (pe : pmap)
           (rw : addr -> Z) (rp : pmap) (dn : Z) (un rd : N -> addr -> Z) (tk : addr -> Z) : st :=
  {| height := height s ; matk := matk s ; bal := b ; pool := pl ; active := ac ; pend := pe ;
     rew := rw ; rpend := rp ; donated := dn ; und := un ; paid := paid s ; rwd := rd ;
     rpaid := rpaid s ; accrued := accrued s ; taken := tk ; collided := collided s |}.

(* the fee step (BasicFeeHandling): charge the signer after the handler; failure discards all *)
Definition charge (s0 s : st) (a : addr) (fee : Z) : st * bool :=
  if bal s a - fee <? 0 then (s0, false)
  else (with_tx s (fupd (bal s) a (bal s a - fee)) (pool s) (active s) (pend s) (rew s) (rpend s)
                (donated s) (und s) (rwd s) (taken s), true).

Definition step (astr : addr -> bytes) (s : st) (o : op) : st * bool :=
  match o with
  | Begin accr =>
      let h := (height s + 1)%N in
      let c := collides (scan_und astr) h (pend s) || collides (scan_rw astr) h (rpend s) in
      let '(b1, p1) := mature (scan_und astr) h (bal s) (pend s) in
      let rw1 := add_accr (rew s) accr in
      let '(b2, rp1) := mature (scan_rw astr) h b1 (rpend s) in
      ({| height := h ; matk := matk s ; bal := b2 ; pool := pool s ; active := active s ;
          pend := p1 ; rew := rw1 ; rpend := rp1 ; donated := donated s ; und := und s ;
          paid := (fun n a => if (n =? h)%N then b1 a - bal s a else paid s n a) ;
          rwd := rwd s ;
          rpaid := (fun n a => if (n =? h)%N then b2 a - b1 a else rpaid s n a) ;
          accrued := add_accr (accrued s) accr ; taken := taken s ;
          collided := collided s || c |}, true)
  | Delegate a amt fee =>
      (* coin.IsValid (amount >= 0), CheckBalanceFromAddress, Minus, pool +, active + *)
      if (amt <? 0) || (bal s a - amt <? 0) then (s, false)
      else charge s (with_tx s (fupd (bal s) a (bal s a - amt)) (pool s + amt)
                       (<[a := aget (active s) a + amt]> (active s)) (pend s) (rew s) (rpend s)
                       (donated s) (und s) (rwd s) (taken s)) a fee
  | Undelegate a amt fee =>
      (* Coin.Minus fails only when the RESULT is negative: no sign check on amt *)
      let remain := aget (active s) a - amt in
      let mh := (height s + matk s)%N in
      if (remain <? 0) || (pool s - amt <? 0) then (s, false)
      else charge s (with_tx s (bal s) (pool s - amt) (<[a := remain]> (active s))
                       (<[(mh, a) := pget (pend s) mh a + amt]> (pend s)) (rew s) (rpend s)
                       (donated s) (fupd2 (und s) mh a (und s mh a + amt)) (rwd s) (taken s)) a fee
  | WithdrawRw a amt fee =>
      let mh := (height s + matk s)%N in
      if rew s a - amt <? 0 then (s, false)
      else charge s (with_tx s (bal s) (pool s) (active s) (pend s) (fupd (rew s) a (rew s a - amt))
                       (<[(mh, a) := pget (rpend s) mh a + amt]> (rpend s))
                       (donated s) (und s) (fupd2 (rwd s) mh a (rwd s mh a + amt))
                       (fupd (taken s) a (taken s a + amt))) a fee
  | Reinvest a amt fee =>
      if rew s a - amt <? 0 then (s, false)
      else charge s (with_tx s (bal s) (pool s + amt) (<[a := aget (active s) a + amt]> (active s))
                       (pend s) (fupd (rew s) a (rew s a - amt)) (rpend s)
                       (donated s) (und s) (rwd s) (fupd (taken s) a (taken s a + amt))) a fee
  | Donate a amt fee =>
      (* runSendPool: Amount.IsValid (amount >= 0; /repo commit 5fba2a6 — before it a negative
         amount moved money out of the pool: former finding C12.negative_pool_donation), then
         MinusFromAddress(from), AddToAddress(pool) *)
      if (amt <? 0) || (bal s a - amt <? 0) then (s, false)
      else charge s (with_tx s (fupd (bal s) a (bal s a - amt)) (pool s + amt) (active s) (pend s)
                       (rew s) (rpend s) (donated s + amt) (und s) (rwd s) (taken s)) a fee
  end.

Definition run (astr : addr -> bytes) (s : st) (ops : list op) : st :=
  fold_left (fun s o => (step astr s o).1) ops s.
Fixpoint results (astr : addr -> bytes) (s : st) (ops : list op) : list bool :=
  match ops with
  | [] => []
  | o :: rest => let '(s', r) := step astr s o in r :: results astr s' rest
  end.

(* ---- trigger predicates (boolean, over the input) ---- *)
(* some block's scan visits a key of another height (former trigger
   C12.pending_height_prefix_collision; proved to be always false now) *)
Definition trig_collision (astr : addr -> bytes) (s0 : st) (ops : list op) : bool :=
  collided (run astr s0 ops).
(* a direct transfer to the pool with a negative amount (former trigger
   C12.negative_pool_donation; such a transfer is rejected now) *)
Definition neg_donation (o : op) : bool :=
  match o with Donate _ amt _ => amt <? 0 | _ => false end.
Definition trig_neg_donation (ops : list op) : bool := existsb neg_donation ops.
(* C12.negative_undelegate: NETWORK_UNDELEGATE with a negative amount (neither Validate nor the
   handler checks the sign: Coin.Minus only fails when the RESULT is negative) *)
Definition neg_undelegate (o : op) : bool :=
  match o with Undelegate _ amt _ => amt <? 0 | _ => false end.
Definition trig_neg_undelegate (ops : list op) : bool := existsb neg_undelegate ops.
(* C12.negative_reward_withdrawal: REWARDS_WITHDRAW_NETWORK_DELEGATE with a negative amount *)
Definition neg_withdraw (o : op) : bool :=
  match o with WithdrawRw _ amt _ => amt <? 0 | _ => false end.
Definition trig_neg_withdraw (ops : list op) : bool := existsb neg_withdraw ops.
(* C12.negative_reinvest: REWARDS_REINVEST_NETWORK_DELEGATE with a negative amount *)
Definition neg_reinvest (o : op) : bool :=
  match o with Reinvest _ amt _ => amt <? 0 | _ => false end.
Definition trig_neg_reinvest (ops : list op) : bool := existsb neg_reinvest ops.
