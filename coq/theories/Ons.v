(* Ons.v — executable model of the domain-name service:
     /repo/action/ons/{create,update,sale,purchase,send,renew,deleteSub}.go  (the run* functions)
     /repo/data/ons/{domain,store,types}.go, the fee step of action.BasicFeeHandling and the
     session rule of app.txDeliverer (a failed handler or fee step leaves no trace: C06).
   No proofs in this file (see proofs/OnsProofs.v).

   Names.  A name is the list of its labels: "a.n.ol" = ["a";"n";"ol"].  Splitting at '.' is a
   bijection between strings and non-empty lists of dot-free strings, so nothing is lost.  The
   store key of a name is the reversed string ("lo.n.a") under prefix "d_"; IterateSubDomain(p)
   ranges over [ "d_" ++ rev("." ++ p), that ++ "~" ), i.e. over the keys that extend "lo.n."
   — the leading dot is part of the range start, so "lo.nx" (name "xn.ol") is NOT in the range of
   "n.ol".  On label lists this is: n = pre ++ p with pre <> [] ([sub_of]).

   Which keys an iteration sees.  storage.State.IterateRange collects the KEYS from the chain
   state (the tree as of the last Commit) and reads the VALUES through the block cache.  Hence a
   record written earlier in the same block (not yet committed) is invisible to
   IterateSubDomain / DeleteAllSubdomains; a committed record deleted in this block is skipped.
   The model keeps [snap], the set of names committed at the last block end, for this.

   Currency.  All amounts are in the chain's base currency (OLT): <kind>Tx.Validate insists on
   that, and DeliverTx runs Validate before the handler (since /repo d276709), like CheckTx.
   The signature / signer-set / fee / currency part of Validate is an input flag of a
   transaction ([t_static_ok]); the per-kind field checks are modelled ([validate]). *)
From Coq Require Import ZArith Ascii String.
From stdpp Require Import gmap list strings.
Local Open Scope Z_scope.

Definition wrap64 (z : Z) : Z := ((z + 2^63) mod 2^64) - 2^63.

Definition label := string.
Definition name := list label.
Definition addr := N.

Record domain := {
  d_owner : addr ;
  d_benef : option addr ;          (* None = empty address *)
  d_created : Z ;
  d_updated : Z ;
  d_expiry : Z ;
  d_active : bool ;
  d_onsale : bool ;
  d_price : option Z ;             (* SalePrice, nil when not on sale *)
  d_uri : string }.

Global Instance domain_eq_dec : EqDecision domain.
Proof. solve_decision. Defined.

(* governance ONS options, read afresh by every handler run *)
Record opts := { o_perblock : Z ; o_base : Z ; o_tlds : list string }.

(* what a handler reads from its context besides the stores *)
Record env := {
  e_h : Z ;            (* ctx.Header.Height *)
  e_v : Z ;            (* ctx.State.Version() *)
  e_opts : opts }.

Record state := {
  reg : gmap name domain ;
  snap : gset name ;               (* names whose key is in the committed tree *)
  bal : gmap addr Z ;              (* OLT balances *)
  pool : Z }.                      (* fee pool *)

(* ---- names (data/ons/types.go) ---- *)
Definition is_alnum (c : ascii) : bool :=
  let n := N_of_ascii c in
  ((48 <=? n) && (n <=? 57) || (65 <=? n) && (n <=? 90) || (97 <=? n) && (n <=? 122))%N.
Definition is_alpha (c : ascii) : bool :=
  let n := N_of_ascii c in
  ((65 <=? n) && (n <=? 90) || (97 <=? n) && (n <=? 122))%N.
Definition label_ok (l : label) : bool :=
  negb (String.eqb l "") && forallb is_alnum (list_ascii_of_string l).
Definition tld_ok (l : label) : bool :=
  let n := String.length l in
  (2 <=? n)%nat && (n <=? 11)%nat && forallb is_alpha (list_ascii_of_string l).
(* byte length of the dotted string *)
Definition name_len (n : name) : nat :=
  (foldr (fun l acc => String.length l + acc) 0 n + (length n - 1))%nat.
(* reg: ^([a-zA-Z0-9]+\.)*[a-zA-Z0-9]+\.[a-zA-Z]{2,11}?$ and len <= 256 *)
Definition name_syntax_ok (n : name) : bool :=
  match reverse n with
  | tld :: rest => (1 <=? length rest)%nat && tld_ok tld && forallb label_ok rest
                   && (name_len n <=? 256)%nat
  | [] => false
  end.
(* verifyDomainName = IsNameAllowed && IsValid *)
Definition name_valid (o : opts) (n : name) : bool :=
  name_syntax_ok n &&
  match last n with Some tld => bool_decide (tld ∈ o_tlds o) | None => false end.

(* IsSub on names that pass IsValid or are stored (see the header) *)
Definition is_sub (n : name) : bool := (3 <=? length n)%nat.
(* GetParentName: the last two labels *)
Definition parent_name (n : name) : name := drop (length n - 2) n.
(* key of n lies in the IterateSubDomain range of p *)
Definition is_sub_of (p n : name) : bool :=
  (length p <? length n)%nat && bool_decide (drop (length n - length p) n = p).

(* ---- balances ---- *)
Definition getbal (b : gmap addr Z) (a : addr) : Z := default 0 (b !! a).
(* MinusFromAddress: error when the result would be negative *)
Definition debit (b : gmap addr Z) (a : addr) (x : Z) : option (gmap addr Z) :=
  if getbal b a - x <? 0 then None else Some (<[a := getbal b a - x]> b).
Definition credit (b : gmap addr Z) (a : addr) (x : Z) : gmap addr Z :=
  <[a := getbal b a + x]> b.

(* ---- data/ons/domain.go ---- *)
Definition is_changeable (d : domain) (h : Z) : bool := d_updated d + 1 <=? h.
Definition is_expired (d : domain) (h : Z) : bool := d_expiry d <? h.
Definition is_active (d : domain) (h : Z) : bool := d_active d && (h <? d_expiry d).

Definition set_expiry (x : Z) (d : domain) : domain :=
  {| d_owner := d_owner d; d_benef := d_benef d; d_created := d_created d; d_updated := d_updated d;
     d_expiry := x; d_active := d_active d; d_onsale := d_onsale d; d_price := d_price d;
     d_uri := d_uri d |}.
Definition set_active (x : bool) (d : domain) : domain :=
  {| d_owner := d_owner d; d_benef := d_benef d; d_created := d_created d; d_updated := d_updated d;
     d_expiry := d_expiry d; d_active := x; d_onsale := d_onsale d; d_price := d_price d;
     d_uri := d_uri d |}.

(* the names an IterateSubDomain(p) callback is called on *)
Definition visited (s : state) (p n : name) : bool := is_sub_of p n && bool_decide (n ∈ snap s).

(* DeleteAllSubdomains(p) *)
Definition delete_subs (s : state) (p : name) : gmap name domain :=
  map_imap (fun n d => if visited s p n then None else Some d) (reg s).
(* the iteration bodies of runUpdate (deactivate) and runRenew (copy expiry) *)
Definition map_subs (s : state) (p : name) (f : domain -> domain) (r : gmap name domain)
  : gmap name domain :=
  map_imap (fun n d => if visited s p n then Some (f d) else Some d) r.

(* blocksBought (calculateExpiry / calculateRenewal / the on-sale branch, /repo bd3d183): the
   big.Int quotient; a count that does not fit int64 is refused (None) *)
Definition blocks_bought (amount perblock : Z) : option Z :=
  let q := amount / perblock in
  if (- 2^63 <=? q) && (q <? 2^63) then Some q else None.
(* expiryOverflows(from, extend): from > 0 && extend > math.MaxInt64 - from *)
Definition expiry_overflows (from extend : Z) : bool := (0 <? from) && (2^63 - 1 - from <? extend).

(* ---- handlers: None = (false, response), the session is discarded ---- *)

Definition run_create (e : env) (s : state) (owner : addr) (benef : option addr) (n : name)
    (uri_ok : bool) (uri : string) (price : Z) : option state :=
  let o := e_opts e in
  if price <=? o_base o then None else
  if bool_decide (is_Some (reg s !! n)) then None else
  match debit (bal s) owner price with
  | None => None
  | Some b1 =>
    if negb (name_valid o n) then None else
    if negb (String.eqb uri "") && negb uri_ok then None else
    let expiry :=
      if is_sub n then
        match reg s !! parent_name n with
        | None => None
        | Some p => if bool_decide (d_owner p = owner) then Some (d_expiry p) else None
        end
      else
        match blocks_bought (price - o_base o) (o_perblock o) with
        | None => None
        | Some extend =>
          if expiry_overflows (e_v e) extend then None else Some (wrap64 (e_v e + extend))
        end in
    match expiry with
    | None => None
    | Some x =>
      let d := {| d_owner := owner; d_benef := Some (default owner benef);
                  d_created := e_h e; d_updated := e_h e; d_expiry := x; d_active := true;
                  d_onsale := false; d_price := None; d_uri := uri |} in
      Some {| reg := <[n := d]> (reg s); snap := snap s; bal := b1; pool := pool s + price |}
    end
  end.

Definition run_update (e : env) (s : state) (owner : addr) (benef : option addr) (n : name)
    (active uri_ok : bool) (uri : string) : option state :=
  match reg s !! n with
  | None => None
  | Some d =>
    if negb (is_changeable d (e_h e)) then None else
    if negb (bool_decide (d_owner d = owner)) then None else
    if negb (String.eqb uri "") && negb uri_ok then None else
    let d' := {| d_owner := d_owner d; d_benef := benef; d_created := d_created d;
                 d_updated := e_h e; d_expiry := d_expiry d; d_active := active;
                 d_onsale := d_onsale d; d_price := d_price d; d_uri := uri |} in
    let r1 := if negb active && negb (is_sub n) then map_subs s n (set_active false) (reg s)
              else reg s in
    Some {| reg := <[n := d']> r1; snap := snap s; bal := bal s; pool := pool s |}
  end.

Definition run_sell (e : env) (s : state) (owner : addr) (n : name) (price : Z) (cancel : bool)
  : option state :=
  if price <=? o_perblock (e_opts e) then None else
  if price <? 0 then None else
  if is_sub n then None else
  match reg s !! n with
  | None => None
  | Some d =>
    if negb (bool_decide (d_owner d = owner)) then None else
    if negb (is_changeable d (e_h e)) then None else
    if is_expired d (e_h e) then None else
    let d' := if cancel
      then {| d_owner := d_owner d; d_benef := d_benef d; d_created := d_created d;
              d_updated := e_h e; d_expiry := d_expiry d; d_active := d_active d;
              d_onsale := false; d_price := None; d_uri := d_uri d |}
      else {| d_owner := d_owner d; d_benef := d_benef d; d_created := d_created d;
              d_updated := e_h e; d_expiry := d_expiry d; d_active := false;
              d_onsale := true; d_price := Some price; d_uri := d_uri d |} in
    Some {| reg := <[n := d']> (reg s); snap := snap s; bal := bal s; pool := pool s |}
  end.

(* on-sale branch taken by runPurchaseDomain *)
Definition sale_branch (e : env) (d : domain) : bool := (e_v e <=? d_expiry d) && d_onsale d.

Definition run_purchase (e : env) (s : state) (buyer : addr) (account : option addr) (n : name)
    (offer : Z) : option state :=
  let o := e_opts e in
  match reg s !! n with
  | None => None
  | Some d =>
    if negb (d_onsale d) && (e_v e <=? d_expiry d) then None else
    if is_sub n then None else
    let pay :=
      if sale_branch e d then
        match d_price d with
        | None => None                     (* nil SalePrice while on sale: never stored *)
        | Some q =>
          if negb (q <=? offer) then None else
          match debit (bal s) buyer q with
          | None => None
          | Some b1 =>
            match blocks_bought (offer - q) (o_perblock o) with
            | None => None
            | Some extend => Some (credit b1 (d_owner d) q, offer - q, extend)
            end
          end
        end
      else
        if offer <? o_base o then None
        else
          match blocks_bought (offer - o_base o) (o_perblock o) with
          | None => None
          | Some extend => Some (bal s, offer, extend)
          end in
    match pay with
    | None => None
    | Some (b2, remain, extend) =>
      let from := if e_v e <? d_expiry d then d_expiry d else e_v e in
      if expiry_overflows from extend then None else
      match debit b2 buyer remain with
      | None => None
      | Some b3 =>
        let d' := {| d_owner := buyer; d_benef := account; d_created := d_created d;
                     d_updated := e_v e; d_expiry := wrap64 (from + extend); d_active := true;
                     d_onsale := false; d_price := None; d_uri := "" |} in
        Some {| reg := <[n := d']> (delete_subs s n); snap := snap s; bal := b3;
                pool := pool s + remain |}
      end
    end
  end.

Definition run_send (e : env) (s : state) (from : addr) (n : name) (amount : Z) : option state :=
  if amount <? 0 then None else
  match reg s !! n with
  | None => None
  | Some d =>
    if negb (is_changeable d (e_h e)) then None else
    if is_expired d (e_v e) then None else
    if negb (is_active d (e_v e)) then None else
    match d_benef d with
    | None => None
    | Some to =>
      match debit (bal s) from amount with
      | None => None
      | Some b1 => Some {| reg := reg s; snap := snap s; bal := credit b1 to amount; pool := pool s |}
      end
    end
  end.

Definition run_renew (e : env) (s : state) (owner : addr) (n : name) (price : Z) : option state :=
  let o := e_opts e in
  if price <=? o_perblock o then None else
  if is_sub n then None else
  match reg s !! n with
  | None => None
  | Some d =>
    if negb (is_changeable d (e_h e)) then None else
    if is_expired d (e_v e) then None else
    if negb (bool_decide (d_owner d = owner)) then None else
    match debit (bal s) owner price, blocks_bought price (o_perblock o) with
    | Some b1, Some extend =>
      if expiry_overflows (d_expiry d) extend then None else
      let x := wrap64 (d_expiry d + extend) in
      let d' := {| d_owner := d_owner d; d_benef := d_benef d; d_created := d_created d;
                   d_updated := e_h e; d_expiry := x; d_active := d_active d;
                   d_onsale := d_onsale d; d_price := d_price d; d_uri := d_uri d |} in
      Some {| reg := <[n := d']> (map_subs s n (set_expiry x) (reg s)); snap := snap s;
              bal := b1; pool := pool s + price |}
    | _, _ => None
    end
  end.

Definition run_deletesub (e : env) (s : state) (owner : addr) (n : name) : option state :=
  let pn := if is_sub n then parent_name n else n in
  match reg s !! pn with
  | None => None
  | Some p =>
    if negb (is_changeable p (e_h e)) then None else
    if negb (bool_decide (d_owner p = owner)) then None else
    if is_sub n then
      match reg s !! n with
      | None => None
      | Some _ => Some {| reg := delete n (reg s); snap := snap s; bal := bal s; pool := pool s |}
      end
    else Some {| reg := delete_subs s n; snap := snap s; bal := bal s; pool := pool s |}
  end.

(* ---- transactions ---- *)
Inductive op :=
| Create (owner : addr) (benef : option addr) (n : name) (uri_ok : bool) (uri : string) (price : Z)
| Update (owner : addr) (benef : option addr) (n : name) (active uri_ok : bool) (uri : string)
| Sell (owner : addr) (n : name) (price : Z) (cancel : bool)
| Purchase (buyer : addr) (account : option addr) (n : name) (offer : Z)
| Send (from : addr) (n : name) (amount : Z)
| Renew (owner : addr) (n : name) (price : Z)
| DeleteSub (owner : addr) (n : name).

(* msg.Signers() of each message type: exactly one address *)
Definition signer (o : op) : addr :=
  match o with
  | Create a _ _ _ _ _ | Update a _ _ _ _ _ | Sell a _ _ _ | Purchase a _ _ _ | Send a _ _
  | Renew a _ _ | DeleteSub a _ => a
  end.

Definition run_op (e : env) (s : state) (o : op) : option state :=
  match o with
  | Create a b n uo u p => run_create e s a b n uo u p
  | Update a b n act uo u => run_update e s a b n act uo u
  | Sell a n p c => run_sell e s a n p c
  | Purchase a b n p => run_purchase e s a b n p
  | Send a n p => run_send e s a n p
  | Renew a n p => run_renew e s a n p
  | DeleteSub a n => run_deletesub e s a n
  end.

(* a delivered transaction: message, context, and the fee step's inputs (the address charged —
   the first signature's — and the charge = price x gas used; None: the fee step failed on its
   own, e.g. gas limit).
   [t_static_ok]: the part of the handler's Validate the model does not own — the signatures are
   valid and their signer set is msg.Signers() (action.ValidateBasic), the fee passes ValidateFee,
   and the message's amount is in the base currency OLT (create/sell/purchase/renew).
   [t_nil_benef]: the beneficiary field of the message is JSON null (a nil address) rather than
   an empty or proper address — only DomainUpdate's Validate tells the two apart. *)
Record tx := { t_op : op ; t_env : env ; t_payer : addr ; t_fee : option Z ;
               t_static_ok : bool ; t_nil_benef : bool }.

(* the per-kind field checks of <kind>Tx.Validate (action/ons/*.go), run by CheckTx and — since
   /repo d276709 — by DeliverTx before the handler *)
Definition validate (t : tx) : bool :=
  t_static_ok t &&
  match t_op t with
  | Create _ _ n _ _ _ => name_syntax_ok n
  | Update _ _ n act _ _ => name_syntax_ok n && negb (negb act && t_nil_benef t)
  | Sell _ n p _ => (0 <=? p) && name_syntax_ok n && negb (is_sub n)
  | Purchase _ _ n _ => name_syntax_ok n
  | Send _ _ p => 0 <=? p
  | Renew _ n _ => name_syntax_ok n && negb (is_sub n)
  | DeleteSub _ n => name_syntax_ok n
  end.

Definition fee_step (s : state) (t : tx) : option state :=
  match t_fee t with
  | None => None
  | Some f =>
    match debit (bal s) (t_payer t) f with
    | None => None
    | Some b => Some {| reg := reg s; snap := snap s; bal := b; pool := pool s + f |}
    end
  end.

(* txDeliverer: Validate, handler, then fee; commit only if all succeeded *)
Definition deliver (s : state) (t : tx) : state * bool :=
  if negb (validate t) then (s, false) else
  match run_op (t_env t) s (t_op t) with
  | None => (s, false)
  | Some s1 => match fee_step s1 t with None => (s, false) | Some s2 => (s2, true) end
  end.

(* Commit: the block's writes reach the tree *)
Definition end_block (s : state) : state :=
  {| reg := reg s; snap := dom (reg s); bal := bal s; pool := pool s |}.

Inductive event := Tx (t : tx) | EndBlock.

Definition step (s : state) (ev : event) : state :=
  match ev with Tx t => (deliver s t).1 | EndBlock => end_block s end.

Definition run (s : state) (evs : list event) : state := fold_left step evs s.

Definition init_state (b : gmap addr Z) : state := {| reg := ∅; snap := ∅; bal := b; pool := 0 |}.
