(* Auth.v — action.ValidateBasic and the admission rule of txChecker / txDeliverer, with
   symbolic cryptography.  Addresses, keys and message contents are numbers; a signature is
   the pair (key that produced it, content it was produced over) — the symbolic ideal of a
   signature scheme: it verifies under exactly that key over exactly that content.  The JSON
   re-serialisation RawTx.RawBytes is an injective function of (type, payload, fee, memo) —
   a Section hypothesis in the proofs, validated against the serializer by the harness.
   No proofs here. *)
From Coq Require Import ZArith List Bool.
Import ListNotations.
Local Open Scope Z_scope.

Record rawtx := { r_type : Z ; r_data : Z (* payload content id *) ; r_feecur : Z ;
                  r_feeprice : Z ; r_feegas : Z ; r_memo : Z }.

Definition rawtx_eqb (a b : rawtx) : bool :=
  (r_type a =? r_type b) && (r_data a =? r_data b) && (r_feecur a =? r_feecur b) &&
  (r_feeprice a =? r_feeprice b) && (r_feegas a =? r_feegas b) && (r_memo a =? r_memo b).

(* Signature{Signer, Signed}: the public key presented, and what the signature bytes are:
   produced by key [s_by] over content [s_over]; [s_alg_ok] = the presented key decodes under
   its declared algorithm (GetHandler succeeds) *)
Record sigrec := { s_key : Z ; s_alg_ok : bool ; s_by : Z ; s_over : rawtx }.

(* h.VerifyBytes(data, sig): symbolic — verifies iff produced by that very key over that very
   content *)
Definition verify (key : Z) (msg : rawtx) (s : sigrec) : bool :=
  (s_by s =? key) && rawtx_eqb (s_over s) msg.

(* address derived from a public key: injective (symbolic: the identity) *)
Definition addr_of (key : Z) : Z := key.

(* action.ValidateBasic(tx.RawBytes(), msg.Signers(), tx.Signatures) *)
Fixpoint validate_sigs (msg : rawtx) (signers : list Z) (sigs : list sigrec) : bool :=
  match signers, sigs with
  | [], [] => true
  | a :: signers', s :: sigs' =>
      s_alg_ok s && (addr_of (s_key s) =? a) && verify (s_key s) msg s &&
      validate_sigs msg signers' sigs'
  | _, _ => false
  end.
Definition validate_basic (msg : rawtx) (signers : list Z) (sigs : list sigrec) : bool :=
  (Nat.eqb (length signers) (length sigs)) && validate_sigs msg signers sigs.

(* a transaction as received: content, the signer set its payload requires (Msg.Signers() of
   the parsed payload — a function of the payload), the signatures, and whether the handler and
   fee step would succeed in the current state (state-dependent, independent of signatures) *)
Record stx := { t_raw : rawtx ; t_sigs : list sigrec }.

Section Admission.
  Variable signers_of : rawtx -> list Z.     (* Msg.Signers() of the payload, per kind *)
  Variable static_ok : rawtx -> bool.        (* the other static checks of Validate *)
  Variable process_ok : rawtx -> bool.       (* ProcessCheck/ProcessDeliver && ProcessFee verdict *)

  (* handler.Validate *)
  Definition validate (t : stx) : bool :=
    validate_basic (t_raw t) (signers_of (t_raw t)) (t_sigs t) && static_ok (t_raw t).

  (* txChecker: Validate, then ProcessCheck and ProcessFee *)
  Definition check_tx (t : stx) : bool := validate t && process_ok (t_raw t).

  (* txDeliverer as written: ProcessDeliver and ProcessFee only; [calls_validate] is the fact
     srcfacts extracts from app/controller.go *)
  Definition deliver_tx (calls_validate : bool) (t : stx) : bool :=
    (if calls_validate then validate t else true) && process_ok (t_raw t).
End Admission.

(* an authentic signature by key k over content m *)
Definition sign (k : Z) (m : rawtx) : sigrec := {| s_key := k ; s_alg_ok := true ; s_by := k ; s_over := m |}.

(* "the transaction carries, for each required address, a signature that verifies under that
   address's key over exactly the transaction's content" *)
Fixpoint authentic (msg : rawtx) (signers : list Z) (sigs : list sigrec) : Prop :=
  match signers, sigs with
  | [], [] => True
  | a :: signers', s :: sigs' =>
      (addr_of (s_key s) = a /\ s_by s = s_key s /\ s_over s = msg) /\ authentic msg signers' sigs'
  | _, _ => False
  end.
