(* Election.v — executable model of identity.ValidatorStore.GetEndBlockUpdate
   (/repo/identity/validator_set.go), the per-block validator election.  No proofs here.

   Identifiers.  A validator address and a consensus public key are both represented by a
   [key] (N).  A public key is identified with the Tendermint address derived from it
   (address = SHA256(pubkey)[:20]; injectivity of that hash is trusted), so [c_pk c = c_addr c]
   says "the record's address is the address of its consensus key".  The Go code never checks
   that (action/staking/stake.go takes ValidatorAddress and ValidatorPubKey independently), so
   the model keeps the two fields apart.  The harness numbers the keys by the byte order of the
   public keys, so that sorting by [key] is the Go sort by PubKey.Data.

   Inputs of one block H (everything the Go function reads):
     b_cands  the v_ records at tree version H-1 (InitValidatorQueue pushes exactly those, and
              GetEndBlockUpdate re-reads the same version), in store iteration order
     b_opts   the staking options at EndBlock (MinSelfDelegationAmount is narrowed with
              big.Int.Int64(): wrap64)
     b_mal    vs.maliciousValidators as left by CheckMaliciousValidators in BeginBlock
     b_byz    len(vs.byzantine) > 0  (only matters at height 1)
     b_la     the key set of vs.lastActive = addresses in LastCommitInfo (a Go map: distinct)
     purge    the purged_ records (last purge height per address)
   The pop order of container/heap among equal priorities is NOT modelled: [finish] takes the
   election [el] as an argument; [elect] is one deterministic valid election, and the theorems
   hold for every election satisfying [valid_election] (any tie-breaking at the boundary). *)
From stdpp Require Import gmap list sorting.
From Coq Require Import ZArith.
Local Open Scope Z_scope.

Definition key := N.
Definition wrap64 (z : Z) : Z := ((z + 2^63) mod 2^64) - 2^63.

Record cand := mkc { c_addr : key; c_pk : key; c_power : Z; c_stake : Z }.
Record opts := mko { o_min : Z; o_top : Z }.
Definition upd := (key * Z)%type.

Definition memb (k : key) (l : list key) : bool := existsb (N.eqb k) l.

(* validator.Power >= minSelfDelegationAmount && not malicious (the cnt < top test is [take]) *)
Definition eligibleb (minp : Z) (mal : list key) (c : cand) : bool :=
  (minp <=? c_power c) && negb (memb (c_addr c) mal).

Definition pow_ge (c d : cand) : Prop := c_power d <= c_power c.
Global Instance pow_ge_dec : RelDecision pow_ge := fun c d => Z_le_dec (c_power d) (c_power c).

(* candidates are visited by non-increasing power; the first [top] eligible ones are elected *)
Definition elect (minp top : Z) (mal : list key) (cands : list cand) : list cand :=
  take (Z.to_nat top) (List.filter (eligibleb minp mal) (merge_sort pow_ge cands)).

Definition upd_le (a b : upd) : Prop := (a.1 <= b.1)%N.
Global Instance upd_le_dec : RelDecision upd_le := fun a b => decide (a.1 <= b.1)%N.

Definition inel (c : cand) (el : list cand) : bool :=
  existsb (fun d => N.eqb (c_addr d) (c_addr c)) el.

(* nonTopValidators: address -> pubkey of every visited candidate that was not elected *)
Definition non_top (cands el : list cand) : list (key * key) :=
  map (fun c => (c_addr c, c_pk c)) (List.filter (fun c => negb (inel c el)) cands).

Fixpoint assoc {A} (k : key) (l : list (key * A)) : option A :=
  match l with
  | [] => None
  | (k', v) :: r => if N.eqb k k' then Some v else assoc k r
  end.

(* "validator purged in block H persists in block H+1, H+2, so we can't purge it again" *)
Definition purge_guard (h ph : Z) : bool := (0 <? ph) && (h <=? ph + 2).

Definition purge_height (pg : gmap key Z) (a : key) : Z := default 0 (pg !! a).

Definition purgedb (h : Z) (nt : list (key * key)) (pg : gmap key Z) (a : key) : bool :=
  match assoc a nt with
  | None => false
  | Some _ => negb (purge_guard h (purge_height pg a))
  end.

(* the last-active addresses that get a power-0 update this block.  vs.lastActive is a map, so
   its keys are distinct and the purge height written for one address is never read again in
   the same loop: the loop is a filter *)
Definition purged_addrs (h : Z) (nt : list (key * key)) (pg : gmap key Z) (la : list key) : list key :=
  List.filter (purgedb h nt pg) la.

Definition pos_updates (el : list cand) : list upd := map (fun c => (c_pk c, c_power c)) el.

Definition finish (h : Z) (byz : bool) (cands el : list cand) (la : list key) (pg : gmap key Z)
  : list upd * gmap key Z :=
  if (1 <? h) || byz then
    let nt := non_top cands el in
    let pa := purged_addrs h nt pg la in
    (merge_sort upd_le (pos_updates el ++ map (fun a => (default 0%N (assoc a nt), 0)) pa),
     foldr (fun a m => <[a := h]> m) pg pa)
  else ([], pg).

(* CheckMaliciousValidators (BeginBlock), since /repo 304e1e1: the frozen suspicious-validator
   records are collected at EVERY height (before the early return on height <= BlockVotesDiff);
   only the missed-votes scan, which adds new freeze records, waits for the window.  [frozen] is
   the set of frozen records after that scan; height and window no longer matter. *)
Definition malicious_set (h bvd : Z) (frozen : list key) : list key := frozen.

Record blockin := mkb {
  b_height : Z; b_cands : list cand; b_opts : opts; b_mal : list key; b_byz : bool; b_la : list key }.

Definition min_power (o : opts) : Z := wrap64 (o_min o).

Definition model_election (b : blockin) : list cand :=
  elect (min_power (b_opts b)) (o_top (b_opts b)) (b_mal b) (b_cands b).

Definition end_block (b : blockin) (pg : gmap key Z) : list upd * gmap key Z :=
  finish (b_height b) (b_byz b) (b_cands b) (model_election b) (b_la b) pg.

(* ---- what "an election follows the staking rule" means (any tie-breaking) ---- *)
Definition eligible (minp : Z) (mal : list key) (c : cand) : Prop :=
  minp <= c_power c /\ c_addr c ∉ mal.

Record valid_election (minp top : Z) (mal : list key) (cands el : list cand) : Prop := {
  ve_nodup : NoDup el;
  ve_sub : forall c, c ∈ el -> c ∈ cands;
  ve_elig : forall c, c ∈ el -> eligible minp mal c;
  ve_top : Z.of_nat (length el) <= Z.max 0 top;
  (* an eligible candidate is left out only when the top count is exhausted, and then it has
     no more power than any elected one *)
  ve_max : forall d, d ∈ cands -> eligible minp mal d -> d ∉ el ->
           top <= Z.of_nat (length el) /\ forall c, c ∈ el -> c_power d <= c_power c
}.

(* ---- where validator records come from (identity.ValidatorStore.set has two callers:
   HandleStake and HandleUnstake; GetEndBlockUpdate deletes) ----
   A table is the list of v_ records (store keys = addresses: distinct). *)
Inductive recop :=
| RStake (addr pk : key) (amount : Z)   (* STAKE handler -> HandleStake.  Since /repo 9246c8d the handler
                                            refuses unless addr is the address of pk (addr = pk here) *)
| RUnstake (addr : key) (amount : Z)    (* HandleUnstake: unstake handler, delayed unstake, penalty *)
| RRewrite (addr : key) (stake : Z)     (* any other rewrite of the stake of an existing record *)
| RDelete (addr : key).                 (* GetEndBlockUpdate deletes a record *)

Definition has_rec (a : key) (t : list cand) : bool := existsb (fun c => N.eqb (c_addr c) a) t.
Definition upd_rec (a : key) (f : Z -> Z) (t : list cand) : list cand :=
  map (fun c => if N.eqb (c_addr c) a
                then mkc (c_addr c) (c_pk c) (wrap64 (f (c_stake c))) (f (c_stake c)) else c) t.

Definition rec_step (t : list cand) (o : recop) : list cand :=
  match o with
  | RStake a pk amt =>
      if negb (N.eqb a pk) then t                               (* refused: ErrInvalidPubkey *)
      else if has_rec a t then upd_rec a (fun s => s + amt) t   (* the stored key is kept *)
      else t ++ [mkc a pk (wrap64 amt) amt]
  | RUnstake a amt =>                                          (* since /repo e681066 HandleUnstake refuses *)
      if existsb (fun c => N.eqb (c_addr c) a && (c_stake c - amt <? 0)) t then t   (* a negative result *)
      else upd_rec a (fun s => s - amt) t
  | RRewrite a st => upd_rec a (fun _ => st) t
  | RDelete a => List.filter (fun c => negb (N.eqb (c_addr c) a)) t
  end.
Definition rec_run (t : list cand) (ops : list recop) : list cand := fold_left rec_step ops t.
