(* DelegCheck.v — executable comparison / monitor functions for the C12 correspondence check
   (evaluated with vm_compute on what the real application did). *)
From stdpp Require Import gmap list.
From Coq Require Import ZArith NArith.
From OL Require Import theories.Deleg.
Local Open Scope Z_scope.

(* projected observables of the implementation after one ABCI step *)
Record snap := {
  s_bal : list Z ;                      (* OLT balance of delegator i *)
  s_pool : Z ;
  s_active : list (addr * Z) ;          (* deleg_a_* *)
  s_pend : list ((N * addr) * Z) ;      (* deleg_p_* *)
  s_rew : list Z ;                      (* delegRwz_balance_* of delegator i *)
  s_rpend : list ((N * addr) * Z)       (* delegRwz_pending_* *)
}.

Record case := {
  c_k : N ;                             (* rewardsMaturityTime read from the state *)
  c_addrs : list bytes ;                (* addr.String() of delegator i *)
  c_gen : snap ;                        (* state after InitChain *)
  c_ops : list op ;
  c_res : list bool ;                   (* observed: code == 0 *)
  c_snaps : list snap                   (* observed after each op *)
}.

Definition astr_of (l : list bytes) : addr -> bytes := fun a => nth (N.to_nat a) l [].
Definition fun_of (l : list Z) : addr -> Z := fun a => nth (N.to_nat a) l 0.
Definition idxs (n : nat) : list addr := map N.of_nat (seq 0 n).

Definition genesis_of (c : case) : st :=
  let g := c_gen c in
  genesis (c_k c) (fun_of (s_bal g)) (s_pool g) (list_to_map (s_active g)) (list_to_map (s_pend g))
          (fun_of (s_rew g)) (list_to_map (s_rpend g)).

Definition zlist_eqb (a b : list Z) : bool := bool_decide (a = b).

Definition state_matches (n : nat) (s : st) (o : snap) : bool :=
  zlist_eqb (map (bal s) (idxs n)) (s_bal o)
  && (pool s =? s_pool o)
  && bool_decide (active s = list_to_map (s_active o))
  && bool_decide (pend s = list_to_map (s_pend o))
  && zlist_eqb (map (rew s) (idxs n)) (s_rew o)
  && bool_decide (rpend s = list_to_map (s_rpend o)).

(* index of the first step where the model's result or state differs from the observation *)
Fixpoint first_diff (astr : addr -> bytes) (n : nat) (i : nat) (s : st) (ops : list op)
         (res : list bool) (snaps : list snap) : option nat :=
  match ops, res, snaps with
  | [], _, _ => None
  | o :: ops', r :: res', sn :: snaps' =>
      let '(s', r') := step astr s o in
      if Bool.eqb r r' && state_matches n s' sn then first_diff astr n (S i) s' ops' res' snaps'
      else Some i
  | _, _, _ => Some i
  end.

Definition case_diff (c : case) : option nat :=
  first_diff (astr_of (c_addrs c)) (length (c_addrs c)) 0 (genesis_of c) (c_ops c) (c_res c) (c_snaps c).

Fixpoint model_mismatches (i : nat) (cs : list case) : list (nat * nat) :=
  match cs with
  | [] => []
  | c :: rest => match case_diff c with
                 | Some j => (i, j) :: model_mismatches (S i) rest
                 | None => model_mismatches (S i) rest
                 end
  end.

(* ---- the property monitor, evaluated on the IMPLEMENTATION's observations only ----
   class 1: pool < sum of active delegations
   class 2: pool <> sum of active although no direct transfer to the pool succeeded so far
            (relative to the genesis difference)
   class 3: the credit a delegator received in BeginBlock(h) differs from what was due at h
            (genesis pending (h,a) + successful undelegations / reward withdrawals maturing at h)
   class 4: a reward balance is negative
   class 5: BeginBlock(h) "paid" a delegator a NEGATIVE matured undelegation (debited him)
   class 6: BeginBlock(h) "paid" a delegator a NEGATIVE matured reward withdrawal
   class 7: a delegator's balance is negative
   class 8: an active delegation entry is negative
   class 10: a pending undelegation / pending reward withdrawal of a height already reached is not
             cleared (non-zero): matured but lost, or paid but left in place
   class 11: a transaction changed reward balances otherwise than: a successful reward withdrawal /
             reinvestment of amt debits the sender's reward balance by exactly amt, nothing else changes
             (so what is withdrawn or reinvested never exceeds the accrued balance, which is >= 0)
   class 9: the rewards credited to the delegators in BeginBlock are not proportional to the active
            delegations at the beginning of the block: there is no total D >= 0 with
            accrual(a) = floor (D * active(a) / pool) for every delegator that has an active key and
            0 for the others (handleDelegationRewards iterates the COMMITTED active keys, so this
            also checks that keys first written in the previous block are seen, and that a
            reinvestment raises the share from the next block on) *)
Definition cdiv (x y : Z) : Z := (x + y - 1) / y.
Definition lookup_al (l : list (addr * Z)) (a : addr) : option Z :=
  match find (fun x => (x.1 =? a)%N) l with Some x => Some x.2 | None => None end.
Definition accr_proportional (n : nat) (prev : snap) (accr : list (addr * Z)) : bool :=
  let P := s_pool prev in
  let acc a := default 0 (lookup_al accr a) in
  if P <=? 0 then forallb (fun a => acc a =? 0) (idxs n)
  else
    let withkey := List.filter (fun a => match lookup_al (s_active prev) a with Some v => 0 <? v | None => false end) (idxs n) in
    let nokey := List.filter (fun a => match lookup_al (s_active prev) a with Some v => v <=? 0 | None => true end) (idxs n) in
    let act a := default 0 (lookup_al (s_active prev) a) in
    let lo := fold_right Z.max 0 (map (fun a => cdiv (acc a * P) (act a)) withkey) in
    let his := map (fun a => cdiv ((acc a + 1) * P) (act a) - 1) withkey in
    forallb (fun a => acc a =? 0) nokey && forallb (fun a => 0 <=? acc a) withkey
    && forallb (fun hi => lo <=? hi) his.
Definition lsum (l : list (addr * Z)) : Z := fold_right (fun x acc => x.2 + acc) 0 l.
Definition lget (l : list ((N * addr) * Z)) (n : N) (a : addr) : Z :=
  pget (list_to_map l) n a.

Record mon := {
  m_h : N ; m_prev : snap ; m_dueu : N -> addr -> Z ; m_duer : N -> addr -> Z ;
  m_don : bool ; m_gap : Z
}.

Definition credits_ok (n : nat) (h : N) (due : N -> addr -> Z) (prev cur : snap) : bool :=
  forallb (fun a => nth (N.to_nat a) (s_bal cur) 0 - nth (N.to_nat a) (s_bal prev) 0 =? due h a)
          (idxs n).

Definition snap_classes (m : mon) (cur : snap) : list nat :=
  (if s_pool cur <? lsum (s_active cur) then [1%nat] else [])
  ++ (if negb (m_don m) && negb (s_pool cur - lsum (s_active cur) =? m_gap m) then [2%nat] else [])
  ++ (if forallb (fun v => 0 <=? v) (s_rew cur) then [] else [4%nat])
  ++ (if forallb (fun v => 0 <=? v) (s_bal cur) then [] else [7%nat])
  ++ (if forallb (fun x => 0 <=? x.2) (s_active cur) then [] else [8%nat])
  ++ (if forallb (fun x => negb ((1 <=? x.1.1)%N && (x.1.1 <=? m_h m)%N) || (x.2 =? 0))
                 (s_pend cur ++ s_rpend cur) then [] else [10%nat]).

Fixpoint monitor (n : nat) (k : N) (i : nat) (m : mon) (ops : list op) (res : list bool)
         (snaps : list snap) : list (nat * nat) :=
  match ops, res, snaps with
  | o :: ops', r :: res', cur :: snaps' =>
      let h' := match o with Begin _ => (m_h m + 1)%N | _ => m_h m end in
      let mh := (m_h m + k)%N in
      let dueu' := match o, r with
                   | Undelegate a amt _, true => fupd2 (m_dueu m) mh a (m_dueu m mh a + amt)
                   | _, _ => m_dueu m
                   end in
      let duer' := match o, r with
                   | WithdrawRw a amt _, true => fupd2 (m_duer m) mh a (m_duer m mh a + amt)
                   | _, _ => m_duer m
                   end in
      let don' := match o, r with Donate _ _ _, true => true | _, _ => m_don m end in
      let m' := {| m_h := h' ; m_prev := cur ; m_dueu := dueu' ; m_duer := duer' ; m_don := don' ;
                   m_gap := m_gap m |} in
      let here := (match o with
                   | Begin _ =>
                       (if credits_ok n h' (fun x a => m_dueu m x a + m_duer m x a) (m_prev m) cur
                        then [] else [3%nat])
                       ++ (if forallb (fun a => 0 <=? m_dueu m h' a) (idxs n) then [] else [5%nat])
                       ++ (if forallb (fun a => 0 <=? m_duer m h' a) (idxs n) then [] else [6%nat])
                       ++ (match o with
                           | Begin accr => if accr_proportional n (m_prev m) accr then [] else [9%nat]
                           | _ => []
                           end)
                   | WithdrawRw a amt _ | Reinvest a amt _ =>
                       if forallb (fun x => nth (N.to_nat x) (s_rew cur) 0 =?
                                            nth (N.to_nat x) (s_rew (m_prev m)) 0 - (if r && (x =? a)%N then amt else 0))
                                  (idxs n) then [] else [11%nat]
                   | Delegate _ _ _ | Undelegate _ _ _ | Donate _ _ _ =>
                       if zlist_eqb (s_rew cur) (s_rew (m_prev m)) then [] else [11%nat]
                   end) ++ snap_classes m' cur in
      map (fun cl => (i, cl)) here ++ monitor n k (S i) m' ops' res' snaps'
  | _, _, _ => []
  end.

Definition case_monitor (c : case) : list (nat * nat) :=
  let g := c_gen c in
  monitor (length (c_addrs c)) (c_k c) 0
          {| m_h := 0 ; m_prev := g ;
             m_dueu := (fun h a => lget (s_pend g) h a) ;
             m_duer := (fun h a => lget (s_rpend g) h a) ;
             m_don := false ; m_gap := s_pool g - lsum (s_active g) |}
          (c_ops c) (c_res c) (c_snaps c).

Fixpoint monitor_all (i : nat) (cs : list case) : list (nat * nat * nat) :=
  match cs with
  | [] => []
  | c :: rest => map (fun '(j, cl) => (i, j, cl)) (case_monitor c) ++ monitor_all (S i) rest
  end.

(* per case: (negative undelegation, negative reward withdrawal, negative reinvestment) triggers evaluated on the input *)
Definition case_triggers (c : case) : list Z :=
  [ if trig_neg_undelegate (c_ops c) then 1 else 0 ;
    if trig_neg_withdraw (c_ops c) then 1 else 0 ;
    if trig_neg_reinvest (c_ops c) then 1 else 0 ].

Definition flat2 (l : list (nat * nat)) : list Z :=
  flat_map (fun '(a, b) => [Z.of_nat a; Z.of_nat b]) l.
Definition flat3 (l : list (nat * nat * nat)) : list Z :=
  flat_map (fun '(a, b, c) => [Z.of_nat a; Z.of_nat b; Z.of_nat c]) l.
