(* ReplayCheck.v — comparison helpers for the C05 correspondence. *)
From Coq Require Import ZArith List Bool.
Import ListNotations.
From OL Require Import theories.Replay.
Local Open Scope Z_scope.

(* a case: the byte strings committed so far (as small ids: [i] stands for the byte string
   with id i), the submissions, and for each submission whether the real CheckTx answered
   "duplicated tx" *)
Record rcase := { rc_index : list bytes ; rc_subs : list bytes ; rc_dup : list bool }.
Definition mkr (index subs : list Z) (dup : list bool) : rcase :=
  {| rc_index := map (fun i => [i]) index ; rc_subs := map (fun i => [i]) subs ; rc_dup := dup |}.

Fixpoint bools_eqb (a b : list bool) : bool :=
  match a, b with
  | [], [] => true
  | x :: a', y :: b' => Bool.eqb x y && bools_eqb a' b'
  | _, _ => false
  end.

Fixpoint replay_mismatches (i : Z) (cs : list rcase) : list Z :=
  match cs with
  | [] => []
  | c :: rest =>
      (if bools_eqb (dup_flags (rc_index c) (rc_subs c)) (rc_dup c) then [] else [i])
      ++ replay_mismatches (i + 1) rest
  end.
