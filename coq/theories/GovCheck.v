(* GovCheck.v — projection of the model state to the observables the harness decodes from the real
   application state, comparison of model and implementation, and the property monitor that is
   evaluated (vm_compute) on what the IMPLEMENTATION did. *)
From stdpp Require Import gmap list.
From Coq Require Import ZArith.
From OL Require Import theories.Gov.
Local Open Scope Z_scope.

(* observation of one proposal id *)
Record pobs := mkPO {
  ob_stores : Z;     (* bitmask of the stores holding the id: 1 active 2 passed 4 failed 8 finalized 16 finalizeFailed *)
  ob_status : Z;     (* 0 funding 1 voting 2 completed *)
  ob_outcome : Z;    (* 0 inProgress 1 insufficientFunds 2 insufficientVotes 3 completedNo 4 cancelled 5 completedYes *)
  ob_type : Z;       (* 0 configUpdate 1 codeChange 2 general *)
  ob_proposer : Z; ob_fdl : Z; ob_vdl : Z; ob_goal : Z; ob_pass : Z;
  ob_total : Z;
  ob_indiv : list Z;          (* per account index: recorded amount, -1 = no record *)
  ob_votes : list (Z * Z)     (* per account index: (power, opinion 0..3), (-1,-1) = no record *)
}.
Record sobs := mkSO {
  ob_h : Z;
  ob_props : list (option pobs);   (* per proposal index *)
  ob_bal : list Z;                 (* per account index *)
  ob_pool : Z;
  ob_anom : bool;                  (* some id is held by two stores *)
  ob_applied : list bool;          (* per proposal index: its configuration update has been applied *)
  ob_reload : bool;                (* this observation was taken right after a relaunch from the exported state *)
  ob_flows : list (Z * Z)          (* per proposal index: OLT paid in so far, OLT refunded so far (implementation: measured
                                      from the OLT balance deltas of payers / beneficiaries; model: from its events) *)
}.

Global Instance pobs_eq_dec : EqDecision pobs. Proof. solve_decision. Defined.
Global Instance sobs_eq_dec : EqDecision sobs. Proof. solve_decision. Defined.

Definition store_code (s : store) : Z :=
  match s with SActive => 1 | SPassed => 2 | SFailed => 4 | SFinalized => 8 | SFinFailed => 16 end.
Definition status_code (s : status) : Z := match s with StFunding => 0 | StVoting => 1 | StCompleted => 2 end.
Definition outcome_code (o : outcome) : Z :=
  match o with OInProgress => 0 | OInsufFunds => 1 | OInsufVotes => 2 | OCompletedNo => 3
          | OCancelled => 4 | OCompletedYes => 5 end.
Definition type_code (t : ptype) : Z := match t with TConfig => 0 | TCode => 1 | TGeneral => 2 end.
Definition op_code (o : opinion) : Z := match o with OpUnknown => 0 | OpYes => 1 | OpNo => 2 | OpGiveup => 3 end.

Definition idx (n : nat) : list N := map N.of_nat (seq 0 n).

Fixpoint vlookup (k : N) (vs : list vote) : Z * Z :=
  match vs with
  | [] => (-1, -1)
  | v :: r => if N.eqb (v_val v) k then (v_power v, op_code (v_op v)) else vlookup k r
  end.

Definition proj_prop (na : nat) (p : prec) : pobs :=
  mkPO (store_code (p_store p) + p_extra p) (status_code (p_status p)) (outcome_code (p_outcome p)) (type_code (p_type p))
       (Z.of_N (p_proposer p)) (p_fdl p) (p_vdl p) (p_goal p) (p_pass p) (p_total p)
       (map (fun a => default (-1) (alookup a (p_indiv p))) (idx na))
       (map (fun a => vlookup a (p_votes p)) (idx na)).

Definition proj (np na : nat) (s : state) : sobs :=
  mkSO (g_h s)
       (map (fun i => match g_props s !! i with Some p => Some (proj_prop na p) | None => None end) (idx np))
       (map (fun a => bal s a) (idx na)) (g_pool s)
       (g_anom s || existsb (fun i => match g_props s !! i with Some p => negb (p_extra p =? 0) | None => false end) (idx np))
       (map (fun i => bool_decide (i ∈ g_applied s)) (idx np)) false [].
Definition as_reload (o : sobs) : sobs := mkSO (ob_h o) (ob_props o) (ob_bal o) (ob_pool o) (ob_anom o) (ob_applied o) true (ob_flows o).
Definition ev_in (i : N) (e : event) : Z := match e with EvContrib j _ a => if N.eqb i j then a else 0 | _ => 0 end.
Definition ev_ref (i : N) (e : event) : Z := match e with EvRefund j _ _ a => if N.eqb i j then a else 0 | _ => 0 end.
Definition flows_of (np : nat) (evs : list event) : list (Z * Z) :=
  map (fun i => (fold_right (fun e acc => ev_in i e + acc) 0 evs, fold_right (fun e acc => ev_ref i e + acc) 0 evs)) (idx np).
Definition with_flows (o : sobs) (f : list (Z * Z)) : sobs :=
  mkSO (ob_h o) (ob_props o) (ob_bal o) (ob_pool o) (ob_anom o) (ob_applied o) (ob_reload o) f.

(* ---- model run: per-op ok flags and the projection after every EndBlock ---- *)
Fixpoint drive_ev (np na : nat) (s : state) (evs : list event) (ts : list hop) : list bool * list sobs :=
  match ts with
  | [] => ([], [])
  | t :: r =>
      let '(s1, ok, ev) := hstep s t in
      let evs1 := evs ++ ev in
      let '(oks, obs) := drive_ev np na s1 evs1 r in
      (ok :: oks, match t with
                  | HOp x => match t_op x with OEnd => with_flows (proj np na s1) (flows_of np evs1) :: obs | _ => obs end
                  | HReload _ _ _ => with_flows (as_reload (proj np na s1)) (flows_of np evs1) :: obs
                  end)
  end.
Definition drive (np na : nat) (s : state) (ts : list hop) : list bool * list sobs := drive_ev np na s [] ts.

(* the transactions of a history with the implementation's ok flags (relaunch markers dropped) *)
Fixpoint txs_of (hs : list hop) (oks : list bool) : list txop * list bool :=
  match hs, oks with
  | HOp t :: r, ok :: oks' => let '(ts, bs) := txs_of r oks' in (t :: ts, ok :: bs)
  | HReload _ _ _ :: r, _ :: oks' => txs_of r oks'
  | _, _ => ([], [])
  end.

Record gcase := mkCase {
  c_np : nat; c_na : nat;
  c_init : list Z;          (* initial balances per account index *)
  c_pool : Z;               (* initial fee pool *)
  c_ops : list hop;
  c_ok : list bool;         (* implementation: ok per op *)
  c_obs : list sobs         (* implementation: observation after every EndBlock *)
}.

Definition init_state (c : gcase) : state :=
  let bals := fold_left (fun m kv => <[kv.1 := kv.2]> m) (zip (idx (c_na c)) (c_init c)) (∅ : gmap N Z) in
  mkS 0 ∅ bals (c_pool c) [] [] false [] 0.

Fixpoint first_diff {A} `{EqDecision A} (i : Z) (a b : list A) : option Z :=
  match a, b with
  | [], [] => None
  | x :: a', y :: b' => if bool_decide (x = y) then first_diff (i + 1) a' b' else Some i
  | _, _ => Some i
  end.

(* which field of the state observation differs (for diagnostics): 1 props 2 balances 3 pool 4 anomaly 5 height *)
Definition obs_diff_kind (a b : sobs) : Z :=
  if negb (bool_decide (ob_props a = ob_props b)) then
    match first_diff 0 (ob_props a) (ob_props b) with Some i => 100 + i | None => 1 end
  else if negb (bool_decide (ob_bal a = ob_bal b)) then
    match first_diff 0 (ob_bal a) (ob_bal b) with Some i => 1000 + i | None => 2 end
  else if negb (ob_pool a =? ob_pool b) then 3
  else if negb (Bool.eqb (ob_anom a) (ob_anom b)) then 4
  else if negb (bool_decide (ob_applied a = ob_applied b)) then 6
  else if negb (bool_decide (ob_flows a = ob_flows b)) then 7 else 5.

(* (case, kind, position, detail): kind 1 = ok flag of op #position differs; kind 2 = observation #position differs *)
Definition case_mismatch (ci : Z) (c : gcase) : list Z :=
  let '(oks, obs) := drive (c_np c) (c_na c) (init_state c) (c_ops c) in
  match first_diff 0 oks (c_ok c) with
  | Some j => [ci; 1; j; 0]
  | None => match first_diff 0 obs (c_obs c) with
            | Some j => [ci; 2; j; match nth_error obs (Z.to_nat j), nth_error (c_obs c) (Z.to_nat j) with
                                   | Some a, Some b => obs_diff_kind a b | _, _ => 0 end]
            | None => []
            end
  end.

Fixpoint mismatches (i : Z) (cs : list gcase) : list Z :=
  match cs with [] => [] | c :: r => case_mismatch i c ++ mismatches (i + 1) r end.

(* ---- the monitor: property predicates on the implementation's observations ---- *)
Definition rank_obs (o : option pobs) : Z :=
  match o with
  | None => 0
  | Some p => if 8 <=? ob_stores p then 4 else if 2 <=? ob_stores p then 3
              else if ob_status p =? 0 then 1 else 2
  end.

Definition one_store (m : Z) : bool := (m =? 1) || (m =? 2) || (m =? 4) || (m =? 8) || (m =? 16).
Definition zsum (l : list Z) : Z := fold_right Z.add 0 l.
Definition indiv_sum (p : pobs) : Z := zsum (map (fun v => Z.max v 0) (ob_indiv p)).
Definition totals (s : sobs) : Z := zsum (map (fun o => match o with Some p => ob_total p | None => 0 end) (ob_props s)).
Definition wealth (s : sobs) : Z := zsum (ob_bal s) + ob_pool s + totals s.

(* per block: ids on which a public EXPIRE_VOTES succeeded, and (id, funder) contributions made in the block *)
Record binfo := mkBI { bi_exp : list N; bi_contrib : list (N * N) }.
Definition bi_empty := mkBI [] [].
Fixpoint block_infos (ts : list txop) (oks : list bool) (cur : binfo) : list binfo :=
  match ts, oks with
  | t :: r, ok :: oks' =>
      match t_op t with
      | OBegin _ => block_infos r oks' bi_empty
      | OEnd => cur :: block_infos r oks' bi_empty
      | OExpire id => block_infos r oks' (if ok then mkBI (id :: bi_exp cur) (bi_contrib cur) else cur)
      | OFund id f _ => block_infos r oks' (if ok then mkBI (bi_exp cur) ((id, f) :: bi_contrib cur) else cur)
      | OCreate id _ f _ _ _ _ _ _ => block_infos r oks' (if ok then mkBI (bi_exp cur) ((id, f) :: bi_contrib cur) else cur)
      | _ => block_infos r oks' cur
      end
  | _, _ => []
  end.

(* per block (cumulative): ids that received a successful negative-amount contribution / withdrawal so far *)
Fixpoint neg_cum (ts : list txop) (oks : list bool) (acc : list N) : list (list N) :=
  match ts, oks with
  | t :: r, ok :: oks' =>
      match t_op t with
      | OEnd => acc :: neg_cum r oks' acc
      | OFund id _ _ | OWithdraw id _ _ _ => neg_cum r oks' (if ok && trig_negative_amount t then id :: acc else acc)
      | _ => neg_cum r oks' acc
      end
  | _, _ => []
  end.

(* per block (cumulative): ids that received a successful vote tallied with an option percentage different from
   the proposal's own (the type and percentage of a proposal are those of its successful create operation) *)
Fixpoint drift_cum (ts : list txop) (oks : list bool) (created : list (N * (ptype * Z))) (acc : list N) : list (list N) :=
  match ts, oks with
  | t :: r, ok :: oks' =>
      match t_op t with
      | OEnd => acc :: drift_cum r oks' created acc
      | OCreate id ty _ _ _ _ _ pass _ => drift_cum r oks' (if ok then (id, (ty, pass)) :: created else created) acc
      | OVote id _ _ =>
          let d := match List.find (fun c => N.eqb c.1 id) created with
                   | Some (_, (ty, pass)) => negb (o_pass (opts_of (t_env t) ty) =? pass)
                   | None => false
                   end in
          drift_cum r oks' created (if ok && d then id :: acc else acc)
      | _ => drift_cum r oks' created acc
      end
  | _, _ => []
  end.

(* the recorded votes of an observed proposal, and the verdict of the model's exact tally on them *)
Definition obs_votes (p : pobs) : list vote :=
  flat_map (fun x : N * (Z * Z) =>
              let '(i, (pw, o)) := x in
              if pw <? 0 then [] else [mkVote i pw (if o =? 1 then OpYes else if o =? 2 then OpNo else if o =? 3 then OpGiveup else OpUnknown)])
           (zip (idx (length (ob_votes p))) (ob_votes p)).
Definition verdict_ok (p : pobs) : bool :=
  match obs_votes p with
  | [] => true
  | vs =>
      let r := tally vs (ob_pass p) in
      if (ob_stores p =? 1) && (ob_status p =? 1) then bool_decide (r = RTBD)
      else if ob_stores p =? 2 then bool_decide (r = RPassed)
      else if (ob_stores p =? 4) && (ob_outcome p =? 3) then bool_decide (r = RFailed)
      else true
  end.

Definition has_survivors (p : pobs) : bool := existsb (fun v => 0 <=? v) (ob_indiv p).

(* violations on one proposal between two consecutive block-end observations [a] (before) and [b];
   codes: 1 stage went backwards  2 id in more than one store  3 total <> sum of the funder records
   4 voting with total < goal  5 expired (insufficientVotes) but not (voting with deadline < height) at block begin
   6 snapshot power / validator set of the votes changed  7 passed store without completedYes / finalized with funds left
   8 deadline, goal, type, proposer or pass percentage changed (deadline may be set when voting starts)
   10 funder records survive the distribution
   18 the stage does not follow the recorded votes (exact tally under the proposal's own percentage): voting although they
      already pass / make a pass impossible, passed store without passing votes, voted-down without failing votes
   19 expired (insufficientVotes) with the goal reached: the funds are neither refunded nor distributed
   13 still in the funding stage although the recorded total has reached the recorded goal
   11 declared insufficientFunds although the goal was met or the funding deadline had not passed *)
Definition prop_viol (h : Z) (a b : option pobs) : list Z :=
  (if rank_obs b <? rank_obs a then [1] else []) ++
  match b with
  | None => []
  | Some pb =>
      (if one_store (ob_stores pb) then [] else [2]) ++
      (if (ob_total pb =? indiv_sum pb) || (8 <=? ob_stores pb) then [] else [3]) ++
      (if (ob_stores pb =? 1) && (ob_status pb =? 1) && (ob_total pb <? ob_goal pb) then [4] else []) ++
      (if (ob_stores pb =? 1) && (ob_status pb =? 0) && (ob_goal pb <=? ob_total pb) then [13] else []) ++
      (if verdict_ok pb then [] else [18]) ++
      (if (ob_stores pb =? 2) && negb (ob_outcome pb =? 5) then [7] else []) ++
      (if (8 <=? ob_stores pb) && (ob_stores pb <? 16) && negb (ob_total pb =? 0) then [7] else []) ++
      (if (ob_stores pb =? 8) && has_survivors pb && negb (rank_obs a =? 4) then [10] else []) ++
      match a with
      | None => (if ob_outcome pb =? 2 then [5] else [])
      | Some pa =>
          (if (ob_outcome pb =? 2) && negb (ob_outcome pa =? 2) &&
              negb ((ob_stores pa =? 1) && (ob_status pa =? 1) && (ob_vdl pa <? h)) then [5] else []) ++
          (if (ob_stores pb =? 4) && (ob_outcome pb =? 2) && (ob_stores pa =? 4) && (ob_outcome pa =? 2) &&
              (0 <? ob_total pb) && (ob_goal pb <=? ob_total pb) then [19] else []) ++
          (if (ob_status pa =? 0) || bool_decide (map fst (ob_votes pa) = map fst (ob_votes pb)) then [] else [6]) ++
          (if (ob_outcome pb =? 1) && negb (ob_outcome pa =? 1) &&
              ((ob_goal pa <=? ob_total pa) || (h <=? ob_fdl pa)) then [11] else []) ++
          (if (rank_obs a =? 4) && negb (bool_decide (ob_indiv pa = ob_indiv pb)) then [10] else []) ++
          (if (ob_fdl pa =? ob_fdl pb) && (ob_goal pa =? ob_goal pb) && (ob_type pa =? ob_type pb) &&
              (ob_proposer pa =? ob_proposer pb) && (ob_pass pa =? ob_pass pb) &&
              ((ob_vdl pa =? ob_vdl pb) || ((ob_status pa =? 0) && negb (ob_status pb =? 0)))
           then [] else [8])
      end
  end.

(* how many proposals entered the finalized store in this block *)
Fixpoint newly_finalized (a b : list (option pobs)) : Z :=
  match b with
  | [] => 0
  | pb :: b' =>
      let pa := match a with x :: _ => x | [] => None end in
      (if (rank_obs pb =? 4) && negb (rank_obs pa =? 4) then 1 else 0) +
      newly_finalized (match a with _ :: r => r | [] => [] end) b'
  end.

(* class of a violation: 0 = unexplained;
   (class 1 was C14.public_expire_votes, fixed by /repo 0988205: an early expiry is now always unexplained)
   2 = C14.stale_fund_records: code 10 at the block of finalisation when another proposal was finalised in the
       same block or every surviving record was contributed in this block; code 2 / 1 on a finalised proposal
       that has surviving records (a zero withdrawal copies it into the failed store);
   3 = C14.negative_fund_amount: code 3 on a proposal that received a successful negative contribution / withdrawal;
   4 = C14.pass_percentage_drift: code 2 / 12 on a proposal that received a vote tallied with an option percentage
       different from its own *)
(* class of a violation: all former classes (1 public_expire_votes, 2 stale_fund_records, 3 negative_fund_amount,
   4 pass_percentage_drift) belonged to findings repaired in /repo (0988205, 9dda72d, 782c385 / 19a3caa, 23f7d29):
   every monitor hit is now unexplained (class 0) *)
Definition classify (code : Z) (i : Z) (bi : binfo) (neg drift : list N) (nfin : Z) (pa pb : option pobs) : Z :=
  if code =? 19 then 5 else 0.   (* 5 = C14.expired_never_finalised (known) *)

Fixpoint props_viol (bi : Z) (h : Z) (i : Z) (info : binfo) (neg drift : list N) (nfin : Z) (a b : list (option pobs)) : list Z :=
  match b with
  | [] => []
  | pb :: b' =>
      let pa := match a with x :: _ => x | [] => None end in
      let a' := match a with _ :: r => r | [] => [] end in
      flat_map (fun code => [bi; i; code; classify code i info neg drift nfin pa pb]) (prop_viol h pa pb)
      ++ props_viol bi h (i + 1) info neg drift nfin a' b'
  end.

(* import fidelity (codes 14 / 15): right after a relaunch every proposal must be what it was before the export —
   same stores, status, outcome, type, proposer, goal, pass percentage, total, funder records and above all the same
   VOTES (validator, power, opinion: the tally after the import equals the tally before the export); the deadlines of
   an active proposal are shifted by the exported version [ver = height before - 0], the others are unchanged *)
Definition import_viol (ver : Z) (a b : option pobs) : list Z :=
  match a, b with
  | None, None => []
  | Some pa, Some pb =>
      (if bool_decide (ob_votes pa = ob_votes pb) then [] else [14]) ++
      (if (ob_stores pa =? ob_stores pb) && (ob_status pa =? ob_status pb) && (ob_outcome pa =? ob_outcome pb) &&
          (ob_type pa =? ob_type pb) && (ob_proposer pa =? ob_proposer pb) && (ob_goal pa =? ob_goal pb) &&
          (ob_pass pa =? ob_pass pb) && (ob_total pa =? ob_total pb) && bool_decide (ob_indiv pa = ob_indiv pb) &&
          (if ob_stores pa =? 1
           then (ob_fdl pb =? Z.max 0 (ob_fdl pa - ver)) && (ob_vdl pb =? Z.max 0 (ob_vdl pa - ver))
           else (ob_fdl pb =? ob_fdl pa) && (ob_vdl pb =? ob_vdl pa))
       then [] else [15])
  | _, _ => [15]
  end.
Fixpoint imports_viol (bi i ver : Z) (a b : list (option pobs)) : list Z :=
  match a, b with
  | pa :: a', pb :: b' => flat_map (fun code => [bi; i; code; 0]) (import_viol ver pa pb) ++ imports_viol bi (i + 1) ver a' b'
  | [], [] => []
  | _, _ => [bi; i; 15; 0]
  end.

Fixpoint obs_viol (bi : Z) (prev : sobs) (obs : list sobs) (infos : list binfo) (negs drifts : list (list N)) : list Z :=
  match obs with
  | [] => []
  | b :: r =>
      if ob_reload b then
        imports_viol bi 0 (ob_h prev) (ob_props prev) (ob_props b) ++ obs_viol (bi + 1) b r infos negs drifts
      else
      let info := match infos with p :: _ => p | [] => bi_empty end in
      let drift := match drifts with n :: _ => n | [] => [] end in
      props_viol bi (ob_h b) 0 info (match negs with n :: _ => n | [] => [] end) drift (newly_finalized (ob_props prev) (ob_props b)) (ob_props prev) (ob_props b) ++
      (if wealth b <=? wealth prev then [] else [bi; -1; 9; 0]) ++     (* 9: value appeared *)
      (* 16: the OLT recorded for a proposal exceeds the OLT actually paid in minus the OLT refunded (measured from the
             OLT balance deltas of the payers / beneficiaries); 17: more OLT refunded than paid in *)
      flat_map (fun x : Z * (option pobs * (Z * Z)) =>
                  match x with
                  | (i, (Some pb, (fin, fref))) =>
                      (if ob_total pb <=? fin - fref then [] else [bi; i; 16; 0]) ++
                      (if fref <=? fin then [] else [bi; i; 17; 0])
                  | _ => []
                  end)
               (zip (map Z.of_N (idx (length (ob_props b)))) (zip (ob_props b) (ob_flows b))) ++
      (* 12: a configuration update came into force whose proposal is not recorded as passed (outcome completedYes) *)
      flat_map (fun x : Z * (bool * (bool * option pobs)) =>
                  match x with
                  | (i, (true, (false, Some pb))) => if ob_outcome pb =? 5 then [] else [bi; i; 12; 0]
                  | (i, (true, (false, None))) => [bi; i; 12; 0]
                  | _ => []
                  end)
               (zip (map Z.of_N (idx (length (ob_applied b))))
                    (zip (ob_applied b) (zip (ob_applied prev ++ repeat false (length (ob_applied b))) (ob_props b)))) ++
      obs_viol (bi + 1) b r (match infos with _ :: p => p | [] => [] end) (match negs with _ :: n => n | [] => [] end)
                (match drifts with _ :: n => n | [] => [] end)
  end.

Definition case_monitor (ci : Z) (c : gcase) : list Z :=
  let s0 := mkSO 0 (map (fun _ => None) (idx (c_np c))) (c_init c) (c_pool c) false (map (fun _ => false) (idx (c_np c))) false [] in
  let '(txs, oks) := txs_of (c_ops c) (c_ok c) in
  let v := obs_viol 0 s0 (c_obs c) (block_infos txs oks bi_empty)
                    (neg_cum txs oks []) (drift_cum txs oks [] []) in
  (* flatten to (case, block, proposal, code, class) *)
  (fix go (l : list Z) : list Z :=
     match l with
     | bi :: i :: code :: cl :: r => ci :: bi :: i :: code :: cl :: go r
     | _ => []
     end) v.

Fixpoint monitors (i : Z) (cs : list gcase) : list Z :=
  match cs with [] => [] | c :: r => case_monitor i c ++ monitors (i + 1) r end.

(* statistics for the evidence: number of steps that fall in the float-guard region *)
Definition count_true (l : list bool) : Z := zsum (map (fun b : bool => if b then 1 else 0) l).
