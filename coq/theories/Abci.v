(* Abci.v — the transaction wrapper of app/controller.go (txDeliverer / txChecker and the
   internal-transaction loops of app/internalTX.go) over the store model.  A handler is an
   ARBITRARY program against the storage.State API: Coq function continuations make it every
   adaptive, state-dependent behaviour a Go handler can have through that API.  No proofs here. *)
From stdpp Require Import gmap list.
From Coq Require Import ZArith.
From OL Require Import theories.Store.
Local Open Scope Z_scope.

Inductive prog :=
| Ret (ok : bool)
| PGet (k : key) (f : option val -> prog)
| PExists (k : key) (f : bool -> prog)
| PSet (k : key) (v : val) (f : bool -> prog)      (* continuation sees whether Set was refused *)
| PDel (k : key) (p : prog).

Fixpoint exec (p : prog) (s : state) : bool * state :=
  match p with
  | Ret ok => (ok, s)
  | PGet k f => let '(r, s') := do_get s k in exec (f r) s'
  | PExists k f => let '(b, s') := do_exists s k in exec (f b) s'
  | PSet k v f =>
      let '(o, s') := do_set s k v in
      exec (f (match o with OErr => false | _ => true end)) s'
  | PDel k p' => let '(_, s') := do_delete s k in exec p' s'
  end.

(* what srcfacts extracts from a wrapper function: the order of the session calls *)
Record wrapper_facts := {
  begins_session_first : bool ;      (* BeginTxSession precedes the handler call *)
  fee_inside_session : bool ;        (* ProcessFee runs between begin and commit/discard *)
  commit_iff_ok_and_fee : bool ;     (* CommitTxSession is guarded by ok && feeOk, else Discard *)
  discard_otherwise : bool
}.

Definition wrapper_ok (w : wrapper_facts) : bool :=
  begins_session_first w && fee_inside_session w && commit_iff_ok_and_fee w && discard_otherwise w.

(* txDeliverer: BeginTxSession; ProcessDeliver; ProcessFee; commit iff ok && feeOk else discard.
   The fee program may depend on the handler's verdict (ProcessFee receives response.GasUsed). *)
Definition deliver (s : state) (h : prog) (fee : bool -> prog) : bool * state :=
  let s0 := with_sess s (Some oempty) in
  let '(ok, s1) := exec h s0 in
  let '(feeOk, s2) := exec (fee ok) s1 in
  if ok && feeOk
  then (true, match sess s2 with
              | Some o => with_sess (with_cache s2 (replay o (cache s2))) None
              | None => s2
              end)
  else (false, with_sess s2 None).

Definition tx := (prog * (bool -> prog))%type.

Fixpoint run_block (s : state) (txs : list tx) : list bool * state :=
  match txs with
  | [] => ([], s)
  | (h, fee) :: rest =>
      let '(r, s1) := deliver s h fee in
      let '(rs, s2) := run_block s1 rest in (r :: rs, s2)
  end.

(* the block with the failed transactions removed (failures as observed in the full run) *)
Fixpoint drop_failed (txs : list tx) (res : list bool) : list tx :=
  match txs, res with
  | t :: ts, r :: rs => if r then t :: drop_failed ts rs else drop_failed ts rs
  | _, _ => []
  end.

Fixpoint only_ok (res : list bool) : list bool :=
  match res with
  | [] => []
  | r :: rs => if r then true :: only_ok rs else only_ok rs
  end.

(* txDeliverer with validation (the repaired code): BeginTxSession; handler.Validate — an
   arbitrary program too; when it rejects, the session is discarded and neither the handler nor
   the fee step runs; otherwise as [deliver] *)
Definition deliver_v (s : state) (v h : prog) (fee : bool -> prog) : bool * state :=
  let s0 := with_sess s (Some oempty) in
  let '(vok, s1) := exec v s0 in
  if vok then
    let '(ok, s2) := exec h s1 in
    let '(feeOk, s3) := exec (fee ok) s2 in
    if ok && feeOk
    then (true, match sess s3 with
                | Some o => with_sess (with_cache s3 (replay o (cache s3))) None
                | None => s3
                end)
    else (false, with_sess s3 None)
  else (false, with_sess s1 None).

Definition vtx := (prog * prog * (bool -> prog))%type.

Fixpoint run_block_v (s : state) (txs : list vtx) : list bool * state :=
  match txs with
  | [] => ([], s)
  | (v, h, fee) :: rest =>
      let '(r, s1) := deliver_v s v h fee in
      let '(rs, s2) := run_block_v s1 rest in (r :: rs, s2)
  end.

Fixpoint drop_failed_v (txs : list vtx) (res : list bool) : list vtx :=
  match txs, res with
  | t :: ts, r :: rs => if r then t :: drop_failed_v ts rs else drop_failed_v ts rs
  | _, _ => []
  end.
