(* Caches.v — classification of the in-memory fields of the long-lived application objects
   (gen/Facts_Caches.v, regenerated from /repo).  Everything that is not the state pointer, a key
   prefix, a serializer, a lock or a logger is memory that survives between ABCI calls and must
   be shown coherent with the committed state across CheckTx interleavings (C07) and restarts
   (C08).  A field that no rule below knows is an open obligation.  No proofs here. *)
From Coq Require Import String List Bool.
Import ListNotations.
Local Open Scope string_scope.

Inductive fclass :=
| StatePtr      (* *storage.State: re-aimed by WithState, recreated per block / at start-up *)
| Inert         (* key prefix, serializer, mutex, logger, block store handle *)
| Root          (* field of app.context: object graph built once in newContext *)
| Structural    (* pointer from a master object to its parts, set at construction *)
| ValueRecord   (* field of a plain value record held inside a classified container *)
| OptionCopy    (* copy of a governance option: loaded at start-up from the committed store and
                   rewritten together with the store when a proposal is finalised *)
| PerBlock      (* rebuilt from committed state at every BeginBlock before use / drained at EndBlock *)
| PerTx         (* EVM adapter working memory: emptied by Finalise / Reset after each transaction
                   and at block end *)
| CycleCache    (* reward calculator cache: recomputed on a miss to the same value (C13) *)
| Unknown.

Definition prefix_of (p s : string) : bool := String.prefix p s.

Fixpoint has_sub (sub s : string) : bool :=
  if String.prefix sub s then true
  else match s with EmptyString => false | String _ r => has_sub sub r end.

Definition one_of (l : list string) (s : string) : bool := existsb (String.eqb s) l.

Definition classify (field typ : string) : fclass :=
  if has_sub "storage.State" typ then StatePtr
  else if one_of ["serialize.Serializer"; "sync.Mutex"; "sync.RWMutex"; "*log.Logger";
                  "*github.com/tendermint/tendermint/store.BlockStore"] typ then Inert
  else if String.eqb typ "[]byte" && has_sub "refix" field then Inert
  else if one_of ["app.App.Context"; "app.App.abci"; "app.App.genesisDoc"; "app.App.name"; "app.App.node";
                  "app.App.nodeName"; "app.App.sdk"] field then Root
  else if String.eqb field "app.App.header" then PerBlock   (* assigned from the request at every BeginBlock *)
  else if prefix_of "app.context." field then Root
  else if one_of ["data/governance.ProposalMasterStore.Proposal"; "data/governance.ProposalMasterStore.ProposalFund";
                  "data/governance.ProposalMasterStore.ProposalVote"; "data/network_delegation.MasterStore.Deleg";
                  "data/network_delegation.MasterStore.Rewards"; "data/rewards.RewardMasterStore.Reward";
                  "data/rewards.RewardMasterStore.RewardCm"; "data/rewards.RewardCumulativeStore.calculator";
                  "vm.CommitStateDB.accountKeeper"; "vm.CommitStateDB.contractStore";
                  "data/balance.NesterAccountKeeper.balances"; "data/balance.NesterAccountKeeper.currencies";
                  "data/balance.NesterAccountKeeper.prefix";
                  "action.GovernaceUpdateAndValidate.GovernanceUpdateFunction";
                  "data.StorageRouter.router"] field then Structural
  else if prefix_of "identity.Validator." field then ValueRecord
  else if one_of ["data/fees.Store.feeOpt"; "data/ethereum.TrackerStore.cdOpt"; "data/bitcoin.TrackerStore.config";
                  "data/bitcoin.TrackerStore.option"; "data/governance.ProposalStore.proposalOptions";
                  "data/ons.DomainStore.opt"; "data/rewards.RewardStore.rewardOptions";
                  "data/rewards.RewardCumulativeStore.rewardOptions"; "data/rewards.RewardCalculator.options";
                  "data/balance.CurrencySet.idMap"; "data/balance.CurrencySet.nameMap"] field then OptionCopy
  else if one_of ["identity.ValidatorStore.byzantine"; "identity.ValidatorStore.isValidator";
                  "identity.ValidatorStore.lastActive"; "identity.ValidatorStore.lastBlockTime";
                  "identity.ValidatorStore.lastHeight"; "identity.ValidatorStore.maliciousValidators";
                  "identity.ValidatorStore.pendingEvents"; "identity.ValidatorStore.proposer";
                  "identity.ValidatorStore.queue"; "identity.ValidatorStore.totalPower";
                  "identity.ValidatorQueue.PriorityQueue";
                  "data/governance.Store.height"; "data/network_delegation.Store.currentPrefix";
                  "data/rewards.RewardCalculator.height"; "data/rewards.RewardCalculator.rewardYears"] field then PerBlock
  else if prefix_of "vm.CommitStateDB." field || prefix_of "vm.stateObject." field || prefix_of "vm.journal." field
          || prefix_of "vm.dirty." field || prefix_of "vm.revision." field || prefix_of "vm.stateEntry." field
          || prefix_of "vm.preimageEntry." field || prefix_of "vm.accessList." field || prefix_of "vm.Storage" field
          || prefix_of "vm.storageEntry." field then PerTx
  else if String.eqb field "data/rewards.RewardCalculator.cached" then CycleCache
  else Unknown.

Definition unknown_fields (fs : list (string * string)) : list string :=
  map fst (filter (fun '(f, t) => match classify f t with Unknown => true | _ => false end) fs).

Definition count_class (c : fclass -> bool) (fs : list (string * string)) : nat :=
  List.length (filter (fun '(f, t) => c (classify f t)) fs).
