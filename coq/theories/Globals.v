(* Globals.v — process-local memory outside the application object graph, and the node-local inputs
   that consensus code consults.

   Part 1: classification of the package-level variables that are written at run time
           (gen/Facts_Globals.v written_globals, regenerated from /repo).
   Part 2: audited table of the functions that consult node-local inputs (witness flag, job store).
   Part 3: an executable model of the Ethereum lock-tracker transitions as the block ender runs them
           (event/eth_lock_transitions.go + app/controller.go doEthTransitions): a transition reads the
           tracker and NODE-LOCAL inputs, may set a new tracker state and may return an error; the
           caller persists the new state only when there was no error.  The persisted state is what
           enters the application hash; the local inputs differ between nodes and between two lives
           of one node.  No proofs here. *)
From Coq Require Import String Ascii List Bool Arith.
Import ListNotations.
Local Open Scope string_scope.

(* ---------- Part 1 ---------- *)
Inductive gclass :=
| GInit        (* assigned in init() only: a constant of the process image *)
| GRegistry    (* filled by Register… functions that are called from init() functions only *)
| GNodeFlag    (* read once at process start from the committed store and the node's identity *)
| GUnknown.

Fixpoint words (acc : string) (s : string) : list string :=
  match s with
  | EmptyString => match acc with EmptyString => [] | _ => [acc] end
  | String c r => if Ascii.eqb c " "%char
                  then match acc with EmptyString => words EmptyString r | _ => acc :: words EmptyString r end
                  else words (acc ++ String c EmptyString) r
  end.

Fixpoint ends_with_init (s : string) : bool :=
  match s with
  | EmptyString => false
  | String _ r => String.eqb s ".init" || ends_with_init r
  end.

Definition registry_writers : list (string * list string) :=
  [("action.txTypeMap", ["action.RegisterTxType"; "action.init"]);
   ("data/chain.chainTypeNames", ["data/chain.RegisterChainType"]);
   ("data/chain.chainTypes", ["data/chain.RegisterChainType"]);
   ("serialize.registeredConcretes", ["serialize.msgpackRegConc"])].

Definition same_list (a b : list string) : bool :=
  Nat.eqb (List.length a) (List.length b) && forallb (fun x => existsb (String.eqb x) b) a.

Definition gclassify (name writers : string) : gclass :=
  let ws := words EmptyString writers in
  if forallb ends_with_init ws && negb (Nat.eqb (List.length ws) 0) then GInit
  else if existsb (fun '(n, w) => String.eqb n name && same_list w ws) registry_writers then GRegistry
  else if String.eqb name "identity.isETHWitness" && same_list ["identity.WitnessStore.Init"] ws then GNodeFlag
  else GUnknown.

Definition unknown_globals (gs : list (string * string * string)) : list string :=
  map (fun '(n, _, _) => n) (filter (fun '(n, _, w) => match gclassify n w with GUnknown => true | _ => false end) gs).

Definition node_flags (gs : list (string * string * string)) : list string :=
  map (fun '(n, _, _) => n) (filter (fun '(n, _, w) => match gclassify n w with GNodeFlag => true | _ => false end) gs).

(* ---------- Part 2 ---------- *)
(* every function that consults the witness flag or looks a job up, with the number of call sites;
   audited: all of them are tracker transitions run by doEthTransitions or job-bus helpers, and in
   all of them the consulted value only decides which LOCAL jobs are created or deleted *)
Definition audited_local_reads : list (string * string * nat) :=
  [("event.Broadcasting", "witness-flag", 1%nat);
   ("event.CleanupFailed", "job-store", 1%nat); ("event.CleanupFailed", "witness-flag", 1%nat);
   ("event.Cleanup", "job-store", 1%nat); ("event.Cleanup", "witness-flag", 1%nat);
   ("event.DeleteCompletedJobs", "job-store", 1%nat);
   ("event.Finalization", "witness-flag", 1%nat);
   ("event.Finalizing", "job-store", 2%nat); ("event.Finalizing", "witness-flag", 1%nat);
   ("event.MakeAvailable", "job-store", 1%nat);
   ("event.RangeJobs", "job-store", 1%nat);
   ("event.RedeemConfirmed", "job-store", 1%nat); ("event.RedeemConfirmed", "witness-flag", 1%nat);
   ("event.Signing", "witness-flag", 1%nat);
   ("event.VerifyRedeem", "job-store", 1%nat); ("event.VerifyRedeem", "witness-flag", 1%nat);
   ("event.redeemCleanupFailed", "job-store", 1%nat); ("event.redeemCleanupFailed", "witness-flag", 1%nat);
   ("event.redeemCleanup", "job-store", 1%nat); ("event.redeemCleanup", "witness-flag", 1%nat)].

Definition read_eqb (a b : string * string * nat) : bool :=
  let '(f, w, n) := a in let '(f', w', n') := b in String.eqb f f' && String.eqb w w' && Nat.eqb n n'.

Definition unaudited_reads (rs : list (string * string * nat)) : list (string * string * nat) :=
  filter (fun r => negb (existsb (read_eqb r) audited_local_reads)) rs.

(* functions that set a tracker state and later fail on a local job WRITE (SaveJob / DeleteJob):
   a failure of the node's own database, outside the model (environment assumption) *)
Definition audited_write_errors : list (string * nat) :=
  [("event.Broadcasting", 1%nat); ("event.Finalization", 1%nat); ("event.Finalizing", 1%nat);
   ("event.FreezeForBroadcast", 1%nat); ("event.ReportBroadcastSuccess", 1%nat);
   ("event.ReserveTracker", 1%nat); ("event.Signing", 1%nat)].

Definition unaudited_write_errors (rs : list (string * nat)) : list (string * nat) :=
  filter (fun '(f, n) => negb (existsb (fun '(f', n') => String.eqb f f' && Nat.eqb n n') audited_write_errors)) rs.

(* ---------- Part 3 ---------- *)
(* tracker states as in data/ethereum: New 0, BusyBroadcasting 1, BusyFinalizing 2, Finalized 3,
   Released 4, Failed 5 *)
Record tracker := { t_state : nat; t_votes : nat (* yes + no *); t_finalized : bool (* votes reached 2/3 *) }.

(* what differs between nodes / between two lives of one node *)
Record local := {
  l_flag : bool;                        (* isETHWitness: read at process start *)
  l_self_voted : bool;                  (* CheckIfVoted(own address) *)
  l_bjob : option (bool * bool);        (* broadcast job in the local job store: (done, failed) *)
  l_fjob : bool;                        (* finality job already there *)
  l_write_ok : bool                     (* the local job database accepts writes *)
}.

Inductive res := ROk | RErr.

Definition set_state (t : tracker) (s : nat) : tracker := {| t_state := s; t_votes := t_votes t; t_finalized := t_finalized t |}.

Definition broadcasting (t : tracker) (l : local) : tracker * res :=
  let t' := set_state t 1 in
  if l_flag l then (if l_write_ok l then (t', ROk) else (t', RErr)) else (t', ROk).

(* Finalizing as repaired (3dd4152): a missing broadcast job is not an error *)
Definition finalizing (missing_job_is_error : bool) (t : tracker) (l : local) : tracker * res :=
  let t' := if Nat.ltb 0 (t_votes t) then set_state t 2 else t in
  if l_flag l then
    if l_self_voted l then (t', ROk)
    else match l_bjob l with
         | None => (t', if missing_job_is_error then RErr else ROk)
         | Some (done, failed) =>
             if negb done || failed then (t', ROk)
             else if l_fjob l then (t', ROk)
             else if l_write_ok l then (t', ROk) else (t', RErr)
         end
  else (t', ROk).

Definition finalization (t : tracker) (l : local) : tracker * res :=
  if t_finalized t then (set_state t 3, ROk)
  else if l_flag l && negb (l_self_voted l) then (if l_write_ok l then (t, ROk) else (t, RErr))
  else (t, ROk).

(* one pass of doEthTransitions over one lock tracker: NextStep by state, then persist iff no error
   (states 3, 4, 5 are handled by minting / cleanup, which consult the local inputs only to delete
   local jobs after the store writes; they are modelled as the identity on the tracker here) *)
Definition transition (old_finalizing : bool) (t : tracker) (l : local) : tracker * res :=
  match t_state t with
  | 0 => broadcasting t l
  | 1 => finalizing old_finalizing t l
  | 2 => finalization t l
  | _ => (t, ROk)
  end.

Definition persisted (old_finalizing : bool) (t : tracker) (l : local) : tracker :=
  match transition old_finalizing t l with
  | (t', ROk) => t'
  | (_, RErr) => t
  end.

(* a history: block ends interleaved with finality reports (consensus inputs); every block end of a
   node comes with that node's local inputs at that moment *)
Inductive cinput := Vote (reaches_quorum : bool) | EndBlock.

Definition apply_vote (t : tracker) (q : bool) : tracker :=
  {| t_state := t_state t; t_votes := S (t_votes t); t_finalized := t_finalized t || q |}.

Fixpoint run (old_finalizing : bool) (t : tracker) (h : list (cinput * local)) : tracker :=
  match h with
  | [] => t
  | (Vote q, _) :: r => run old_finalizing (apply_vote t q) r
  | (EndBlock, l) :: r => run old_finalizing (persisted old_finalizing t l) r
  end.

Definition writes_ok (h : list (cinput * local)) : bool := forallb (fun '(_, l) => l_write_ok l) h.
Definition same_inputs (h1 h2 : list (cinput * local)) : Prop := map fst h1 = map fst h2.
