(* StakeCheck.v — comparison helpers for the C11 correspondence: runs Stake.v on a recorded
   history of the real application and reports
     MM  : model/implementation mismatches           (case, step, code)
     MON : monitor violations on what the IMPLEMENTATION did (case, step, code)
     TRG : trigger predicates that fired             (case, step, trigger)
   No proofs in this file. *)
From stdpp Require Import gmap list.
Require Import ZArith.
From OL Require Import theories.Stake.
Open Scope Z_scope.

(* projected observables of one committed block: only non-zero / non-empty entries, distinct keys *)
Record obs := Obs {
  o_eff  : list (addr * addr * Z);
  o_vtot : list (addr * Z);
  o_deff : list (addr * Z);
  o_dbnd : list (addr * Z);
  o_mat  : list (Z * list (addr * Z));
  o_vrec : list (addr * vrec);
}.

Inductive expect :=
| ETx (ok : bool) (dbal : Z) (frozen_set : list addr) (convicted : list addr)
    (* code = 0 ; balance change + fee ; frozen validators ; validators with a GUILTY verdict and no successful RELEASE since *)
| EBlock (o : obs)
| ENone.

Definition nonzero_count {K} `{Countable K} (m : gmap K Z) : nat :=
  length (filter (fun e => e.2 <> 0) (map_to_list m)).

Definition cmp_zmap {K} `{Countable K} (m : gmap K Z) (l : list (K * Z)) : bool :=
  forallb (fun e => zget m e.1 =? e.2) l && Nat.eqb (nonzero_count m) (length l).

Definition entry_eqb (x y : addr * Z) : bool := Pos.eqb x.1 y.1 && (x.2 =? y.2).
Definition count_entry (x : addr * Z) (l : list (addr * Z)) : nat := length (filter (fun y => entry_eqb x y = true) l).
Definition meq (l1 l2 : list (addr * Z)) : bool :=
  Nat.eqb (length l1) (length l2) && forallb (fun x => Nat.eqb (count_entry x l1) (count_entry x l2)) l1.

Definition cmp_mat (m : gmap Z (list (addr * Z))) (l : list (Z * list (addr * Z))) : bool :=
  forallb (fun e => meq (default [] (m !! e.1)) e.2) l
  && Nat.eqb (length (filter (fun e => e.2 <> []) (map_to_list m))) (length l).

Definition vrec_eqb (x y : vrec) : bool :=
  Pos.eqb (vr_saddr x) (vr_saddr y) && (vr_staking x =? vr_staking y) && (vr_power x =? vr_power y).
Definition cmp_vrec (m : gmap addr vrec) (l : list (addr * vrec)) : bool :=
  forallb (fun e => match m !! e.1 with Some r => vrec_eqb r e.2 | None => false end) l
  && Nat.eqb (length (map_to_list m)) (length l).

(* ---- monitors, evaluated on the observed records ---- *)
Definition obs_esum_v (o : obs) (v : addr) : Z :=
  foldr (fun e acc => if Pos.eqb e.1.1 v then e.2 + acc else acc) 0 (o_eff o).
Definition obs_esum_d (o : obs) (d : addr) : Z :=
  foldr (fun e acc => if Pos.eqb e.1.2 d then e.2 + acc else acc) 0 (o_eff o).
Definition lget (l : list (addr * Z)) (k : addr) : Z :=
  match find (fun e => Pos.eqb e.1 k) l with Some e => e.2 | None => 0 end.

Definition mon_sum_v (o : obs) : bool :=
  forallb (fun e => e.2 =? obs_esum_v o e.1) (o_vtot o)
  && forallb (fun e => lget (o_vtot o) e.1.1 =? obs_esum_v o e.1.1) (o_eff o).
Definition mon_sum_d (o : obs) : bool :=
  forallb (fun e => e.2 =? obs_esum_d o e.1) (o_deff o)
  && forallb (fun e => lget (o_deff o) e.1.2 =? obs_esum_d o e.1.2) (o_eff o).

Definition pend_of (p : list (addr * Z)) (v : addr) : Z :=
  foldr (fun e acc => if Pos.eqb e.1 v then e.2 + acc else acc) 0 p.
(* the v_ record's stake equals st__t_ plus the penalty still to be applied to the record *)
Definition mon_rec (o : obs) (p : list (addr * Z)) : bool :=
  forallb (fun e => vr_staking e.2 =? lget (o_vtot o) e.1 + pend_of p e.1) (o_vrec o).

(* ghost totals computed from what the implementation reported *)
Record ghosts := Ghosts { h_staked : gmap addr Z; h_withdrawn : gmap addr Z; h_in : gmap addr Z; h_out : gmap addr Z }.
Definition ghost_step (g : ghosts) (o : op) (ok : bool) (dbal : Z) : ghosts :=
  match o with
  | OStake _ d a _ _ _ _ _ _ =>
      if ok then Ghosts (zadd d a (h_staked g)) (h_withdrawn g) (zadd d (- dbal) (h_in g)) (h_out g) else g
  | OWithdraw _ d a _ _ =>
      if ok then Ghosts (h_staked g) (zadd d a (h_withdrawn g)) (h_in g) (zadd d dbal (h_out g)) else g
  | OGenStake _ d a | OGenMature _ d a =>
      Ghosts (zadd d a (h_staked g)) (h_withdrawn g) (zadd d (a * base) (h_in g)) (h_out g)
  | _ => g
  end.
Definition ghost_keys (g : ghosts) : list addr :=
  map fst (map_to_list (h_staked g)) ++ map fst (map_to_list (h_withdrawn g)) ++ map fst (map_to_list (h_out g)).
Definition mon_bounded_units (g : ghosts) (pen : gmap addr Z) : bool :=
  forallb (fun d => zget (h_withdrawn g) d <=? zget (h_staked g) d - zget pen d) (ghost_keys g).
Definition mon_bounded_base (g : ghosts) (pen : gmap addr Z) : bool :=
  forallb (fun d => zget (h_out g) d <=? zget (h_in g) d - zget pen d * base) (ghost_keys g).
(* conservation on the observed records: staked - penalised - withdrawn = effective + withdrawable + maturing *)
Definition obs_maturing (o : obs) (d : addr) : Z :=
  foldr (fun e acc => pend_of e.2 d + acc) 0 (o_mat o).
Definition mon_conservation (g : ghosts) (pen : gmap addr Z) (o : obs) : bool :=
  forallb (fun d => zget (h_staked g) d - zget pen d - zget (h_withdrawn g) d
                    =? lget (o_deff o) d + lget (o_dbnd o) d + obs_maturing o d)
          (ghost_keys g ++ map fst (o_deff o) ++ map fst (o_dbnd o)).

Definition results := (list Z * list Z * list Z)%type.
Definition add_mm (c i code : Z) (b : bool) (r : results) : results :=
  if b then r else let '(mm, mon, trg) := r in (mm ++ [c; i; code], mon, trg).
Definition add_mon (c i code : Z) (b : bool) (r : results) : results :=
  if b then r else let '(mm, mon, trg) := r in (mm, mon ++ [c; i; code], trg).
Definition add_trg (c i code : Z) (b : bool) (r : results) : results :=
  if b then let '(mm, mon, trg) := r in (mm, mon, trg ++ [c; i; code]) else r.

Definition withdraw_sidestep (s : state) (o : op) (fset : list addr) : bool :=
  match o with
  | OWithdraw v d _ fz _ => negb fz && frozen_owner s fset d
  | _ => false
  end.

(* per-block accumulators of the monitors: withdrawable of the previous block, amounts withdrawn in
   this block (observed ok), maturing entries the successful unstakes of this block must have created *)
Record blockacc := BlockAcc { a_prev : list (addr * Z); a_w : gmap addr Z; a_exp : list (Z * (addr * Z));
                              a_pvt : list (addr * Z); a_dv : gmap addr Z }.
Definition acc_step (a : blockacc) (o : op) (ok : bool) : blockacc :=
  if ok then
    match o with
    | OWithdraw _ d x _ _ => BlockAcc (a_prev a) (zadd d x (a_w a)) (a_exp a) (a_pvt a) (a_dv a)
    | OUnstake v d x _ _ h m _ _ => BlockAcc (a_prev a) (a_w a) ((h + m, (d, x)) :: a_exp a) (a_pvt a) (zadd v (- x) (a_dv a))
    | OStake v _ x _ _ _ _ _ _ => BlockAcc (a_prev a) (a_w a) (a_exp a) (a_pvt a) (zadd v x (a_dv a))
    | _ => a
    end
  else a.
(* the penalty of a GUILTY verdict is exactly the configured share of the CONVICTED validator's own
   total: observed st__t_ after the block = (observed total of the previous block + stakes - unstakes
   accepted in this block) - penalty_amount of that total; unchanged when the model says the penalty
   cannot be taken from the stake account of the previous version *)
Definition mon_penalty (a : blockacc) (s : state) (o : op) (ob : obs) : bool :=
  match o with
  | OEnd h vs =>
    if 1 <? h then
      forallb (fun e => let '(v, pct, dec) := e in
        match vprev s !! v with
        | None => true
        | Some r =>
          let t := lget (a_pvt a) v + zget (a_dv a) v in
          if Nat.eqb (snd (minus3 s v (vr_saddr r) (penalty_amount (zget (vtot s) v) pct dec))) 3
          then lget (o_vtot ob) v =? t - penalty_amount t pct dec
          else lget (o_vtot ob) v =? t
        end) vs
    else true
  | _ => true
  end.
(* withdrawable changes exactly by what matured at this height minus what was withdrawn *)
Definition mon_withdrawable (a : blockacc) (matured : list (addr * Z)) (ob : obs) : bool :=
  forallb (fun d => lget (o_dbnd ob) d - lget (a_prev a) d =? pend_of matured d - zget (a_w a) d)
          (map fst (o_dbnd ob) ++ map fst (a_prev a) ++ map fst matured ++ map fst (map_to_list (a_w a))).
(* every successful unstake left its entry at height + maturity(at unstake) *)
Definition mon_entries (a : blockacc) (h : Z) (ob : obs) : bool :=
  forallb (fun e => (e.1 <=? h) ||
                    match find (fun x => x.1 =? e.1) (o_mat ob) with
                    | Some x => negb (Nat.eqb (count_entry e.2 x.2) 0)
                    | None => false end) (a_exp a).
Definition op_height (o : op) : Z := match o with OEnd h _ => h | _ => 0 end.

Definition op_frozen (o : op) : bool :=
  match o with
  | OStake _ _ _ fz _ _ _ _ _ | OUnstake _ _ _ fz _ _ _ _ _ | OWithdraw _ _ _ fz _ => fz
  | _ => false
  end.

(* between a GUILTY verdict and the next successful RELEASE of that validator no UNSTAKE / WITHDRAW naming it succeeds *)
Definition names_convicted (o : op) (conv : list addr) : bool :=
  match o with
  | OUnstake v _ _ _ _ _ _ _ _ | OWithdraw v _ _ _ _ => existsb (Pos.eqb v) conv
  | _ => false
  end.

Fixpoint go (c i : Z) (s : state) (g : ghosts) (a : blockacc) (l : list (op * expect)) (r : results) : results :=
  match l with
  | [] => r
  | (o, e) :: l' =>
    let '(s', ok) := step s o in
    let r := add_trg c i 1 (trig_narrow o) r in
    let r := add_trg c i 2 (trig_negative o) r in
    let r := add_trg c i 3 (trig_deleted_with_stake s o) r in
    let r := add_trg c i 4 (trig_penalty_not_atomic s o) r in
    let r := add_trg c i 6 (trig_postponed_blocked s o) r in
    match e with
    | ETx ok_obs dbal fset conv =>
      let r := add_trg c i 5 (withdraw_sidestep s o fset) r in
      let r := add_mm c i 1 (eqb ok ok_obs) r in
      let r := add_mm c i 2 (bal_delta o ok =? dbal) r in
      let r := add_mon c i 16 (negb (withdraw_sidestep s o fset && ok_obs)) r in
      let r := add_mon c i 20 (negb (op_frozen o && ok_obs)) r in
      let r := add_mon c i 22 (negb (names_convicted o conv && ok_obs)) r in
      go c (i + 1) s' (ghost_step g o ok_obs dbal) (acc_step a o ok_obs) l' r
    | EBlock ob =>
      let r := add_mm c i 3 (cmp_zmap (eff s') (o_eff ob)) r in
      let r := add_mm c i 4 (cmp_zmap (vtot s') (o_vtot ob)) r in
      let r := add_mm c i 5 (cmp_zmap (deff s') (o_deff ob)) r in
      let r := add_mm c i 6 (cmp_zmap (dbnd s') (o_dbnd ob)) r in
      let r := add_mm c i 7 (cmp_mat (mat s') (o_mat ob)) r in
      let r := add_mm c i 8 (cmp_vrec (vrecs s') (o_vrec ob)) r in
      let r := add_mon c i 11 (mon_sum_v ob) r in
      let r := add_mon c i 12 (mon_sum_d ob) r in
      let r := add_mon c i 13 (mon_rec ob (pend s')) r in
      let r := add_mon c i 14 (mon_bounded_units g (g_pen s')) r in
      let r := add_mon c i 15 (mon_bounded_base g (g_pen s')) r in
      let r := add_mon c i 17 (mon_conservation g (g_pen s') ob) r in
      let h := op_height o in
      let r := add_mon c i 18 (mon_withdrawable a (if 1 <? h then mat_at s h else []) ob) r in
      let r := add_mon c i 19 (mon_entries a h ob) r in
      let r := add_mon c i 21 (mon_penalty a s o ob) r in
      go c (i + 1) s' g (BlockAcc (o_dbnd ob) ∅ [] (o_vtot ob) ∅) l' r
    | ENone => go c (i + 1) s' (ghost_step g o true 0) a l' r
    end
  end.

Definition run_case (c : Z) (l : list (op * expect)) : results :=
  go c 0 empty_state (Ghosts ∅ ∅ ∅ ∅) (BlockAcc [] ∅ [] [] ∅) l ([], [], []).

Fixpoint run_cases (c : Z) (cs : list (list (op * expect))) : results :=
  match cs with
  | [] => ([], [], [])
  | l :: cs' => let '(a1, b1, c1) := run_case c l in
                let '(a2, b2, c2) := run_cases (c + 1) cs' in
                (a1 ++ a2, b1 ++ b2, c1 ++ c2)
  end.
