(* ReplayGuard.v — the second line of defence against re-execution (C05): the record an executed
   transaction leaves behind.

   Part 1: an executable model.  A creating transaction carries a guard id (domain name, proposal id,
           request id, tracker name = hash of the embedded Ethereum transaction, (sender, nonce) of an OLVM
           transaction); every encoding of the same signed content carries the same id.  It executes only
           when its id is not taken and takes it.  Other operations may remove ids.  No proofs here.
   Part 2: the audit of every call that deletes such a record (gen/Facts_Deletes.v, regenerated). *)
From Coq Require Import ZArith List Bool String.
Import ListNotations.

(* ---------- Part 1 ---------- *)
Record gst := { taken : list Z; effects : list Z }.   (* effects: the ids whose transaction took effect, in order *)

Inductive gop :=
| GSubmit (g : Z)     (* any encoding of a transaction whose signed content has guard id g, delivered in a block *)
| GRemove (g : Z)     (* an operation that deletes the record g *)
| GOther.             (* any operation that leaves the guard records alone *)

Definition gmem (g : Z) (l : list Z) : bool := existsb (Z.eqb g) l.

Definition gstep (s : gst) (o : gop) : gst :=
  match o with
  | GSubmit g => if gmem g (taken s) then s else {| taken := g :: taken s; effects := g :: effects s |}
  | GRemove g => {| taken := filter (fun x => negb (Z.eqb g x)) (taken s); effects := effects s |}
  | GOther => s
  end.

Definition grun (s : gst) (ops : list gop) : gst := fold_left gstep ops s.

Definition gcount (g : Z) (l : list Z) : nat := List.length (filter (Z.eqb g) l).

Definition never_removes (g : Z) (ops : list gop) : bool :=
  forallb (fun o => match o with GRemove g' => negb (Z.eqb g g') | _ => true end) ops.

Definition ginit : gst := {| taken := []; effects := [] |}.

(* ---------- Part 2 ---------- *)
Local Open Scope string_scope.

Inductive dclass :=
| DMove      (* the record is written under another state prefix in the same function: the id stays taken
                (Exists looks at every prefix) *)
| DRetry     (* a FAILED Ethereum lock may be submitted again by design: its tracker is replaced *)
| DSubOnly   (* removes sub domains of a name; first-level records are never deleted *)
| DDecided   (* an allegation request is deleted once the validators have decided (or as a duplicate) *)
| DEmptyAcct (* EIP-161: an account that is empty — nonce 0, no balance, no code — or self-destructed *)
| DUnknown.

Definition one_of (l : list string) (s : string) : bool := existsb (String.eqb s) l.

Definition dclassify (deleter caller recv : string) : dclass :=
  if String.eqb deleter "data/governance.ProposalStore.Delete" then
    if one_of ["action/governance.runCancel"; "action/governance.runExpireVotes"; "action/governance.runVote";
               "action/governance.runWithdraw"; "action/governance.setToFinalizeFailed";
               "action/governance.setToFinalizeFromFailed"; "action/governance.setToFinalizeFromPassed"] caller
       && String.prefix "WithPrefixType(" recv then DMove else DUnknown
  else if String.eqb deleter "data/ethereum.TrackerStore.Delete" then
    if one_of ["event.Cleanup"; "event.CleanupFailed"; "event.redeemCleanup"; "event.redeemCleanupFailed"] caller
       && String.eqb recv "WithPrefixType(ethereum.PrefixOngoing)" then DMove
    else if one_of ["action/eth.runLock"; "action/eth.runERC20Lock"] caller
       && String.eqb recv "WithPrefixType(ethereum.PrefixFailed)" then DRetry
    else DUnknown
  else if String.eqb deleter "external_apps/bid/bid_data.BidConvStore.Delete" then
    if String.eqb caller "external_apps/bid/bid_action.CloseBidConv" && String.eqb recv "WithPrefixType(bid_data.BidStateActive)" then DMove else DUnknown
  else if String.prefix "data/ons.DomainStore.Delete" deleter then
    if one_of ["action/ons.runDeleteSub"; "action/ons.runPurchaseDomain"; "external_apps/bid/bid_data.DomainAsset.ExchangeAsset"] caller then DSubOnly else DUnknown
  else if String.eqb deleter "data/evidence.EvidenceStore.DeleteAllegationRequest" then
    if one_of ["data/evidence.EvidenceStore.CleanTracker"; "identity.ValidatorStore.ExecuteAllegationTracker"] caller then DDecided else DUnknown
  else if String.eqb deleter "data/evidence.EvidenceStore.delete" then
    if String.eqb caller "data/evidence.EvidenceStore.DeleteAllegationRequest" then DDecided else DUnknown
  else if String.eqb deleter "vm.CommitStateDB.deleteStateObject" then
    if String.eqb caller "vm.CommitStateDB.Finalise" then DEmptyAcct else DUnknown
  else DUnknown.

Definition unaudited_deletes (ds : list (string * string * string)) : list (string * string * string) :=
  filter (fun '(d, c, r) => match dclassify d c r with DUnknown => true | _ => false end) ds.

Definition count_dclass (want : dclass -> bool) (ds : list (string * string * string)) : nat :=
  List.length (filter (fun '(d, c, r) => want (dclassify d c r)) ds).
