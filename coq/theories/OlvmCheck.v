(* OlvmCheck.v — executable comparison and monitor functions for the C17 correspondence
   (evaluated with vm_compute on what the Go harness recorded from the real application). *)
From stdpp Require Import gmap list.
From Coq Require Import ZArith.
From OL Require Import theories.Olvm.
Local Open Scope Z_scope.

(* a projected ledger: b_<addr>_OLT records, keeper_<addr> sequences (present records only),
   fee pool *)
Record ledger := { l_bal : list (addr * Z) ; l_non : list (addr * Z) ; l_pool : Z }.

Definition mk_state (l : ledger) : state :=
  {| bal := list_to_map (l_bal l) ; seqs := list_to_map (l_non l) ; pool := l_pool l |}.

Inductive sinput :=
| IOlvm (e : env) (t : otx) (o : oracle)
| ISend (min_fee : Z) (t : ntx) (used : Z).

Record scase := {
  c_pre : ledger ;              (* deliver state before the transaction *)
  c_in : sinput ;
  c_ok : bool ;                 (* DeliverTx code = 0 *)
  c_gas_used : Z ;              (* ResponseDeliverTx.GasUsed *)
  c_post : ledger ;             (* deliver state after the transaction *)
  c_addrs : list addr ;         (* every address owning an OLT record before or after, and every
                                   address the transaction names *)
  c_check : Z ;                 (* CheckTx: -1 not run, 0 rejected, 1 accepted *)
  c_check_pre : ledger ;        (* committed state the check ran on *)
  c_min_fee : Z ;
  c_views : list (addr * Z * Z) ; (* after the transaction: keeper.GetBalance, StateDB.GetBalance *)
  c_again : bool                (* the same signed Ethereum transaction (sender, nonce, recipient,
                                   value, gas, price, data) was executed earlier in this history *)
}.

Definition same_on (s : state) (s' : state) (l : list addr) : bool :=
  forallb (fun a => (balance s a =? balance s' a) && (nonce_of s a =? nonce_of s' a)) l
  && (pool s =? pool s').

(* the model's verdict and post-state for the recorded inputs *)
Definition model_step (c : scase) : bool * Z * state :=
  let s := mk_state (c_pre c) in
  match c_in c with
  | IOlvm e t o =>
      match deliver_olvm s e t o with
      | (Executed _ gu, s') => (true, gu, s')
      | (NotExecuted, s') => (false, 0, s')
      | (Duplicate, s') => (c_ok c, c_gas_used c, s')   (* the cached response is replayed *)
      end
  | ISend m t used =>
      let '(ok, s') := deliver_send s m t used in (ok, if ok then used else c_gas_used c, s')
  end.

(* 0 = agree; 1 = verdict differs; 2 = gas used differs; 3 = ledger differs; 4 = CheckTx differs *)
Definition step_mismatch (c : scase) : Z :=
  let '(ok, gu, s') := model_step c in
  if negb (Bool.eqb ok (c_ok c)) then 1
  else if ok && negb (gu =? c_gas_used c) then 2
  else if negb (same_on s' (mk_state (c_post c)) (c_addrs c)) then 3
  else match c_in c with
       | IOlvm e t o =>
           if c_check c =? -1 then 0
           else if Bool.eqb (validate (mk_state (c_check_pre c)) (c_min_fee c) t) (c_check c =? 1)
                then 0 else 4
       | _ => 0
       end.

Fixpoint mismatches (i : Z) (cs : list scase) : list Z :=
  match cs with
  | [] => []
  | c :: rest =>
      let m := step_mismatch c in
      if m =? 0 then mismatches (i + 1) rest else i :: m :: mismatches (i + 1) rest
  end.

(* ---------- the property monitor: the equalities of C17 on the OBSERVED deltas ---------- *)
Definition sum_bal (s : state) (l : list addr) : Z := fold_right (fun a acc => balance s a + acc) 0 l.

(* violated clauses:
   1 a balance is not pre - [sender](gasUsed*price + moved) + [recipient] moved (+ the code's own
     transfers)        2 fee pool not credited exactly gasUsed*price
   3 sender nonce not raised by exactly one       4 a transaction that was not executed changed
   the ledger           5 total OLT (all accounts + fee pool) changed
   6 the EVM view of a balance differs from the native record
   7 executed although the nonce is not the account's nonce
   8 executed although Validate refuses it on the state it ran on (wrong chain id / signer,
     price below the minimum fee, negative amount, bad memo, ...)
   9 the nonce of an account other than the sender changed (allowed: a created contract gets 1,
     a self-destructed account loses its record)
   10 the same signed transaction is executed a second time *)
Definition monitor (c : scase) : list Z :=
  let s := mk_state (c_pre c) in
  let s' := mk_state (c_post c) in
  let l := c_addrs c in
  let views_ok := forallb (fun v => let '(a, kb, sb) := v in
                             (kb =? balance s' a) && (sb =? balance s' a)) (c_views c) in
  let unchanged := same_on s s' l in
  (if views_ok then [] else [6]) ++
  match c_in c with
  | IOlvm e t o =>
      if e_dup e then (if unchanged then [] else [4])
      else if c_ok c then
        let f := o_failed o in
        let used := c_gas_used c in
        let from := t_from t in
        let to := recipient e t in
        let bal_ok := forallb (fun a =>
            balance s' a =? balance s a
              + (if decide (a = from) then - (used * t_price t + moved t f) else 0)
              + (if decide (a = to) then moved t f else 0)
              + (if f then 0 else delta_int (o_int o) a)) l in
        (if bal_ok then [] else [1]) ++
        (if pool s' =? pool s + used * t_price t then [] else [2]) ++
        (if nonce_of s' from =? nonce_of s from + 1 then [] else [3]) ++
        (if forallb (fun a =>
              if decide (a = from) then true
              else nonce_of s' a =?
                   (if negb f && bool_decide (a ∈ o_dead o) then 0
                    else if negb f && is_create t && bool_decide (a = to) then 1
                    else nonce_of s a)) l then [] else [9]) ++
        (if sum_bal s' l + pool s' =? sum_bal s l + pool s then [] else [5]) ++
        (if t_nonce t =? nonce_of s from then [] else [7]) ++
        (if validate s (e_min_fee e) t then [] else [8]) ++
        (if c_again c then [10] else [])
      else if unchanged then [] else [4]
  | ISend m t used =>
      if c_ok c then
        let bal_ok := forallb (fun a =>
            balance s' a =? balance s a
              + (if decide (a = n_from t) then - (n_amount t + n_price t * used) else 0)
              + (if decide (a = n_to t) then n_amount t else 0)) l in
        (if bal_ok then [] else [1]) ++
        (if pool s' =? pool s + n_price t * used then [] else [2]) ++
        (if sum_bal s' l + pool s' =? sum_bal s l + pool s then [] else [5]) ++
        (if send_validate m t then [] else [8]) ++
        (if forallb (fun a => nonce_of s' a =? nonce_of s a) l then [] else [9])
      else if unchanged then [] else [4]
  end.

(* known-deviation triggers evaluated on the step input: bit 1 nonce_gap, bit 2
   selfdestruct_funded *)
Definition triggers (c : scase) : Z :=
  match c_in c with
  | IOlvm e t o =>
      let s := mk_state (c_pre c) in
      (if nonce_gap s t then 1 else 0) + (if selfdestruct_funded s o then 2 else 0)
  | _ => 0
  end.

(* (step index, violated clause, triggers) for every violated clause *)
Fixpoint violations (i : Z) (cs : list scase) : list Z :=
  match cs with
  | [] => []
  | c :: rest =>
      flat_map (fun k => [i; k; triggers c]) (monitor c) ++ violations (i + 1) rest
  end.

(* the constants of the model against the values the running code uses *)
Definition consts_ok (refund_q tx_gas tx_create nz_gas z_gas sim_limit : Z) : bool :=
  (refund_q =? RefundQuotient) && (tx_gas =? TxGas) && (tx_create =? TxGasContractCreation)
  && (nz_gas =? TxDataNonZeroGas) && (z_gas =? TxDataZeroGas) && (sim_limit =? SimulationBlockGasLimit).

(* statistics: executed / vm-failed / rejected / oracle answers within the hypothesis *)
Definition oracle_in_hyp (c : scase) : bool :=
  match c_in c with
  | IOlvm e t o => if c_ok c then oracle_okb t o else true
  | _ => true
  end.
Definition count_outside_hyp (cs : list scase) : Z :=
  Z.of_nat (length (filter (fun c => negb (oracle_in_hyp c)) cs)).

(* ---------- compact constructors for generated cases files (flat lists of Z elaborate fast) ---------- *)
Fixpoint pairs_of (l : list Z) : list (addr * Z) :=
  match l with
  | a :: z :: rest => (Z.to_N a, z) :: pairs_of rest
  | _ => []
  end.
Fixpoint triples_of (l : list Z) : list (addr * Z * Z) :=
  match l with
  | a :: x :: y :: rest => (Z.to_N a, x, y) :: triples_of rest
  | _ => []
  end.
Definition mkL (b n : list Z) (p : Z) : ledger :=
  {| l_bal := pairs_of b ; l_non := pairs_of n ; l_pool := p |}.
Definition mkE (bg : Z) (code : bool) (created : Z) (dup : bool) (minfee : Z) : env :=
  {| e_block_gas := bg ; e_sender_code := code ; e_created := Z.to_N created ; e_dup := dup ;
     e_min_fee := minfee |}.
Definition mkT (from to value gas price nonce nz z : Z) (chain memo : bool) : otx :=
  {| t_from := Z.to_N from ; t_to := if to <? 0 then None else Some (Z.to_N to) ; t_value := value ;
     t_gas := gas ; t_price := price ; t_nonce := nonce ; t_nz := nz ; t_z := z ;
     t_chain_ok := chain ; t_memo_ok := memo |}.
Definition mkO (left : Z) (failed : bool) (ints dead : list Z) : oracle :=
  {| o_left := left ; o_refund := 0 ; o_failed := failed ; o_int := pairs_of ints ;
     o_dead := map Z.to_N dead |}.
Definition mkN (from to amount price gas : Z) (sig : bool) : ntx :=
  {| n_from := Z.to_N from ; n_to := Z.to_N to ; n_amount := amount ; n_price := price ; n_gas := gas ;
     n_sig_ok := sig |}.
Definition mkC (pre : ledger) (i : sinput) (ok : bool) (gu : Z) (post : ledger) (addrs : list Z)
  (check : Z) (cpre : ledger) (minfee : Z) (views : list Z) (again : bool) : scase :=
  {| c_pre := pre ; c_in := i ; c_ok := ok ; c_gas_used := gu ; c_post := post ;
     c_addrs := map Z.to_N addrs ; c_check := check ; c_check_pre := cpre ; c_min_fee := minfee ;
     c_views := triples_of views ; c_again := again |}.
