(* EvmCheck.v — trigger predicates (the known-defect regions of the adapter), the guard of the
   partial theorems, and the executable comparison functions of the correspondence check
   (evaluated with vm_compute on what the Go harness records from the real vm.CommitStateDB and
   from go-ethereum's state.StateDB). *)
From stdpp Require Import gmap list.
From Coq Require Import ZArith.
From OL Require Import theories.EvmSpec theories.EvmAdapter.
Local Open Scope Z_scope.

(* ---- triggers --------------------------------------------------------------------------- *)
Definition has_slots (p : pers) (x : addr) : bool :=
  existsb (fun e : addr * key * Z => (e.1.1 =? x)%N) (map_to_list (p_cstore p)).

(* the account exists for the adapter (live object, or loadable from the persistent layer) *)
Definition a_exists (a : astate) (x : addr) : bool :=
  match a_oidx a !! x with Some _ => true | None => match load (a_pers a) x with Some _ => true | None => false end end.

(* C16.removed_account_residue: Finalise removes an account (self-destructed, or touched and
   empty) that has stored storage words, or whose in-memory balance is not zero (value received
   after the self-destruct, in the same transaction): the keeper record is removed, but the
   storage words stay behind (a re-created account reads them) and the balance is written to the
   native balance record (the account exists again; go-ethereum burns the value) *)
Definition doomed (a : astate) (xo : addr * obj) : bool :=
  let '(x, o) := xo in
  o_suic o || (bool_decide (is_Some (dirty_set a !! x)) && obj_empty o).
Definition trig_residue (a : astate) (o : op) : bool :=
  match o with
  | Finalise | BlockCommit =>
      existsb (fun xo => doomed a xo && (negb (o_bal xo.2 =? 0) || has_slots (a_pers a) xo.1)) (a_objs a)
  | _ => false
  end.

(* C16.create_over_storage: CreateAccount over an existing account that has stored storage
   words: the new object still reads them *)
Definition trig_create_over (a : astate) (o : op) : bool :=
  match o with
  | CreateAccount x => a_exists a x && has_slots (a_pers a) x
  | _ => false
  end.

(* outside the contract of the interface (the interpreter checks CanTransfer before it moves value) *)
Definition pre_violated (a : astate) (o : op) : bool :=
  match o with
  | SubBalance x v =>
      (* overdraft; or a zero transfer out of a non-existent account, which creates the account
         without journalling a change on it (see ASSUMPTIONS of the check: go-ethereum itself is
         not self-consistent on such bare creations after a same-block deletion) *)
      match astep_opt a (GetBalance x) with Some (OZ b, _) => b <? v | _ => false end
      || ((v =? 0) && negb (a_exists a x))
  | SetState x _ v => (v =? 0) && negb (a_exists a x)
  | AddBalance _ v => v <? 0
  | _ => false
  end.

(* side condition of the Finalise case of the bisimulation, evaluated at run time (not a known
   defect: it has never been observed false outside the aftermath of C16.stale_dirty_index):
   every live object that Finalise does NOT treat as dirty is clean (equal to its persisted
   image), and every non-zero dirty slot of an object that is written back has its original
   value cached (commitState silently skips slots that are not) — i.e. this Finalise loses no write *)
Definition obj_cleanb (p : pers) (x : addr) (o : obj) : bool :=
  match load p x with
  | Some o0 => (o_bal o =? o_bal o0) && (o_nonce o =? o_nonce o0) && (o_hash o =? o_hash o0)%N &&
               negb (o_suic o) &&
               ((o_cache o =? 0)%N || (o_hash o =? 0)%N || bool_decide (is_Some (p_codes p !! o_hash o))) &&
               forallb (fun kv : key * Z => kv.2 =? pslot p x kv.1) (o_dirty o)
  | None => false
  end.
Definition slots_cachedb (o : obj) : bool :=
  forallb (fun kv : key * Z => (kv.2 =? 0) || bool_decide (is_Some (o_oidx o !! kv.1))) (o_dirty o).
Definition fin_okb (a : astate) : bool :=
  forallb (fun xo : addr * obj =>
             if bool_decide (is_Some (dirty_set a !! xo.1)) then doomed a xo || slots_cachedb xo.2
             else obj_cleanb (a_pers a) xo.1 xo.2) (a_objs a).
Definition fin_unchecked (a : astate) (o : op) : bool :=
  match o with Finalise | BlockCommit => negb (fin_okb a) | _ => false end.

(* class of a step: 0 = none, 1..2 = known defect regions (3 was C16.stale_dirty_index, repaired
   by fix 4b2faa6), 4 = outside the interface contract,
   5 = the run-time side condition of the Finalise case is false *)
Definition step_class (a : astate) (o : op) : nat :=
  if trig_residue a o then 1%nat
  else if trig_create_over a o then 2%nat
  else if pre_violated a o then 4%nat
  else if fin_unchecked a o then 5%nat
  else 0%nat.
Definition step_ok (a : astate) (o : op) : bool := Nat.eqb (step_class a o) 0.

Fixpoint guardedb (a : astate) (ops : list op) : bool :=
  match ops with
  | [] => true
  | o :: rest => step_ok a o && guardedb (astep a o).2 rest
  end.

(* ---- comparison ------------------------------------------------------------------------- *)
Fixpoint zs_eqb (a b : list Z) : bool :=
  match a, b with
  | [], [] => true
  | x :: a', y :: b' => (x =? y) && zs_eqb a' b'
  | _, _ => false
  end.
Definition out_eqb (a b : out) : bool :=
  match a, b with
  | OUnit, OUnit | OPanic, OPanic => true
  | OZ x, OZ y => x =? y
  | OBool x, OBool y => Bool.eqb x y
  | OList x, OList y => zs_eqb x y
  | _, _ => false
  end.

Record case := {
  c_start : list start_acct; c_ops : list op;
  c_impl : list out;    (* vm.CommitStateDB *)
  c_ref : list out }.   (* go-ethereum state.StateDB *)

(* first step at which the model's answer differs from the recorded one, with the class of the
   known-defect region entered so far (sticky) *)
Fixpoint a_diff (a : astate) (ops : list op) (obs : list out) (i : nat) (cl : nat) : option (nat * nat) :=
  match ops, obs with
  | o :: ops', b :: obs' =>
      let c := step_class a o in
      let cl' := if Nat.eqb cl 0 then c else cl in
      let '(r, a') := astep a o in
      if out_eqb r b then a_diff a' ops' obs' (S i) cl' else Some (i, cl')
  | _, _ => None
  end.
Fixpoint s_diff (s : sstate) (ops : list op) (obs : list out) (i : nat) : option nat :=
  match ops, obs with
  | o :: ops', b :: obs' =>
      let '(r, s') := spec_step s o in
      if out_eqb r b then s_diff s' ops' obs' (S i) else Some i
  | _, _ => None
  end.
(* the property monitor proper: the two IMPLEMENTATIONS against each other; the class comes from
   the adapter model run on the same operations *)
Fixpoint p_diff (a : astate) (ops : list op) (im rf : list out) (i : nat) (cl : nat) : option (nat * nat) :=
  match ops, im, rf with
  | o :: ops', x :: im', y :: rf' =>
      let c := step_class a o in
      let cl' := if Nat.eqb cl 0 then c else cl in
      if out_eqb x y then p_diff (astep a o).2 ops' im' rf' (S i) cl' else Some (i, cl')
  | _, _, _ => None
  end.

Fixpoint model_mismatches (i : nat) (cs : list case) : list (nat * nat * nat) :=
  match cs with
  | [] => []
  | c :: rest =>
      match a_diff (a_init (c_start c)) (c_ops c) (c_impl c) 0 0 with
      | Some (j, cl) => (i, j, cl) :: model_mismatches (S i) rest
      | None => model_mismatches (S i) rest
      end
  end.
Fixpoint spec_mismatches (i : nat) (cs : list case) : list (nat * nat) :=
  match cs with
  | [] => []
  | c :: rest =>
      match s_diff (spec_init (c_start c)) (c_ops c) (c_ref c) 0 with
      | Some j => (i, j) :: spec_mismatches (S i) rest
      | None => spec_mismatches (S i) rest
      end
  end.
Fixpoint property_violations (i : nat) (cs : list case) : list (nat * nat * nat) :=
  match cs with
  | [] => []
  | c :: rest =>
      match p_diff (a_init (c_start c)) (c_ops c) (c_impl c) (c_ref c) 0 0 with
      | Some (j, cl) => (i, j, cl) :: property_violations (S i) rest
      | None => property_violations (S i) rest
      end
  end.

Definition count_guarded (cs : list case) : nat :=
  length (filter (fun c => guardedb (a_init (c_start c)) (c_ops c) = true) cs).

(* per case: the class of the first known-defect region entered (0 = none) *)
Fixpoint first_class (a : astate) (ops : list op) : nat :=
  match ops with
  | [] => 0%nat
  | o :: rest => let c := step_class a o in if Nat.eqb c 0 then first_class (astep a o).2 rest else c
  end.
Definition case_classes (cs : list case) : list Z :=
  map (fun c => Z.of_nat (first_class (a_init (c_start c)) (c_ops c))) cs.

Definition flat2 (l : list (nat * nat)) : list Z :=
  flat_map (fun '(a, b) => [Z.of_nat a; Z.of_nat b]) l.
Definition flat3 (l : list (nat * nat * nat)) : list Z :=
  flat_map (fun '(a, b, c) => [Z.of_nat a; Z.of_nat b; Z.of_nat c]) l.

(* ---- the guard of the proved bisimulation ------------------------------------------------ *)
(* operations for which C16_bisim is proved: all of them; CreateAccount only for accounts that do
   not exist yet (see create_fresh), re-creation is covered by the three-way correspondence only *)
Definition core_op (o : op) : bool :=
  match o with
  | SubBalance _ _ | AddBalance _ _ | GetBalance _ | GetNonce _ | SetNonce _ _
  | GetCodeHash _ | GetCode _ | SetCode _ _ | GetCodeSize _
  | AddRefund _ | SubRefund _ | GetRefund
  | GetCommittedState _ _ | GetState _ _ | SetState _ _ _
  | Suicide _ | HasSuicided _ | Exist _ | Empty _
  | Snapshot | RevertToSnapshot _ | Finalise | BlockCommit | CreateAccount _
  | AlAddAddr _ | AlAddSlot _ _ | AlHasAddr _ | AlHasSlot _ _ | AddLog _ _ | GetLogs => true
  end.
(* CreateAccount is in the proved core for accounts that do not exist yet (evm.create on a fresh
   address); re-creation over an existing account is covered by the correspondence only *)
Definition create_fresh (a : astate) (o : op) : bool :=
  match o with CreateAccount x => negb (a_exists a x) | _ => true end.
Definition pstep_ok (a : astate) (o : op) : bool :=
  step_ok a o && core_op o && create_fresh a o.
Fixpoint pguardedb (a : astate) (ops : list op) : bool :=
  match ops with
  | [] => true
  | o :: rest => pstep_ok a o && pguardedb (astep a o).2 rest
  end.

(* ---- an arbitrary deterministic client (the interpreter) ---------------------------------- *)
(* the client sees the answers so far and decides the next call; [fuel] bounds the number of calls *)
Fixpoint client_run_a (fuel : nat) (strat : list out -> option op) (a : astate) (hist : list out) : list (op * out) :=
  match fuel with
  | O => []
  | S f => match strat hist with
           | None => []
           | Some o => let '(r, a') := astep a o in (o, r) :: client_run_a f strat a' (hist ++ [r])
           end
  end.
Fixpoint client_run_s (fuel : nat) (strat : list out -> option op) (s : sstate) (hist : list out) : list (op * out) :=
  match fuel with
  | O => []
  | S f => match strat hist with
           | None => []
           | Some o => let '(r, s') := spec_step s o in (o, r) :: client_run_s f strat s' (hist ++ [r])
           end
  end.
Fixpoint client_guard (fuel : nat) (strat : list out -> option op) (a : astate) (hist : list out) : bool :=
  match fuel with
  | O => true
  | S f => match strat hist with
           | None => true
           | Some o => pstep_ok a o && let '(r, a') := astep a o in client_guard f strat a' (hist ++ [r])
           end
  end.

(* starting states covered by C16_init: distinct addresses, no empty account, a native-only record
   has a non-zero balance, stored storage words are non-zero with distinct slots *)
Definition start_acct_okb (s : start_acct) : bool :=
  if sa_native s then negb (sa_bal s =? 0)
  else (negb (sa_nonce s =? 0) || negb (sa_bal s =? 0) || negb (sa_code s =? 0)%N) &&
       forallb (fun kv : key * Z => negb (kv.2 =? 0)) (sa_stor s) && bool_decide (NoDup (sa_stor s).*1).
Definition start_okb (st : list start_acct) : bool :=
  forallb start_acct_okb st && bool_decide (NoDup (sa_addr <$> st)).
Definition count_start_ok (cs : list case) : nat := length (filter (fun c => start_okb (c_start c) = true) cs).

(* how many recorded cases lie inside the scope of C16_equivalence (admissible starting state and the
   proof guard holds along the whole run) *)
Definition count_pguarded (cs : list case) : nat :=
  length (filter (fun c => start_okb (c_start c) && pguardedb (a_init (c_start c)) (c_ops c) = true) cs).
