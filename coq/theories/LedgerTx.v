(* LedgerTx.v — per-kind effect functions over the value ledger (C02 / C03). *)
From stdpp Require Import gmap list.
From Coq Require Import ZArith NArith String.
From OL Require Import theories.Ledger.
Local Open Scope Z_scope.

(* transaction kinds (codes shared with harness/c02model.go) *)
Definition K_SEND : N := 1.
Definition K_SENDPOOL : N := 2.
Definition K_STAKE : N := 3.
Definition K_UNSTAKE : N := 4.
Definition K_WITHDRAW : N := 5.
Definition K_DELEGATE : N := 6.
Definition K_UNDELEGATE : N := 7.
Definition K_REWARDS_WITHDRAW : N := 8.
Definition K_REWARDS_REINVEST : N := 9.
Definition K_WITHDRAW_REWARD : N := 10.
Definition K_PROPOSAL_CREATE : N := 11.
Definition K_PROPOSAL_FUND : N := 12.
Definition K_PROPOSAL_WITHDRAW_FUNDS : N := 13.
Definition K_DOMAIN_CREATE : N := 14.
Definition K_DOMAIN_RENEW : N := 15.
Definition K_DOMAIN_PURCHASE : N := 16.
Definition K_DOMAIN_SEND : N := 17.
Definition K_DOMAIN_SELL : N := 18.
Definition K_BID_CREATE : N := 19.
Definition K_BID_COUNTER : N := 20.

(* ------------------------------------------------------------------------------------------------
   Effect functions.  [Some ops] = the handler's sequence of store calls as ledger operations (applied
   atomically together with the fee step); [None] = Validate or the handler's own guard rejects the
   transaction (no effect).  Every non-ledger fact a handler reads is an explicit argument ("env"):
   whether the currency is registered, option values (initial funding, funding goal, base price, fee
   per block, maturity periods), sale state of a domain, its owner / beneficiary, pool addresses.
   Non-ledger reasons to FAIL that are not decided here (frozen validator, proposal stage, gas limit,
   missing domain ...) make the real transaction a no-op (C06): the correspondence accepts that.
   ------------------------------------------------------------------------------------------------ *)
Definition bal (o c : N) : key := mk o B_BAL c 0.
Definition feepool (fp : N) : key := mk fp B_FEE CUR_OLT 0.

(* action.Amount.IsValid: the currency is registered and the value is >= 0 *)
Definition amount_valid (known : bool) (v : Z) : bool := known && (0 <=? v).
Definition is_olt (cur : N) : bool := (cur =? CUR_OLT)%N.

(* the fee step (action.BasicFeeHandling / StakingPayerFeeHandling): payer -> fee pool; the payer is the first
   signer, for the validator operations (allegation, vote, release) the validator's stake address *)
Definition fee_ops (payer fp : N) (fee : Z) : list lop := [Move (bal payer CUR_OLT) (feepool fp) fee].

(* SEND  (action/transfer/send.go runTx; guard: Amount.IsValid in Validate and in the handler) *)
Definition effect_send (known : bool) (cur from to : N) (v : Z) : option (list lop) :=
  if amount_valid known v then Some [Move (bal from cur) (bal to cur) v] else None.

(* SENDPOOL (sendPool.go; guard: IsValid (5fba2a6) and currency = OLT in Validate) *)
Definition effect_sendpool (known : bool) (cur from pool : N) (v : Z) : option (list lop) :=
  if amount_valid known v && is_olt cur then Some [Move (bal from cur) (bal pool cur) v] else None.

(* STAKE (staking/stake.go): the balance is debited ToCoinWithBase(v) = wrap64(v) * 10^18, the stake record is
   credited v.  Guards: Validate - narrowed coin valid (>= 0), OLT; handler (48c76fc) - v >= 0 and v fits int64 *)
Definition effect_stake (known : bool) (cur staker val : N) (v : Z) : option (list lop) :=
  if known && is_olt cur && (0 <=? wrap64 v) && (0 <=? v) && fits64 v
  then Some [Burn (bal staker CUR_OLT) (wrap64 v * E18); Mint (mk staker B_STAKE CUR_OLT val) (v * E18)]
  else None.

(* UNSTAKE (unstake.go): locked -> unlocking at height h + maturity.  Guards: Validate narrowed coin > 0, OLT; handler int64 *)
Definition effect_unstake (known : bool) (cur staker val : N) (v : Z) (mature_at : N) : option (list lop) :=
  if known && is_olt cur && (0 <? wrap64 v) && (0 <=? v) && fits64 v
  then Some [Move (mk staker B_STAKE CUR_OLT val) (mk staker B_UNSTAKE CUR_OLT mature_at) (v * E18)]
  else None.

(* WITHDRAW (withdraw.go): withdrawable - v, balance + ToCoinWithBase(v) *)
Definition effect_withdraw (known : bool) (cur staker : N) (v : Z) : option (list lop) :=
  if known && is_olt cur && (0 <? wrap64 v) && (0 <=? v) && fits64 v
  then Some [Burn (mk staker B_WITHDRAW CUR_OLT 0) (v * E18); Mint (bal staker CUR_OLT) (wrap64 v * E18)]
  else None.

(* ADD_NETWORK_DELEGATE: balance -> delegation pool; the active delegation (a claim) grows.  Guard: coin valid, OLT *)
Definition effect_delegate (known : bool) (cur u pool : N) (v : Z) : option (list lop) :=
  if amount_valid known v && is_olt cur
  then Some [Move (bal u CUR_OLT) (bal pool CUR_OLT) v; Mint (mk u B_DELEGACT CUR_OLT 0) v]
  else None.

(* NETWORK_UNDELEGATE: claim - v, pool -> undelegating record maturing at h + k.  Guard (1d1d85c): valid, OLT *)
Definition effect_undelegate (known : bool) (cur u pool : N) (v : Z) (mature_at : N) : option (list lop) :=
  if amount_valid known v && is_olt cur
  then Some [Burn (mk u B_DELEGACT CUR_OLT 0) v; Move (bal pool CUR_OLT) (mk u B_UNDELEG CUR_OLT mature_at) v]
  else None.

(* REWARDS_WITHDRAW_NETWORK_DELEGATE: reward claim -> pending withdrawal maturing at h + k *)
Definition effect_rewards_withdraw (known : bool) (cur u : N) (v : Z) (mature_at : N) : option (list lop) :=
  if amount_valid known v && is_olt cur
  then Some [Move (mk u B_REWBAL CUR_OLT 0) (mk u B_REWPEND CUR_OLT mature_at) v]
  else None.

(* REWARDS_REINVEST_NETWORK_DELEGATE: reward claim -> delegation pool, active delegation grows *)
Definition effect_reinvest (known : bool) (cur u pool : N) (v : Z) : option (list lop) :=
  if amount_valid known v && is_olt cur
  then Some [Move (mk u B_REWBAL CUR_OLT 0) (bal pool CUR_OLT) v; Mint (mk u B_DELEGACT CUR_OLT 0) v]
  else None.

(* WITHDRAW_REWARD (action/rewards/withdraw.go): reward pool -> signer, amount ToCoinWithBase(v) = wrap64(v) * 10^18 (the
   matured-claim bookkeeping rwcum_* is a side record, monitored separately).  Guards: Validate - currency OLT,
   Amount.IsValid (value >= 0, 45cfd0d) and the value fits int64 (ed95e98: 2^64-2 used to arrive in the handler as -2) *)
Definition effect_withdraw_reward (known : bool) (cur signer rpool : N) (v : Z) : option (list lop) :=
  if known && is_olt cur && (0 <=? v) && fits64 v
  then Some [Burn (bal rpool CUR_OLT) (wrap64 v * E18); Mint (bal signer CUR_OLT) (wrap64 v * E18)]
  else None.

(* PROPOSAL_CREATE: proposer's balance (coin in the NAMED currency) -> escrow (a bare number).
   Guards: Validate currency = OLT; handler: initial funding option <= v < funding goal option *)
Definition effect_proposal_create (known : bool) (cur proposer prop : N) (v init goal : Z) : option (list lop) :=
  if known && is_olt cur && (init <=? v) && (v <? goal)
  then Some [Burn (bal proposer cur) v; Mint (mk proposer B_PROPFUND CUR_OLT prop) v]
  else None.

(* PROPOSAL_FUND: Validate checks currency = OLT; the handler requires a positive contribution (782c385) *)
Definition effect_proposal_fund (known : bool) (cur funder prop : N) (v : Z) : option (list lop) :=
  if known && is_olt cur && (0 <? v)
  then Some [Burn (bal funder cur) v; Mint (mk funder B_PROPFUND CUR_OLT prop) v]
  else None.

(* PROPOSAL_WITHDRAW_FUNDS: escrow of the funder -> balance of the BENEFICIARY he names.
   Validate checks currency = OLT; the handler requires a positive amount (19a3caa) *)
Definition effect_proposal_withdraw (known : bool) (cur funder benef prop : N) (v : Z) : option (list lop) :=
  if known && is_olt cur && (0 <? v)
  then Some [Burn (mk funder B_PROPFUND CUR_OLT prop) v; Mint (bal benef cur) v]
  else None.

(* DOMAIN_CREATE / DOMAIN_RENEW: the price goes to the fee pool.  Guards: OLT; price > base price / > fee per block *)
Definition effect_domain_create (known : bool) (cur owner fp : N) (v base : Z) : option (list lop) :=
  if known && is_olt cur && (base <? v) then Some [Move (bal owner CUR_OLT) (feepool fp) v] else None.
Definition effect_domain_renew (known : bool) (cur owner fp : N) (v perblock : Z) : option (list lop) :=
  if known && is_olt cur && (perblock <? v) then Some [Move (bal owner CUR_OLT) (feepool fp) v] else None.

(* DOMAIN_PURCHASE: a name on sale: the asking price to the seller, the rest of the offer to the fee pool;
   an expired name: the whole offer to the fee pool *)
Definition effect_domain_purchase (known : bool) (cur buyer fp : N) (offer : Z) (on_sale : bool) (sale : Z) (seller : N) (base : Z)
  : option (list lop) :=
  if known && is_olt cur then
    if on_sale then
      if sale <=? offer
      then Some [Move (bal buyer CUR_OLT) (bal seller CUR_OLT) sale; Move (bal buyer CUR_OLT) (feepool fp) (offer - sale)]
      else None
    else if base <=? offer then Some [Move (bal buyer CUR_OLT) (feepool fp) offer] else None
  else None.

(* DOMAIN_SEND: sender -> the domain's beneficiary *)
Definition effect_domain_send (known : bool) (cur from benef : N) (v : Z) : option (list lop) :=
  if amount_valid known v then Some [Move (bal from cur) (bal benef cur) v] else None.

(* ---------------- bid app (external_apps/bid/bid_action) ----------------
   There is no escrow account: BID_CREATE debits the bidder and the locked amount lives in the active offer record; every
   unlock / payment moves the WHOLE record.  The asking price of a counter offer is an input (nothing is locked for it). *)
Definition esc (bidder conv : N) : key := mk bidder B_BIDESCROW CUR_OLT conv.
Definition unlock_ops (l : gmap key Z) (bidder conv : N) : list lop :=
  [Move (esc bidder conv) (bal bidder CUR_OLT) (lget l (esc bidder conv))].
(* BID_CREATE (new conversation, or a further offer answering an active counter offer c: must be below it).
   Guards: Validate - currency OLT and Amount.IsValid (f99f70a: a negative amount used to CREDIT the bidder) *)
Definition effect_bid_create (known : bool) (cur bidder conv : N) (v : Z) (has_counter : bool) (c : Z) : option (list lop) :=
  if amount_valid known v && is_olt cur && (if has_counter then v <? c else true)
  then Some [Move (bal bidder CUR_OLT) (esc bidder conv) v] else None.
(* BID_CONTER_OFFER by the asset owner: must exceed the active bid; the bidder's bid is unlocked *)
Definition effect_bid_counter (l : gmap key Z) (known : bool) (cur bidder conv : N) (v : Z) : option (list lop) :=
  if amount_valid known v && is_olt cur && (lget l (esc bidder conv) <? v) then Some (unlock_ops l bidder conv) else None.
(* BID_CANCEL (bidder), BID_EXPIRE (anybody - public router, no guard), owner / bidder REJECT: unlock *)
Definition effect_bid_unlock (l : gmap key Z) (bidder conv : N) : option (list lop) := Some (unlock_ops l bidder conv).
(* BID_OWNER_DECISION accept: the locked amount goes to the asset owner (the bidder authorised it when he signed the bid) *)
Definition effect_bid_owner_accept (l : gmap key Z) (bidder owner conv : N) : option (list lop) :=
  Some [Move (esc bidder conv) (bal owner CUR_OLT) (lget l (esc bidder conv))].
(* BID_BIDDER_DECISION accept of a counter offer c: a direct transfer bidder -> owner, nothing was locked *)
Definition effect_bid_bidder_accept (bidder owner : N) (c : Z) : option (list lop) :=
  if 0 <=? c then Some [Move (bal bidder CUR_OLT) (bal owner CUR_OLT) c] else None.

(* ---------------- wrapped currencies (action/eth): lock -> mint, redeem -> burn, failed redeem -> refund ----------------
   The supply counter (balance of TotalSupplyAddr) moves in step with every operation: it is a side record, not value.
   The finality vote count deciding WHEN a mint / refund happens is C15's; here: what it does to the ledger. *)
Definition effect_eth_lock_mint (owner cur : N) (locked : Z) : list lop := [Mint (bal owner cur) locked].
Definition effect_eth_redeem_burn (owner cur : N) (amount : Z) : option (list lop) :=
  if 0 <=? amount then Some [Burn (bal owner cur) amount] else None.
Definition effect_eth_redeem_refund (owner cur : N) (burnt : Z) : list lop := [Mint (bal owner cur) burnt].

(* ---------------- OLVM (action/olvm, vm): what a transaction does to the native ledger at the transaction level ----------------
   value: sender -> recipient / created contract (nothing when the execution reverts); gas: sender -> fee pool (price x gas used,
   after refunds); NOTHING else - in particular a contract CREATION adds nothing to what the new address already held.  What the
   executed code does with the contract's own balance (inner calls, SELFDESTRUCT) is C17's. *)
Definition effect_olvm (sender target fp : N) (value : Z) (reverted : bool) (fee : Z) : option (list lop) :=
  if (0 <=? value) && (0 <=? fee)
  then Some ((if reverted then [] else [Move (bal sender CUR_OLT) (bal target CUR_OLT) value]) ++ [Move (bal sender CUR_OLT) (feepool fp) fee])
  else None.

(* a transaction = the handler's operations followed by the fee step *)
Definition tx_ops (e : option (list lop)) (payer fp : N) (fee : Z) : option (list lop) :=
  match e with Some ops => Some (ops ++ fee_ops payer fp fee) | None => None end.

(* ---------------- block hooks ---------------- *)

(* maturity of height h: every record of the bucket with sub-key h moves to its owner's target record *)
Definition matures (b : N) (h : N) (k : key) : bool := (k_bucket k =? b)%N && (k_sub k =? h)%N.
Definition maturity_ops (l : gmap key Z) (b : N) (h : N) (target : key -> key) : list lop :=
  map (fun kv => Move kv.1 (target kv.1) kv.2) (filter (fun kv => matures b h kv.1) (map_to_list l)).
Definition to_balance (k : key) : key := bal (k_owner k) (k_cur k).
Definition to_withdrawable (k : key) : key := mk (k_owner k) B_WITHDRAW (k_cur k) 0.

(* BeginBlock(h): matured undelegations -> balance (addMaturedAmountsToBalance); delegation rewards accrued
   (handleDelegationRewards; the amounts are an input, their size is C13's: this is the allowance);
   matured reward withdrawals -> balance (matureDelegationRewards) *)
Definition accrual_ops (accr : list (N * Z)) : list lop := map (fun x => Mint (mk x.1 B_REWBAL CUR_OLT 0) x.2) accr.
Definition begin_ops (l : gmap key Z) (h : N) (accr : list (N * Z)) : list lop :=
  maturity_ops l B_UNDELEG h to_balance ++ accrual_ops accr ++ maturity_ops l B_REWPEND h to_balance.
Definition accrued (accr : list (N * Z)) : Z := fold_right (fun x acc => x.2 + acc) 0 accr.

(* EndBlock(h), h > 1: fee distribution (GetEndBlockUpdate): when the pool exceeds the minimum fee every validator of
   the queue with positive power gets floor(pool * power / totalPower) as a fee share; then stake maturity
   (UpdateWithdrawReward): unlocking records of height h -> withdrawable *)
Definition fee_share (total p tp : Z) : Z := total * p / tp.
Definition fee_dist_ops (fp : N) (total minfee tp : Z) (vals : list (N * Z)) : list lop :=
  if minfee <? total then
    flat_map (fun x => if (0 <? tp) && (0 <? x.2) then [Move (feepool fp) (mk x.1 B_FEE CUR_OLT 0) (fee_share total x.2 tp)] else []) vals
  else [].
Definition end_ops (l : gmap key Z) (h : N) (fp : N) (minfee tp : Z) (vals : list (N * Z)) : list lop :=
  fee_dist_ops fp (lget l (feepool fp)) minfee tp vals ++ maturity_ops l B_UNSTAKE h to_withdrawable.

(* EndBlock, guilty verdict of an allegation (identity/validator_set_allegation.go ExecuteAllegationTracker):
   penalty p = round-half-up(total stake of the validator * base% / baseDecimals) in whole OLT (computed with big.Float in
   Go: exact while the numbers stay below 2^52 - C19 proves the size); the stake record of the validator's STAKE ADDRESS is
   reduced by p all-or-nothing (cb71748) and, only then, the bounty program receives floor(p * 10^18 * bounty% / bountyDecimals);
   the rest of the penalty is destroyed. *)
Definition val_total (l : gmap key Z) (val : N) : Z :=
  wsum (fun k => if (k_bucket k =? B_STAKE)%N && (k_sub k =? val)%N then 1 else 0) l / E18.
Definition penalty_amount (total pct dec : Z) : Z := (2 * total * pct + dec) / (2 * dec).
Definition penalty_core (stake val bounty : N) (p bpct bdec : Z) : list lop :=
  [Burn (mk stake B_STAKE CUR_OLT val) (p * E18); Mint (bal bounty CUR_OLT) (p * E18 * bpct / bdec)].
Definition penalty_ops (l : gmap key Z) (stake val bounty : N) (pct dec bpct bdec : Z) : list lop :=
  let p := penalty_amount (val_total l val) pct dec in
  if lget l (mk stake B_STAKE CUR_OLT val) - p * E18 <? 0 then [] else penalty_core stake val bounty p bpct bdec.
(* verdicts: (stake address, validator) in the order they are decided; at most one per validator (harness condition) *)
Definition end_ops_verdicts (l : gmap key Z) (h : N) (fp : N) (minfee tp : Z) (vals : list (N * Z))
  (bounty : N) (pct dec bpct bdec : Z) (verdicts : list (N * N)) : list lop :=
  end_ops l h fp minfee tp vals ++ flat_map (fun x => penalty_ops l x.1 x.2 bounty pct dec bpct bdec) verdicts.

(* ---------------- the payload fields whose owners an effect function takes from ----------------
   (message type as in coq/gen/Facts_Signers.v, field names as in the Go struct): props/C03.v checks that each
   is among the fields Signers() returns, so that a changed Signers() breaks an obligation *)
Definition model_debit_fields : list (string * list string) := [
  ("transfer.Send", ["From"]); ("transfer.SendPool", ["From"]);
  ("staking.Stake", ["StakeAddress"]); ("staking.Unstake", ["StakeAddress"]); ("staking.Withdraw", ["StakeAddress"]);
  ("network_delegation.AddNetworkDelegation", ["DelegationAddress"]); ("network_delegation.Undelegate", ["Delegator"]);
  ("network_delegation.Withdraw", ["Delegator"]); ("network_delegation.Reinvest", ["Delegator"]);
  ("rewards.Withdraw", ["SignerAddress"]);
  ("governance.CreateProposal", ["Proposer"]); ("governance.FundProposal", ["FunderAddress"]);
  ("governance.WithdrawFunds", ["Funder"]);
  ("ons.DomainCreate", ["Owner"]); ("ons.RenewDomain", ["Owner"]); ("ons.DomainPurchase", ["Buyer"]); ("ons.DomainSend", ["From"]);
  ("bid_action.CreateBid", ["Bidder"]); ("bid_action.BidderDecision", ["Bidder"])
]%string.
(* the fee payer is the FIRST signer (BasicFeeHandling charges Signatures[0], which ValidateBasic ties to Signers()[0]) *)
Definition model_fee_payer_field : list (string * string) := [
  ("transfer.Send", "From"); ("transfer.SendPool", "From");
  ("staking.Stake", "StakeAddress"); ("staking.Unstake", "StakeAddress"); ("staking.Withdraw", "StakeAddress");
  ("network_delegation.AddNetworkDelegation", "DelegationAddress"); ("network_delegation.Undelegate", "Delegator");
  ("network_delegation.Withdraw", "Delegator"); ("network_delegation.Reinvest", "Delegator");
  ("rewards.Withdraw", "SignerAddress");
  ("governance.CreateProposal", "Proposer"); ("governance.FundProposal", "FunderAddress");
  ("governance.WithdrawFunds", "Funder");
  ("ons.DomainCreate", "Owner"); ("ons.RenewDomain", "Owner"); ("ons.DomainPurchase", "Buyer"); ("ons.DomainSend", "From");
  ("bid_action.CreateBid", "Bidder"); ("bid_action.BidderDecision", "Bidder"); ("bid_action.CancelBid", "Bidder");
  ("bid_action.CounterOffer", "AssetOwner"); ("bid_action.OwnerDecision", "Owner"); ("bid_action.ExpireBid", "ValidatorAddress")
]%string.
Definition lookup_signers (tbl : list (string * list string)) (t : string) : list string :=
  match find (fun x => String.eqb x.1 t) tbl with Some x => x.2 | None => [] end.
Definition strs_subset (a b : list string) : bool := forallb (fun x => existsb (String.eqb x) b) a.
Definition signers_facts_ok (tbl : list (string * list string)) : bool :=
  forallb (fun x => strs_subset x.2 (lookup_signers tbl x.1)) model_debit_fields &&
  forallb (fun x => match lookup_signers tbl x.1 with f :: _ => String.eqb f x.2 | [] => false end) model_fee_payer_field.
