(* LedgerTx.v — per-kind effect functions over the value ledger (C02 / C03). *)
From stdpp Require Import gmap list.
From Coq Require Import ZArith NArith.
From OL Require Import theories.Ledger.
Local Open Scope Z_scope.

(* transaction kinds (codes shared with harness/c02model.go) *)
Definition K_SEND : N := 1.
Definition K_SENDPOOL : N := 2.
Definition K_STAKE : N := 3.
Definition K_UNSTAKE : N := 4.
Definition K_WITHDRAW : N := 5.
Definition K_DELEGATE : N := 6.
Definition K_UNDELEGATE : N := 7.
Definition K_REWARDS_WITHDRAW : N := 8.
Definition K_REWARDS_REINVEST : N := 9.
Definition K_WITHDRAW_REWARD : N := 10.
Definition K_PROPOSAL_CREATE : N := 11.
Definition K_PROPOSAL_FUND : N := 12.
Definition K_PROPOSAL_WITHDRAW_FUNDS : N := 13.
Definition K_DOMAIN_CREATE : N := 14.
Definition K_DOMAIN_RENEW : N := 15.
Definition K_DOMAIN_PURCHASE : N := 16.
Definition K_DOMAIN_SEND : N := 17.
Definition K_DOMAIN_SELL : N := 18.
