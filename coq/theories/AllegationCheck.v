(* AllegationCheck.v — comparison of the model with the observables the harness projects from the
   real application, and the property monitor evaluated on the implementation's observations. *)
From stdpp Require Import gmap list.
From Coq Require Import ZArith Bool.
From OL Require Import theories.Allegation.
Local Open Scope Z_scope.

Definition mkCfg (vp vd ap ad pb pd bp bd rd diff minp topn : Z) : Cfg :=
  {| votePct := vp; voteDec := vd; allegPct := ap; allegDec := ad; penBase := pb; penDec := pd;
     bountyPct := bp; bountyDec := bd; releaseDays := rd; blockVotesDiff := diff; minPower := minp;
     topN := topn; oltDec := 10 ^ 18 |}.
Definition mkReq (rep mal h st : Z) (vs : list (Z * Z)) : Req :=
  {| r_rep := rep; r_mal := mal; r_h := h; r_status := st; r_votes := vs |}.
Definition mkLvh (st fh fat rh : Z) (rat : option Z) : Lvh :=
  {| l_status := st; l_fh := fh; l_fat := fat; l_rh := rh; l_rat := rat |}.
Definition mkVS (a : bool) (h : Z) : VStat := {| v_active := a; v_height := h |}.

Record Obs := mkObs {
  o_reqs : list (Z * Req); o_tracker : list Z; o_susp : list (Z * Lvh);
  o_vstat : list (Z * VStat); o_stake : list (Z * Z); o_bounty : Z;
  o_vrec : list (Z * Z)   (* monitor only: staking amount of the validator records (v_), filled at BeginBlock steps *) }.
Record Step := mkStep { s_op : Op; s_ok : bool; s_obs : Obs; s_verdicts : list (Z * Z); s_elected : list Z }.
Record Case := mkCase { c_cfg : Cfg; c_init : Obs; c_steps : list Step }.

Fixpoint zlist_eqb (a b : list Z) : bool :=
  match a, b with
  | [], [] => true
  | x :: a', y :: b' => (x =? y) && zlist_eqb a' b'
  | _, _ => false
  end.
Fixpoint zpairs_eqb (a b : list (Z * Z)) : bool :=
  match a, b with
  | [], [] => true
  | x :: a', y :: b' => (x.1 =? y.1) && (x.2 =? y.2) && zpairs_eqb a' b'
  | _, _ => false
  end.
Definition oz_eqb (a b : option Z) : bool :=
  match a, b with Some x, Some y => x =? y | None, None => true | _, _ => false end.
Definition req_eqb (a b : Req) : bool :=
  (r_rep a =? r_rep b) && (r_mal a =? r_mal b) && (r_h a =? r_h b) && (r_status a =? r_status b)
  && zpairs_eqb (r_votes a) (r_votes b).
Definition lvh_eqb (a b : Lvh) : bool :=
  (l_status a =? l_status b) && (l_fh a =? l_fh b) && (l_fat a =? l_fat b) && (l_rh a =? l_rh b)
  && oz_eqb (l_rat a) (l_rat b).
Definition vs_eqb (a b : VStat) : bool := Bool.eqb (v_active a) (v_active b) && (v_height a =? v_height b).

Definition map_matches {A} (eqb : A -> A -> bool) (m : gmap Z A) (l : list (Z * A)) : bool :=
  (Z.of_nat (size m) =? Z.of_nat (length l)) &&
  forallb (fun kv => match m !! kv.1 with Some x => eqb x kv.2 | None => false end) l.

(* class of the first difference between the model state and the observation (0 = none) *)
Definition state_diff (s : St) (o : Obs) : Z :=
  if negb (map_matches req_eqb (reqs s) (o_reqs o)) then 2
  else if negb (zlist_eqb (tracker s) (o_tracker o)) then 3
  else if negb (map_matches lvh_eqb (susp s) (o_susp o)) then 4
  else if negb (map_matches vs_eqb (vstat s) (o_vstat o)) then 5
  else if negb (forallb (fun kv => default 0 (stake s !! kv.1) =? kv.2) (o_stake o)) then 6
  else if negb (bounty s =? o_bounty o) then 7
  else 0.

Definition ev_ok (ev : list Ev) : bool :=
  match ev with EvTx b :: _ => b | _ => true end.
Definition is_tx (o : Op) : bool :=
  match o with OBegin _ _ _ | OEnd _ _ => false | _ => true end.
Fixpoint ev_verdicts (ev : list Ev) : list (Z * Z) :=
  match ev with
  | [] => []
  | EvVerdict _ mal st _ _ _ _ :: r => (mal, st) :: ev_verdicts r
  | _ :: r => ev_verdicts r
  end.
Definition verdicts_match (ev : list Ev) (obs : list (Z * Z)) : bool :=
  (Z.of_nat (length (ev_verdicts ev)) =? Z.of_nat (length obs)) &&
  forallb (fun v => existsb (fun w => (v.1 =? w.1) && (v.2 =? w.2)) (ev_verdicts ev)) obs.

Definition of_obs (o : Obs) : St :=
  {| reqs := list_to_map (o_reqs o); ckeys := (o_reqs o).*1; tracker := o_tracker o;
     susp := list_to_map (o_susp o); vstat := list_to_map (o_vstat o);
     stake := list_to_map (o_stake o); bounty := o_bounty o; malicious := []; height := 0; now := 0 |}.

(* is this step inside the input region of a known trigger (evaluated on the model's pre-state)?
   C19.guilty_without_validator_record: some open request's YES votes cross and the accused has no
   validator record in the queue *)
Definition known_region (c : Cfg) (s : St) (o : Op) : bool :=
  match o with
  | OEnd q _ =>
      let req := required_x c (elect c s q).2 in
      existsb (fun kr => guilty_without_record c q req kr.2) (map_to_list (reqs s))
  | _ => false
  end.

(* first step at which model and implementation differ: (step index, class, known-region-seen);
   class 1 = ok/fail of a transaction, 8 = verdict events, 2..7 see state_diff *)
Fixpoint first_mismatch (c : Cfg) (i : Z) (reg : bool) (s : St) (steps : list Step) : option (Z * Z * Z) :=
  match steps with
  | [] => None
  | st :: rest =>
      let reg' := reg || known_region c s (s_op st) in
      let r := if reg' then 1 else 0 in
      let '(s', ev) := step c s (s_op st) in
      if is_tx (s_op st) && negb (Bool.eqb (ev_ok ev) (s_ok st)) then Some (i, 1, r)
      else if negb (verdicts_match ev (s_verdicts st)) then Some (i, 8, r)
      else let d := state_diff s' (s_obs st) in
           if d =? 0 then first_mismatch c (i + 1) reg' s' rest else Some (i, d, r)
  end.

(* flat list: case, step, class, known-region flag *)
Fixpoint model_mismatches (i : Z) (cs : list Case) : list Z :=
  match cs with
  | [] => []
  | c :: rest =>
      match first_mismatch (c_cfg c) 0 false (of_obs (c_init c)) (c_steps c) with
      | Some (j, d, r) => i :: j :: d :: r :: model_mismatches (i + 1) rest
      | None => model_mismatches (i + 1) rest
      end
  end.

(* ---------- the property monitor, on the implementation's observations only ---------- *)
Definition o_lookup {A} (l : list (Z * A)) (k : Z) : option A :=
  match filter (fun kv => kv.1 = k) l with kv :: _ => Some kv.2 | [] => None end.
Definition o_frozen (o : Obs) (a : Z) : bool :=
  match o_lookup (o_susp o) a with Some l => lvh_frozen l | None => false end.
Definition o_active (o : Obs) (a : Z) : bool :=
  match o_lookup (o_vstat o) a with Some v => v_active v | None => false end.
Definition o_stake_of (o : Obs) (a : Z) : Z := default 0 (o_lookup (o_stake o) a).
Definition o_nactive (o : Obs) : Z :=
  Z.of_nat (length (filter (fun kv => v_active kv.2 = true) (o_vstat o))).
Definition byz_frozen (o : Obs) (a : Z) : bool :=
  match o_lookup (o_susp o) a with Some l => lvh_frozen l && (l_status l =? BYZ) | None => false end.

(* violation codes:
   1 an account not in the elected validator set opened an allegation     2 vote by a non-elected / frozen validator or second vote
   3 staking transaction accepted for a frozen validator          4 byzantine-fault record released before the release time
   5 verdict without the votes crossing the share (exact)         6 guilty without a frozen byzantine-fault record
   7 guilty validator's stake not reduced by exactly the penalty  8 bounty credited differs from / exceeds the penalties
   9 a frozen byzantine-fault record changed without a release    10 frozen validator still active after EndBlock
   11 a transaction that its handler's Validate must refuse (not signed by the named validator) was executed
   15 a second GUILTY verdict event for an accused without a release in between (or two in one block)
   16 a validator record's staking amount differs from its delegation total after BeginBlock
   17 a verdict that is not reached on the votes of the validators elected at that EndBlock (strict reading)
   14 a validator with a GUILTY verdict and no release since voted (opening an allegation is only
      tied to the active status by the allegation handler: a convicted validator can still open one in
      the block after its conviction, until EndBlock drops it; not part of C19's text)
   (3 and 10 also fire for such a validator staking / being elected, whatever its freeze record says)
   13 the evidence status record of a staker differs from its election result (sent to Tendermint or not)
   12 a tracked request whose votes cross a share is still open after EndBlock (decision not taken once)
   known-finding triggers (second number): 2 guilty_without_validator_record  3 stale_votes_counted *)
Definition mon_step (c : Cfg) (h t : Z) (el conv : list Z) (prev : Obs) (st : Step) : list (Z * Z) :=
  let next := s_obs st in
  let frozen_kept :=
    flat_map (fun kv =>
      let a := kv.1 in
      if byz_frozen prev a then
        match s_op st with
        | ORelease a' => if (a' =? a) && s_ok st then [] else
            if match o_lookup (o_susp next) a with Some l => lvh_eqb l kv.2 | None => false end then [] else [(9, 0)]
        | OBegin _ _ low =>
            if match o_lookup (o_susp next) a with Some l => lvh_eqb l kv.2 | None => false end then []
            else [(9, 0)]
        | OEnd _ _ =>
            (* a second guilty verdict may renew the record; it must stay a frozen byzantine record *)
            if byz_frozen next a then [] else [(9, 0)]
        | _ => if match o_lookup (o_susp next) a with Some l => lvh_eqb l kv.2 | None => false end then [] else [(9, 0)]
        end
      else []) (o_susp prev) in
  frozen_kept ++
  (* [conv]: validators with a GUILTY verdict event and no successful release since (from the
     observed events alone, independent of the freeze record): they must not act or be elected *)
  match s_op st with
  | OVote _ a _ => if s_ok st && inb a conv then [(14, 0)] else []
  | OStake _ v _ _ => if s_ok st && inb v conv then [(3, 0)] else []
  | OEnd _ _ => flat_map (fun a => if inb a (s_elected st) then [(10, 0)] else []) conv
  | _ => []
  end ++
  match s_op st with
  | OAllege id rep mal bh => if s_ok st && negb (inb rep el) then [(1, 0)] else []
  | OVote id a ch =>
      if s_ok st && (negb (inb a el) || o_frozen prev a ||
                     match o_lookup (o_reqs prev) id with Some r => voted a (r_votes r) | None => true end)
      then [(2, 0)] else []
  | OStake k v _ _ => if s_ok st && o_frozen prev v then [(3, 0)] else []
  | ORelease a =>
      if s_ok st then
        match o_lookup (o_susp prev) a with
        | Some l => if (l_status l =? BYZ) && negb (t >? l_fat l + releaseDays c * DAY) then [(4, 0)] else []
        | None => [(4, 0)]
        end
      else []
  | OBegin _ _ _ =>
      (* after BeginBlock applied the postponed penalties: validator record = delegation total *)
      flat_map (fun kv => if o_stake_of next kv.1 =? kv.2 then [] else [(16, 0)]) (o_vrec next)
  | OInvalid => if s_ok st then [(11, 0)] else []
  | OEnd queue _ =>
      (* the active count of the tally is the size of the elected set (what was sent to Tendermint) *)
      let active := Z.of_nat (length (s_elected st)) in
      let req := required_x c active in
      let verdict_ok (v : Z * Z) :=
        existsb (fun kr =>
          let r := kr.2 in
          (r_mal r =? v.1) &&
          (if v.2 =? GUILTY then guilty_x c (count_choice YES (r_votes r)) req
           else innocent_x c (count_choice NO (r_votes r)) req && negb (guilty_x c (count_choice YES (r_votes r)) req)))
          (o_reqs prev) in
      let trig (v : Z * Z) := 0 in
      let guilty := filter (fun v => v.2 = GUILTY) (s_verdicts st) in
      (* one GUILTY verdict per accused and conviction *)
      (fix dups (l : list (Z * Z)) : list (Z * Z) :=
         match l with
         | [] => []
         | v :: r => (if inb v.1 conv || inb v.1 r.*1 then [(15, 0)] else []) ++ dups r
         end) guilty ++
      (* strict reading: the verdict must also be reached on the votes of validators elected now *)
      flat_map (fun v =>
        let el_now := s_elected st in
        let cnt ch (r : Req) := Z.of_nat (length (filter (fun x => x.2 = ch /\ inb x.1 el_now = true) (r_votes r))) in
        if existsb (fun kr => (r_mal kr.2 =? v.1) &&
             (if v.2 =? GUILTY then guilty_x c (cnt YES kr.2) req else innocent_x c (cnt NO kr.2) req)) (o_reqs prev)
        then []
        else [(17, if existsb (fun kr => (r_mal kr.2 =? v.1) && existsb (fun x => negb (inb x.1 el_now)) (r_votes kr.2)) (o_reqs prev)
                   then 3 else 0)]) (s_verdicts st) ++
      flat_map (fun v => if verdict_ok v then [] else [(5, trig v)]) (s_verdicts st) ++
      flat_map (fun v => if byz_frozen next v.1 then [] else [(6, 0)]) guilty ++
      flat_map (fun v =>
        let amt := o_stake_of prev v.1 in
        if o_stake_of next v.1 =? amt - penalty c amt then [] else [(7, 0)]) guilty ++
      (let pens := fold_right Z.add 0 (map (fun v => penalty c (o_stake_of prev v.1)) guilty) in
       let bnts := fold_right Z.add 0 (map (fun v => bounty_of c (penalty c (o_stake_of prev v.1))) guilty) in
       let d := o_bounty next - o_bounty prev in
       if (d =? bnts) && ((d <=? pens * oltDec c) || (bountyDec c <? bountyPct c)) then [] else [(8, 0)]) ++
      (if (0 <? active) && (1 <? h) then
         flat_map (fun kr =>
           if inb kr.1 (o_tracker next) &&
              negb (verdict_x c (count_choice YES (r_votes kr.2)) (count_choice NO (r_votes kr.2)) req =? VOTING)
           then [(12, if guilty_without_record c queue req kr.2 then 2 else 0)] else []) (o_reqs next)
       else []) ++
      (* the evidence status of every staker in the queue is its election result *)
      (if 1 <? h then
         flat_map (fun qa => match o_lookup (o_vstat next) qa.1 with
                             | Some v => if Bool.eqb (v_active v) (inb qa.1 (s_elected st)) then [] else [(13, 0)]
                             | None => [(13, 0)]
                             end) queue
       else []) ++
      flat_map (fun kv => if o_frozen prev kv.1 && o_active next kv.1
                          then [(10, 0)] else []) (o_susp prev)
  end.

Fixpoint mon_case (c : Cfg) (i h t : Z) (el conv : list Z) (prev : Obs) (steps : list Step) : list (Z * Z * Z) :=
  match steps with
  | [] => []
  | st :: rest =>
      let '(h', t') := match s_op st with OBegin h1 t1 _ => (h1, t1) | _ => (h, t) end in
      (* "active validator" = elected at the latest EndBlock (sent to Tendermint with positive power) *)
      let el' := match s_op st with OEnd _ _ => s_elected st | _ => el end in
      let conv' := match s_op st with
                   | OEnd _ _ => (filter (fun v => v.2 = GUILTY) (s_verdicts st)).*1 ++ conv
                   | ORelease a => if s_ok st then filter (fun x => x <> a) conv else conv
                   | _ => conv
                   end in
      map (fun v => (i, v.1, v.2)) (mon_step c h' t' el conv prev st) ++ mon_case c (i + 1) h' t' el' conv' (s_obs st) rest
  end.

(* flat list: case, step, code, trigger *)
Fixpoint monitor_violations (i : Z) (cs : list Case) : list Z :=
  match cs with
  | [] => []
  | c :: rest =>
      flat_map (fun v => [i; v.1.1; v.1.2; v.2]) (mon_case (c_cfg c) 0 0 0 [] [] (c_init c) (c_steps c))
      ++ monitor_violations (i + 1) rest
  end.

(* statistics: verdict steps, steps inside float-mismatch region, penalties outside the exactness guard *)
Definition case_stats (cs : list Case) : list Z :=
  let steps := flat_map c_steps cs in
  [ Z.of_nat (length steps);
    Z.of_nat (length (flat_map s_verdicts steps));
    Z.of_nat (length (filter (fun s => match s_op s with OBegin _ _ (_ :: _) => true | _ => false end = true) steps)) ].
