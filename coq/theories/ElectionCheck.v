(* ElectionCheck.v — executable comparison and monitor functions for the C10 correspondence
   (evaluated by vm_compute on what the real application / the real tendermint ValidatorSet did). *)
From stdpp Require Import gmap list sorting.
From Coq Require Import ZArith.
From OL Require Import theories.Election theories.Tendermint.
Local Open Scope Z_scope.

Definition upd_eqb (a b : upd) : bool := N.eqb a.1 b.1 && (a.2 =? b.2).
Fixpoint upds_eqb (a b : list upd) : bool :=
  match a, b with
  | [], [] => true
  | x :: a', y :: b' => upd_eqb x y && upds_eqb a' b'
  | _, _ => false
  end.

(* total order on updates (key, then power): canonical form for comparing as multisets *)
Definition upd_leb2 (a b : upd) : bool := (a.1 <? b.1)%N || (N.eqb a.1 b.1 && (a.2 <=? b.2)).
Fixpoint ins2 (u : upd) (l : list upd) : list upd :=
  match l with [] => [u] | v :: r => if upd_leb2 u v then u :: v :: r else v :: ins2 u r end.
Definition canon (l : list upd) : list upd := foldr ins2 [] l.

Definition pg_of (l : list (key * Z)) : gmap key Z := list_to_map l.
Definition pg_eqb (m : gmap key Z) (obs : list (key * Z)) : bool :=
  forallb (fun kv => match m !! kv.1 with Some v => v =? kv.2 | None => false end) obs
  && (length (map_to_list m) =? length obs)%nat.

Record bcase := mkcase {
  k_in : blockin;                (* inputs as the real code saw them *)
  k_pg : list (key * Z);         (* purged_ records before EndBlock *)
  k_frozen : list key;           (* frozen validators in the records committed by the previous block *)
  k_bvd : Z;                     (* evidence option BlockVotesDiff *)
  k_next : vset;                 (* real tendermint set of height H+1 (sorted by key) *)
  k_ups : list upd;              (* ResponseEndBlock.ValidatorUpdates, in the order returned *)
  k_pg_after : list (key * Z);   (* purged_ records after EndBlock *)
  k_tm_ok : bool;                (* the real ValidatorSet.UpdateWithChangeSet accepted k_ups *)
  k_next_after : vset;           (* the real set after the update (sorted by key) *)
  k_quiet : Z;                  (* number of consecutive blocks up to this one with the same candidate table, options and malicious set *)
  k_staked : list (key * Z) }.   (* own-stake totals (st__t_ records) committed by the previous block *)

Definition minp_of (c : bcase) : Z := min_power (b_opts (k_in c)).
Definition top_of (c : bcase) : Z := o_top (b_opts (k_in c)).

Definition elig_of (c : bcase) : list cand :=
  List.filter (eligibleb (minp_of c) (b_mal (k_in c))) (b_cands (k_in c)).

Fixpoint nodupZ (l : list Z) : bool :=
  match l with [] => true | x :: r => negb (existsb (Z.eqb x) r) && nodupZ r end.

(* no two eligible candidates have the same power: the election is unique *)
Definition tie_free (c : bcase) : bool := nodupZ (map c_power (elig_of c)).

(* trigger predicates (known findings are identified by these) *)
Definition key_mismatchb (c : bcase) : bool :=
  existsb (fun d => negb (N.eqb (c_addr d) (c_pk d))) (b_cands (k_in c))
  || negb (nodupb (map c_pk (b_cands (k_in c)))).
Definition no_eligibleb (c : bcase) : bool :=
  match elig_of c with [] => true | _ => (top_of c <? 1) end.

Definition positives (l : list upd) : list upd := List.filter (fun u => 0 <? u.2) l.

(* the election the implementation made, read off its positive-power updates *)
Definition observed_election (c : bcase) : list cand :=
  List.filter (fun d => existsb (fun u => N.eqb u.1 (c_pk d) && (u.2 =? c_power d)) (positives (k_ups c)))
              (b_cands (k_in c)).

Definition valid_electionb (minp top : Z) (mal : list key) (cands el : list cand) : bool :=
  nodupb (map c_addr el)
  && forallb (fun c => eligibleb minp mal c && inel c cands) el
  && (Z.of_nat (length el) <=? Z.max 0 top)
  && forallb (fun d => if eligibleb minp mal d && negb (inel d el)
                       then (top <=? Z.of_nat (length el)) && forallb (fun c => c_power d <=? c_power c) el
                       else true) cands.

Definition same_result (c : bcase) (r : list upd * gmap key Z) : bool :=
  (upds_eqb r.1 (k_ups c) || (negb (nodupb (map fst (k_ups c))) && upds_eqb (canon r.1) (canon (k_ups c))))
  && pg_eqb r.2 (k_pg_after c).

(* model vs implementation: 0 = identical, 1 = identical given the implementation's (valid)
   choice among tied candidates, 2 = not compared (ties and a key mismatch together), 3 = MISMATCH *)
Definition mm_code (c : bcase) : Z :=
  let b := k_in c in
  let pg := pg_of (k_pg c) in
  if same_result c (end_block b pg) then 0
  else if tie_free c then 3
  else if key_mismatchb c then 2
  else
    let el := observed_election c in
    if valid_electionb (minp_of c) (top_of c) (b_mal b) (b_cands b) el
       && same_result c (finish (b_height b) (b_byz b) (b_cands b) el (b_la b) pg)
    then 1 else 3.

Definition bykey (l : list upd) : list upd := merge_sort upd_le l.

(* Tendermint.v vs the real ValidatorSet: 0 ok, 1 MISMATCH *)
Definition tm_check (s : vset) (ups : list upd) (ok : bool) (after : vset) : Z :=
  if Bool.eqb (acceptb s ups) ok && (negb ok || upds_eqb (bykey (apply_updates s ups)) after) then 0 else 1.
Definition tm_code (c : bcase) : Z := tm_check (k_next c) (k_ups c) (k_tm_ok c) (k_next_after c).

(* monitor 1 (C10_accepted on the implementation): 0 accepted; rejected with trigger
   1 = key mismatch (was C10.duplicate_pubkey_stake, repaired by /repo 9246c8d), 2 = no eligible candidate (C10.no_eligible_candidate),
   3 = rejected outside the known triggers *)
Definition acc_code (c : bcase) : Z :=
  if k_tm_ok c then 0 else if key_mismatchb c then 1 else if no_eligibleb c then 2 else 3.

(* monitor 2 (C10_rule on the implementation's updates against the previous block's records) *)
Definition rule_okb (c : bcase) (frozen : list key) : bool :=
  let b := k_in c in
  let pos := positives (k_ups c) in
  forallb (fun u => existsb (fun d => N.eqb (c_pk d) u.1 && (c_power d =? u.2) && (c_stake d =? u.2)
                                      && (minp_of c <=? c_stake d) && (o_min (b_opts b) <=? c_stake d)
                                      && negb (memb (c_addr d) frozen))
                            (b_cands b)) pos
  && (Z.of_nat (length pos) <=? Z.max 0 (top_of c))
  (* a candidate with a freeze RECORD at the time of the election (possibly written by this block's
     missed-votes scan) is legitimately left out; everybody else competes *)
  && forallb (fun d => if (minp_of c <=? c_power d) && negb (memb (c_addr d) frozen)
                          && negb (memb (c_addr d) (b_mal b))
                          && negb (existsb (fun u => N.eqb u.1 (c_pk d)) pos)
                       then (top_of c <=? Z.of_nat (length pos)) && forallb (fun u => c_power d <=? u.2) pos
                       else true) (b_cands b).

(* 0 = holds; 2 = fails.  (Code 1 was the trigger C10.frozen_elected_in_votes_window, repaired by
   /repo 304e1e1: a frozen validator elected at any height is now a violation.) *)
Definition rule_code (c : bcase) : Z := if rule_okb c (k_frozen c) then 0 else 2.

(* monitor 3 (C10_converges on the implementation): after 5 blocks of unchanged inputs the set
   that results from this block's updates is exactly the election computed from the records.  0 = holds / not applicable;
   1 = fails and some member of the set has no validator record (trigger
   C10.member_without_record); 2 = fails otherwise *)
Definition member_without_recordb (c : bcase) : bool :=
  existsb (fun u => negb (existsb (fun d => N.eqb (c_addr d) u.1) (b_cands (k_in c)))) (k_next c).
Definition conv_code (c : bcase) : Z :=
  if (k_quiet c <? 5) || negb (k_tm_ok c) then 0
  else
    (* the election over the RECORDS (candidate table, options, frozen set); where ties make it
       ambiguous, the implementation's own choice, whose validity the correspondence checks *)
    let target := if tie_free c then pos_updates (model_election (k_in c)) else positives (k_ups c) in
    if upds_eqb (canon (k_next_after c)) (canon target) then 0
    else if member_without_recordb c then 1 else 2.

(* monitor 4 (invariant behind C10_accepted since /repo 9246c8d): every record's address is the
   address of its consensus key and no two records share a key.  0 holds, 1 fails *)
Definition keyed_code (c : bcase) : Z := if key_mismatchb c then 1 else 0.

(* monitor 5 (since /repo e681066): no validator record has negative power.  0 holds, 1 fails *)
Definition negp_code (c : bcase) : Z :=
  if existsb (fun d => (c_power d <? 0) || (c_stake d <? 0)) (b_cands (k_in c)) then 1 else 0.

(* monitor 6: every validator whose staked total is at least the minimum self delegation has a
   validator record (otherwise it can never be elected: the election from the stakes is not the
   election from the records).  0 holds, 1 fails *)
Definition staked_code (c : bcase) : Z :=
  if existsb (fun kv => (o_min (b_opts (k_in c)) <=? kv.2)
                        && negb (existsb (fun d => N.eqb (c_addr d) kv.1) (b_cands (k_in c)))) (k_staked c)
  then 1 else 0.

Definition check_case (c : bcase) : list Z :=
  [mm_code c; tm_code c; acc_code c; rule_code c; conv_code c; keyed_code c; negp_code c; staked_code c].
Definition check_cases (cs : list bcase) : list Z := flat_map check_case cs.

(* a block in which the node called logger.Fatal / panicked (process exit) inside EndBlock.  Both
   classes below were findings repaired by /repo e681066; the check now treats EVERY node exit as
   a violation and prints the class only as a diagnosis: 1 = some validator
   record has negative power (was trigger C10.negative_power_record; the fee share computed from it is
   negative and MinusFromPool refuses it), 3 = the powers of the table sum to zero (trigger C10.zero_total_power;
   the fee share divides by vs.totalPower), 2 = crash outside the known triggers *)
Definition neg_powerb (b : blockin) : bool := existsb (fun c => c_power c <? 0) (b_cands b).
Definition zero_totalb (b : blockin) : bool :=
  match b_cands b with [] => false | _ => foldr (fun c a => c_power c + a) 0 (b_cands b) =? 0 end.
Definition crash_code (b : blockin) : Z := if neg_powerb b then 1 else if zero_totalb b then 3 else 2.

Record tcase := mkt { t_set : vset; t_ups : list upd; t_ok : bool; t_after : vset }.
Definition check_tcases (ts : list tcase) : list Z :=
  map (fun t => tm_check (t_set t) (t_ups t) (t_ok t) (t_after t)) ts.
