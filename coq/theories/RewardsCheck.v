(* RewardsCheck.v — executable comparison functions of the C13 correspondence check, evaluated
   with vm_compute on what the Go harness recorded from the REAL code:
   - whole-app chains (Replica): per block, pre-state + votes in, credits/records out;
   - package-level calculator runs (RewardCumulativeStore over a MemDB state + block store);
   - package-level cumulative balance/withdrawn operation sequences.
   Mismatch codes:
     1 cold pull   7 warm pull   2 validator credits   3 delegator credits   4 consumed total
     5 year records after ConsumeRewards   6 matured balances   9 model predicts a panic
   Monitor codes (implementation only, no model):
     10 credits exceed the pulled amount   11 a negative credit   12 negative pulled amount
     20 warm pull differs from cold pull   21 pull above the remaining supply / pool cap
     30 cumulative invariant broken (balance < 0 or balance + withdrawn <> matured)
     31 a withdrawal paid more than the matured balance
     33 a validator's matured total exceeds what was credited to it   34 matured rewards exceed the total distributed
     37 TillLastCycle was not snapshotted at the previous cycle end   38 pulled * forecast exceeds what the year really had left at the cycle start
     35 a block reported less to ConsumeRewards than it really credited   36 a reward year's real credits exceed its supply
     32 a WITHDRAW_REWARD amount that is negative or outside int64 was not refused                                  *)
From Coq Require Import ZArith List Bool.
From OL Require Import theories.Rewards gen.Facts_Consts.
Import ListNotations.
Local Open Scope Z_scope.

Definition K : consts := mkConsts netdeleg_COMMISSION_PERCENTAGE netdeleg_BLOCK_PROPOSER_COMMISSION.

Fixpoint zlist_eqb (a b : list Z) : bool :=
  match a, b with
  | [], [] => true
  | x :: a', y :: b' => (x =? y) && zlist_eqb a' b'
  | _, _ => false
  end.

Definition cres_z (r : cres) : Z := match r with COk a => a | CErr => 0 end.
Definition cres_ok (r : cres) : bool := match r with COk _ => true | CErr => false end.

(* ---------------- whole-app blocks ---------------- *)
(* one WITHDRAW_REWARD transaction on the real app: records right before it, verdicts, records after *)
Record wtx := mkWtx {
  w_value : Z; w_bal : Z; w_wd : Z; w_pool : Z;
  w_check_ok : bool; w_deliver_ok : bool; w_bal2 : Z; w_wd2 : Z
}.

(* 8 = the model's verdict/records differ from DeliverTx;
   monitor 32 = a negative amount or one outside int64 was accepted by CheckTx or DeliverTx, or
   changed the records *)
Definition check_wtx (w : wtx) : list Z :=
  let m := withdraw_tx (w_value w) (w_bal w) (w_wd w) (w_pool w) in
  (if Bool.eqb (fst (fst m)) (w_deliver_ok w) && (snd (fst m) =? w_bal2 w) && (snd m =? w_wd2 w) then [] else [8])
  ++ (if negb (withdraw_amount_ok (w_value w)) &&
         negb (negb (w_check_ok w) && negb (w_deliver_ok w) && (w_bal2 w =? w_bal w) && (w_wd2 w =? w_wd w))
      then [32] else []).

Record blk := mkBlk {
  b_h : Z; b_restart : bool;
  b_t1 : Z; b_tb : Z; b_te : Z;          (* header times (ns): block 1, cycle begin, cycle end *)
  b_years : list year;                   (* rwcum_ydist before the block *)
  b_pool : Z;                            (* rewards pool balance *)
  b_votes : list vote; b_dp : Z; b_delegs : list (Z * Z); b_prop : Z;
  b_chunks : list (list (Z * Z));        (* per reward address: its latest chunks (index, value) before the block *)
  b_ivs : list ivl;                      (* interval records (ri_) before the block *)
  ob_pull_ok : bool; ob_pull : Z;        (* real PullRewards on a shadow store living as long as the app process *)
  ob_cold_ok : bool; ob_cold : Z;        (* real PullRewards on a fresh store (cold cache) *)
  ob_years : list (Z * Z);               (* (distributed, tillLastCycle) after the block *)
  ob_consumed : Z;                       (* rwcum_tdist delta *)
  ob_vals : list Z;                      (* per vote: delta of the address's current chunk *)
  ob_delegs : list Z;                    (* per delegator: delta of delegRwz_balance *)
  ob_matured : list Z;                   (* per reward address: delta of rwcum_balance *)
  b_wtxs : list wtx;                     (* WITHDRAW_REWARD transactions delivered in the block *)
  ob_deleg_total : Z;                    (* sum of the deltas of ALL delegRwz_balance_ records in BeginBlock *)
  ob_idx : list Z;                       (* per vote: index of the chunk that changed (0 = none) *)
  ob_cred : list Z;                      (* per reward address, after the block: sum of ALL its chunks *)
  ob_mat : list Z;                       (* per reward address, after the block: rwcum balance + withdrawn *)
  ob_tdist : Z;                          (* rwcum_tdist after the block *)
  (* an export taken right after this block (0 0 0 = none): version, dumped interval record *)
  ob_dump_v : Z; ob_dump_index : Z; ob_dump_height : Z
}.

Record chain := mkChain { ch_o : opts; ch_blocks : list blk }.

Definition bt_of (o : opts) (b : blk) : Z -> Z :=
  fun x => if x =? 1 then b_t1 b else if x =? cycle_end o (b_h b) then b_te b else b_tb b.

Definition expect_for (vals : list (Z * Z)) (a : Z) : Z :=
  zsum (map snd (filter (fun c => fst c =? a) vals)).

Definition years_proj (ys : list year) : list Z := flat_map (fun y => [y_dist y; y_till y]) ys.
Definition pairs_flat (l : list (Z * Z)) : list Z := flat_map (fun p => [fst p; snd p]) l.

Definition flag (c : Z) (ok : bool) : list Z := if ok then [] else [c].

(* One-sided comparison inside a known-trigger region (DESIGN 4): a model/implementation
   difference inside region k would be reported as 1000*k + code.  All C13 findings are repaired
   (0cc9fdb, 6bfa5cf, 47bb3a6) and the model is the repaired behaviour: there is no region. *)
Definition region (o : opts) (bt : Z -> Z) (ys : list year) (h : Z) (c0 : cache) : Z := 0.
Definition mflag (k c : Z) (ok : bool) : list Z := flag (1000 * k + c) ok.

(* the bound monitor: relative to the model's current year when model and implementation agree on
   the pulled amount; otherwise (possible only inside a trigger region) model-free: within the
   pool-capped burnout rate or within what some reward year has left *)
Definition pull_bound_any (o : opts) (ys : list year) (pool a : Z) : bool :=
  (a <=? Z.min (o_burnout o) pool)
  || existsb (fun p => a <=? fst p - y_till (snd p)) (combine (o_shares o) ys).
Definition bound_monitor (o : opts) (ys : list year) (pool : Z) (m : cres * cache) (ok : bool) (a : Z) : bool :=
  negb ok ||
  (if cres_ok (fst m) && (cres_z (fst m) =? a) then pull_bound o ys pool (snd m) a
   else pull_bound_any o ys pool a).

Fixpoint chunk_lookup (cs : list (Z * Z)) (i : Z) : Z :=
  match cs with [] => 0 | (j, v) :: r => if j =? i then v else chunk_lookup r i end.

Definition check_blk (o : opts) (c : cache) (b : blk) : list Z * cache :=
  let c0 := if b_restart b then cold else c in
  let bt := bt_of o b in
  let k := region o bt (b_years b) (b_h b) c0 in
  let mc := pull o bt (b_years b) (b_h b) (b_pool b) cold in
  let mw := pull o bt (b_years b) (b_h b) (b_pool b) c0 in
  let midx := matured_idx o (b_ivs b) (b_h b) in
  let cidx := chunk_idx o (b_ivs b) (b_h b) in
  let mat_expect := map (fun cs => if matures_at o (b_h b) then chunk_lookup cs midx else 0) (b_chunks b) in
  let cold_codes :=
    mflag k 1 (Bool.eqb (cres_ok (fst mc)) (ob_cold_ok b) && (negb (ob_cold_ok b) || (cres_z (fst mc) =? ob_cold b)))
    ++ mflag k 7 (Bool.eqb (cres_ok (fst mw)) (ob_pull_ok b) && (negb (ob_pull_ok b) || (cres_z (fst mw) =? ob_pull b)))
    ++ flag 20
         (Bool.eqb (ob_pull_ok b) (ob_cold_ok b) && (negb (ob_pull_ok b) || (ob_pull b =? ob_cold b)))
    ++ flag 21
         ((b_pool b <? 0) || bound_monitor o (b_years b) (b_pool b) mw (ob_pull_ok b) (ob_pull b)) in
  match fst mw with
  | CErr =>
      (* handleBlockRewards returns before any credit and before ConsumeRewards *)
      (cold_codes
       ++ mflag k 2 (zlist_eqb (map (fun _ => 0) (b_votes b)) (ob_vals b))
       ++ mflag k 3 (zlist_eqb (map (fun _ => 0) (b_delegs b)) (ob_delegs b) && (ob_deleg_total b =? 0))
       ++ mflag k 4 (0 =? ob_consumed b)
       ++ mflag k 5 (zlist_eqb (years_proj (b_years b)) (pairs_flat (ob_years b)))
       ++ mflag k 6 (zlist_eqb (map (fun _ => 0) (b_chunks b)) (ob_matured b)), snd mw)
  | COk R =>
      match split K (b_votes b) (b_dp b) (b_delegs b) (b_prop b) R with
      | None => (cold_codes ++ mflag k 9 false, snd mw)
      | Some out =>
          (cold_codes
           ++ mflag k 2 (zlist_eqb (map (fun v => expect_for (so_vals out) (v_addr v)) (b_votes b)) (ob_vals b)
                         && forallb (fun p => (fst p =? 0) || (snd p =? cidx)) (combine (ob_vals b) (ob_idx b)))
           (* no AddRewardsBalance call at all (empty pool / early return) = every delta is 0 *)
           ++ mflag k 3 (zlist_eqb (match so_delegs out with
                                 | [] => map (fun _ => 0) (b_delegs b)
                                 | l => map snd l end) (ob_delegs b)
                         && (zsum (map snd (so_delegs out)) =? ob_deleg_total b))
           ++ mflag k 4 (so_consumed out =? ob_consumed b)
           ++ mflag k 5 (zlist_eqb (years_proj (consume o (b_years b) (b_h b) (snd mw) (so_consumed out)))
                                (pairs_flat (ob_years b)))
           ++ mflag k 6 (zlist_eqb mat_expect (ob_matured b)), snd mw)
      end
  end.

(* implementation-only monitor of one block (votes have distinct addresses in every run) *)
Definition monitor_blk (o : opts) (b : blk) : list Z :=
  (* what was credited: every vote's chunk delta + every delegator reward balance delta (also of
     addresses outside the active table) *)
  let credits := zsum (ob_vals b) + ob_deleg_total b in
  let k := 0 in
  flag (k + 10) (if ob_pull_ok b then credits <=? ob_pull b else credits =? 0)
  ++ flag (k + 11) (forallb (fun x => 0 <=? x) (ob_vals b ++ ob_delegs b) && (0 <=? ob_deleg_total b))
  ++ flag (k + 12) (negb (ob_pull_ok b) || (0 <=? ob_pull b))
  (* a validator's matured total never exceeds what was ever credited to it (also across an
     export / import), and all matured rewards together never exceed the total distributed *)
  ++ flag 33 (forallb (fun p => fst p <=? snd p) (combine (ob_mat b) (ob_cred b)))
  ++ flag 34 (zsum (ob_mat b) <=? ob_tdist b).

(* the exported interval record against the model's dump (13) *)
Definition check_dump (o : opts) (b : blk) : list Z :=
  if ob_dump_v b =? 0 then []
  else let d := dump_interval o (b_ivs b) (ob_dump_v b) in
       flag 13 ((iv_index d =? ob_dump_index b) && (iv_height d =? ob_dump_height b)).

(* the books against what was really paid, on the implementation's records only:
   35  per block: what was really credited (every vote's chunk delta + every delegator reward balance
       delta) is at most what the block reported to ConsumeRewards (rwcum_tdist delta) — the books
       never under-count the payments;
   36  per reward year: what was really credited while that year's Distributed total was moving
       (plus the total already booked when the observation starts) is at most the year's supply;
       evaluated as long as no block of the chain had a forecast shorter than its cycle
       ([short_forecast], the documented case in which a year's total can exceed its supply). *)
Definition really_credited (b : blk) : Z := zsum (ob_vals b) + ob_deleg_total b.

Fixpoint add_to_moved (acc : list Z) (pre : list year) (post : list (Z * Z)) (x : Z) : list Z :=
  match acc, pre, post with
  | a :: ra, y :: ry, (d, _) :: rp =>
      (if y_dist y =? d then a else a + x) :: add_to_moved ra ry rp x
  | _, _, _ => acc
  end.

Fixpoint check_blocks_acc (o : opts) (c : cache) (i : Z) (acc : list Z) (sf : bool) (bs : list blk) : list Z :=
  match bs with
  | [] => []
  | b :: r =>
      let res := check_blk o c b in
      let acc0 := match acc with [] => map y_dist (b_years b) | _ => acc end in
      let acc1 := add_to_moved acc0 (b_years b) (ob_years b) (really_credited b) in
      let sf1 := sf || short_forecast o (bt_of o b) (b_years b) (b_h b) in
      let nb := more_blocks o (fst (secs_per_cycle o (bt_of o b) (b_h b))) (snd (secs_per_cycle o (bt_of o b) (b_h b))) (b_years b) 0 in
      let books :=
        (* 37: when a cycle starts (not the first block of a chain: an import may be mid-cycle) the RUNNING
           year's TillLastCycle equals its Distributed — the snapshot of the previous cycle end was taken
           (a year that has closed in between keeps the value of its own last cycle end: nothing reads it any more;
           no running year once the schedule is over);
           38: at the first block of a cycle, pulled * forecast <= supply - Distributed of the running year *)
        flag 37 (negb (first_in_cycle o (b_h b)) || (b_h b =? 1) || (fst nb <=? 0)
                 || (let yr := nthZ (b_years b) (snd nb) (mkYear 0 0 0) in y_till yr =? y_dist yr))
        ++ flag 38 (negb (first_in_cycle o (b_h b)) || (b_h b =? 1) || negb (ob_pull_ok b) || (fst nb <=? 0)
                    || (ob_pull b * fst nb <=? nthZ (o_shares o) (snd nb) 0 - y_dist (nthZ (b_years b) (snd nb) (mkYear 0 0 0))))
        ++ flag 35 (really_credited b <=? ob_consumed b)
        ++ flag 36 (sf1 || forallb (fun p => fst p <=? snd p) (combine acc1 (o_shares o))) in
      flat_map (fun code => [i; code])
        (fst res ++ monitor_blk o b ++ books ++ flat_map check_wtx (b_wtxs b) ++ check_dump o b)
      ++ check_blocks_acc o (snd res) (i + 1) acc1 sf1 r
  end.
Definition check_blocks (o : opts) (c : cache) (i : Z) (bs : list blk) : list Z :=
  check_blocks_acc o c i [] false bs.

(* (chain index, block index, code) triples, flattened *)
Fixpoint check_chains (j : Z) (cs : list chain) : list Z :=
  match cs with
  | [] => []
  | ch :: r =>
      let l := check_blocks (ch_o ch) cold 0 (ch_blocks ch) in
      (fix tag (l : list Z) : list Z :=
         match l with i :: c :: l' => j :: i :: c :: tag l' | _ => [] end) l
      ++ check_chains (j + 1) r
  end.

(* ---------------- package-level calculator runs ---------------- *)
Record pstep := mkPstep {
  p_h : Z; p_restart : bool; p_pool : Z; p_consumed : Z;
  po_warm_ok : bool; po_warm : Z; po_cold_ok : bool; po_cold : Z;
  po_years : list (Z * Z)
}.
Record pcase := mkPcase { p_o : opts; p_times : list Z; p_closes : list Z; p_steps : list pstep }.

Definition bt_list (times : list Z) : Z -> Z := fun x => nthZ times (x - 1) 0.

(* next year records: close times of the model, totals as observed (when the shapes agree) *)
Fixpoint resync (ys : list year) (obs : list (Z * Z)) : list year :=
  match ys, obs with
  | y :: r, (d, t) :: ro => mkYear (y_close y) d t :: resync r ro
  | _, _ => ys
  end.

Fixpoint check_psteps (o : opts) (bt : Z -> Z) (ys : list year) (c : cache) (i : Z) (ss : list pstep)
  : list Z :=
  match ss with
  | [] => []
  | s :: r =>
      let c0 := if p_restart s then cold else c in
      let k := region o bt ys (p_h s) c0 in
      let mw := pull o bt ys (p_h s) (p_pool s) c0 in
      let mc := pull o bt ys (p_h s) (p_pool s) cold in
      let ys' := if cres_ok (fst mw) then consume o ys (p_h s) (snd mw) (p_consumed s) else ys in
      let codes :=
        mflag k 1 (Bool.eqb (cres_ok (fst mc)) (po_cold_ok s) && (negb (po_cold_ok s) || (cres_z (fst mc) =? po_cold s)))
        ++ mflag k 2 (Bool.eqb (cres_ok (fst mw)) (po_warm_ok s) && (negb (po_warm_ok s) || (cres_z (fst mw) =? po_warm s)))
        ++ mflag k 5 (zlist_eqb (years_proj ys') (pairs_flat (po_years s)))
        (* monitors on the observed values *)
        ++ flag 20
             (Bool.eqb (po_warm_ok s) (po_cold_ok s) && (negb (po_warm_ok s) || (po_warm s =? po_cold s)))
        ++ flag 21
             (bound_monitor o ys (p_pool s) mw (po_warm_ok s) (po_warm s))
        ++ flag 12 (negb (po_warm_ok s) || (0 <=? po_warm s)) in
      flat_map (fun code => [i; code]) codes ++ check_psteps o bt (resync ys' (po_years s)) (snd mw) (i + 1) r
  end.

Definition init_years (closes : list Z) : list year := map (fun t => mkYear t 0 0) closes.

Fixpoint check_pcases (j : Z) (cs : list pcase) : list Z :=
  match cs with
  | [] => []
  | pc :: r =>
      let l := check_psteps (p_o pc) (bt_list (p_times pc)) (init_years (p_closes pc)) cold 0 (p_steps pc) in
      (fix tag (l : list Z) : list Z :=
         match l with i :: c :: l' => j :: i :: c :: tag l' | _ => [] end) l
      ++ check_pcases (j + 1) r
  end.

(* ---------------- package-level cumulative operation sequences ---------------- *)
Record qobs := mkQobs { q_pre : Z; q_ok : bool; q_bal : Z; q_wd : Z; q_total : Z }.
(* q_pre: GetMaturedBalance before the op; the rest after the op, for the op's address *)
Record qcase := mkQcase { q_ops : list cop; q_obs : list qobs }.

Definition cop_addr (op : cop) : Z := match op with AddMatured v _ | Withdraw v _ => v end.

Fixpoint check_qops (s : cstate) (done : list cop) (i : Z) (ops : list cop) (obs : list qobs) : list Z :=
  match ops, obs with
  | op :: r, ob :: robs =>
      let v := cop_addr op in
      let pre := cget s v in
      let st := cstep s op in
      let x := cget (fst st) v in
      let done' := done ++ [op] in
      let codes :=
        flag 6 (Bool.eqb (snd st) (q_ok ob) && (fst pre =? q_pre ob) && (fst x =? q_bal ob) && (snd x =? q_wd ob)
                && (fst x + snd x =? q_total ob))
        ++ flag 30 ((0 <=? q_bal ob) && (q_bal ob + q_wd ob =? matured_of done' v) && (q_total ob =? matured_of done' v))
        ++ flag 31 (match op with
                    | Withdraw _ a => negb (q_ok ob) || (a <=? q_pre ob)
                    | _ => true end) in
      flat_map (fun code => [i; code]) codes ++ check_qops (fst st) done' (i + 1) r robs
  | [], [] => []
  | _, _ => [i; 6]
  end.

Fixpoint check_qcases (j : Z) (cs : list qcase) : list Z :=
  match cs with
  | [] => []
  | qc :: r =>
      (fix tag (l : list Z) : list Z :=
         match l with i :: c :: l' => j :: i :: c :: tag l' | _ => [] end)
        (check_qops [] [] 0 (q_ops qc) (q_obs qc))
      ++ check_qcases (j + 1) r
  end.
