(* Replay.v — replay protection of native transactions as implemented: the only record of an
   executed transaction is Tendermint's index of raw-byte hashes (VerifyCache / GetTxFromCache);
   the signature covers a re-serialisation of the PARSED transaction, not the received bytes.
   Bytes are lists of numbers; the hash is ideal (injective: modelled as the identity); the
   parser ignores insignificant JSON whitespace around the document.  No proofs here. *)
From Coq Require Import ZArith List Bool NArith.
Import ListNotations.
Local Open Scope Z_scope.

Definition bytes := list Z.

Definition is_ws (b : Z) : bool := (b =? 32) || (b =? 10) || (b =? 9) || (b =? 13).
Fixpoint strip_leading (b : bytes) : bytes :=
  match b with x :: r => if is_ws x then strip_leading r else b | [] => [] end.
Definition strip_ws (b : bytes) : bytes := rev (strip_leading (rev (strip_leading b))).

Fixpoint bytes_eqb (a b : bytes) : bool :=
  match a, b with
  | [], [] => true
  | x :: a', y :: b' => (x =? y) && bytes_eqb a' b'
  | _, _ => false
  end.
Fixpoint mem (h : bytes) (idx : list bytes) : bool :=
  match idx with [] => false | x :: r => bytes_eqb h x || mem h r end.

Section Replay.
  Variable content : Type.
  Variable decode : bytes -> option content.     (* the JSON decoder on whitespace-free input *)
  Variable state : Type.
  Variable admissible : content -> state -> bool. (* signature check and handler verdict *)
  Variable apply : content -> state -> state.     (* the handler's effect *)

  Definition parse (b : bytes) : option content := decode (strip_ws b).
  Definition hash (b : bytes) : bytes := b.       (* ideal, collision-free hash *)

  Record node := { idx : list bytes ; st : state ; pending : list bytes (* this block's txs *) }.

  Inductive verdict := Duplicate | Rejected | Accepted.

  (* txChecker: index lookup first *)
  Definition check (n : node) (b : bytes) : verdict :=
    if mem (hash b) (idx n) then Duplicate
    else match parse b with
         | Some c => if admissible c (st n) then Accepted else Rejected
         | None => Rejected
         end.

  (* txDeliverer: index lookup first (cached response, no session); otherwise execute *)
  Definition deliver (n : node) (b : bytes) : verdict * node :=
    if mem (hash b) (idx n) then (Duplicate, n)
    else match parse b with
         | Some c => if admissible c (st n)
                     then (Accepted, {| idx := idx n ; st := apply c (st n) ; pending := b :: pending n |})
                     else (Rejected, {| idx := idx n ; st := st n ; pending := b :: pending n |})
         | None => (Rejected, {| idx := idx n ; st := st n ; pending := b :: pending n |})
         end.

  (* Commit: Tendermint indexes every transaction of the block (an assumption about the node's
     indexer: "kv" indexer enabled and caught up) *)
  Definition commit (n : node) : node :=
    {| idx := pending n ++ idx n ; st := st n ; pending := [] |}.
End Replay.

(* the observable the correspondence compares: is a submission treated as a duplicate *)
Fixpoint dup_flags (index : list bytes) (subs : list bytes) : list bool :=
  match subs with [] => [] | b :: r => mem b index :: dup_flags index r end.
