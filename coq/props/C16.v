(* C16 — the EVM state adapter is equivalent to go-ethereum's reference state.
   Only property theorems here; proofs are in proofs/EvmProofs.v *)
From stdpp Require Import gmap list.
From Coq Require Import ZArith.
From OL Require Import theories.EvmSpec theories.EvmAdapter theories.EvmCheck proofs.EvmProofs.
Local Open Scope Z_scope.

Definition contract_acct (x : addr) (b : Z) : start_acct :=
  {| sa_addr := x; sa_bal := b; sa_nonce := 1; sa_code := 1%N; sa_stor := [(0%N, 2); (1%N, 3)]; sa_native := false |}.
Definition plain_acct (x : addr) (b : Z) : start_acct :=
  {| sa_addr := x; sa_bal := b; sa_nonce := 0; sa_code := 0%N; sa_stor := []; sa_native := true |}.

(* (1) bisimulation.  [Inv a s] relates an adapter state (object slice + index map, per-object
   dirty/origin storage slices + index maps, journal, validRevisions, persistent layer) to a
   state of the reference semantics (account map, stack of copied states).  Every operation of
   the proved core preserves it with EQUAL return values — outside the Coq-defined defect
   regions ([pstep_ok] = no trigger fires and the client respects the interface contract) — hence for every operation sequence, with arbitrary
   Snapshot/RevertToSnapshot nesting, the outputs coincide. *)
Theorem C16_bisim_step : forall a s o, Inv a s -> pstep_ok a o = true ->
  exists r a' s', astep a o = (r, a') /\ spec_step s o = (r, s') /\ Inv a' s'.
Proof. exact step_sim. Qed.
Print Assumptions C16_bisim_step.

Theorem C16_bisim : forall ops a s, Inv a s -> pguardedb a ops = true ->
  aoutputs a ops = spec_outputs s ops /\ Inv (arun a ops).2 (spec_run s ops).2.
Proof. exact bisim. Qed.
Print Assumptions C16_bisim.

(* (2) every deterministic client: the interpreter is the same go-ethereum code on both sides
   and reaches the state only through this interface, so it is a function from the answers seen
   so far to the next call; for every such function the two call/answer traces coincide. *)
Theorem C16_any_client : forall (strat : list out -> option op) n a s h, Inv a s ->
  client_guard n strat a h = true -> client_run_a n strat a h = client_run_s n strat s h.
Proof. exact any_client. Qed.
Print Assumptions C16_any_client.

(* (3) the relation holds between the adapter over any admissible persistent starting state
   (distinct addresses, no empty account, native-only records with non-zero balance, non-zero storage
   words) and the reference state with the same starting accounts; hence the end-to-end statement *)
Theorem C16_init : forall st, start_okb st = true -> Inv (a_init st) (spec_init st).
Proof. exact Inv_start. Qed.
Print Assumptions C16_init.

Theorem C16_equivalence : forall st ops, start_okb st = true -> pguardedb (a_init st) ops = true ->
  aoutputs (a_init st) ops = spec_outputs (spec_init st) ops.
Proof. intros st ops Hs Hg. exact (proj1 (bisim ops _ _ (Inv_start st Hs) Hg)). Qed.
Print Assumptions C16_equivalence.

Theorem C16_equivalence_any_client : forall (strat : list out -> option op) n st, start_okb st = true ->
  client_guard n strat (a_init st) [] = true ->
  client_run_a n strat (a_init st) [] = client_run_s n strat (spec_init st) [].
Proof. intros strat n st Hs Hg. exact (any_client strat n _ _ [] (Inv_start st Hs) Hg). Qed.
Print Assumptions C16_equivalence_any_client.

Example C16_start_nonvacuous :
  start_okb [contract_acct 11%N 50; plain_acct 12%N 7;
             {| sa_addr := 13%N; sa_bal := 0; sa_nonce := 2; sa_code := 0%N; sa_stor := []; sa_native := false |}] = true.
Proof. vm_compute. reflexivity. Qed.

(* non-vacuity: a concrete multi-transaction sequence with nested snapshots, reverts across
   account creation, storage, nonce, balance, refund, self-destruct, Finalise and a block commit
   satisfies the guard *)
Example C16_guard_nonvacuous :
  pguardedb (a_init [])
    [AddBalance 11%N 100; SetState 11%N 1%N 7; Snapshot; SubBalance 11%N 40; AddBalance 12%N 40;
     SetNonce 12%N 1; Snapshot; SetState 11%N 1%N 0; SetState 12%N 2%N 5; AddRefund 3; Suicide 12%N;
     GetBalance 12%N; RevertToSnapshot 1; GetState 11%N 1%N; HasSuicided 12%N; GetRefund;
     RevertToSnapshot 0; Exist 12%N; GetBalance 11%N; GetCommittedState 11%N 1%N; Empty 12%N;
     Finalise; GetCommittedState 11%N 1%N; Snapshot; SetState 11%N 1%N 0; AddBalance 13%N 5; RevertToSnapshot 0;
     SubBalance 11%N 100; SetNonce 11%N 1; Finalise; BlockCommit; GetBalance 11%N; GetState 11%N 1%N; Snapshot;
     AddBalance 14%N 0; Finalise; Exist 14%N;
     CreateAccount 15%N; SetNonce 15%N 1; Snapshot; SetCode 15%N 2%N; GetCodeSize 15%N; RevertToSnapshot 0; GetCodeHash 15%N;
     SetCode 15%N 3%N; Finalise; GetCode 15%N; GetCodeHash 15%N; Suicide 15%N; Finalise; Exist 15%N; GetCode 15%N;
     Snapshot; AddLog 11%N 1%N; AlAddSlot 11%N 2%N; Snapshot; AddLog 12%N 2%N; AlAddAddr 12%N; GetLogs; AlHasSlot 11%N 2%N;
     RevertToSnapshot 1; GetLogs; AlHasAddr 12%N; AlHasAddr 11%N; RevertToSnapshot 0; AlHasSlot 11%N 2%N; GetLogs; Finalise; GetLogs] = true.
Proof. vm_compute. reflexivity. Qed.

(* the full statement (no guard) is false of the faithful adapter model; each witness is replayed
   on the real code by the check (findings/C16_*.json) *)
Theorem C16_refuted_removed_account_residue : exists st ops,
  first_class (a_init st) ops = 1%nat /\ aoutputs (a_init st) ops <> spec_outputs (spec_init st) ops.
Proof.
  exists [contract_acct 11%N 0; plain_acct 12%N 7],
    [Suicide 11%N; SubBalance 12%N 3; AddBalance 11%N 3; Finalise; Exist 11%N; GetBalance 11%N; GetState 11%N 0%N].
  split; [vm_compute; reflexivity | vm_compute; discriminate].
Qed.

(* repaired by fix 8b9b1c9 (RemoveAccount also writes the balance record): the former witness of
   C16.selfdestruct_residue now satisfies the guard and the outputs coincide *)
Example C16_fixed_selfdestruct_residue :
  let st := [{| sa_addr := 11%N; sa_bal := 50; sa_nonce := 1; sa_code := 1%N; sa_stor := []; sa_native := false |};
             plain_acct 12%N 7] in
  let ops := [AddBalance 12%N 50; Suicide 11%N; Finalise; Exist 11%N; GetBalance 11%N; BlockCommit; Exist 11%N;
              SubBalance 12%N 57; Finalise; Exist 12%N; GetBalance 12%N] in
  guardedb (a_init st) ops = true /\ aoutputs (a_init st) ops = spec_outputs (spec_init st) ops.
Proof. vm_compute. split; reflexivity. Qed.

Theorem C16_refuted_create_over_storage : exists st ops,
  first_class (a_init st) ops = 2%nat /\ aoutputs (a_init st) ops <> spec_outputs (spec_init st) ops.
Proof.
  exists [contract_acct 11%N 5], [CreateAccount 11%N; SetNonce 11%N 1; GetState 11%N 0%N].
  split; [vm_compute; reflexivity | vm_compute; discriminate].
Qed.

(* repaired by fix 4b2faa6 (journal.deleteDirty re-indexes, balance/self-destruct undo entries no
   longer journal): the former witnesses of C16.stale_dirty_index (panic with index out of range;
   a write lost at Finalise through an aliased dirty counter; the RIPEMD touch surviving a revert)
   now satisfy the guard and the outputs coincide; the guard of C16_bisim no longer mentions reverts *)
Example C16_fixed_stale_dirty_index :
  let st := [plain_acct 11%N 9; {| sa_addr := 12%N; sa_bal := 4; sa_nonce := 1; sa_code := 1%N; sa_stor := [(0%N, 2)]; sa_native := false |};
             plain_acct 13%N 2] in
  let ops1 := [Snapshot; SetNonce 12%N 3; AddBalance 13%N 1; RevertToSnapshot 0; AddBalance 13%N 2; GetBalance 13%N;
               Finalise; GetBalance 13%N; GetNonce 12%N] in
  let ops2 := [Snapshot; SetNonce 12%N 3; AddBalance 13%N 1; RevertToSnapshot 0; SetState 12%N 0%N 1; Snapshot;
               SetNonce 13%N 1; RevertToSnapshot 1; Finalise; GetState 12%N 0%N; GetNonce 13%N] in
  let ops3 := [Snapshot; SetState 12%N 0%N 1; AddBalance 3%N 0; RevertToSnapshot 0; AddBalance 3%N 0; Finalise; Exist 3%N;
               GetState 12%N 0%N] in
  pguardedb (a_init st) ops1 = true /\ aoutputs (a_init st) ops1 = spec_outputs (spec_init st) ops1 /\
  pguardedb (a_init st) ops2 = true /\ aoutputs (a_init st) ops2 = spec_outputs (spec_init st) ops2 /\
  pguardedb (a_init st) ops3 = true /\ aoutputs (a_init st) ops3 = spec_outputs (spec_init st) ops3.
Proof. vm_compute. repeat split; reflexivity. Qed.
