(* C16 — the EVM state adapter is equivalent to go-ethereum's reference state.
   Only property theorems here; proofs are in proofs/EvmProofs.v *)
From stdpp Require Import gmap list.
From Coq Require Import ZArith.
From OL Require Import theories.EvmSpec theories.EvmAdapter theories.EvmCheck proofs.EvmProofs.
Local Open Scope Z_scope.

Definition contract_acct (x : addr) (b : Z) : start_acct :=
  {| sa_addr := x; sa_bal := b; sa_nonce := 1; sa_code := 1%N; sa_stor := [(0%N, 2); (1%N, 3)]; sa_native := false |}.
Definition plain_acct (x : addr) (b : Z) : start_acct :=
  {| sa_addr := x; sa_bal := b; sa_nonce := 0; sa_code := 0%N; sa_stor := []; sa_native := true |}.

(* the full statement (no guard) is false of the faithful adapter model; each witness is replayed
   on the real code by the check (findings/C16_*.json) *)
Theorem C16_refuted_selfdestruct_residue : exists st ops,
  first_class (a_init st) ops = 1%nat /\ aoutputs (a_init st) ops <> spec_outputs (spec_init st) ops.
Proof.
  exists [contract_acct 11%N 50; plain_acct 12%N 7],
    [AddBalance 12%N 50; Suicide 11%N; Finalise; Exist 11%N; GetBalance 11%N].
  split; [vm_compute; reflexivity | vm_compute; discriminate].
Qed.

Theorem C16_refuted_create_over_storage : exists st ops,
  first_class (a_init st) ops = 2%nat /\ aoutputs (a_init st) ops <> spec_outputs (spec_init st) ops.
Proof.
  exists [contract_acct 11%N 5], [CreateAccount 11%N; SetNonce 11%N 1; GetState 11%N 0%N].
  split; [vm_compute; reflexivity | vm_compute; discriminate].
Qed.

Theorem C16_refuted_stale_dirty_index : exists st ops,
  first_class (a_init st) ops = 3%nat /\ aoutputs (a_init st) ops <> spec_outputs (spec_init st) ops.
Proof.
  exists [plain_acct 11%N 9; contract_acct 12%N 4; plain_acct 13%N 2],
    [Snapshot; SetNonce 12%N 3; AddBalance 13%N 1; RevertToSnapshot 0; AddBalance 13%N 2; GetBalance 13%N].
  split; [vm_compute; reflexivity | vm_compute; discriminate].
Qed.
