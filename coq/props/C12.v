(* C12 — delegation pool consistency and undelegation maturity.
   Only property theorems here, each closed by [exact <lemma>]; proofs are in proofs/DelegProofs.v.
   Model: theories/Deleg.v (key-level model of the pending-undelegation scan). *)
From stdpp Require Import gmap list.
From Coq Require Import ZArith NArith.
From OL Require Import theories.Deleg theories.DelegCheck proofs.DelegProofs gen.Facts_Consts.
Local Open Scope Z_scope.

(* an address rendering used by the closed examples (any rendering works for the theorems) *)
Definition astr_ex : addr -> bytes := fun a => [65 + a]%N.

(* ---------------- (1) pool >= sum of active delegations ---------------- *)

(* for EVERY genesis state and EVERY history, after every prefix of the history (in particular at
   every block boundary): pool = sum active + (genesis surplus) + (net direct transfers so far) *)
Theorem C12_pool_exact : forall astr s0 ops,
  pool (run astr s0 ops) =
  asum (active (run astr s0 ops)) + (pool s0 - asum (active s0)) + (donated (run astr s0 ops) - donated s0).
Proof. exact pool_exact. Qed.
Print Assumptions C12_pool_exact.

(* partial: outside the trigger C12.negative_pool_donation the pool covers the active set *)
Theorem C12_pool_covers_active_partial : forall astr s0 pre post,
  asum (active s0) <= pool s0 ->
  trig_neg_donation (pre ++ post) = false ->
  asum (active (run astr s0 pre)) <= pool (run astr s0 pre).
Proof. exact pool_covers_active_partial. Qed.
Print Assumptions C12_pool_covers_active_partial.

(* ... and equals it (up to the genesis surplus) when nobody transferred to the pool directly *)
Theorem C12_pool_equals_active_without_donation : forall astr s0 pre post,
  existsb is_donate (pre ++ post) = false ->
  pool (run astr s0 pre) - asum (active (run astr s0 pre)) = pool s0 - asum (active s0).
Proof. exact pool_equals_active_without_donation. Qed.
Print Assumptions C12_pool_equals_active_without_donation.

(* the full statement is false of the faithful model: SENDPOOL with a negative amount on the deliver
   path (DeliverTx never calls Validate; Coin.Plus has no sign check) takes money out of the pool.
   Known finding C12.negative_pool_donation. *)
Definition g_ex1 : st := genesis 4 (fun _ => 1000) 0 ∅ ∅ (fun _ => 0) ∅.
Definition ops_ex1 : list op := [Begin []; Delegate 0%N 10 1; Begin []; Donate 1%N (-4) 1].
Theorem C12_pool_covers_active_refuted_negative_donation : exists astr s0 ops,
  trig_neg_donation ops = true /\ asum (active s0) <= pool s0 /\
  ~ asum (active (run astr s0 ops)) <= pool (run astr s0 ops).
Proof. exists astr_ex, g_ex1, ops_ex1. vm_compute. intuition discriminate. Qed.

(* non-vacuity: a history with delegation, undelegation, reinvestment and a donation satisfies the
   hypotheses of the partial theorem, with a non-trivial active set *)
Example C12_pool_nonvacuous :
  let ops := [Begin []; Delegate 0%N 10 1; Delegate 1%N 20 1; Begin [(0%N, 5); (1%N, 7)]; Undelegate 0%N 4 1;
              Reinvest 1%N 7 1; Donate 2%N 3 1; Begin []] in
  trig_neg_donation ops = false /\ asum (active (run astr_ex g_ex1 ops)) = 33 /\ pool (run astr_ex g_ex1 ops) = 36.
Proof. vm_compute. auto. Qed.

(* ---------------- (2) undelegations are paid exactly once, at the maturity height ---------------- *)

(* partial: outside the trigger C12.pending_height_prefix_collision (no block's range scan visits a key
   of another height).  For EVERY genesis (balances, pool, active set, pending entries, rewards) and
   EVERY history, with maturity period k >= 1:
   - at every executed block n the maturation routine credited delegator a exactly what was due at n
     for a: the genesis entry (n,a) plus a's successful undelegations made at height n-k;
   - for a height n not yet reached nothing has been credited and the due amount is still pending.
   Since [paid s n a] is all that BeginBlock(n) credits to a for undelegations (C12_begin_credit) and
   the amount due at n appears in no other block's payment, every undelegated amount is paid once,
   at u+k, not earlier, not twice, and to its delegator only. *)
Theorem C12_paid_once_at_maturity_partial : forall astr k b pl ac pe rw rp ops,
  (1 <= k)%N ->
  let s0 := genesis k b pl ac pe rw rp in
  let s := run astr s0 ops in
  trig_collision astr s0 ops = false ->
  forall n a,
    ((1 <= n <= height s)%N -> paid s n a = und s n a + pget pe n a) /\
    ((height s < n)%N -> paid s n a = 0 /\ pget (pend s) n a = und s n a + pget pe n a).
Proof. exact paid_once_partial. Qed.
Print Assumptions C12_paid_once_at_maturity_partial.

(* the same maturity rule for reward withdrawals *)
Theorem C12_reward_withdrawals_paid_once_partial : forall astr k b pl ac pe rw rp ops,
  (1 <= k)%N ->
  let s0 := genesis k b pl ac pe rw rp in
  let s := run astr s0 ops in
  trig_collision astr s0 ops = false ->
  forall n a,
    ((1 <= n <= height s)%N -> rpaid s n a = rwd s n a + pget rp n a) /\
    ((height s < n)%N -> rpaid s n a = 0 /\ pget (rpend s) n a = rwd s n a + pget rp n a).
Proof. exact rewards_paid_once_partial. Qed.
Print Assumptions C12_reward_withdrawals_paid_once_partial.

(* what BeginBlock credits to a delegator is exactly these two payments *)
Theorem C12_begin_credit : forall astr s accr a,
  let s' := (step astr s (Begin accr)).1 in
  bal s' a - bal s a = paid s' (height s') a + rpaid s' (height s') a.
Proof. exact begin_credit. Qed.
Print Assumptions C12_begin_credit.

(* the full statement is false of the faithful model (design observation E9): genesis-loaded pending
   undelegations (20, d0) = 8 and (2, d0) = 5.  At height 2 d0 is credited 8 (not the 5 due), at
   height 20 the 8 are credited again.  Known finding C12.pending_height_prefix_collision. *)
Definition g_ex2 : st :=
  genesis 4 (fun _ => 100) 0 ∅ (list_to_map [((20%N, 0%N), 8); ((2%N, 0%N), 5)]) (fun _ => 0) ∅.
Theorem C12_paid_once_at_maturity_refuted_collision : exists astr s0 ops,
  trig_collision astr s0 ops = true /\
  let s := run astr s0 ops in
  paid s 2%N 0%N = 8 /\ und s 2%N 0%N + pget (pend s0) 2%N 0%N = 5 /\
  paid s 20%N 0%N = 8 /\ bal s 0%N = bal s0 0%N + 16.
Proof. exists astr_ex, g_ex2, (repeat (Begin []) 20). vm_compute. auto. Qed.

(* non-vacuity: a genesis with pending entries and a history with undelegations (two by the same
   delegator in one block) that never collides; every amount is paid at its height *)
Example C12_paid_once_nonvacuous :
  let s0 := genesis 4 (fun _ => 100) 30 (list_to_map [(0%N, 30)])
                    (list_to_map [((5%N, 1%N), 7); ((3%N, 0%N), 2)]) (fun _ => 0) ∅ in
  let ops := [Begin []; Undelegate 0%N 4 1; Undelegate 0%N 6 1; Begin []; Begin []; Begin []; Begin []; Begin []] in
  let s := run astr_ex s0 ops in
  trig_collision astr_ex s0 ops = false /\ paid s 5%N 0%N = 10 /\ paid s 5%N 1%N = 7 /\ paid s 3%N 0%N = 2 /\
  bal s 0%N = 100 - 2 + 12.
Proof. vm_compute. auto. Qed.

(* ---------------- (3) reward withdrawals never exceed the accrued reward balance ---------------- *)

(* for EVERY genesis and history: reward balance = genesis + accrued - (withdrawn + reinvested); with
   non-negative accruals it is never negative, i.e. what was withdrawn or reinvested never exceeds
   what had accrued *)
Theorem C12_reward_withdrawal_bounded : forall astr k b pl ac pe rw rp ops a,
  let s := run astr (genesis k b pl ac pe rw rp) ops in
  rew s a = rw a + accrued s a - taken s a /\
  ((forall x, 0 <= rw x) -> forallb accr_nonneg ops = true ->
   0 <= rew s a /\ taken s a <= rw a + accrued s a).
Proof. exact reward_withdrawal_bounded. Qed.
Print Assumptions C12_reward_withdrawal_bounded.

Example C12_reward_nonvacuous :
  let ops := [Begin []; Delegate 0%N 10 1; Begin [(0%N, 9)]; WithdrawRw 0%N 4 1; WithdrawRw 0%N 6 1; Reinvest 0%N 5 1] in
  let s := run astr_ex g_ex1 ops in
  forallb accr_nonneg ops = true /\ results astr_ex g_ex1 ops = [true; true; true; true; false; true] /\
  rew s 0%N = 0 /\ taken s 0%N = 9.
Proof. vm_compute. auto. Qed.

(* ---------------- reachability of the collision trigger ---------------- *)

(* which keys does the scan of block h visit?  Proved on the key STRINGS (lexicographic range test,
   Rangefix, decimal rendering): the pending-undelegation scan visits (n, a) only if n = h or the
   decimal string of n properly extends that of h, which forces n >= 10 h; the reward scan, whose
   prefix ends in the separator, is exact. *)
Theorem C12_undelegation_scan_visits : forall astr h n a,
  scan_und astr h n a = true -> (n = h \/ 10 * h <= n)%N.
Proof. exact scan_und_char. Qed.
Print Assumptions C12_undelegation_scan_visits.

Theorem C12_reward_scan_exact : forall astr h n a, scan_rw astr h n a = true -> n = h.
Proof. exact scan_rw_exact. Qed.
Print Assumptions C12_reward_scan_exact.

(* chains whose pending undelegations all stem from transactions (genesis without pending entries)
   are NOT exposed while the maturity period is at most 18: for every such genesis and every history
   (histories start with a BeginBlock) no scan ever collides ... *)
Theorem C12_no_collision_from_empty_genesis_k_le_18 : forall astr k b pl ac rw rp accr ops,
  (k <= 18)%N ->
  trig_collision astr (genesis k b pl ac ∅ rw rp) (Begin accr :: ops) = false.
Proof. exact no_collision_from_empty_genesis. Qed.
Print Assumptions C12_no_collision_from_empty_genesis_k_le_18.

(* ... hence the FULL paid-once statement holds for them *)
Theorem C12_paid_once_from_empty_genesis_k_le_18 : forall astr k b pl ac rw rp accr ops,
  (1 <= k <= 18)%N ->
  let s := run astr (genesis k b pl ac ∅ rw rp) (Begin accr :: ops) in
  forall n a,
    ((1 <= n <= height s)%N -> paid s n a = und s n a) /\
    ((height s < n)%N -> paid s n a = 0 /\ pget (pend s) n a = und s n a).
Proof. exact paid_once_from_empty_genesis. Qed.
Print Assumptions C12_paid_once_from_empty_genesis_k_le_18.

(* tie to the source: the maturity period written at InitChain is the hard-coded constant 4 <= 18 *)
Theorem C12_fact_maturity_constant :
  netdeleg_RewardsMaturityTime = 4 /\ (Z.to_N netdeleg_RewardsMaturityTime <= 18)%N.
Proof. vm_compute. split; [reflexivity | discriminate]. Qed.

(* the bound is sharp: with k = 19 an undelegation at height 1 (key 20) is visited at height 2 *)
Example C12_tx_collision_k19 :
  trig_collision astr_ex (genesis 19 (fun _ => 1000) 0 ∅ ∅ (fun _ => 0) ∅)
                 [Begin []; Delegate 0%N 10 1; Undelegate 0%N 4 1; Begin []] = true.
Proof. vm_compute. reflexivity. Qed.
