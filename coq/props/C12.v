(* C12 — delegation pool consistency and undelegation maturity.
   Only property theorems here, each closed by [exact <lemma>]; proofs are in proofs/DelegProofs.v.
   Model: theories/Deleg.v (key-level model of the pending-undelegation scan). *)
From stdpp Require Import gmap list.
From Coq Require Import ZArith NArith.
From OL Require Import theories.Deleg theories.DelegCheck proofs.DelegProofs gen.Facts_Consts.
Local Open Scope Z_scope.

(* an address rendering used by the closed examples (any rendering works for the theorems) *)
Definition astr_ex : addr -> bytes := fun a => [65 + a]%N.

(* ---------------- (1) pool >= sum of active delegations ---------------- *)

(* for EVERY genesis state and EVERY history, after every prefix of the history (in particular at
   every block boundary): pool = sum active + (genesis surplus) + (net direct transfers so far) *)
Theorem C12_pool_exact : forall astr s0 ops,
  pool (run astr s0 ops) =
  asum (active (run astr s0 ops)) + (pool s0 - asum (active s0)) + (donated (run astr s0 ops) - donated s0).
Proof. exact pool_exact. Qed.
Print Assumptions C12_pool_exact.

(* partial: outside the trigger C12.negative_pool_donation the pool covers the active set *)
Theorem C12_pool_covers_active_partial : forall astr s0 pre post,
  asum (active s0) <= pool s0 ->
  trig_neg_donation (pre ++ post) = false ->
  asum (active (run astr s0 pre)) <= pool (run astr s0 pre).
Proof. exact pool_covers_active_partial. Qed.
Print Assumptions C12_pool_covers_active_partial.

(* ... and equals it (up to the genesis surplus) when nobody transferred to the pool directly *)
Theorem C12_pool_equals_active_without_donation : forall astr s0 pre post,
  existsb is_donate (pre ++ post) = false ->
  pool (run astr s0 pre) - asum (active (run astr s0 pre)) = pool s0 - asum (active s0).
Proof. exact pool_equals_active_without_donation. Qed.
Print Assumptions C12_pool_equals_active_without_donation.

(* the full statement is false of the faithful model: SENDPOOL with a negative amount on the deliver
   path (DeliverTx never calls Validate; Coin.Plus has no sign check) takes money out of the pool.
   Known finding C12.negative_pool_donation. *)
Definition g_ex1 : st := genesis 4 (fun _ => 1000) 0 ∅ ∅ (fun _ => 0) ∅.
Definition ops_ex1 : list op := [Begin []; Delegate 0%N 10 1; Begin []; Donate 1%N (-4) 1].
Theorem C12_pool_covers_active_refuted_negative_donation : exists astr s0 ops,
  trig_neg_donation ops = true /\ asum (active s0) <= pool s0 /\
  ~ asum (active (run astr s0 ops)) <= pool (run astr s0 ops).
Proof. exists astr_ex, g_ex1, ops_ex1. vm_compute. intuition discriminate. Qed.

(* non-vacuity: a history with delegation, undelegation, reinvestment and a donation satisfies the
   hypotheses of the partial theorem, with a non-trivial active set *)
Example C12_pool_nonvacuous :
  let ops := [Begin []; Delegate 0%N 10 1; Delegate 1%N 20 1; Begin [(0%N, 5); (1%N, 7)]; Undelegate 0%N 4 1;
              Reinvest 1%N 7 1; Donate 2%N 3 1; Begin []] in
  trig_neg_donation ops = false /\ asum (active (run astr_ex g_ex1 ops)) = 33 /\ pool (run astr_ex g_ex1 ops) = 36.
Proof. vm_compute. auto. Qed.
