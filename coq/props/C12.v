(* C12 — delegation pool consistency and undelegation maturity.
   Only property theorems here, each closed by [exact <lemma>]; proofs are in proofs/DelegProofs.v.
   Model: theories/Deleg.v (key-level model of the pending-undelegation scan). *)
From stdpp Require Import gmap list.
From Coq Require Import ZArith NArith.
From OL Require Import theories.Deleg theories.DelegCheck proofs.DelegProofs gen.Facts_Consts.
Local Open Scope Z_scope.

(* an address rendering used by the closed examples (any rendering works for the theorems) *)
Definition astr_ex : addr -> bytes := fun a => [65 + a]%N.

(* ---------------- (1) pool >= sum of active delegations ---------------- *)

(* for EVERY genesis state and EVERY history, after every operation (in particular at every block
   boundary): pool = sum active + (genesis surplus) + (net direct transfers so far) *)
Theorem C12_pool_exact : forall astr s0 ops,
  pool (run astr s0 ops) =
  asum (active (run astr s0 ops)) + (pool s0 - asum (active s0)) + (donated (run astr s0 ops) - donated s0).
Proof. exact pool_exact. Qed.
Print Assumptions C12_pool_exact.

(* FULL (no trigger guard since /repo 5fba2a6): the pool covers the active set *)
Theorem C12_pool_covers_active : forall astr s0 ops,
  asum (active s0) <= pool s0 ->
  asum (active (run astr s0 ops)) <= pool (run astr s0 ops).
Proof. exact pool_covers_active. Qed.
Print Assumptions C12_pool_covers_active.

(* ... and equals it (up to the genesis surplus) when nobody transferred to the pool directly *)
Theorem C12_pool_equals_active_without_donation : forall astr s0 pre post,
  existsb is_donate (pre ++ post) = false ->
  pool (run astr s0 pre) - asum (active (run astr s0 pre)) = pool s0 - asum (active s0).
Proof. exact pool_equals_active_without_donation. Qed.
Print Assumptions C12_pool_equals_active_without_donation.

(* the former witness of finding C12.negative_pool_donation (fixed by 5fba2a6) is harmless now:
   the negative SENDPOOL is rejected and the pool still covers the active set *)
Definition g_ex1 : st := genesis 4 (fun _ => 1000) 0 ∅ ∅ (fun _ => 0) ∅.
Definition ops_ex1 : list op := [Begin []; Delegate 0%N 10 1; Begin []; Donate 1%N (-4) 1].
Example C12_former_witness_negative_donation_harmless :
  trig_neg_donation ops_ex1 = true /\ results astr_ex g_ex1 ops_ex1 = [true; true; true; false] /\
  pool (run astr_ex g_ex1 ops_ex1) = 10 /\ asum (active (run astr_ex g_ex1 ops_ex1)) = 10.
Proof. vm_compute. auto. Qed.

(* non-vacuity: delegation, undelegation, reinvestment and a donation, non-trivial active set *)
Example C12_pool_nonvacuous :
  let ops := [Begin []; Delegate 0%N 10 1; Delegate 1%N 20 1; Begin [(0%N, 5); (1%N, 7)]; Undelegate 0%N 4 1;
              Reinvest 1%N 7 1; Donate 2%N 3 1; Begin []] in
  asum (active (run astr_ex g_ex1 ops)) = 33 /\ pool (run astr_ex g_ex1 ops) = 36.
Proof. vm_compute. auto. Qed.

(* ---------------- (2) the scans, on the key strings ---------------- *)

(* proved on the STRINGS (lexicographic range test of IterateRange, Rangefix, decimal rendering of
   the height): the scan of block h visits the key of (n, a) only if n = h — for the pending
   undelegations (since /repo e19809f) and for the pending reward withdrawals *)
Theorem C12_undelegation_scan_exact : forall astr h n a, scan_und astr h n a = true -> n = h.
Proof. exact scan_und_exact. Qed.
Print Assumptions C12_undelegation_scan_exact.

Theorem C12_reward_scan_exact : forall astr h n a, scan_rw astr h n a = true -> n = h.
Proof. exact scan_rw_exact. Qed.
Print Assumptions C12_reward_scan_exact.

(* hence the former trigger C12.pending_height_prefix_collision never fires, for any state and history *)
Theorem C12_no_scan_collides : forall astr ops s, collided (run astr s ops) = collided s.
Proof. exact no_scan_collides. Qed.
Print Assumptions C12_no_scan_collides.

(* ---------------- (3) undelegations are paid exactly once, at the maturity height ---------------- *)

(* FULL.  For EVERY genesis (balances, pool, active set, pending entries, rewards) and EVERY history,
   with maturity period k >= 1:
   - at every executed block n the maturation routine credited delegator a exactly what was due at n
     for a: the genesis entry (n,a) plus a's successful undelegations made at height n-k;
   - for a height n not yet reached nothing has been credited and the due amount is still pending.
   Since [paid s n a] is all that BeginBlock(n) credits to a for undelegations (C12_begin_credit) and
   the amount due at n appears in no other block's payment, every undelegated amount is paid once,
   at u+k, not earlier, not twice, and to its delegator only. *)
Theorem C12_paid_once_at_maturity : forall astr k b pl ac pe rw rp ops,
  (1 <= k)%N ->
  let s := run astr (genesis k b pl ac pe rw rp) ops in
  forall n a,
    ((1 <= n <= height s)%N -> paid s n a = und s n a + pget pe n a) /\
    ((height s < n)%N -> paid s n a = 0 /\ pget (pend s) n a = und s n a + pget pe n a).
Proof. exact paid_once. Qed.
Print Assumptions C12_paid_once_at_maturity.

(* the same maturity rule for reward withdrawals, FULL *)
Theorem C12_reward_withdrawals_paid_once : forall astr k b pl ac pe rw rp ops,
  (1 <= k)%N ->
  let s := run astr (genesis k b pl ac pe rw rp) ops in
  forall n a,
    ((1 <= n <= height s)%N -> rpaid s n a = rwd s n a + pget rp n a) /\
    ((height s < n)%N -> rpaid s n a = 0 /\ pget (rpend s) n a = rwd s n a + pget rp n a).
Proof. exact rewards_paid_once. Qed.
Print Assumptions C12_reward_withdrawals_paid_once.

(* what BeginBlock credits to a delegator is exactly these two payments *)
Theorem C12_begin_credit : forall astr s accr a,
  let s' := (step astr s (Begin accr)).1 in
  bal s' a - bal s a = paid s' (height s') a + rpaid s' (height s') a.
Proof. exact begin_credit. Qed.
Print Assumptions C12_begin_credit.

(* tie to the source: the maturity period written at InitChain is the hard-coded constant, >= 1 *)
Theorem C12_fact_maturity_constant :
  netdeleg_RewardsMaturityTime = 4 /\ (1 <= Z.to_N netdeleg_RewardsMaturityTime)%N.
Proof. vm_compute. split; [reflexivity | discriminate]. Qed.

(* the former witness of finding C12.pending_height_prefix_collision (design observation E9, fixed by
   e19809f): genesis-loaded pending undelegations (20, d0) = 8 and (2, d0) = 5.  Now d0 is credited
   5 at height 2 and 8 at height 20, 13 in total (before: 8 at height 2, 8 again at 20, the 5 lost). *)
Definition g_ex2 : st :=
  genesis 4 (fun _ => 100) 0 ∅ (list_to_map [((20%N, 0%N), 8); ((2%N, 0%N), 5)]) (fun _ => 0) ∅.
Example C12_former_witness_collision_harmless :
  let s := run astr_ex g_ex2 (repeat (Begin []) 20) in
  trig_collision astr_ex g_ex2 (repeat (Begin []) 20) = false /\
  paid s 2%N 0%N = 5 /\ paid s 20%N 0%N = 8 /\ bal s 0%N = bal g_ex2 0%N + 13.
Proof. vm_compute. auto. Qed.

(* non-vacuity: a genesis with pending entries and a history with undelegations (two by the same
   delegator in one block); every amount is paid at its height *)
Example C12_paid_once_nonvacuous :
  let s0 := genesis 4 (fun _ => 100) 30 (list_to_map [(0%N, 30)])
                    (list_to_map [((5%N, 1%N), 7); ((3%N, 0%N), 2)]) (fun _ => 0) ∅ in
  let ops := [Begin []; Undelegate 0%N 4 1; Undelegate 0%N 6 1; Begin []; Begin []; Begin []; Begin []; Begin []] in
  let s := run astr_ex s0 ops in
  paid s 5%N 0%N = 10 /\ paid s 5%N 1%N = 7 /\ paid s 3%N 0%N = 2 /\ bal s 0%N = 100 - 2 + 12.
Proof. vm_compute. auto. Qed.

(* ---------------- (4) a matured "payment" is a payment: never negative ---------------- *)

(* partial: outside the triggers C12.negative_undelegate and C12.negative_reward_withdrawal, from a
   genesis whose pending entries are non-negative, every amount credited by the maturation routines
   is non-negative — BeginBlock never takes money from a delegator *)
Theorem C12_matured_payments_nonneg_partial : forall astr k b pl ac pe rw rp ops,
  (1 <= k)%N ->
  (forall n a, 0 <= pget pe n a) -> (forall n a, 0 <= pget rp n a) ->
  trig_neg_undelegate ops = false -> trig_neg_withdraw ops = false ->
  let s := run astr (genesis k b pl ac pe rw rp) ops in
  forall n a, (1 <= n)%N -> 0 <= paid s n a /\ 0 <= rpaid s n a.
Proof. exact payments_nonneg_partial. Qed.
Print Assumptions C12_matured_payments_nonneg_partial.

(* the full statement is false of the faithful model.  NETWORK_UNDELEGATE with a negative amount
   (Undelegate.Validate and runUndelegate check no sign; Coin.Minus fails only on a negative RESULT):
   the active delegation and the pool GROW at once without any payment, and at maturity the
   delegator is debited by AddToAddress of a negative coin, which has no balance check — his balance
   goes negative.  Known finding C12.negative_undelegate. *)
Theorem C12_matured_payments_nonneg_refuted_negative_undelegate : exists astr s0 ops,
  trig_neg_undelegate ops = true /\ trig_neg_withdraw ops = false /\
  let s := run astr s0 ops in
  results astr s0 ops = [true; true; true; true; true; true] /\
  aget (active s) 0%N = 2000 /\ pool s = 2000 /\ paid s 5%N 0%N = -2000 /\ bal s 0%N = -1001.
Proof.
  exists astr_ex, g_ex1, [Begin []; Undelegate 0%N (-2000) 1; Begin []; Begin []; Begin []; Begin []].
  vm_compute. repeat split; reflexivity.
Qed.

(* the same with REWARDS_WITHDRAW_NETWORK_DELEGATE: the reward balance grows at once, the delegator
   is debited at maturity.  Known finding C12.negative_reward_withdrawal. *)
Theorem C12_matured_payments_nonneg_refuted_negative_withdrawal : exists astr s0 ops,
  trig_neg_undelegate ops = false /\ trig_neg_withdraw ops = true /\
  let s := run astr s0 ops in
  rew s 0%N = 2000 /\ rpaid s 5%N 0%N = -2000 /\ bal s 0%N = -1001.
Proof.
  exists astr_ex, g_ex1, [Begin []; WithdrawRw 0%N (-2000) 1; Begin []; Begin []; Begin []; Begin []].
  vm_compute. repeat split; reflexivity.
Qed.

(* ---------------- (4') active delegations are never negative ---------------- *)

(* partial: outside the trigger C12.negative_reinvest; without it "pool >= sum of active" would not
   mean that the pool covers every delegator's delegation *)
Theorem C12_active_nonneg_partial : forall astr ops s,
  trig_neg_reinvest ops = false -> (forall x, 0 <= aget (active s) x) ->
  forall x, 0 <= aget (active (run astr s ops)) x.
Proof. exact active_nonneg_partial. Qed.
Print Assumptions C12_active_nonneg_partial.

(* refuted: REWARDS_REINVEST_NETWORK_DELEGATE with a negative amount (no sign check in Validate or
   the handler): d1, who has delegated nothing, obtains a reward balance of 4 out of nothing, his
   active delegation becomes -4 and the pool loses 4 of d0's money: pool 6 < d0's delegation 10.
   Known finding C12.negative_reinvest. *)
Theorem C12_active_nonneg_refuted_negative_reinvest : exists astr s0 ops,
  trig_neg_reinvest ops = true /\ (forall x, 0 <= aget (active s0) x) /\
  let s := run astr s0 ops in
  aget (active s) 1%N = -4 /\ rew s 1%N = 4 /\ pool s = 6 /\ aget (active s) 0%N = 10.
Proof.
  exists astr_ex, g_ex1, [Begin []; Delegate 0%N 10 1; Reinvest 1%N (-4) 1].
  split; [vm_compute; reflexivity|]. split; [intros x; vm_compute; discriminate|].
  vm_compute. repeat split; reflexivity.
Qed.

(* ---------------- (5) reward withdrawals never exceed the accrued reward balance ---------------- *)

(* for EVERY genesis and history: reward balance = genesis + accrued - (withdrawn + reinvested); with
   non-negative accruals it is never negative, i.e. what was withdrawn or reinvested never exceeds
   what had accrued *)
Theorem C12_reward_withdrawal_bounded : forall astr k b pl ac pe rw rp ops a,
  let s := run astr (genesis k b pl ac pe rw rp) ops in
  rew s a = rw a + accrued s a - taken s a /\
  ((forall x, 0 <= rw x) -> forallb accr_nonneg ops = true ->
   0 <= rew s a /\ taken s a <= rw a + accrued s a).
Proof. exact reward_withdrawal_bounded. Qed.
Print Assumptions C12_reward_withdrawal_bounded.

Example C12_reward_nonvacuous :
  let ops := [Begin []; Delegate 0%N 10 1; Begin [(0%N, 9)]; WithdrawRw 0%N 4 1; WithdrawRw 0%N 6 1; Reinvest 0%N 5 1] in
  let s := run astr_ex g_ex1 ops in
  forallb accr_nonneg ops = true /\ results astr_ex g_ex1 ops = [true; true; true; true; false; true] /\
  rew s 0%N = 0 /\ taken s 0%N = 9.
Proof. vm_compute. auto. Qed.
