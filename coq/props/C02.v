(* C02 — no value creation.
   Only property theorems here, each closed by [exact <lemma>]; proofs are in proofs/LedgerProofs.v
   (generic ledger) and proofs/LedgerTxProofs.v (per transaction kind).
   Model: theories/Ledger.v (records, guarded subtraction, atomic operation lists),
          theories/LedgerTx.v (effect functions written after the Go handlers). *)
From stdpp Require Import gmap list.
From Coq Require Import ZArith NArith.
From OL Require Import theories.Ledger theories.LedgerTx proofs.LedgerProofs proofs.LedgerTxProofs.
Local Open Scope Z_scope.

(* ---------------- generic: every operation list, block and history ---------------- *)

(* exact accounting, for every currency, ledger and operation list that applies:
   total after = total before + created - destroyed *)
Theorem C02_total_exact : forall c l ops l', apply_ops l ops = Some l' ->
  total c l' = total c l + minted c ops - burned c ops.
Proof. exact total_exact. Qed.
Print Assumptions C02_total_exact.

(* a Move between two counted records of one currency creates nothing *)
Theorem C02_move_creates_nothing : forall c s d v, conservative (Move s d v) = true -> op_mint c (Move s d v) = 0.
Proof. exact move_mints_nothing. Qed.
Print Assumptions C02_move_creates_nothing.

(* a transaction is atomic; the total grows by at most its surplus max(0, created - destroyed) *)
Theorem C02_tx_total_bound : forall c l ops, total c (run_tx l ops) <= total c l + surplus c ops.
Proof. exact run_tx_total_bound. Qed.
Print Assumptions C02_tx_total_bound.

Theorem C02_block_total_bound : forall c txs l, total c (run_block l txs) <= total c l + block_surplus c txs.
Proof. exact run_block_total_bound. Qed.
Print Assumptions C02_block_total_bound.

Theorem C02_history_total_bound : forall c bs l, total c (run_history l bs) <= total c l + history_surplus c bs.
Proof. exact run_history_total_bound. Qed.
Print Assumptions C02_history_total_bound.

(* a block all of whose steps stay within their allowance (0 for user transactions) stays within the sum *)
Theorem C02_block_within_allowance : forall c txs allow,
  Forall2 (fun ops a => minted c ops - burned c ops <= a /\ 0 <= a) txs allow ->
  block_surplus c txs <= fold_right Z.add 0 allow.
Proof. exact block_surplus_bound. Qed.
Print Assumptions C02_block_within_allowance.

(* no stored amount becomes negative: subtractions are guarded, so it is enough that added amounts are >= 0 *)
Theorem C02_nonneg_tx : forall l ops, nonneg l -> forallb credit_nonneg ops = true -> nonneg (run_tx l ops).
Proof. exact run_tx_nonneg. Qed.
Print Assumptions C02_nonneg_tx.

Theorem C02_nonneg_history : forall bs l, nonneg l ->
  Forall (Forall (fun ops => forallb credit_nonneg ops = true)) bs -> nonneg (run_history l bs).
Proof. exact run_history_nonneg. Qed.
Print Assumptions C02_nonneg_history.


(* ---------------- per transaction kind (effect functions of LedgerTx.v, written after the Go handlers) ----------------
   For EVERY env (currency registered or not, option values, sale state), EVERY payload (negative / huge amounts,
   any currency, any addresses), every fee >= 0 and every ledger: when the model's Validate + handler guards accept,
   the operations of the handler followed by the fee step create nothing in any currency and add only
   non-negative amounts; when they reject, the transaction is a no-op (tx_ops None = None; run_tx of a refused
   list is the identity).  Guards used: SEND/SENDPOOL/DOMAIN_SEND Amount.IsValid; STAKE/UNSTAKE/WITHDRAW value >= 0
   and fits int64 (48c76fc: then the narrowed debit ToCoinWithBase(v) equals the credit v); delegation kinds coin
   valid and OLT (1d1d85c); PROPOSAL_CREATE initial-funding option <= v; PROPOSAL_FUND / PROPOSAL_WITHDRAW_FUNDS v > 0 (782c385, 19a3caa); DOMAIN_* price > base price / per-block fee,
   asking price <= offer.  no_creation ops := forall c, minted c ops - burned c ops <= 0;
   credits_ok ops := every added amount >= 0 (with C02_nonneg_tx: no record becomes negative). *)
Theorem C02_no_creation_send : forall known cur from to v payer fp fee ops, 0 <= fee -> effect_send known cur from to v = Some ops ->
  no_creation (ops ++ fee_ops payer fp fee) /\ credits_ok (ops ++ fee_ops payer fp fee).
Proof. exact send_no_creation. Qed.
Print Assumptions C02_no_creation_send.
Theorem C02_no_creation_sendpool : forall known cur from pool v payer fp fee ops, 0 <= fee -> effect_sendpool known cur from pool v = Some ops ->
  no_creation (ops ++ fee_ops payer fp fee) /\ credits_ok (ops ++ fee_ops payer fp fee).
Proof. exact sendpool_no_creation. Qed.
Print Assumptions C02_no_creation_sendpool.
Theorem C02_no_creation_stake : forall known cur staker val v payer fp fee ops, 0 <= fee -> effect_stake known cur staker val v = Some ops ->
  no_creation (ops ++ fee_ops payer fp fee) /\ credits_ok (ops ++ fee_ops payer fp fee).
Proof. exact stake_no_creation. Qed.
Print Assumptions C02_no_creation_stake.
Theorem C02_no_creation_unstake : forall known cur staker val v h payer fp fee ops, 0 <= fee -> effect_unstake known cur staker val v h = Some ops ->
  no_creation (ops ++ fee_ops payer fp fee) /\ credits_ok (ops ++ fee_ops payer fp fee).
Proof. exact unstake_no_creation. Qed.
Print Assumptions C02_no_creation_unstake.
Theorem C02_no_creation_withdraw : forall known cur staker v payer fp fee ops, 0 <= fee -> effect_withdraw known cur staker v = Some ops ->
  no_creation (ops ++ fee_ops payer fp fee) /\ credits_ok (ops ++ fee_ops payer fp fee).
Proof. exact withdraw_no_creation. Qed.
Print Assumptions C02_no_creation_withdraw.
Theorem C02_no_creation_delegate : forall known cur u pool v payer fp fee ops, 0 <= fee -> effect_delegate known cur u pool v = Some ops ->
  no_creation (ops ++ fee_ops payer fp fee) /\ credits_ok (ops ++ fee_ops payer fp fee).
Proof. exact delegate_no_creation. Qed.
Print Assumptions C02_no_creation_delegate.
Theorem C02_no_creation_undelegate : forall known cur u pool v h payer fp fee ops, 0 <= fee -> effect_undelegate known cur u pool v h = Some ops ->
  no_creation (ops ++ fee_ops payer fp fee) /\ credits_ok (ops ++ fee_ops payer fp fee).
Proof. exact undelegate_no_creation. Qed.
Print Assumptions C02_no_creation_undelegate.
Theorem C02_no_creation_rewards_withdraw : forall known cur u v h payer fp fee ops, 0 <= fee -> effect_rewards_withdraw known cur u v h = Some ops ->
  no_creation (ops ++ fee_ops payer fp fee) /\ credits_ok (ops ++ fee_ops payer fp fee).
Proof. exact rewards_withdraw_no_creation. Qed.
Print Assumptions C02_no_creation_rewards_withdraw.
Theorem C02_no_creation_reinvest : forall known cur u pool v payer fp fee ops, 0 <= fee -> effect_reinvest known cur u pool v = Some ops ->
  no_creation (ops ++ fee_ops payer fp fee) /\ credits_ok (ops ++ fee_ops payer fp fee).
Proof. exact reinvest_no_creation. Qed.
Print Assumptions C02_no_creation_reinvest.
Theorem C02_no_creation_proposal_create : forall known cur p prop v init goal payer fp fee ops, 0 <= fee -> 0 <= init -> effect_proposal_create known cur p prop v init goal = Some ops ->
  no_creation (ops ++ fee_ops payer fp fee) /\ credits_ok (ops ++ fee_ops payer fp fee).
Proof. exact proposal_create_no_creation. Qed.
Print Assumptions C02_no_creation_proposal_create.
Theorem C02_no_creation_proposal_fund : forall known cur f prop v payer fp fee ops, 0 <= fee -> effect_proposal_fund known cur f prop v = Some ops ->
  no_creation (ops ++ fee_ops payer fp fee) /\ credits_ok (ops ++ fee_ops payer fp fee).
Proof. exact proposal_fund_no_creation. Qed.
Print Assumptions C02_no_creation_proposal_fund.
Theorem C02_no_creation_proposal_withdraw : forall known cur f b prop v payer fp fee ops, 0 <= fee -> effect_proposal_withdraw known cur f b prop v = Some ops ->
  no_creation (ops ++ fee_ops payer fp fee) /\ credits_ok (ops ++ fee_ops payer fp fee).
Proof. exact proposal_withdraw_no_creation. Qed.
Print Assumptions C02_no_creation_proposal_withdraw.
Theorem C02_no_creation_domain_create : forall known cur o fp v base payer fee ops, 0 <= fee -> 0 <= base -> effect_domain_create known cur o fp v base = Some ops ->
  no_creation (ops ++ fee_ops payer fp fee) /\ credits_ok (ops ++ fee_ops payer fp fee).
Proof. exact domain_create_no_creation. Qed.
Print Assumptions C02_no_creation_domain_create.
Theorem C02_no_creation_domain_renew : forall known cur o fp v pb payer fee ops, 0 <= fee -> 0 <= pb -> effect_domain_renew known cur o fp v pb = Some ops ->
  no_creation (ops ++ fee_ops payer fp fee) /\ credits_ok (ops ++ fee_ops payer fp fee).
Proof. exact domain_renew_no_creation. Qed.
Print Assumptions C02_no_creation_domain_renew.
Theorem C02_no_creation_domain_purchase : forall known cur buyer fp offer on_sale sale seller base payer fee ops, 0 <= fee -> 0 <= sale -> 0 <= base -> effect_domain_purchase known cur buyer fp offer on_sale sale seller base = Some ops ->
  no_creation (ops ++ fee_ops payer fp fee) /\ credits_ok (ops ++ fee_ops payer fp fee).
Proof. exact domain_purchase_no_creation. Qed.
Print Assumptions C02_no_creation_domain_purchase.
Theorem C02_no_creation_domain_send : forall known cur from benef v payer fp fee ops, 0 <= fee -> effect_domain_send known cur from benef v = Some ops ->
  no_creation (ops ++ fee_ops payer fp fee) /\ credits_ok (ops ++ fee_ops payer fp fee).
Proof. exact domain_send_no_creation. Qed.
Print Assumptions C02_no_creation_domain_send.

(* WITHDRAW_REWARD: FULL since /repo 45cfd0d (negative amounts refused) and ed95e98 (amounts beyond int64 refused: 2^64-2 used to be
   narrowed to -2).  The former witnesses are rejected, ledger unchanged: *)
Theorem C02_no_creation_withdraw_reward : forall known cur signer rpool v payer fp fee ops, 0 <= fee ->
  effect_withdraw_reward known cur signer rpool v = Some ops ->
  no_creation (ops ++ fee_ops payer fp fee) /\ credits_ok (ops ++ fee_ops payer fp fee).
Proof. exact withdraw_reward_no_creation. Qed.
Print Assumptions C02_no_creation_withdraw_reward.
Example C02_former_witness_withdraw_reward_rejected :
  effect_withdraw_reward true 0 1 2 (-1) = None /\ effect_withdraw_reward true 0 1 2 (2 ^ 64 - 2) = None /\
  wrap64 (2 ^ 64 - 2) = -2 /\ effect_withdraw_reward true 0 1 2 (2 ^ 64 + 1) = None /\
  effect_withdraw_reward true 0 1 2 3 = Some [Burn (bal 2 0) (3 * E18); Mint (bal 1 0) (3 * E18)].
Proof. vm_compute. auto. Qed.

(* PROPOSAL_FUND and PROPOSAL_WITHDRAW_FUNDS are FULL since /repo 782c385 / 19a3caa (the handlers require a positive amount).
   The former refutation witnesses (findings C02.proposal_fund_negative / C02.withdraw_funds_negative, fixed) are rejected now: *)
Definition l_w : gmap key Z := ladd (ladd ∅ (bal 1 0) 1000) (bal 2 0) 3.
Example C02_former_witness_proposal_fund_rejected :
  effect_proposal_fund true 0 1 7 (-5) = None /\ effect_proposal_fund true 0 1 7 0 = None /\
  run_tx l_w (default [] (tx_ops (effect_proposal_fund true 0 1 7 (-5)) 1 9 1)) = l_w /\
  effect_proposal_fund true 0 1 7 5 = Some [Burn (bal 1 0) 5; Mint (mk 1 B_PROPFUND 0 7) 5].
Proof. vm_compute. auto. Qed.
Example C02_former_witness_proposal_withdraw_rejected :
  effect_proposal_withdraw true 0 1 2 7 (-5) = None /\ effect_proposal_withdraw true 0 1 2 7 0 = None /\
  effect_proposal_withdraw true 0 1 2 7 5 = Some [Burn (mk 1 B_PROPFUND 0 7) 5; Mint (bal 2 0) 5].
Proof. vm_compute. auto. Qed.

(* ---------------- bid app (external_apps/bid): the locked amount of a bid is a ledger record of the bidder ----------------
   BID_CREATE (guard: OLT, Amount.IsValid - f99f70a), unlocking (counter offer, cancel, reject, the PUBLIC unguarded BID_EXPIRE),
   owner accept (escrow -> owner) and bidder accept of a counter offer (bidder -> owner) create nothing, add only amounts >= 0
   and take only from the bidder (his balance or his escrow record) and the fee payer *)
Theorem C02_no_creation_bid_create : forall known cur bidder conv v hc c payer fp fee ops, 0 <= fee ->
  effect_bid_create known cur bidder conv v hc c = Some ops ->
  no_creation (ops ++ fee_ops payer fp fee) /\ credits_ok (ops ++ fee_ops payer fp fee) /\ takes_only_from (ops ++ fee_ops payer fp fee) [bidder; payer].
Proof. exact bid_create_stmt. Qed.
Print Assumptions C02_no_creation_bid_create.
Theorem C02_no_creation_bid_unlock : forall (l : gmap key Z) (bidder conv payer fp : N) (fee : Z), 0 <= fee -> nonneg l ->
  no_creation (unlock_ops l bidder conv ++ fee_ops payer fp fee) /\ credits_ok (unlock_ops l bidder conv ++ fee_ops payer fp fee) /\
  takes_only_from (unlock_ops l bidder conv ++ fee_ops payer fp fee) [bidder; payer] /\
  forall a c, a <> payer -> holdings a c (run_tx l (unlock_ops l bidder conv)) = holdings a c l.
Proof. exact bid_unlock_stmt. Qed.
Print Assumptions C02_no_creation_bid_unlock.
Theorem C02_no_creation_bid_owner_accept : forall (l : gmap key Z) (bidder owner conv payer fp : N) (fee : Z) ops, 0 <= fee -> nonneg l ->
  effect_bid_owner_accept l bidder owner conv = Some ops ->
  no_creation (ops ++ fee_ops payer fp fee) /\ credits_ok (ops ++ fee_ops payer fp fee) /\ takes_only_from (ops ++ fee_ops payer fp fee) [bidder; payer].
Proof. exact bid_owner_accept_stmt. Qed.
Print Assumptions C02_no_creation_bid_owner_accept.
Theorem C02_no_creation_bid_bidder_accept : forall bidder owner c payer fp fee ops, 0 <= fee -> effect_bid_bidder_accept bidder owner c = Some ops ->
  no_creation (ops ++ fee_ops payer fp fee) /\ credits_ok (ops ++ fee_ops payer fp fee) /\ takes_only_from (ops ++ fee_ops payer fp fee) [bidder; payer].
Proof. exact bid_bidder_accept_stmt. Qed.
Print Assumptions C02_no_creation_bid_bidder_accept.
(* the former witness of finding C02.bid_negative_amount (fixed by f99f70a) is rejected; an ordinary bid locks, a counter offer unlocks *)
Example C02_former_witness_bid_negative_rejected :
  effect_bid_create true 0 1 7 (-5) false 0 = None /\ effect_bid_create true 0 1 7 5 false 0 = Some [Move (bal 1 0) (esc 1 7) 5] /\
  (let l := ladd (ladd ∅ (bal 1 0) 95) (esc 1 7) 5 in effect_bid_counter l true 0 1 7 9 = Some [Move (esc 1 7) (bal 1 0) 5] /\
   effect_bid_counter l true 0 1 7 5 = None /\ total 0 (run_tx l (unlock_ops l 1 7)) = 100 /\ holdings 1 0 (run_tx l (unlock_ops l 1 7)) = 100).
Proof. vm_compute. repeat split; reflexivity. Qed.

(* ---------------- wrapped currencies: "for wrapped currencies, [the total grows only] by locks or failed-redeem refunds" ----------------
   the mint of a finalised lock creates exactly the locked amount in its currency; a redeem destroys; the refund of a failed
   redeem restores exactly what that redeem burnt (burn .. refund is neutral, whatever happens in between) *)
Theorem C02_eth_lock_mint_is_the_allowance : forall owner cur locked c,
  minted c (effect_eth_lock_mint owner cur locked) - burned c (effect_eth_lock_mint owner cur locked) = if (cur =? c)%N then locked else 0.
Proof. exact eth_lock_mint_stmt. Qed.
Print Assumptions C02_eth_lock_mint_is_the_allowance.
Theorem C02_eth_redeem_then_refund_neutral : forall owner cur amount ops mid c, effect_eth_redeem_burn owner cur amount = Some ops ->
  minted c (ops ++ mid ++ effect_eth_redeem_refund owner cur amount) - burned c (ops ++ mid ++ effect_eth_redeem_refund owner cur amount)
  = minted c mid - burned c mid.
Proof. exact eth_redeem_then_refund_stmt. Qed.
Print Assumptions C02_eth_redeem_then_refund_neutral.
Theorem C02_no_creation_eth_redeem : forall owner cur amount payer fp fee ops, 0 <= fee -> effect_eth_redeem_burn owner cur amount = Some ops ->
  no_creation (ops ++ fee_ops payer fp fee) /\ credits_ok (ops ++ fee_ops payer fp fee) /\ takes_only_from (ops ++ fee_ops payer fp fee) [owner; payer].
Proof. exact eth_redeem_burn_stmt. Qed.
Print Assumptions C02_no_creation_eth_redeem.
(* a refund that differs from the burn is NOT neutral (what the monitor "refund of tracker T = amount burnt at T's creation" looks for) *)
Example C02_ex_refund_must_equal_burn :
  let l := ladd ∅ (bal 1 1) 500 in
  total 1 (run_tx l ([Burn (bal 1 1) 200] ++ effect_eth_redeem_refund 1 1 200)) = 500 /\
  total 1 (run_tx l ([Burn (bal 1 1) 1] ++ effect_eth_redeem_refund 1 1 100000)) = 100499.
Proof. vm_compute. auto. Qed.

(* ---------------- OLVM transactions: transfer, call, contract creation at the transaction level ---------------- *)
Theorem C02_no_creation_olvm : forall sender target fp value reverted fee ops, effect_olvm sender target fp value reverted fee = Some ops ->
  no_creation ops /\ credits_ok ops /\ takes_only_from ops [sender].
Proof. exact olvm_stmt. Qed.
Print Assumptions C02_no_creation_olvm.
(* a contract creation conserves every total WHATEVER the new contract's address already held, and the contract ends with exactly
   what the address held plus the endowment *)
Theorem C02_olvm_creation_conserves : forall (l : gmap key Z) sender target fp value fee ops c, sender <> target ->
  effect_olvm sender target fp value false fee = Some ops -> forall l', apply_ops l ops = Some l' ->
  total c l' = total c l /\ lget l' (bal target CUR_OLT) = lget l (bal target CUR_OLT) + value.
Proof. exact olvm_create_conserves. Qed.
Print Assumptions C02_olvm_creation_conserves.
Example C02_ex_creation_at_a_funded_address :
  let l := ladd (ladd ∅ (bal 1 0) 1000) (bal 7 0) 400 in
  match effect_olvm 1 7 9 5 false 30 with
  | Some ops => lget (run_tx l ops) (bal 7 0) = 405 /\ total 0 (run_tx l ops) = 1400
  | None => False
  end.
Proof. vm_compute. auto. Qed.

(* C02_no_creation_domain_purchase above holds for ALL buyer / seller, equal ones included: when the owner buys its own name on
   sale the asking price moves from the account to itself and only the rest of the offer (to the fee pool) leaves it *)
Example C02_ex_owner_buys_its_own_name :
  let l := ladd ∅ (bal 1 0) 1000 in
  match effect_domain_purchase true 0 1 9 60 true 50 1 0 with
  | Some ops => total 0 (run_tx l ops) = 1000 /\ lget (run_tx l ops) (bal 1 0) = 990 /\ lget (run_tx l ops) (feepool 9) = 10
  | None => False
  end.
Proof. vm_compute. auto. Qed.

(* a transaction that creates nothing does not raise the total; lifted to blocks / histories by C02_block_total_bound *)
Theorem C02_no_creation_total : forall c l ops, no_creation ops -> total c (run_tx l ops) <= total c l.
Proof. exact no_creation_total. Qed.
Print Assumptions C02_no_creation_total.

(* ---------------- block hooks ---------------- *)
(* BeginBlock creates exactly the accrued delegation rewards (OLT) - the allowance - and nothing in other currencies *)
Theorem C02_accrual_is_the_allowance : forall c accr,
  minted c (accrual_ops accr) - burned c (accrual_ops accr) = if (c =? CUR_OLT)%N then accrued accr else 0.
Proof. exact accrual_minted. Qed.
Print Assumptions C02_accrual_is_the_allowance.
(* the end-block fee distribution moves within the fee bucket (creates nothing) and its floor shares are >= 0 *)
Theorem C02_fee_distribution_conservative : forall fp total minfee tp vals, forallb conservative (fee_dist_ops fp total minfee tp vals) = true.
Proof. exact fee_dist_conservative. Qed.
Print Assumptions C02_fee_distribution_conservative.
Theorem C02_fee_distribution_credits : forall fp total minfee tp vals, 0 <= total -> forallb credit_nonneg (fee_dist_ops fp total minfee tp vals) = true.
Proof. exact fee_dist_credits. Qed.
Print Assumptions C02_fee_distribution_credits.
(* the allegation penalty (guilty verdict at EndBlock) destroys at least what the bounty program receives: for every ledger,
   validator, option values with 0 <= bounty% <= bountyDecimals; C19 proves the penalty's size and the verdict rule *)
Theorem C02_no_creation_allegation_penalty : forall (l : gmap key Z) (stake val bounty : N) (pct dec bpct bdec : Z),
  0 <= val_total l val -> 0 <= pct -> 0 < dec -> 0 <= bpct <= bdec -> 0 < bdec ->
  no_creation (penalty_ops l stake val bounty pct dec bpct bdec) /\ credits_ok (penalty_ops l stake val bounty pct dec bpct bdec) /\
  takes_only_from (penalty_ops l stake val bounty pct dec bpct bdec) [stake].
Proof. exact penalty_ops_facts. Qed.
Print Assumptions C02_no_creation_allegation_penalty.
Example C02_ex_penalty : let l := ladd ∅ (mk 3 B_STAKE 0 4) (3000000 * E18) in
  penalty_ops l 3 4 8 30 100 50 100 = [Burn (mk 3 B_STAKE 0 4) (900000 * E18); Mint (bal 8 0) (450000 * E18)].
Proof. vm_compute. reflexivity. Qed.
Example C02_ex_fee_distribution : fee_dist_ops 9 100 10 7 [(1%N, 3); (2%N, 4); (3%N, 0)] =
  [Move (feepool 9) (mk 1 B_FEE 0 0) 42; Move (feepool 9) (mk 2 B_FEE 0 0) 57].
Proof. vm_compute. reflexivity. Qed.
Example C02_ex_stake_int64 : effect_stake true 0 1 2 (2 ^ 64) = None /\ effect_stake true 0 1 2 5 = Some [Burn (bal 1 0) (5 * E18); Mint (mk 1 B_STAKE 0 2) (5 * E18)].
Proof. vm_compute. auto. Qed.

(* non-vacuity / the hypotheses matter *)
Definition kA : key := mk 1 B_BAL 0 0.
Definition kB : key := mk 2 B_BAL 0 0.
Definition l_ex : gmap key Z := ladd (ladd ∅ kA 100) kB 5.
Example C02_ex_move : total 0 (run_tx l_ex [Move kA kB 30]) = 105 /\ lget (run_tx l_ex [Move kA kB 30]) kB = 35.
Proof. vm_compute. auto. Qed.
Example C02_ex_refused_is_noop : run_tx l_ex [Move kA kB 30; Burn kB 1000] = l_ex.
Proof. vm_compute. reflexivity. Qed.
(* a negative amount reaching a guarded subtraction is a credit: without the per-kind validation guards
   the ledger primitives themselves do create value (this is why every effect function has its guard) *)
Example C02_negative_burn_creates_refuted : total 0 (run_tx l_ex [Burn kA (-7)]) = 112 /\ surplus 0 [Burn kA (-7)] = 7.
Proof. vm_compute. auto. Qed.
Example C02_negative_move_goes_negative_refuted : lget (run_tx l_ex [Move kA kB (-9)]) kB = -4.
Proof. vm_compute. reflexivity. Qed.
