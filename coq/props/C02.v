(* C02 — no value creation.
   Only property theorems here, each closed by [exact <lemma>]; proofs are in proofs/LedgerProofs.v
   (generic ledger) and proofs/LedgerTxProofs.v (per transaction kind).
   Model: theories/Ledger.v (records, guarded subtraction, atomic operation lists),
          theories/LedgerTx.v (effect functions written after the Go handlers). *)
From stdpp Require Import gmap list.
From Coq Require Import ZArith NArith.
From OL Require Import theories.Ledger theories.LedgerTx proofs.LedgerProofs.
Local Open Scope Z_scope.

(* ---------------- generic: every operation list, block and history ---------------- *)

(* exact accounting, for every currency, ledger and operation list that applies:
   total after = total before + created - destroyed *)
Theorem C02_total_exact : forall c l ops l', apply_ops l ops = Some l' ->
  total c l' = total c l + minted c ops - burned c ops.
Proof. exact total_exact. Qed.
Print Assumptions C02_total_exact.

(* a Move between two counted records of one currency creates nothing *)
Theorem C02_move_creates_nothing : forall c s d v, conservative (Move s d v) = true -> op_mint c (Move s d v) = 0.
Proof. exact move_mints_nothing. Qed.
Print Assumptions C02_move_creates_nothing.

(* a transaction is atomic; the total grows by at most its surplus max(0, created - destroyed) *)
Theorem C02_tx_total_bound : forall c l ops, total c (run_tx l ops) <= total c l + surplus c ops.
Proof. exact run_tx_total_bound. Qed.
Print Assumptions C02_tx_total_bound.

Theorem C02_block_total_bound : forall c txs l, total c (run_block l txs) <= total c l + block_surplus c txs.
Proof. exact run_block_total_bound. Qed.
Print Assumptions C02_block_total_bound.

Theorem C02_history_total_bound : forall c bs l, total c (run_history l bs) <= total c l + history_surplus c bs.
Proof. exact run_history_total_bound. Qed.
Print Assumptions C02_history_total_bound.

(* a block all of whose steps stay within their allowance (0 for user transactions) stays within the sum *)
Theorem C02_block_within_allowance : forall c txs allow,
  Forall2 (fun ops a => minted c ops - burned c ops <= a /\ 0 <= a) txs allow ->
  block_surplus c txs <= fold_right Z.add 0 allow.
Proof. exact block_surplus_bound. Qed.
Print Assumptions C02_block_within_allowance.

(* no stored amount becomes negative: subtractions are guarded, so it is enough that added amounts are >= 0 *)
Theorem C02_nonneg_tx : forall l ops, nonneg l -> forallb credit_nonneg ops = true -> nonneg (run_tx l ops).
Proof. exact run_tx_nonneg. Qed.
Print Assumptions C02_nonneg_tx.

Theorem C02_nonneg_history : forall bs l, nonneg l ->
  Forall (Forall (fun ops => forallb credit_nonneg ops = true)) bs -> nonneg (run_history l bs).
Proof. exact run_history_nonneg. Qed.
Print Assumptions C02_nonneg_history.

(* non-vacuity / the hypotheses matter *)
Definition kA : key := mk 1 B_BAL 0 0.
Definition kB : key := mk 2 B_BAL 0 0.
Definition l_ex : gmap key Z := ladd (ladd ∅ kA 100) kB 5.
Example C02_ex_move : total 0 (run_tx l_ex [Move kA kB 30]) = 105 /\ lget (run_tx l_ex [Move kA kB 30]) kB = 35.
Proof. vm_compute. auto. Qed.
Example C02_ex_refused_is_noop : run_tx l_ex [Move kA kB 30; Burn kB 1000] = l_ex.
Proof. vm_compute. reflexivity. Qed.
(* a negative amount reaching a guarded subtraction is a credit: without the per-kind validation guards
   the ledger primitives themselves do create value (this is why every effect function has its guard) *)
Example C02_negative_burn_creates_refuted : total 0 (run_tx l_ex [Burn kA (-7)]) = 112 /\ surplus 0 [Burn kA (-7)] = 7.
Proof. vm_compute. auto. Qed.
Example C02_negative_move_goes_negative_refuted : lget (run_tx l_ex [Move kA kB (-9)]) kB = -4.
Proof. vm_compute. reflexivity. Qed.
