(* C08 — crash-restart equivalence.  Only property theorems here. *)
From stdpp Require Import gmap list.
From Coq Require Import ZArith String.
From OL Require Import theories.Store theories.Abci theories.Restart theories.Caches
  proofs.StoreProofs proofs.AbciProofs proofs.RestartProofs gen.Facts_Caches
  theories.Globals proofs.GlobalsProofs gen.Facts_Globals
  theories.Options proofs.OptionsProofs gen.Facts_Options.
Local Open Scope Z_scope.

(* after a crash at ANY call boundary of ANY block (arbitrary hook, handler and fee programs),
   the restarted node reports the version and tree of its last completed commit *)
Theorem C08_info : forall s b c, durable s -> info (do_reopen (run_cut s b c)) = info s.
Proof. exact info_after_crash. Qed.
Print Assumptions C08_info.

(* replaying the interrupted block from the restarted node yields exactly the transcript
   (hook verdicts, per-transaction verdicts, committed version, committed tree and tree-call
   log, hence root hash) and exactly the state of a node that never stopped *)
Theorem C08_replay_block : forall s b c, durable s ->
  run_blk (do_reopen (run_cut s b c)) b = run_blk s b.
Proof. exact replay_after_crash. Qed.
Print Assumptions C08_replay_block.

(* every commit makes the next state durable, so the argument iterates *)
Theorem C08_commit_durable : forall s b, rot_ok s ->
  durable (run_blk s b).2 /\ rot_ok (run_blk s b).2.
Proof. exact run_blk_durable. Qed.

(* whole histories: any number of blocks, each dying at any list of call boundaries (repeated
   crashes) and optionally right after its commit: same transcripts; the final states differ at
   most in the ghost LastVersion field that nothing reads *)
Theorem C08_chain : forall bs s lv, durable s -> rot_ok s ->
  (run_chain_crashy (with_lv s lv) bs).1 = (run_chain s (map cb_blk bs)).1 /\
  exists lv', (run_chain_crashy (with_lv s lv) bs).2 = with_lv (run_chain s (map cb_blk bs)).2 lv'.
Proof. exact crashy_chain. Qed.
Print Assumptions C08_chain.

(* non-vacuity: a committed non-empty state is durable; a block that writes in BeginBlock,
   delivers a failing and a succeeding transaction and deletes in EndBlock, crashed after its
   first transaction and again before Commit, replays to the same transcript *)
Example C08_nonvacuous :
  let r0 := {| recent := 1; every := 0; cycles := 0 |} in
  let s0 := (run_blk (init r0) {| b_limit := None; b_begin := PSet 1%N [5%N] (fun _ => Ret true);
                                  b_txs := []; b_end := Ret true |}).2 in
  let b := {| b_limit := Some 100000; b_begin := PSet 2%N [6%N] (fun _ => Ret true);
              b_txs := [(PSet 3%N [7%N] (fun _ => Ret false), fun _ => Ret true);
                        (PSet 4%N [8%N] (fun _ => Ret true), fun _ => Ret true)];
              b_end := PDel 1%N (Ret true) |} in
  saved s0 !! version s0 = Some (tree s0) /\ tree s0 !! 1%N = Some [5%N] /\
  (run_blk_crashy s0 b [CutTx 1; CutEnd]).1 = (run_blk s0 b).1 /\
  r_txs (run_blk s0 b).1 = [false; true] /\ r_tree (run_blk s0 b).1 !! 1%N = None.
Proof. vm_compute. repeat split; reflexivity. Qed.

(* tie to the source (regenerated on every run): every in-memory field of the long-lived
   application objects is of a class for which restart coherence has been argued:
   - StatePtr/Inert/Root/Structural: no content of their own;
   - OptionCopy: loaded by Prepare() from the committed governance store at start-up and
     rewritten together with the store at finalisation (exercised by the restart twin runs with
     governance histories);
   - PerBlock: rebuilt from committed state at BeginBlock before use (ValidatorStore.Setup,
     RewardCalculator.Reset, governance Store.WithHeight) or drained at EndBlock;
   - PerTx: the EVM adapter's objects/journal/logs, emptied by Finalise/Reset;
   - CycleCache: the reward calculator's per-cycle cache, recomputed on a miss (C13).
   A field outside these classes is an open obligation. *)
Theorem C08_fact_caches : unknown_fields cache_fields = [].
Proof. vm_compute. reflexivity. Qed.

(* no variable is captured by the closures that serve the ABCI calls: nothing survives from one
   request to the next outside the objects classified above *)
Theorem C08_fact_closures : closure_vars = [].
Proof. vm_compute. reflexivity. Qed.

Example C08_fact_caches_nonvacuous :
  (50 <=? Z.of_nat (List.length cache_fields)) = true /\
  (5 <=? Z.of_nat (count_class (fun c => match c with OptionCopy => true | _ => false end) cache_fields)) = true /\
  (8 <=? Z.of_nat (count_class (fun c => match c with PerBlock => true | _ => false end) cache_fields)) = true /\
  (20 <=? Z.of_nat (count_class (fun c => match c with PerTx => true | _ => false end) cache_fields)) = true /\
  count_class (fun c => match c with CycleCache => true | _ => false end) cache_fields = 1%nat.
Proof. vm_compute. repeat split; reflexivity. Qed.

(* ---------- process-local memory outside the object graph, node-local inputs ---------- *)
(* A process that is restarted loses its package-level variables and may find other node-local
   data (the job store, the witness flag read at start).  What is persisted must not depend on
   them.  Model: theories/Globals.v (the ETH lock-tracker transitions as the block ender runs them). *)
Theorem C08_tracker_state_independent_of_local_inputs : forall h1 h2 t,
  same_inputs h1 h2 -> writes_ok h1 = true -> writes_ok h2 = true ->
  run false t h1 = run false t h2.
Proof. exact run_local_independent. Qed.

Theorem C08_tracker_step_is_consensus_step : forall t l,
  l_write_ok l = true -> persisted false t l = consensus_step t.
Proof. exact persisted_is_consensus_step. Qed.

(* necessity (the repaired defect 3dd4152): with "a missing broadcast job is an error" the node that
   was restarted (witness flag on, no job) keeps the tracker in BusyBroadcasting *)
Example C08_old_finalizing_depends_on_the_job_store :
  let t := {| t_state := 1; t_votes := 1; t_finalized := false |} in
  t_state (persisted true t node_with_job) = 2%nat /\
  t_state (persisted true t fresh_node) = 2%nat /\
  t_state (persisted true t node_restarted_without_job) = 1%nat /\
  t_state (persisted false t node_restarted_without_job) = 2%nat.
Proof. exact old_finalizing_node_dependent. Qed.

Example C08_tracker_history_nonvacuous :
  let t0 := {| t_state := 0; t_votes := 0; t_finalized := false |} in
  let cin := [EndBlock; Vote false; EndBlock; Vote true; EndBlock; EndBlock] in
  let h1 := map (fun c => (c, node_with_job)) cin in
  let h2 := map (fun c => (c, node_restarted_without_job)) cin in
  same_inputs h1 h2 /\ writes_ok h1 = true /\ writes_ok h2 = true /\
  t_state (run false t0 h1) = 3%nat /\ run false t0 h1 = run false t0 h2 /\
  t_state (run true t0 h2) = 1%nat.
Proof. exact run_reaches_finalized. Qed.

(* tie to the source (regenerated on every run):
   - every package-level variable written at run time is a constant of the process image (init only),
     a registry filled from init functions, or the one audited node-local flag;
   - the functions that consult the witness flag or look a job up are exactly the audited ones;
   - no function of package event assigns a tracker state and later fails on a job LOOKUP (the shape of
     the repaired defect); failures of a job WRITE (the node's own database) are the audited ones. *)
Theorem C08_fact_globals : unknown_globals written_globals = [] /\ node_flags written_globals = ["identity.isETHWitness"%string].
Proof. vm_compute. split; reflexivity. Qed.

Theorem C08_fact_local_reads : unaudited_reads local_reads = [].
Proof. vm_compute. reflexivity. Qed.

Theorem C08_fact_state_then_local_error :
  state_then_lookup_error = [] /\ unaudited_write_errors state_then_write_error = [].
Proof. vm_compute. split; reflexivity. Qed.

Example C08_fact_globals_nonvacuous :
  (20 <=? Z.of_nat (List.length written_globals)) = true /\ (15 <=? Z.of_nat (List.length local_reads)) = true /\
  (3 <=? Z.of_nat (List.length state_then_write_error)) = true.
Proof. vm_compute. repeat split; reflexivity. Qed.
Print Assumptions C08_tracker_state_independent_of_local_inputs.
Print Assumptions C08_tracker_step_is_consensus_step.
Print Assumptions C08_fact_globals.
Print Assumptions C08_fact_local_reads.
Print Assumptions C08_fact_state_then_local_error.
Print Assumptions C08_fact_closures.

(* ---------- the in-memory copies of governance options across a restart (theories/Options.v) ----------
   A restarted process rebuilds each copy from the committed record: whatever the old process held, the
   consensus reads after the restart return the option as persisted — for every continuation with block
   starts, finalisations, commits, further restarts and mempool checks under the writer discipline. *)
Theorem C08_option_copy_after_restart : forall post s, disciplined post = true ->
  snd (orun s (OStart :: post)) = snd (srun s (OStart :: post)).
Proof. exact option_restart_coherent. Qed.
Print Assumptions C08_option_copy_after_restart.

(* tie to the source (regenerated on every run): every copy that has a reader on a consensus path is set
   by App.Prepare (the start-up path of an initialised chain); the callers of every accessor are audited —
   a handler that starts reading a copy Prepare does not rebuild (the ONS options of the domain store) is
   not in the table — and the writer discipline of C07 holds *)
Theorem C08_fact_option_copies_restored :
  not_restored option_accessor_calls = [] /\ unaudited_calls option_accessor_calls = [] /\
  foreign_uses option_field_uses = [] /\ early_writes option_accessor_calls = [] /\ unaudited_modes update_mode_calls = [].
Proof. vm_compute. repeat split; reflexivity. Qed.

Example C08_fact_option_copies_nonvacuous :
  not_restored [("data/fees.Store.SetupOpt"%string, "app.App.blockBeginner"%string, false)] <> [] /\
  unaudited_calls [("data/ons.DomainStore.GetOptions"%string, "action/ons.runRenew"%string, false)] <> [].
Proof. vm_compute. split; discriminate. Qed.
