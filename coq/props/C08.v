(* C08 — crash-restart equivalence.  Only property theorems here. *)
From stdpp Require Import gmap list.
From Coq Require Import ZArith String.
From OL Require Import theories.Store theories.Abci theories.Restart theories.Caches
  proofs.StoreProofs proofs.AbciProofs proofs.RestartProofs gen.Facts_Caches.
Local Open Scope Z_scope.

(* after a crash at ANY call boundary of ANY block (arbitrary hook, handler and fee programs),
   the restarted node reports the version and tree of its last completed commit *)
Theorem C08_info : forall s b c, durable s -> info (do_reopen (run_cut s b c)) = info s.
Proof. exact info_after_crash. Qed.
Print Assumptions C08_info.

(* replaying the interrupted block from the restarted node yields exactly the transcript
   (hook verdicts, per-transaction verdicts, committed version, committed tree and tree-call
   log, hence root hash) and exactly the state of a node that never stopped *)
Theorem C08_replay_block : forall s b c, durable s ->
  run_blk (do_reopen (run_cut s b c)) b = run_blk s b.
Proof. exact replay_after_crash. Qed.
Print Assumptions C08_replay_block.

(* every commit makes the next state durable, so the argument iterates *)
Theorem C08_commit_durable : forall s b, rot_ok s ->
  durable (run_blk s b).2 /\ rot_ok (run_blk s b).2.
Proof. exact run_blk_durable. Qed.

(* whole histories: any number of blocks, each dying at any list of call boundaries (repeated
   crashes) and optionally right after its commit: same transcripts; the final states differ at
   most in the ghost LastVersion field that nothing reads *)
Theorem C08_chain : forall bs s lv, durable s -> rot_ok s ->
  (run_chain_crashy (with_lv s lv) bs).1 = (run_chain s (map cb_blk bs)).1 /\
  exists lv', (run_chain_crashy (with_lv s lv) bs).2 = with_lv (run_chain s (map cb_blk bs)).2 lv'.
Proof. exact crashy_chain. Qed.
Print Assumptions C08_chain.

(* non-vacuity: a committed non-empty state is durable; a block that writes in BeginBlock,
   delivers a failing and a succeeding transaction and deletes in EndBlock, crashed after its
   first transaction and again before Commit, replays to the same transcript *)
Example C08_nonvacuous :
  let r0 := {| recent := 1; every := 0; cycles := 0 |} in
  let s0 := (run_blk (init r0) {| b_limit := None; b_begin := PSet 1%N [5%N] (fun _ => Ret true);
                                  b_txs := []; b_end := Ret true |}).2 in
  let b := {| b_limit := Some 100000; b_begin := PSet 2%N [6%N] (fun _ => Ret true);
              b_txs := [(PSet 3%N [7%N] (fun _ => Ret false), fun _ => Ret true);
                        (PSet 4%N [8%N] (fun _ => Ret true), fun _ => Ret true)];
              b_end := PDel 1%N (Ret true) |} in
  saved s0 !! version s0 = Some (tree s0) /\ tree s0 !! 1%N = Some [5%N] /\
  (run_blk_crashy s0 b [CutTx 1; CutEnd]).1 = (run_blk s0 b).1 /\
  r_txs (run_blk s0 b).1 = [false; true] /\ r_tree (run_blk s0 b).1 !! 1%N = None.
Proof. vm_compute. repeat split; reflexivity. Qed.

(* tie to the source (regenerated on every run): every in-memory field of the long-lived
   application objects is of a class for which restart coherence has been argued:
   - StatePtr/Inert/Root/Structural: no content of their own;
   - OptionCopy: loaded by Prepare() from the committed governance store at start-up and
     rewritten together with the store at finalisation (exercised by the restart twin runs with
     governance histories);
   - PerBlock: rebuilt from committed state at BeginBlock before use (ValidatorStore.Setup,
     RewardCalculator.Reset, governance Store.WithHeight) or drained at EndBlock;
   - PerTx: the EVM adapter's objects/journal/logs, emptied by Finalise/Reset;
   - CycleCache: the reward calculator's per-cycle cache, recomputed on a miss (C13).
   A field outside these classes is an open obligation. *)
Theorem C08_fact_caches : unknown_fields cache_fields = [].
Proof. vm_compute. reflexivity. Qed.

Example C08_fact_caches_nonvacuous :
  (50 <=? Z.of_nat (List.length cache_fields)) = true /\
  (5 <=? Z.of_nat (count_class (fun c => match c with OptionCopy => true | _ => false end) cache_fields)) = true /\
  (8 <=? Z.of_nat (count_class (fun c => match c with PerBlock => true | _ => false end) cache_fields)) = true /\
  (20 <=? Z.of_nat (count_class (fun c => match c with PerTx => true | _ => false end) cache_fields)) = true /\
  count_class (fun c => match c with CycleCache => true | _ => false end) cache_fields = 1%nat.
Proof. vm_compute. repeat split; reflexivity. Qed.
