(* C11 — stake lifecycle: unstaked funds unlock only after maturity, exactly once.
   Only statements here; proofs are in proofs/StakeProofs.v, the model in theories/Stake.v. *)
From stdpp Require Import gmap list.
Require Import ZArith.
From OL Require Import theories.Stake proofs.StakeProofs.
Open Scope Z_scope.

(* ---- the validator's total equals the sum of its delegators' locked amounts ---- *)
(* FULL since fix cb71748 (the allegation penalty is applied all or nothing): every history, every
   environment input, every verdict; no guard. *)
Theorem C11_validator_total : forall os,
  let s := run empty_state os in
  (forall v, zget (vtot s) v = esum_v s v) /\ (forall d, zget (deff s) d = esum_d s d).
Proof. exact validator_total. Qed.
Print Assumptions C11_validator_total.

(* the former witness of C11_validator_total_refuted_1 (finding C11.penalty_not_atomic, replayed on
   the real application on every run): stake address changed in the block of the verdict *)
Definition w_penalty : list op :=
  [OGenStake 1 2 3000000; OGenStake 5 6 2998000; OBegin []; OEnd 1 [];
   OBegin []; OUnstake 5 6 2998000 false false 2 0 false false; OEnd 2 [];
   OBegin []; OWithdraw 5 6 2998000 false false; OStake 5 12 5000 false (1000000 * base) 3 0 false false;
   OEnd 3 [(5%positive, 30, 100)]].
Example C11_former_witness_penalty_holds :
  let s := run empty_state w_penalty in
  zget (vtot s) 5%positive = 5000 /\ esum_v s 5%positive = 5000 /\ zget (eff s) (5%positive, 12%positive) = 5000 /\ pend s = [].
Proof. vm_compute. repeat split. Qed.

(* ---- nothing happens while the validator named in the transaction is frozen ---- *)
Theorem C11_frozen : forall s v d a bal h m ro pb ff,
  step s (OStake v d a true bal h m pb ff) = (s, false) /\
  step s (OUnstake v d a true ro h m pb ff) = (s, false) /\
  step s (OWithdraw v d a true ff) = (s, false).
Proof. exact frozen_no_effect. Qed.
Print Assumptions C11_frozen.

(* ... but "nothing can be withdrawn while the delegator's validator is frozen" is refuted: the
   frozen flag consulted is that of the validator NAMED in the WITHDRAW (trigger
   C11.withdraw_names_other_validator); validator 5 (stake account 6) is frozen, 11 is not *)
Definition w_sidestep : list op :=
  [OGenStake 5 6 2998000; OBegin []; OEnd 1 []; OBegin []; OUnstake 5 6 1000 false false 2 2 false false; OEnd 2 [];
   OBegin []; OEnd 3 []; OBegin []; OEnd 4 []].
Theorem C11_frozen_refuted_1 : exists os o,
  let s := run empty_state os in
  o = OWithdraw 11 6 400 false false /\ frozen_owner s [5%positive] 6%positive = true /\
  snd (step s o) = true /\ bal_delta o true = 400 * base.
Proof. exists w_sidestep, (OWithdraw 11 6 400 false false). vm_compute. repeat split. Qed.
Print Assumptions C11_frozen_refuted_1.

(* ---- withdrawn <= staked - penalised, exactly once (the central claim) ----
   FULL since fix 48c76fc (the handlers reject amounts outside [0, 2^63)): for every history of
   operations, every value of the environment inputs and every verdict, over a genesis with
   non-negative amounts.  Whole OLT, base units on the balance side, and the conservation law: what
   was staked and not penalised or withdrawn is exactly what is still locked (effective),
   withdrawable (bounded) or maturing — every unit in exactly one place, each place non-negative. *)
Theorem C11_withdraw_bounded : forall os,
  forallb gen_nonneg os = true ->
  let s := run empty_state os in
  forall d,
    zget (g_withdrawn s) d <= zget (g_staked s) d - zget (g_pen s) d /\
    zget (g_out s) d <= zget (g_in s) d - zget (g_pen s) d * base /\
    zget (g_staked s) d - zget (g_pen s) d - zget (g_withdrawn s) d
      = zget (deff s) d + zget (dbnd s) d + maturing s d /\
    0 <= zget (deff s) d /\ 0 <= zget (dbnd s) d /\ 0 <= maturing s d.
Proof. exact withdraw_bounded. Qed.
Print Assumptions C11_withdraw_bounded.

(* non-vacuity: a history in which something IS withdrawn (1000 of 2998000, after maturity) *)
Definition w_life : list op :=
  [OGenStake 5 6 2998000; OBegin []; OEnd 1 []; OBegin []; OUnstake 5 6 1000 false false 2 2 false false; OEnd 2 [];
   OBegin []; OEnd 3 []; OBegin []; OEnd 4 []; OBegin []; OWithdraw 5 6 1000 false false; OEnd 5 []].
Example C11_withdraw_bounded_nonvacuous :
  forallb gen_nonneg w_life = true /\ zget (g_withdrawn (run empty_state w_life)) 6%positive = 1000 /\
  zget (g_out (run empty_state w_life)) 6%positive = 1000 * base.
Proof. vm_compute. repeat split. Qed.

(* amounts that are negative or do not fit int64 are rejected by all three handlers *)
Theorem C11_amount_out_of_range_rejected : forall s v d a fz bal h m ro pb ff,
  amount_ok a = false ->
  step s (OStake v d a fz bal h m pb ff) = (s, false) /\
  step s (OUnstake v d a fz ro h m pb ff) = (s, false) /\
  step s (OWithdraw v d a fz ff) = (s, false).
Proof. exact out_of_range_rejected. Qed.
Print Assumptions C11_amount_out_of_range_rejected.

(* the former witnesses of C11_withdraw_bounded_refuted_1/_2 (findings C11.stake_amount_ge_2p63,
   C11.negative_amount_deliver; replayed on the real application on every run) are now rejected *)
Example C11_former_witness_2p64_rejected :
  trig_narrow (OStake 9 10 (2^64) false (1000000 * base) 2 2 false false) = true /\
  step empty_state (OStake 9 10 (2^64) false (1000000 * base) 2 2 false false) = (empty_state, false).
Proof. split; vm_compute; reflexivity. Qed.
Example C11_former_witness_negative_rejected :
  trig_negative (OStake 11 12 (-100) false (1000000 * base) 2 2 false false) = true /\
  step empty_state (OStake 11 12 (-100) false (1000000 * base) 2 2 false false) = (empty_state, false) /\
  step empty_state (OWithdraw 3 4 (-7) false false) = (empty_state, false).
Proof. repeat split; vm_compute; reflexivity. Qed.

(* ---- the validator's recorded stake (v_) equals the validator total (st__t_) ----
   FULL since fixes e681066 (record deleted only when the CURRENT record is powerless; a negative
   record stake is refused), cb71748 (record update postponed only when the penalty was applied)
   and 0ce270f (the postponed update is not subject to the purge-height rule): for every history,
   every environment input and every verdict, the record's stake equals the total plus the penalty
   decided in the last end-block and still to be applied by the next BeginBlock (pend = [] after
   every BeginBlock), the power equals the stake, and a validator without a record has no locked
   stake.  Environment assumptions (record_env_violated = false at every step; none of them is a
   trigger of a defect):
     - genesis amounts are non-negative                                    (gen_nonneg)
     - no validator record reaches 2^63 whole OLT (calculatePower narrows;
       more than the total supply by nine orders of magnitude)             (stake_overflow)
     - PenaltyBasePercentage >= 0 and PenaltyBaseDecimals > 0               (verdict_params_ok) *)
Theorem C11_validator_record : forall os,
  guarded record_env_violated empty_state os = true ->
  let s := run empty_state os in
  forall v,
    match vrecs s !! v with
    | Some r => vr_staking r = zget (vtot s) v + entries_of (pend s) v /\ vr_power r = vr_staking r /\ 0 <= vr_staking r
    | None => zget (vtot s) v = 0
    end.
Proof. exact validator_record. Qed.
Print Assumptions C11_validator_record.

(* non-vacuity: a history with stake, unstake, a verdict with penalty and the postponed update *)
Example C11_validator_record_nonvacuous :
  guarded record_env_violated empty_state
    [OGenStake 1 2 3000; OBegin []; OStake 1 2 500 false (10000 * base) 2 3 false false;
     OUnstake 1 2 700 false false 2 3 false false; OEnd 2 [(1%positive, 30, 100)]; OBegin []; OEnd 3 []] = true.
Proof. vm_compute. reflexivity. Qed.

(* the former witness of C11_validator_record_refuted_1 (finding C11.postponed_penalty_blocked, fixed
   by 0ce270f; replayed on the real application on every run): the verdict of block 3 reduces st__t_
   from 500 to 350; BeginBlock 4 — right after the purge of block 3 — now applies it to the record *)
Definition w_blocked : list op :=
  [OGenStake 5 6 2998000; OBegin []; OEnd 1 []; OBegin []; OUnstake 5 6 2997500 false false 2 2 false false; OEnd 2 [];
   OBegin []; OEnd 3 [(5%positive, 30, 100)]; OBegin [5%positive]; OEnd 4 []].
Example C11_former_witness_blocked_holds :
  trig_postponed_blocked (run empty_state (firstn 8 w_blocked)) (OBegin [5%positive]) = true /\
  guarded record_env_violated empty_state w_blocked = true /\
  vrecs (run empty_state w_blocked) !! 5%positive = Some (VRec 6%positive 350 350) /\
  zget (vtot (run empty_state w_blocked)) 5%positive = 350.
Proof. vm_compute. repeat split. Qed.

(* the former witness (finding C11.validator_record_deleted_with_stake, fixed by e681066): the record
   now survives the end-block and stays equal to the total *)
Definition w_deleted : list op :=
  [OGenStake 5 6 2998000; OBegin []; OEnd 1 [];
   OBegin []; OUnstake 5 6 2998000 false false 2 2 false false; OEnd 2 [];
   OBegin []; OStake 5 6 5000 false (1000000 * base) 3 2 false false; OEnd 3 [];
   OBegin []; OEnd 4 []; OBegin []; OStake 5 6 10 false (1000000 * base) 5 2 false false; OEnd 5 []].
Example C11_former_witness_deleted_holds :
  guarded record_env_violated empty_state w_deleted = true /\
  vrecs (run empty_state w_deleted) !! 5%positive = Some (VRec 6%positive 5010 5010) /\
  zget (vtot (run empty_state w_deleted)) 5%positive = 5010.
Proof. vm_compute. repeat split. Qed.

(* ---- maturity (step level) ---- *)
Theorem C11_maturity_unstake_entry : forall s v d a ro h m pb ff s',
  step s (OUnstake v d a false ro h m pb ff) = (s', true) ->
  mat s' = <[h + m := mat_at s (h + m) ++ [(d, a)]]> (mat s) /\ dbnd s' = dbnd s.
Proof. exact unstake_entry. Qed.
Print Assumptions C11_maturity_unstake_entry.

(* the withdrawable amount grows only in the end-block hook: no transaction and no begin-block
   raises anybody's withdrawable amount (FULL since fix 48c76fc) *)
Theorem C11_maturity_withdrawable : forall s o d',
  match o with OStake _ _ _ _ _ _ _ _ _ | OUnstake _ _ _ _ _ _ _ _ _ | OWithdraw _ _ _ _ _ | OBegin _ => True | _ => False end ->
  zget (dbnd (fst (step s o))) d' <= zget (dbnd s) d'.
Proof. exact withdrawable_not_growing_in_tx. Qed.
Print Assumptions C11_maturity_withdrawable.

(* ---- changes of the maturity option: only a FINALISED proposal counts ----
   (gstep: the life cycle with the maturity option read from its persisted value.)  Proposals about
   the option that are not finalised — created, only CheckTx'ed, refused, funded, voted — are a frame:
   dropping them from any history changes neither the state nor the option, hence no maturity
   height; and every unstake is recorded at height + the option in force in the store. *)
Theorem C11_maturity_unfinalised_proposals_frame : forall l gs,
  grun gs l = grun gs (filter (fun g => not_unfinalised g = true) l).
Proof. exact unfinalised_proposals_frame. Qed.
Print Assumptions C11_maturity_unfinalised_proposals_frame.

Theorem C11_maturity_option_in_force : forall s m v d a ro h m0 pb ff,
  snd (step s (OUnstake v d a false ro h m pb ff)) = true ->
  mat (fst (gstep (s, m) (GOp (OUnstake v d a false ro h m0 pb ff))))
    = <[h + m := mat_at s (h + m) ++ [(d, a)]]> (mat s).
Proof. exact gstep_unstake_entry. Qed.
Print Assumptions C11_maturity_option_in_force.

(* non-vacuity: a refused/unfinalised proposal for 3 blocks between stake and unstake leaves the entry
   at height + 109200; a finalised one for 150000 moves later entries *)
Example C11_maturity_proposals_nonvacuous :
  let l := [GOp (OGenStake 5 6 2998000); GOp (OBegin []); GProposal false 3;
            GOp (OUnstake 5 6 100 false false 2 0 false false); GProposal true 150000;
            GOp (OUnstake 5 6 200 false false 3 0 false false)] in
  mat_at (fst (grun (empty_state, 109200) l)) (2 + 109200) = [(6%positive, 100)] /\
  mat_at (fst (grun (empty_state, 109200) l)) (3 + 150000) = [(6%positive, 200)] /\
  mat_at (fst (grun (empty_state, 109200) l)) (2 + 3) = [].
Proof. vm_compute. repeat split. Qed.
