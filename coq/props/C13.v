(* C13 — block rewards stay within the pulled amount and the yearly schedule.
   Only property theorems here, each closed by [exact <lemma>]; proofs are in
   proofs/RewardsProofs.v, the model in theories/Rewards.v. *)
From Coq Require Import ZArith List Bool.
From OL Require Import theories.Rewards theories.RewardsCheck proofs.RewardsProofs gen.Facts_Consts.
Import ListNotations.
Local Open Scope Z_scope.

(* tie to the source: the commission constants of data/network_delegation/init.go (regenerated on
   every run) are percentages *)
Theorem C13_fact_consts : consts_ok K.
Proof. vm_compute. intuition discriminate. Qed.

(* (a) the split.  For ALL vote lists with distinct addresses and non-negative powers, all
   delegation-pool sizes (0 included), all delegator tables whose amounts are non-negative and
   sum to at most the pool balance (C12), every proposer and every non-negative pulled amount R:
   whatever handleBlockRewards credits to validators and delegators together is at most R, the
   amount reported to ConsumeRewards is at most R, and no credit is negative. *)
Theorem C13_split_bounded : forall k votes dp delegs proposer R out,
  consts_ok k -> 0 <= R -> 0 <= dp ->
  Forall (fun v => 0 <= v_power v) votes -> NoDup (map v_addr votes) ->
  Forall (fun d => 0 <= snd d) delegs -> zsum (map snd delegs) <= dp ->
  split k votes dp delegs proposer R = Some out ->
  zsum (map snd (so_vals out)) + zsum (map snd (so_delegs out)) <= R /\
  so_consumed out <= R /\
  Forall (fun c => 0 <= snd c) (so_vals out) /\
  Forall (fun c => 0 <= snd c) (so_delegs out).
Proof.
  intros k votes dp delegs proposer R out Hk HR Hdp Hp Hnd Hd Hs H.
  exact (split_bounded_lemma k votes dp delegs proposer R Hk HR Hdp Hp Hnd Hd Hs out H).
Qed.
Print Assumptions C13_split_bounded.

(* with the constants of the current source *)
Theorem C13_split_bounded_current : forall votes dp delegs proposer R out,
  0 <= R -> 0 <= dp ->
  Forall (fun v => 0 <= v_power v) votes -> NoDup (map v_addr votes) ->
  Forall (fun d => 0 <= snd d) delegs -> zsum (map snd delegs) <= dp ->
  split K votes dp delegs proposer R = Some out ->
  zsum (map snd (so_vals out)) + zsum (map snd (so_delegs out)) <= R.
Proof.
  intros votes dp delegs proposer R out HR Hdp Hp Hnd Hd Hs H.
  exact (proj1 (split_bounded_lemma K votes dp delegs proposer R C13_fact_consts HR Hdp Hp Hnd Hd Hs out H)).
Qed.
Print Assumptions C13_split_bounded_current.

(* non-vacuity: a concrete block with an absent signer, a pool and two delegators *)
Example C13_split_nonvacuous :
  split K [mkVote 1 3000 true true; mkVote 2 1000 false true; mkVote 3 1 true true]
        (7 * UNIT) [(10, 3 * UNIT); (11, 4 * UNIT)] 3 (1000000007)
  = Some (mkSplit [(1, 748764451); (3, 336912)] [(10, 561377); (11, 748502)] 750411243).
Proof. vm_compute. reflexivity. Qed.

(* the hypothesis "distinct addresses" is necessary: the power map keeps the LAST power of a
   repeated address while the total counts both (Tendermint never repeats an address) *)
Theorem C13_split_distinct_needed : exists votes out,
  split K votes 0 [] 0 100 = Some out /\ 100 < zsum (map snd (so_vals out)).
Proof.
  exists [mkVote 1 1 true true; mkVote 1 9 true true]. eexists. split; [vm_compute; reflexivity|].
  vm_compute. reflexivity.
Qed.

(* (b) the calculator.  [cache_inv]: a warm cache holds the burnout rate or at most what its year
   had left.  From such a cache — or at the first block of a cycle from any cache that is not in
   the burnout state, or from a cold cache — every successful PullRewards is within the bound the
   property states (<= the year's supply minus what was distributed until the last cycle, or
   <= min(burnout rate, pool) once the schedule is over) and re-establishes the invariant. *)
Theorem C13_pull_bounded : forall o bt ys h pool c a c',
  cache_inv o ys c \/ (first_in_cycle o h = true /\ c_burned c = false) ->
  pull o bt ys h pool c = (COk a, c') ->
  pull_bound o ys pool c' a = true /\ cache_inv o ys c'.
Proof. exact pull_bounded_step. Qed.
Print Assumptions C13_pull_bounded.

(* ... and whatever ConsumeRewards then records, the hypothesis holds again for the next block:
   so by induction every pull of a run that starts cold is bounded, as long as no calculation
   fails (a failed calculation = trigger C13.overdrawn_year, see the refuted witness below) *)
Theorem C13_pull_bounded_next : forall o ys h c x, cache_inv o ys c ->
  cache_inv o (consume o ys h c x) c \/ (first_in_cycle o (h + 1) = true /\ c_burned c = false).
Proof. exact pull_hyp_next. Qed.
Print Assumptions C13_pull_bounded_next.

Theorem C13_pull_bounded_cold : forall o bt ys h pool a c',
  pull o bt ys h pool cold = (COk a, c') -> pull_bound o ys pool c' a = true.
Proof.
  intros o bt ys h pool a c' H.
  exact (proj1 (pull_bounded_step o bt ys h pool cold a c' (or_introl (fun E => False_ind _ (Bool.diff_false_true E))) H)).
Qed.

(* the pulled amount is non-negative when the measured cycle duration is positive (complement of
   the trigger C13.zero_length_cycle) and the forecast product does not leave int64 *)
Theorem C13_pull_nonneg : forall o bt ys h pool c a c',
  0 < o_cycle o -> 0 <= o_window o -> 0 <= o_burnout o -> 0 <= pool ->
  0 < fst (secs_per_cycle o bt h) ->
  Forall (fun yr => 0 <= dur_secs (y_close yr - snd (secs_per_cycle o bt h)) * o_cycle o < 2^63) ys ->
  (warm c = true -> 0 <= c_amt c) ->
  pull o bt ys h pool c = (COk a, c') -> 0 <= a /\ 0 <= c_amt c'.
Proof. exact pull_nonneg. Qed.
Print Assumptions C13_pull_nonneg.

(* restart independence, partial: if the running node's cache was (re)calculated at the first
   block h0 of the cycle from a cache that was not a cached burnout (complement of the trigger
   C13.sticky_burnout) and that calculation succeeded (complement of C13.overdrawn_year), then at
   EVERY block h of that cycle, for all year records that differ from those at h0 only in the
   distributed totals, Calculate with the warm cache and Calculate with a cold cache (restarted
   node) return the same amount and leave the same cache. *)
Theorem C13_restart_independent_partial : forall o bt ys ys' h0 h c0 r0 c1,
  0 < o_cycle o -> 1 <= h0 -> first_in_cycle o h0 = true -> h0 <= h -> cycle_no o h = cycle_no o h0 ->
  sticky_burnout c0 = false -> sched ys' = sched ys ->
  calculate o bt ys h0 c0 = (COk r0, c1) ->
  calculate o bt ys' h c1 = (COk r0, c1) /\ calculate o bt ys' h cold = (COk r0, c1).
Proof. exact restart_independent. Qed.
Print Assumptions C13_restart_independent_partial.

(* (c) cumulative records: for ALL operation sequences (AddMaturedBalance with non-negative
   amounts, WithdrawRewards with any amount, any addresses) from the empty store: the matured
   balance is never negative, balance + withdrawn = total matured, withdrawn = what successful
   withdrawals paid, hence never more than has matured; a single successful withdrawal never
   exceeds the balance it is taken from. *)
Theorem C13_withdraw_bounded : forall ops, Forall (fun op => matured_ok op = true) ops -> forall v,
  let s := crun [] ops in
  0 <= fst (cget s v) /\
  fst (cget s v) + snd (cget s v) = matured_of ops v /\
  snd (cget s v) = paid_of [] ops v /\
  paid_of [] ops v <= matured_of ops v.
Proof. exact withdraw_bounded. Qed.
Print Assumptions C13_withdraw_bounded.

Theorem C13_withdraw_step : forall s v a, snd (cstep s (Withdraw v a)) = true ->
  a <= fst (cget s v) /\
  fst (cget (fst (cstep s (Withdraw v a))) v) = fst (cget s v) - a /\
  snd (cget (fst (cstep s (Withdraw v a))) v) = snd (cget s v) + a.
Proof. exact withdraw_step_bounded. Qed.

Example C13_withdraw_nonvacuous :
  let ops := [AddMatured 1 10; Withdraw 1 4; Withdraw 1 7; AddMatured 2 5; Withdraw 1 6] in
  forallb matured_ok ops = true /\ cget (crun [] ops) 1 = (0, 10) /\ paid_of [] ops 1 = 10.
Proof. vm_compute. auto. Qed.

(* ---- refuted full statements: closed witnesses (each replayed on the real code on every run:
   findings/C13_*.json; the recorded observations of the real code are part of the terms below) ---- *)
Definition finding_pcases : list pcase := [
mkPcase (mkOpts 2 30 86400 [0x39e7139a8c08fa06000000] 0x4563918244f40000 5)
 [0x16345785d8a00000; 0x16345785de95e100; 0x16345785e48bc200; 0x16345785ea81a300]
 [0x16a4615906430000]
 [mkPstep 1 false 0xd3c21bcecceda1000000 0x1ce109a3198821cd5 true 0x1ce109a3198821cd5 true 0x1ce109a3198821cd5 [(0x1ce109a3198821cd5, 0)];
  mkPstep 2 false 0xd3c21bcecceda1000000 0x1ce109a3198821cd5 true 0x1ce109a3198821cd5 true 0x1ce109a3198821cd5 [(0x39c213463310439aa, 0x39c213463310439aa)];
  mkPstep 3 false 0xd3c21bcecceda1000000 (-7589407) true (-7589407) true (-7589407) [(0x39c21346330906b8b, 0x39c213463310439aa)];
  mkPstep 4 false 0xd3c21bcecceda1000000 (-7589407) true (-7589407) true (-7589407) [(0x39c213463301c9d6c, 0x39c213463301c9d6c)]];
mkPcase (mkOpts 2 30 86400 [0x39e7139a8c08fa06000000] 0x4563918244f40000 5)
 [0x16345785d8a00000; 0x1634578956b1d600; 0x16906da021340000; 0x16906da39f45d600; 0x16906da71d57ac00; 0x16906daa9b698200]
 [0x16a4615906430000]
 [mkPstep 1 false 0xd3c21bcecceda1000000 0x1ce109a3198821cd5 true 0x1ce109a3198821cd5 true 0x1ce109a3198821cd5 [(0x1ce109a3198821cd5, 0)];
  mkPstep 2 false 0xd3c21bcecceda1000000 0x1ce109a3198821cd5 true 0x1ce109a3198821cd5 true 0x1ce109a3198821cd5 [(0x39c213463310439aa, 0x39c213463310439aa)];
  mkPstep 3 false 0xd3c21bcecceda1000000 0x4563918244f40000 true 0x4563918244f40000 true 0x4563918244f40000 [(0x39c213463310439aa, 0x39c213463310439aa)];
  mkPstep 4 false 0xd3c21bcecceda1000000 0x4563918244f40000 true 0x4563918244f40000 true 0x4563918244f40000 [(0x39c213463310439aa, 0x39c213463310439aa)];
  mkPstep 5 false 0xd3c21bcecceda1000000 0x4563918244f40000 true 0x4563918244f40000 true 0xa22aee9fe8a35b900 [(0x39c213463310439aa, 0x39c213463310439aa)];
  mkPstep 6 false 0xd3c21bcecceda1000000 0x4563918244f40000 true 0x4563918244f40000 true 0xa22aee9fe8a35b900 [(0x39c213463310439aa, 0x39c213463310439aa)]];
mkPcase (mkOpts 2 30 86400 [0x39e7139a8c08fa06000000] 0x4563918244f40000 5)
 [0x16345785d8a00000; 0x1634578956b1d600; 0x1671bb975e580000; 0x1671bb9adc69d600; 0x1671bb9e5a7bac00; 0x1671bba1d88d8200]
 [0x16a4615906430000]
 [mkPstep 1 false 0xd3c21bcecceda1000000 0x1ce109a3198821cd5 true 0x1ce109a3198821cd5 true 0x1ce109a3198821cd5 [(0x1ce109a3198821cd5, 0)];
  mkPstep 2 false 0xd3c21bcecceda1000000 0x1ce109a3198821cd5 true 0x1ce109a3198821cd5 true 0x1ce109a3198821cd5 [(0x39c213463310439aa, 0x39c213463310439aa)];
  mkPstep 3 false 0xd3c21bcecceda1000000 0x39e70ffe6ad496d4fbc656 true 0x39e70ffe6ad496d4fbc656 true 0x39e70ffe6ad496d4fbc656 [(0x39e7139a8c08fa06000000, 0x39c213463310439aa)];
  mkPstep 4 false 0xd3c21bcecceda1000000 0x39e70ffe6ad496d4fbc656 true 0x39e70ffe6ad496d4fbc656 true 0x39e70ffe6ad496d4fbc656 [(0x73ce2398f6dd90dafbc656, 0x73ce2398f6dd90dafbc656)];
  mkPstep 5 false 0xd3c21bcecceda1000000 0 false 0 false 0 [(0x73ce2398f6dd90dafbc656, 0x73ce2398f6dd90dafbc656)];
  mkPstep 6 false 0xd3c21bcecceda1000000 0x39e70ffe6ad496d4fbc656 true 0x39e70ffe6ad496d4fbc656 false 0 [(0xadb5339761b227aff78cac, 0xadb5339761b227aff78cac)]]].

(* the model reproduces the real runs exactly (no mismatch code), and the monitors fire exactly
   inside the three trigger regions *)
Example C13_findings_model_run :
  check_pcases 0 finding_pcases = [0; 2; 112; 0; 3; 112; 1; 4; 120; 1; 5; 120; 2; 5; 220; 2; 5; 221].
Proof. vm_compute. reflexivity. Qed.

Definition wo : opts := mkOpts 2 30 86400 [70000000000000000000000000] 5000000000000000000 5.
Definition wclose : Z := 1631536000000000000.

(* C13.zero_length_cycle: three blocks within 0.2 s, cycle 2: the pulled amount is negative, and
   with an absent signer the credits exceed it *)
Theorem C13_pull_nonneg_refuted_zero_length_cycle : exists bt ys h pool a c',
  zero_len_cycle wo bt h = true /\ pull wo bt ys h pool cold = (COk a, c') /\ a < 0 /\
  exists out, split K [mkVote 1 1 true true; mkVote 2 1 false true] 0 [] 1 a = Some out /\
              a < zsum (map snd (so_vals out)).
Proof.
  exists (bt_list [1600000000000000000; 1600000000100000000; 1600000000200000000]),
         [mkYear wclose 66590563165905631658 66590563165905631658], 3, 1000000000000000000000000.
  eexists. eexists. split; [vm_compute; reflexivity|]. split; [vm_compute; reflexivity|].
  split; [vm_compute; reflexivity|]. eexists. split; vm_compute; reflexivity.
Qed.

(* C13.sticky_burnout: a cache that recorded burnout after a 300-day cycle keeps paying the
   burnout rate; a cold cache pulls the scheduled amount *)
Theorem C13_restart_independent_refuted_sticky_burnout : exists bt ys h pool c,
  sticky_burnout c = true /\
  fst (pull wo bt ys h pool c) <> fst (pull wo bt ys h pool cold).
Proof.
  exists (bt_list [1600000000000000000; 1600000015000000000; 1625920000000000000; 1625920015000000000;
                   1625920030000000000; 1625920045000000000]),
         [mkYear wclose 66590563165905631658 66590563165905631658], 5, 1000000000000000000000000,
         (mkCache (-1) 2 true 5000000000000000000).
  split; [vm_compute; reflexivity|]. vm_compute. discriminate.
Qed.

(* C13.overdrawn_year: the recalculation at the cycle start failed, the previous cycle's amount is
   still cached; a running node pulls it (above what the year has left, which is negative), a
   restarted node pulls nothing *)
Theorem C13_pull_bounded_refuted_overdrawn_year : exists bt ys h pool c a c',
  overdrawn wo bt ys h = true /\ sticky_burnout c = false /\
  pull wo bt ys h pool c = (COk a, c') /\ pull_bound wo ys pool c' a = false /\
  fst (pull wo bt ys h pool cold) = CErr.
Proof.
  exists (bt_list [1600000000000000000; 1600000015000000000; 1617280000000000000; 1617280015000000000;
                   1617280030000000000; 1617280045000000000]),
         [mkYear wclose 139999933409436834094368342 139999933409436834094368342], 6,
         1000000000000000000000000, (mkCache 0 2 false 69999933409436834094368342).
  eexists. eexists. repeat split; vm_compute; reflexivity.
Qed.
