(* C13 — block rewards stay within the pulled amount and the yearly schedule.
   Only property theorems here, each closed by [exact <lemma>]; proofs are in
   proofs/RewardsProofs.v, the model in theories/Rewards.v. *)
From Coq Require Import ZArith List Bool.
From OL Require Import theories.Rewards theories.RewardsCheck proofs.RewardsProofs gen.Facts_Consts.
Import ListNotations.
Local Open Scope Z_scope.

(* tie to the source: the commission constants of data/network_delegation/init.go (regenerated on
   every run) are percentages *)
Theorem C13_fact_consts : consts_ok K.
Proof. vm_compute. intuition discriminate. Qed.

(* (a) the split.  For ALL vote lists with distinct addresses and non-negative powers, all
   delegation-pool sizes (0 included), all delegator tables whose amounts are non-negative and
   sum to at most the pool balance (C12), every proposer and every non-negative pulled amount R:
   whatever handleBlockRewards credits to validators and delegators together is at most R, the
   amount reported to ConsumeRewards is at most R, and no credit is negative. *)
Theorem C13_split_bounded : forall k votes dp delegs proposer R out,
  consts_ok k -> 0 <= R -> 0 <= dp ->
  Forall (fun v => 0 <= v_power v) votes -> NoDup (map v_addr votes) ->
  Forall (fun d => 0 <= snd d) delegs -> zsum (map snd delegs) <= dp ->
  split k votes dp delegs proposer R = Some out ->
  zsum (map snd (so_vals out)) + zsum (map snd (so_delegs out)) <= R /\
  so_consumed out <= R /\
  Forall (fun c => 0 <= snd c) (so_vals out) /\
  Forall (fun c => 0 <= snd c) (so_delegs out).
Proof.
  intros k votes dp delegs proposer R out Hk HR Hdp Hp Hnd Hd Hs H.
  exact (split_bounded_lemma k votes dp delegs proposer R Hk HR Hdp Hp Hnd Hd Hs out H).
Qed.
Print Assumptions C13_split_bounded.

(* with the constants of the current source *)
Theorem C13_split_bounded_current : forall votes dp delegs proposer R out,
  0 <= R -> 0 <= dp ->
  Forall (fun v => 0 <= v_power v) votes -> NoDup (map v_addr votes) ->
  Forall (fun d => 0 <= snd d) delegs -> zsum (map snd delegs) <= dp ->
  split K votes dp delegs proposer R = Some out ->
  zsum (map snd (so_vals out)) + zsum (map snd (so_delegs out)) <= R.
Proof.
  intros votes dp delegs proposer R out HR Hdp Hp Hnd Hd Hs H.
  exact (proj1 (split_bounded_lemma K votes dp delegs proposer R C13_fact_consts HR Hdp Hp Hnd Hd Hs out H)).
Qed.
Print Assumptions C13_split_bounded_current.

(* non-vacuity: a concrete block with an absent signer, a pool and two delegators *)
Example C13_split_nonvacuous :
  split K [mkVote 1 3000 true true; mkVote 2 1000 false true; mkVote 3 1 true true]
        (7 * UNIT) [(10, 3 * UNIT); (11, 4 * UNIT)] 3 (1000000007)
  = Some (mkSplit [(1, 748764451); (3, 336912)] [(10, 561377); (11, 748502)] 750411243).
Proof. vm_compute. reflexivity. Qed.

(* the hypothesis "distinct addresses" is necessary: the power map keeps the LAST power of a
   repeated address while the total counts both (Tendermint never repeats an address) *)
Theorem C13_split_distinct_needed : exists votes out,
  split K votes 0 [] 0 100 = Some out /\ 100 < zsum (map snd (so_vals out)).
Proof.
  exists [mkVote 1 1 true true; mkVote 1 9 true true]. eexists. split; [vm_compute; reflexivity|].
  vm_compute. reflexivity.
Qed.

(* the directed whole-app witness of corpus/C13.json (delegate 1000 OLT, undelegate 900 OLT, two
   validators of power 1000): with the ACTIVE table (100 OLT left in a pool of 100 OLT) everything
   credited is within the pulled amount ... *)
Example C13_split_directed_witness :
  exists out,
    split K [mkVote 1 1000 true true; mkVote 2 1000 true true] (100 * UNIT) [(3, 100 * UNIT)] 1
          38356164383561643835 = Some out /\
    zsum (map snd (so_vals out)) + zsum (map snd (so_delegs out)) = 38338769297673407260 /\
    so_delegs out = [(3, 1369863013698630137)].
Proof. eexists. vm_compute. auto. Qed.

(* ... and the hypothesis "the table sums to at most the pool" of C13_split_bounded is necessary:
   sharing by the PENDING amount (900 OLT, no longer in the pool) — what a delegation store that
   iterates the wrong list does (seeded/C13_3) — credits 9 times the delegators' share, more than
   was pulled.  The check's monitor compares exactly this sum, taken from the implementation's
   records (all delegRwz_balance deltas), with the pulled amount. *)
Theorem C13_split_table_le_pool_needed : exists out,
  split K [mkVote 1 1000 true true; mkVote 2 1000 true true] (100 * UNIT) [(3, 900 * UNIT)] 1
        38356164383561643835 = Some out /\
  38356164383561643835 < zsum (map snd (so_vals out)) + zsum (map snd (so_delegs out)) /\
  so_delegs out = [(3, 12328767123287671233)].
Proof. eexists. vm_compute. auto. Qed.

(* (b) the calculator (behaviour of /repo since 0cc9fdb, 6bfa5cf, 47bb3a6).
   [cache_inv]: a warm cache holds the burnout rate or at most what its year had left.  From such
   a cache (a cold cache is one) — or at the first block of a cycle from ANY cache — every
   successful PullRewards is within the bound the property states (<= the year's supply minus
   what was distributed until the last cycle, i.e. what was left when the cycle began; or
   <= min(burnout rate, pool) once the schedule is over) and re-establishes the invariant. *)
Theorem C13_pull_bounded : forall o bt ys h pool c a c',
  cache_inv o ys c \/ first_in_cycle o h = true ->
  pull o bt ys h pool c = (COk a, c') ->
  pull_bound o ys pool c' a = true /\ cache_inv o ys c'.
Proof. exact pull_bounded_step. Qed.
Print Assumptions C13_pull_bounded.

(* FULL, run level: for all options, header times, year records, pool balances, consumed amounts
   and run lengths, from a cold cache (node start) or from any cache satisfying the invariant,
   at any height: EVERY successful pull of the run is within the bound.  A failed calculation
   (overdrawn year) pulls nothing and leaves a cold cache, so it does not interrupt the induction
   any more (before 47bb3a6 it did: findings/C13_overdrawn_year.json). *)
Theorem C13_pull_bounded_run : forall steps o bt ys c h,
  cache_inv o ys c \/ first_in_cycle o h = true -> all_bounded o bt ys c h steps.
Proof. exact pull_bounded_run. Qed.
Print Assumptions C13_pull_bounded_run.

Theorem C13_pull_bounded_from_start : forall steps o bt ys h, all_bounded o bt ys cold h steps.
Proof. intros. apply pull_bounded_run. left. exact (cache_inv_cold o ys). Qed.

(* FULL: the pulled amount is never negative (no guard on the cycle duration any more, 0cc9fdb);
   remaining hypotheses: sane options, the forecast product secsToClose*cycle inside int64, and a
   non-negative cached amount — which the conclusion re-establishes, so it holds along every run
   from a cold cache *)
Theorem C13_pull_nonneg : forall o bt ys h pool c a c',
  0 < o_cycle o -> 0 <= o_window o -> 0 <= o_burnout o -> 0 <= pool ->
  Forall (fun yr => 0 <= dur_secs (y_close yr - snd (secs_per_cycle o bt h)) * o_cycle o < 2^63) ys ->
  (warm c = true -> 0 <= c_amt c) ->
  pull o bt ys h pool c = (COk a, c') -> 0 <= a /\ 0 <= c_amt c'.
Proof. exact pull_nonneg. Qed.
Print Assumptions C13_pull_nonneg.

(* FULL: restart independence.  h0 = first block of a cycle, c0 = ANY cache the running node had
   there (burnout cached or not — 6bfa5cf), the calculation at h0 succeeded or failed (47bb3a6):
   at EVERY block h of that cycle, for all year records that differ from those at h0 only in the
   distributed totals, the running node and a restarted node (cold cache) return the same result
   and are left with the same cache. *)
Theorem C13_restart_independent : forall o bt ys ys' h0 h c0,
  0 < o_cycle o -> 1 <= h0 -> first_in_cycle o h0 = true -> h0 <= h -> cycle_no o h = cycle_no o h0 ->
  sched ys' = sched ys ->
  let res := calculate o bt ys h0 c0 in
  calculate o bt ys' h (snd res) = res /\ calculate o bt ys' h cold = res.
Proof. exact restart_independent. Qed.
Print Assumptions C13_restart_independent.

(* (c) cumulative records: for ALL operation sequences (AddMaturedBalance with non-negative
   amounts, WithdrawRewards with any amount, any addresses) from the empty store: the matured
   balance is never negative, balance + withdrawn = total matured, withdrawn = what successful
   withdrawals paid, hence never more than has matured; a single successful withdrawal never
   exceeds the balance it is taken from. *)
Theorem C13_withdraw_bounded : forall ops, Forall (fun op => matured_ok op = true) ops -> forall v,
  let s := crun [] ops in
  0 <= fst (cget s v) /\
  fst (cget s v) + snd (cget s v) = matured_of ops v /\
  snd (cget s v) = paid_of [] ops v /\
  paid_of [] ops v <= matured_of ops v.
Proof. exact withdraw_bounded. Qed.
Print Assumptions C13_withdraw_bounded.

Theorem C13_withdraw_step : forall s v a, snd (cstep s (Withdraw v a)) = true ->
  a <= fst (cget s v) /\
  fst (cget (fst (cstep s (Withdraw v a))) v) = fst (cget s v) - a /\
  snd (cget (fst (cstep s (Withdraw v a))) v) = snd (cget s v) + a.
Proof. exact withdraw_step_bounded. Qed.

Example C13_withdraw_nonvacuous :
  let ops := [AddMatured 1 10; Withdraw 1 4; Withdraw 1 7; AddMatured 2 5; Withdraw 1 6] in
  forallb matured_ok ops = true /\ cget (crun [] ops) 1 = (0, 10) /\ paid_of [] ops 1 = 10.
Proof. vm_compute. auto. Qed.

(* state export / import (olfullnode save_state -> genesis -> InitChain: RewardStore.dumpState /
   loadState).  The chunks are copied as they are; what decides which chunk is credited and which
   matures on the relaunched chain is the single interval record {index, 2} that the export
   writes.  For ALL export versions V >= 0 — multiples of the reward interval included — of a chain
   that started from an ordinary genesis:
   (1) the record names the chunk that was open (credited) at V;
   (2) on the relaunched chain every credit goes to a chunk beyond it: exported chunks are final;
   (3) the exporter's last maturity block matured the chunk two below the open one, and
   (4) the k-th maturity block of the relaunched chain matures the chunk k-2 above it:
       the successor of the exporter's frontier first, then one by one.
   So across the relaunch every chunk matures exactly once and in order: no reward is added to a
   matured balance twice. *)
Theorem C13_export_open_chunk : forall o V, 0 < o_interval o -> 0 <= V ->
  dump_interval o [] V = mkIvl (V / o_interval o + 1) 2 /\
  iv_index (dump_interval o [] V) = chunk_idx o [] V.
Proof. exact export_open_chunk. Qed.
Print Assumptions C13_export_open_chunk.

Theorem C13_import_credits_fresh_chunks : forall o V h, 0 < o_interval o -> 0 <= V -> 2 <= h ->
  chunk_idx o [] V < chunk_idx o (load_intervals (dump_interval o [] V)) h.
Proof. exact import_credits_fresh. Qed.

Theorem C13_export_frontier : forall o V, 0 < o_interval o -> 0 <= V ->
  matured_idx o [] (last_maturity_height o V) = chunk_idx o [] V - 2.
Proof. exact export_frontier. Qed.

Theorem C13_import_matures_exactly_once : forall o V k, 2 <= o_interval o -> 0 <= V -> 1 <= k ->
  matured_idx o (load_intervals (dump_interval o [] V)) (k * o_interval o) = chunk_idx o [] V + k - 2.
Proof. exact import_maturity_sequence. Qed.
Print Assumptions C13_import_matures_exactly_once.

Theorem C13_import_matures_exactly_once_interval_1 : forall o V h, o_interval o = 1 -> 0 <= V -> 2 <= h ->
  matured_idx o (load_intervals (dump_interval o [] V)) h = chunk_idx o [] V + h - 3.
Proof. exact import_maturity_sequence_1. Qed.

(* the directed witness of corpus/C13.json: interval 5, export at V = 10 (a maturity block).  The
   exporter matured chunk 1 at height 10 and has chunk 3 open; the record is {3, 2}; the relaunched
   chain credits chunk 4 from height 2 on and matures chunk 2 at height 5, chunk 3 at height 10.
   (With the record {2, 2} — what rounding the index up instead of floor+1 gives at a multiple of
   the interval, seeded/C13_4 — height 5 would mature chunk 1 a second time.) *)
Example C13_export_at_multiple_of_interval :
  let o := mkOpts 100 1728 86400 [70000000000000000000000000] 5000000000000000000 5 in
  dump_interval o [] 10 = mkIvl 3 2 /\
  matured_idx o [] 10 = 1 /\
  chunk_idx o (load_intervals (dump_interval o [] 10)) 2 = 4 /\
  matured_idx o (load_intervals (dump_interval o [] 10)) 5 = 2 /\
  matured_idx o (load_intervals (dump_interval o [] 10)) 10 = 3 /\
  matured_idx o (load_intervals (mkIvl 2 2)) 5 = 1.
Proof. vm_compute. auto 10. Qed.

(* the WITHDRAW_REWARD transaction on the application path (CheckTx and DeliverTx both run
   Validate).  A negative amount (45cfd0d) and an amount that does not fit int64 (ed95e98) are
   refused and leave both records unchanged.  Over ALL amounts: the transaction is either refused
   without any change, or it moves exactly a = value * 10^18 from the matured balance to the
   withdrawn counter, with 0 <= a <= balance and a <= pool. *)
Theorem C13_withdraw_tx_invalid_refused : forall value bal wd pool, value < 0 \/ 2^63 <= value ->
  withdraw_tx value bal wd pool = (false, bal, wd).
Proof. exact withdraw_tx_invalid. Qed.
Print Assumptions C13_withdraw_tx_invalid_refused.

Theorem C13_withdraw_tx_total : forall value bal wd pool ok bal' wd',
  withdraw_tx value bal wd pool = (ok, bal', wd') ->
  (ok = false /\ bal' = bal /\ wd' = wd) \/
  (ok = true /\ let a := value * UNIT in 0 <= a <= bal /\ a <= pool /\ bal' = bal - a /\ wd' = wd + a).
Proof. exact withdraw_tx_total. Qed.
Print Assumptions C13_withdraw_tx_total.

(* the former accepted inputs (corpus/C13.json withdraw_values) *)
Example C13_withdraw_minus2_refused :
  withdraw_tx (-2) 153424657534246575340 0 1000000000000000000000000 = (false, 153424657534246575340, 0) /\
  withdraw_tx 1 153424657534246575340 0 1000000000000000000000000
    = (true, 152424657534246575340, 1000000000000000000).
Proof. vm_compute. auto. Qed.

(* fixed ed95e98: 2^64 - 2 used to pass IsValid and arrive in runWithdraw as -2 (a deposit:
   balance 190780821917808219175 -> 192780821917808219175, withdrawn 1e18 -> -1e18) *)
Example C13_withdraw_tx_int64_wrap_refused :
  withdraw_tx (2^64 - 2) 190780821917808219175 1000000000000000000 999999000000000000000000
    = (false, 190780821917808219175, 1000000000000000000) /\
  withdraw_tx (2^63) 190780821917808219175 1000000000000000000 999999000000000000000000
    = (false, 190780821917808219175, 1000000000000000000) /\
  withdraw_tx (2^64 + 1) 190780821917808219175 1000000000000000000 999999000000000000000000
    = (false, 190780821917808219175, 1000000000000000000).
Proof. vm_compute. auto. Qed.

(* ---- the former refuted witnesses (findings/C13_*.json, all repaired) are closed examples now:
   the inputs on which the full statements used to fail, with the observations of the real code
   recorded after the repairs; the model agrees with them and no monitor fires ---- *)
Definition finding_pcases : list pcase := [
mkPcase (mkOpts 2 30 86400 [0x39e7139a8c08fa06000000] 0x4563918244f40000 5)
 [0x16345785d8a00000; 0x16345785de95e100; 0x16345785e48bc200; 0x16345785ea81a300]
 [0x16a4615906430000]
 [mkPstep 1 false 0xd3c21bcecceda1000000 0x1ce109a3198821cd5 true 0x1ce109a3198821cd5 true 0x1ce109a3198821cd5 [(0x1ce109a3198821cd5, 0)];
  mkPstep 2 false 0xd3c21bcecceda1000000 0x1ce109a3198821cd5 true 0x1ce109a3198821cd5 true 0x1ce109a3198821cd5 [(0x39c213463310439aa, 0x39c213463310439aa)];
  mkPstep 3 false 0xd3c21bcecceda1000000 0xf66f325182a1660 true 0xf66f325182a1660 true 0xf66f325182a1660 [(0x3ab882788492e500a, 0x39c213463310439aa)];
  mkPstep 4 false 0xd3c21bcecceda1000000 0xf66f325182a1660 true 0xf66f325182a1660 true 0xf66f325182a1660 [(0x3baef1aad6158666a, 0x3baef1aad6158666a)]];
mkPcase (mkOpts 2 30 86400 [0x39e7139a8c08fa06000000] 0x4563918244f40000 5)
 [0x16345785d8a00000; 0x1634578956b1d600; 0x16906da021340000; 0x16906da39f45d600; 0x16906da71d57ac00; 0x16906daa9b698200]
 [0x16a4615906430000]
 [mkPstep 1 false 0xd3c21bcecceda1000000 0x1ce109a3198821cd5 true 0x1ce109a3198821cd5 true 0x1ce109a3198821cd5 [(0x1ce109a3198821cd5, 0)];
  mkPstep 2 false 0xd3c21bcecceda1000000 0x1ce109a3198821cd5 true 0x1ce109a3198821cd5 true 0x1ce109a3198821cd5 [(0x39c213463310439aa, 0x39c213463310439aa)];
  mkPstep 3 false 0xd3c21bcecceda1000000 0x4563918244f40000 true 0x4563918244f40000 true 0x4563918244f40000 [(0x39c213463310439aa, 0x39c213463310439aa)];
  mkPstep 4 false 0xd3c21bcecceda1000000 0x4563918244f40000 true 0x4563918244f40000 true 0x4563918244f40000 [(0x39c213463310439aa, 0x39c213463310439aa)];
  mkPstep 5 false 0xd3c21bcecceda1000000 0xa22aee9fe8a35b900 true 0xa22aee9fe8a35b900 true 0xa22aee9fe8a35b900 [(0xdbed01e61bb39f2aa, 0x39c213463310439aa)];
  mkPstep 6 false 0xd3c21bcecceda1000000 0xa22aee9fe8a35b900 true 0xa22aee9fe8a35b900 true 0xa22aee9fe8a35b900 [(0x17e17f0860456fabaa, 0x17e17f0860456fabaa)]];
mkPcase (mkOpts 2 30 86400 [0x39e7139a8c08fa06000000] 0x4563918244f40000 5)
 [0x16345785d8a00000; 0x1634578956b1d600; 0x1671bb975e580000; 0x1671bb9adc69d600; 0x1671bb9e5a7bac00; 0x1671bba1d88d8200]
 [0x16a4615906430000]
 [mkPstep 1 false 0xd3c21bcecceda1000000 0x1ce109a3198821cd5 true 0x1ce109a3198821cd5 true 0x1ce109a3198821cd5 [(0x1ce109a3198821cd5, 0)];
  mkPstep 2 false 0xd3c21bcecceda1000000 0x1ce109a3198821cd5 true 0x1ce109a3198821cd5 true 0x1ce109a3198821cd5 [(0x39c213463310439aa, 0x39c213463310439aa)];
  mkPstep 3 false 0xd3c21bcecceda1000000 0x39e70ffe6ad496d4fbc656 true 0x39e70ffe6ad496d4fbc656 true 0x39e70ffe6ad496d4fbc656 [(0x39e7139a8c08fa06000000, 0x39c213463310439aa)];
  mkPstep 4 false 0xd3c21bcecceda1000000 0x39e70ffe6ad496d4fbc656 true 0x39e70ffe6ad496d4fbc656 true 0x39e70ffe6ad496d4fbc656 [(0x73ce2398f6dd90dafbc656, 0x73ce2398f6dd90dafbc656)];
  mkPstep 5 false 0xd3c21bcecceda1000000 0 false 0 false 0 [(0x73ce2398f6dd90dafbc656, 0x73ce2398f6dd90dafbc656)];
  mkPstep 6 false 0xd3c21bcecceda1000000 0 false 0 false 0 [(0x73ce2398f6dd90dafbc656, 0x73ce2398f6dd90dafbc656)]]].

Example C13_former_witnesses_hold : check_pcases 0 finding_pcases = [].
Proof. vm_compute. reflexivity. Qed.

Definition wo : opts := mkOpts 2 30 86400 [70000000000000000000000000] 5000000000000000000 5.
Definition wclose : Z := 1631536000000000000.

(* fixed 0cc9fdb: three blocks within 0.2 s, cycle 2: the forecast divides by one second, not by
   zero; the pulled amount is positive *)
Example C13_zero_length_cycle_fixed :
  pull wo (bt_list [1600000000000000000; 1600000000100000000; 1600000000200000000])
       [mkYear wclose 66590563165905631658 66590563165905631658] 3 1000000000000000000000000 cold
  = (COk 1109841698838156896, mkCache 0 2 false 1109841698838156896).
Proof. vm_compute. reflexivity. Qed.

(* fixed 6bfa5cf: a cache that recorded burnout after a 300-day cycle is recalculated at the next
   cycle start, like a cold cache *)
Example C13_sticky_burnout_fixed :
  let bt := bt_list [1600000000000000000; 1600000015000000000; 1625920000000000000; 1625920015000000000;
                     1625920030000000000; 1625920045000000000] in
  let ys := [mkYear wclose 66590563165905631658 66590563165905631658] in
  pull wo bt ys 5 1000000000000000000000000 (mkCache (-1) 2 true 5000000000000000000)
  = pull wo bt ys 5 1000000000000000000000000 cold /\
  fst (pull wo bt ys 5 1000000000000000000000000 cold) = COk 186966632859782461696.
Proof. vm_compute. auto. Qed.

(* fixed 47bb3a6: after the failed recalculation at the cycle start (h = 5) the cache is cold, so
   at h = 6 the running node fails like a restarted one and pulls nothing *)
Example C13_overdrawn_year_fixed :
  let bt := bt_list [1600000000000000000; 1600000015000000000; 1617280000000000000; 1617280015000000000;
                     1617280030000000000; 1617280045000000000] in
  let ys := [mkYear wclose 139999933409436834094368342 139999933409436834094368342] in
  pull wo bt ys 5 1000000000000000000000000 (mkCache 0 2 false 69999933409436834094368342) = (CErr, cold) /\
  pull wo bt ys 6 1000000000000000000000000 cold = (CErr, cold).
Proof. vm_compute. auto. Qed.

(* What remains (not a violation of the property as stated, which bounds each single pull by what
   was left when the cycle began): after a slow cycle the forecast can be shorter than the cycle
   ([short_forecast]); each of the cycle's pulls is within the bound, but together they exceed it,
   so a year's TOTAL can exceed its supply — here 2 pulls of ~7e25 from a year of 7e25. *)
Example C13_year_total_can_exceed_supply :
  let bt := bt_list [1600000000000000000; 1600000015000000000; 1617280000000000000; 1617280015000000000] in
  let ys := [mkYear wclose 66590563165905631658 66590563165905631658] in
  short_forecast wo bt ys 3 = true /\
  fst (pull wo bt ys 3 1000000000000000000000000 cold) = COk 69999933409436834094368342 /\
  fst (pull wo bt ys 4 1000000000000000000000000 (mkCache 0 2 false 69999933409436834094368342))
    = COk 69999933409436834094368342 /\
  nthZ (o_shares wo) 0 0 < 2 * 69999933409436834094368342.
Proof. vm_compute. auto. Qed.
