(* C13 — block rewards stay within the pulled amount and the yearly schedule.
   Only property theorems here, each closed by [exact <lemma>]; proofs are in
   proofs/RewardsProofs.v, the model in theories/Rewards.v. *)
From Coq Require Import ZArith List Bool.
From OL Require Import theories.Rewards theories.RewardsCheck proofs.RewardsProofs gen.Facts_Consts.
Import ListNotations.
Local Open Scope Z_scope.

(* tie to the source: the commission constants of data/network_delegation/init.go (regenerated on
   every run) are percentages *)
Theorem C13_fact_consts : consts_ok K.
Proof. vm_compute. intuition discriminate. Qed.

(* (a) the split.  For ALL vote lists with distinct addresses and non-negative powers, all
   delegation-pool sizes (0 included), all delegator tables whose amounts are non-negative and
   sum to at most the pool balance (C12), every proposer and every non-negative pulled amount R:
   whatever handleBlockRewards credits to validators and delegators together is at most R, the
   amount reported to ConsumeRewards is at most R, and no credit is negative. *)
Theorem C13_split_bounded : forall k votes dp delegs proposer R out,
  consts_ok k -> 0 <= R -> 0 <= dp ->
  Forall (fun v => 0 <= v_power v) votes -> NoDup (map v_addr votes) ->
  Forall (fun d => 0 <= snd d) delegs -> zsum (map snd delegs) <= dp ->
  split k votes dp delegs proposer R = Some out ->
  zsum (map snd (so_vals out)) + zsum (map snd (so_delegs out)) <= R /\
  so_consumed out <= R /\
  Forall (fun c => 0 <= snd c) (so_vals out) /\
  Forall (fun c => 0 <= snd c) (so_delegs out).
Proof.
  intros k votes dp delegs proposer R out Hk HR Hdp Hp Hnd Hd Hs H.
  exact (split_bounded_lemma k votes dp delegs proposer R Hk HR Hdp Hp Hnd Hd Hs out H).
Qed.
Print Assumptions C13_split_bounded.

(* with the constants of the current source *)
Theorem C13_split_bounded_current : forall votes dp delegs proposer R out,
  0 <= R -> 0 <= dp ->
  Forall (fun v => 0 <= v_power v) votes -> NoDup (map v_addr votes) ->
  Forall (fun d => 0 <= snd d) delegs -> zsum (map snd delegs) <= dp ->
  split K votes dp delegs proposer R = Some out ->
  zsum (map snd (so_vals out)) + zsum (map snd (so_delegs out)) <= R.
Proof.
  intros votes dp delegs proposer R out HR Hdp Hp Hnd Hd Hs H.
  exact (proj1 (split_bounded_lemma K votes dp delegs proposer R C13_fact_consts HR Hdp Hp Hnd Hd Hs out H)).
Qed.
Print Assumptions C13_split_bounded_current.

(* non-vacuity: a concrete block with an absent signer, a pool and two delegators *)
Example C13_split_nonvacuous :
  split K [mkVote 1 3000 true true; mkVote 2 1000 false true; mkVote 3 1 true true]
        (7 * UNIT) [(10, 3 * UNIT); (11, 4 * UNIT)] 3 (1000000007)
  = Some (mkSplit [(1, 748764451); (3, 336912)] [(10, 561377); (11, 748502)] 750411243).
Proof. vm_compute. reflexivity. Qed.

(* the hypothesis "distinct addresses" is necessary: the power map keeps the LAST power of a
   repeated address while the total counts both (Tendermint never repeats an address) *)
Theorem C13_split_distinct_needed : exists votes out,
  split K votes 0 [] 0 100 = Some out /\ 100 < zsum (map snd (so_vals out)).
Proof.
  exists [mkVote 1 1 true true; mkVote 1 9 true true]. eexists. split; [vm_compute; reflexivity|].
  vm_compute. reflexivity.
Qed.
