(* C15 — cross-chain lock/redeem: threshold-gated, exactly-once mint and refund.
   Only property theorems here, each closed by [exact <lemma>]; proofs are in proofs/TrackerProofs.v *)
From stdpp Require Import gmap list.
From Coq Require Import ZArith.
From OL Require Import theories.Tracker theories.TrackerCheck proofs.TrackerProofs.
Local Open Scope Z_scope.

(* (1) A mint (the model credits wrapped tokens for a lock: ghost event [Minted n a z]) can only be
   the effect of a report-finality step on an ongoing lock tracker whose reporter is the RECORDED
   witness of the slot it names and had not voted; that vote takes the yes-count from below
   floor(2n/3)+1 to at least it; the amount is the value the oracle parses from the recorded
   external transaction; the beneficiary is the tracker's owner whatever the report's Locker field
   says; both the beneficiary and the supply counter get exactly that amount and
   the tracker becomes Released in the same step.  From ANY state (no reachability needed). *)
Theorem C15_mint_gated : forall E s o s' r n a z,
  step E s o = (s', r) -> log s' = Minted n a z :: log s ->
  exists l v idx k t,
    o = Report n l v idx true /\ r = Ok /\
    ongoing s !! n = Some t /\ t_type t = T_LOCK /\ a = t_owner t /\
    idx = Z.of_nat k /\ t_wit t !! k = Some v /\ voted t v = false /\
    let t' := set_votes t (<[k := 1]> (t_votes t)) in
    yes_votes t < threshold t /\ threshold t <= yes_votes t' /\
    x_lock (e_tx E (t_tx t)) = Some z /\
    ongoing s' !! n = Some (set_state t' S_RELEASED) /\
    passed s' = passed s /\ failed s' = failed s /\
    bal s' = credit (credit (bal s) a z) (e_supply E) z.
Proof. exact mint_gated. Qed.
Print Assumptions C15_mint_gated.

(* (2) the same for the refund of a redeem: only when a recorded witness's no-vote crosses the
   threshold, in the redeemed amount, and to the tracker's owner (the account that was debited) *)
Theorem C15_refund_gated : forall E s o s' r n a z,
  step E s o = (s', r) -> log s' = Refunded n a z :: log s ->
  exists l v idx k t,
    o = Report n l v idx false /\ r = Ok /\
    ongoing s !! n = Some t /\ t_type t = T_REDEEM /\ a = t_owner t /\
    idx = Z.of_nat k /\ t_wit t !! k = Some v /\ voted t v = false /\
    let t' := set_votes t (<[k := 2]> (t_votes t)) in
    no_votes t < threshold t /\ threshold t <= no_votes t' /\
    x_redeem (e_tx E (t_tx t)) = Some z /\
    ongoing s' !! n = Some (set_state t' S_FAILED) /\
    passed s' = passed s /\ failed s' = failed s /\
    bal s' = credit (credit (bal s) a z) (e_supply E) z.
Proof. exact refund_gated. Qed.
Print Assumptions C15_refund_gated.

(* (3) votes: a reporter that is not a recorded witness changes no slot; a recorded witness whose
   slot is filled is refused *)
Theorem C15_vote_non_witness : forall t a idx v t',
  a ∉ t_wit t -> add_vote t a idx v = AVOk t' -> t' = t.
Proof. exact add_vote_non_witness. Qed.
Theorem C15_vote_second : forall t a idx v k,
  NoDup (t_wit t) -> t_wit t !! k = Some a -> slot t k <> 0 -> 0 <= slot t k ->
  Z.of_nat (length (t_wit t)) <=? idx = false ->
  add_vote t a idx v = AVErr.
Proof. exact add_vote_second. Qed.
Print Assumptions C15_vote_second.

(* the shape of any accepted vote: nothing changes, or the slot the reporter is the recorded
   witness of is set to the reported code (and the reporter had not voted) *)
Theorem C15_vote_shape : forall t a idx v t',
  add_vote t a idx v = AVOk t' ->
  t' = t \/
  exists k, idx = Z.of_nat k /\ t_wit t !! k = Some a /\ voted t a = false /\
            t' = set_votes t (<[k := vote_code v]> (t_votes t)).
Proof. exact add_vote_ok. Qed.
Theorem C15_vote_slot_was_empty : forall t a k,
  NoDup (t_wit t) -> t_wit t !! k = Some a -> voted t a = false -> slot t k <= 0.
Proof. exact add_vote_slot_empty. Qed.

(* (4) exactly-once: over every history of operations from any senders in any order, starting
   from empty stores and any balances, no tracker name is minted twice *)
Theorem C15_mint_at_most_once : forall E ops b,
  NoDup (minted_names (log (run E (init b) ops))).
Proof. exact mint_at_most_once. Qed.
Print Assumptions C15_mint_at_most_once.

Theorem C15_refund_at_most_once : forall E ops b,
  NoDup (refunded_names (log (run E (init b) ops))).
Proof. exact refund_at_most_once. Qed.
Print Assumptions C15_refund_at_most_once.

(* (5) the same external transaction name never backs two trackers: in every reachable state a
   name is in at most one of the three stores *)
Theorem C15_unique_name : forall E ops b, stores_disjoint (run E (init b) ops).
Proof. exact unique_name. Qed.
Print Assumptions C15_unique_name.

(* (6) "to the account that submitted the lock" — FULL statement (since /repo b01fdf0; it was refuted
   before: former finding C15.mint_to_report_locker).  For every state and every operation, lying
   Locker field or not: a mint credits the owner recorded in the ongoing lock tracker, by exactly
   the minted amount; runLock records the signer of the lock as that owner, under a name that was
   in neither the ongoing nor the passed store; and no step ever changes the recorded type, name,
   external transaction, witnesses or owner of a tracker that stays in the ongoing store. *)
Theorem C15_mint_to_submitter : forall E s o s' r n a z,
  step E s o = (s', r) -> log s' = Minted n a z :: log s ->
  exists t, ongoing s !! n = Some t /\ t_type t = T_LOCK /\ a = t_owner t /\
            balof (bal s') a = balof (bal s) a + z + (if decide (a = e_supply E) then z else 0).
Proof. exact mint_to_submitter. Qed.
Print Assumptions C15_mint_to_submitter.

Theorem C15_lock_records_sender : forall E s a x s',
  do_lock E s a x = (s', Ok) ->
  ongoing s' !! x_name (e_tx E x) = Some (new_tracker T_LOCK a x (x_name (e_tx E x)) (e_wits E)) /\
  ongoing s !! x_name (e_tx E x) = None /\ passed s !! x_name (e_tx E x) = None.
Proof. exact lock_records_sender. Qed.

Theorem C15_record_stable : forall E s o s' r n t t',
  step E s o = (s', r) -> ongoing s !! n = Some t -> ongoing s' !! n = Some t' -> same_record t t'.
Proof. exact record_stable. Qed.
Print Assumptions C15_record_stable.

Definition E0 : env :=
  {| e_wits := [20; 21; 22; 23]%N; e_cap := 1000; e_supply := 99%N;
     e_tx := fun _ => {| x_name := 1%N; x_lock := Some 100; x_redeem := Some 30 |} |}.
Definition two_honest : list op := [Lock 1%N 1%N; Report 1%N 1%N 20%N 0 true; Report 1%N 1%N 21%N 1 true].

(* regression example (the witness of the former C15_refuted_beneficiary): four recorded witnesses,
   threshold 3; two honest yes-votes; the third witness names account 2 as Locker and crosses the
   threshold: the 100 tokens go to account 1, which submitted the lock; account 2 gets nothing *)
Example C15_lying_locker_does_not_redirect :
  let s := run E0 (init ∅) two_honest in
  let o := Report 1%N 2%N 22%N 2 true in
  lying_locker s o = true /\ log (step E0 s o).1 = Minted 1%N 1%N 100 :: log s /\
  balof (bal (step E0 s o).1) 1%N = 100 /\ balof (bal (step E0 s o).1) 2%N = 0.
Proof. vm_compute. repeat split; reflexivity. Qed.

(* (7) redeem: debit and tracker creation are one successful step, and the name was in no store *)
Theorem C15_redeem_debits_first : forall E s a x s',
  do_redeem E s a x = (s', Ok) ->
  exists amt, x_redeem (e_tx E x) = Some amt /\
    let n := x_name (e_tx E x) in
    ongoing s !! n = None /\ passed s !! n = None /\ failed s !! n = None /\
    ongoing s' !! n = Some (new_tracker T_REDEEM a x n (e_wits E)) /\
    amt <= balof (bal s) a /\
    bal s' = credit (credit (bal s) a (- amt)) (e_supply E) (- amt) /\
    log s' = Debited n a amt :: log s.
Proof. exact redeem_debits. Qed.
Print Assumptions C15_redeem_debits_first.

Definition honest : list op := two_honest ++ [Report 1%N 1%N 22%N 2 true; EndBlock {| nl_witness := false; nl_addr := 0%N; nl_bjob := [] |} [1%N]].

(* (7b) ERC-20 locks (runERC20Lock; only its effect on the tracker stores is modelled).  The handler
   has no existence check.  Outside the trigger (the name is in no store) it keeps the one-name-one-
   tracker invariant; inside it the statements (5) and C15_record_stable are false of the model and
   of the code: known finding C15.erc20_lock_no_existence_check (on the real application the same
   external ERC-20 transfer is minted twice, and a pending lock is taken over by a resubmission
   from another account; reproduced on every run by `vh c15 -erc20`). *)
Theorem C15_erc_lock_partial : forall E okf s a x s' r,
  trig_erc_relock E s x = false -> stores_disjoint s -> do_lock_erc E okf s a x = (s', r) -> stores_disjoint s'.
Proof. exact erc_lock_partial. Qed.
Print Assumptions C15_erc_lock_partial.

(* a name that already passed (and was minted) gets a second, fresh tracker *)
Theorem C15_refuted_erc_relock_passed : exists E okf s a x,
  (exists ops, s = run E (init ∅) ops) /\ trig_erc_relock E s x = true /\
  minted_names (log s) = [x_name (e_tx E x)] /\ ~ stores_disjoint (do_lock_erc E okf s a x).1.
Proof.
  exists E0, (fun _ => true), (run E0 (init ∅) honest), 1%N, 1%N.
  split; [by exists honest|]. split; [by vm_compute|]. split; [by vm_compute|].
  intros [D1 _]. specialize (D1 1%N). vm_compute in D1. destruct D1 as [D1 _]; [by eexists|discriminate].
Qed.

(* a pending tracker with two votes is replaced: votes gone, another owner *)
Theorem C15_refuted_erc_overwrite : exists E okf s a x n t t',
  (exists ops, s = run E (init ∅) ops) /\ trig_erc_relock E s x = true /\
  ongoing s !! n = Some t /\ ongoing (do_lock_erc E okf s a x).1 !! n = Some t' /\
  yes_votes t = 2 /\ yes_votes t' = 0 /\ t_owner t = 1%N /\ t_owner t' = 2%N.
Proof.
  exists E0, (fun _ => true), (run E0 (init ∅) two_honest), 2%N, 1%N, 1%N.
  eexists _, _. split; [by exists two_honest|]. vm_compute. repeat split; reflexivity.
Qed.

(* (8) supply counter = wrapped tokens in circulation ([tot] counts the supply address too, hence
   the factor 2).  Forced hypothesis: no step of the history has the supply address as sender,
   tracker owner or transfer end.  Without it the statement is false of the model
   and of the code: known finding C15.supply_address_transacts. *)
Theorem C15_supply_partial : forall E ops s,
  supply_ok E s -> supply_guarded E s ops -> supply_ok E (run E s ops).
Proof. exact supply_run. Qed.
Print Assumptions C15_supply_partial.

Definition b0 : gmap acct Z := {[ 1%N := 50; 99%N := 50 ]}.
Theorem C15_refuted_supply : exists E s o,
  supply_ok E s /\ trig_supply E s o = true /\ ~ supply_ok E (step E s o).1.
Proof.
  exists E0, (init b0), (Transfer 1%N 99%N 10). split; [by vm_compute|]. split; [by vm_compute|].
  intros H. vm_compute in H. discriminate.
Qed.

(* non-vacuity: an honest history satisfies every hypothesis above, mints exactly once, credits
   the owner and keeps the counter equal to the circulation; a failing redeem is refunded once *)
Example C15_honest_history :
  let s := run E0 (init ∅) honest in
  supply_guarded E0 (init ∅) honest /\ minted_names (log s) = [1%N] /\ balof (bal s) 1%N = 100 /\
  balof (bal s) 99%N = 100 /\ has (passed s) 1%N = true /\ has (ongoing s) 1%N = false.
Proof. vm_compute. repeat split; reflexivity. Qed.

Definition redeem_fails : list op :=
  [Redeem 1%N 1%N; Report 1%N 1%N 20%N 0 false; Report 1%N 1%N 20%N 0 false; Report 1%N 1%N 40%N 1 false;
   Report 1%N 1%N 21%N 1 false; Report 1%N 1%N 22%N 2 false; Report 1%N 1%N 23%N 3 false].
Example C15_refund_history :
  let s := run E0 (init b0) redeem_fails in
  supply_guarded E0 (init b0) redeem_fails /\ refunded_names (log s) = [1%N] /\
  balof (bal s) 1%N = 50 /\ balof (bal s) 99%N = 50.
Proof. vm_compute. repeat split; reflexivity. Qed.
