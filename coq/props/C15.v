(* C15 — cross-chain lock/redeem: threshold-gated, exactly-once mint and refund.
   Only property theorems here, each closed by [exact <lemma>]; proofs are in proofs/TrackerProofs.v *)
From stdpp Require Import gmap list.
From Coq Require Import ZArith.
From OL Require Import theories.Tracker theories.TrackerCheck proofs.TrackerProofs.
Local Open Scope Z_scope.

(* (1) A mint (the model credits wrapped tokens for a lock: ghost event [Minted n a z]) can only be
   the effect of a report-finality step on an ongoing lock tracker whose reporter is the RECORDED
   witness of the slot it names and had not voted; that vote takes the yes-count from below
   floor(2n/3)+1 to at least it; the amount is the value the oracle parses from the recorded
   external transaction; the beneficiary is the tracker's owner whatever the report's Locker field
   says; both the beneficiary and the supply counter get exactly that amount and
   the tracker becomes Released in the same step.  From ANY state (no reachability needed). *)
Theorem C15_mint_gated : forall E s o s' r n a z,
  step E s o = (s', r) -> log s' = Minted n a z :: log s ->
  exists l v idx k t,
    o = Report n l v idx true /\ r = Ok /\
    ongoing s !! n = Some t /\ t_type t = T_LOCK /\ a = t_owner t /\
    idx = Z.of_nat k /\ t_wit t !! k = Some v /\ voted t v = false /\
    let t' := set_votes t (<[k := 1]> (t_votes t)) in
    yes_votes t < threshold t /\ threshold t <= yes_votes t' /\
    x_lock (e_tx E (t_tx t)) = Some z /\
    ongoing s' !! n = Some (set_state t' S_RELEASED) /\
    passed s' = passed s /\ failed s' = failed s /\
    bal s' = credit (credit (bal s) a z) (e_supply E) z.
Proof. exact mint_gated. Qed.
Print Assumptions C15_mint_gated.

(* (2) the same for the refund of a redeem: only when a recorded witness's no-vote crosses the
   threshold, in the redeemed amount, and to the tracker's owner (the account that was debited) *)
Theorem C15_refund_gated : forall E s o s' r n a z,
  step E s o = (s', r) -> log s' = Refunded n a z :: log s ->
  exists l v idx k t,
    o = Report n l v idx false /\ r = Ok /\
    ongoing s !! n = Some t /\ t_type t = T_REDEEM /\ a = t_owner t /\
    idx = Z.of_nat k /\ t_wit t !! k = Some v /\ voted t v = false /\
    let t' := set_votes t (<[k := 2]> (t_votes t)) in
    no_votes t < threshold t /\ threshold t <= no_votes t' /\
    x_redeem (e_tx E (t_tx t)) = Some z /\
    ongoing s' !! n = Some (set_state t' S_FAILED) /\
    passed s' = passed s /\ failed s' = failed s /\
    bal s' = credit (credit (bal s) a z) (e_supply E) z.
Proof. exact refund_gated. Qed.
Print Assumptions C15_refund_gated.

(* (3) votes: a reporter that is not a recorded witness changes no slot; a recorded witness whose
   slot is filled is refused *)
Theorem C15_vote_non_witness : forall t a idx v t',
  a ∉ t_wit t -> add_vote t a idx v = AVOk t' -> t' = t.
Proof. exact add_vote_non_witness. Qed.
Theorem C15_vote_second : forall t a idx v k,
  NoDup (t_wit t) -> t_wit t !! k = Some a -> slot t k <> 0 -> 0 <= slot t k ->
  Z.of_nat (length (t_wit t)) <=? idx = false ->
  add_vote t a idx v = AVErr.
Proof. exact add_vote_second. Qed.
Print Assumptions C15_vote_second.

(* the shape of any accepted vote: nothing changes, or the slot the reporter is the recorded
   witness of is set to the reported code (and the reporter had not voted) *)
Theorem C15_vote_shape : forall t a idx v t',
  add_vote t a idx v = AVOk t' ->
  t' = t \/
  exists k, idx = Z.of_nat k /\ t_wit t !! k = Some a /\ voted t a = false /\
            t' = set_votes t (<[k := vote_code v]> (t_votes t)).
Proof. exact add_vote_ok. Qed.
Theorem C15_vote_slot_was_empty : forall t a k,
  NoDup (t_wit t) -> t_wit t !! k = Some a -> voted t a = false -> slot t k <= 0.
Proof. exact add_vote_slot_empty. Qed.

(* (4) exactly-once: over every history of operations from any senders in any order, starting
   from empty stores and any balances, no tracker name is minted twice *)
Theorem C15_mint_at_most_once : forall E ops b,
  NoDup (minted_names (log (run E (init b) ops))).
Proof. exact mint_at_most_once. Qed.
Print Assumptions C15_mint_at_most_once.

Theorem C15_refund_at_most_once : forall E ops b,
  NoDup (refunded_names (log (run E (init b) ops))).
Proof. exact refund_at_most_once. Qed.
Print Assumptions C15_refund_at_most_once.

(* (5) the same external transaction name never backs two trackers: in every reachable state a
   name is in at most one of the three stores *)
Theorem C15_unique_name : forall E ops b, stores_disjoint (run E (init b) ops).
Proof. exact unique_name. Qed.
Print Assumptions C15_unique_name.

(* (5b) the same EXTERNAL transaction never backs two trackers, whatever bytes carry it.  A tracker
   appears in the ongoing store only by an accepted lock / redeem, under the name of the submitted
   bytes, and only if that name is neither ongoing nor passed (redeem: nor failed).  Under the
   oracle hypothesis [ext_canonical] (strict decoding: accepted byte strings of one external
   transaction are identical — what rlp.DecodeBytes gives; since /repo dec611a the redeem handlers
   decode strictly too; the seeded lenient decoder C15_6 and the former padded-redeem defect are
   exactly violations of it, found by the monitor checks 11/12 on the implementation), every
   accepted encoding of the external transaction of a newly created tracker has that tracker's
   name, and no live or completed tracker existed under it: with (4) and (5), one external
   transaction backs at most one live tracker and is minted at most once. *)
Theorem C15_tracker_created_by : forall E s o s' r n t',
  step E s o = (s', r) -> ongoing s !! n = None -> ongoing s' !! n = Some t' ->
  exists a x, (o = Lock a x \/ (o = Redeem a x /\ failed s !! n = None)) /\
              n = x_name (e_tx E x) /\ t_tx t' = x /\ t_owner t' = a /\ accepted E x /\ passed s !! n = None.
Proof. exact created_by. Qed.
Theorem C15_one_tracker_per_external_tx : forall E s o s' r n t',
  ext_canonical E ->
  step E s o = (s', r) -> ongoing s !! n = None -> ongoing s' !! n = Some t' ->
  forall x0, accepted E x0 -> x_ext (e_tx E x0) = x_ext (e_tx E (t_tx t')) ->
    x_name (e_tx E x0) = n /\ ongoing s !! x_name (e_tx E x0) = None /\ passed s !! x_name (e_tx E x0) = None.
Proof. exact one_tracker_per_external_tx. Qed.
Print Assumptions C15_one_tracker_per_external_tx.

(* (6) "to the account that submitted the lock" — FULL statement (since /repo b01fdf0; it was refuted
   before: former finding C15.mint_to_report_locker).  For every state and every operation, lying
   Locker field or not: a mint credits the owner recorded in the ongoing lock tracker, by exactly
   the minted amount; runLock records the signer of the lock as that owner, under a name that was
   in neither the ongoing nor the passed store; and no step ever changes the recorded type, name,
   external transaction, witnesses or owner of a tracker that stays in the ongoing store. *)
Theorem C15_mint_to_submitter : forall E s o s' r n a z,
  step E s o = (s', r) -> log s' = Minted n a z :: log s ->
  exists t, ongoing s !! n = Some t /\ t_type t = T_LOCK /\ a = t_owner t /\
            balof (bal s') a = balof (bal s) a + z + (if decide (a = e_supply E) then z else 0).
Proof. exact mint_to_submitter. Qed.
Print Assumptions C15_mint_to_submitter.

Theorem C15_lock_records_sender : forall E s a x s',
  do_lock E s a x = (s', Ok) ->
  ongoing s' !! x_name (e_tx E x) = Some (new_tracker T_LOCK a x (x_name (e_tx E x)) (e_wits E)) /\
  ongoing s !! x_name (e_tx E x) = None /\ passed s !! x_name (e_tx E x) = None.
Proof. exact lock_records_sender. Qed.

Theorem C15_record_stable : forall E s o s' r n t t',
  step E s o = (s', r) -> ongoing s !! n = Some t -> ongoing s' !! n = Some t' -> same_record t t'.
Proof. exact record_stable. Qed.
Print Assumptions C15_record_stable.

Definition E0 : env :=
  {| e_wits := [20; 21; 22; 23]%N; e_cap := 1000; e_supply := 99%N;
     e_tx := fun _ => {| x_name := 1%N; x_ext := 1%N; x_lock := Some 100; x_redeem := Some 30 |};
     e_key := fun a => negb (N.eqb a 99%N); e_len20 := fun a => negb (N.eqb a 99%N) |}.
(* the same with a supply address that is 20 bytes long *)
Definition E1 : env :=
  {| e_wits := e_wits E0; e_cap := e_cap E0; e_supply := e_supply E0; e_tx := e_tx E0;
     e_key := e_key E0; e_len20 := fun _ => true |}.
Definition two_honest : list op := [Lock 1%N 1%N; Report 1%N 1%N 20%N 0 true; Report 1%N 1%N 21%N 1 true].

(* the hypothesis is satisfiable (and is what the harness measures): E0 has a single name *)
Example C15_ext_canonical_nonvacuous : ext_canonical E0.
Proof. intros x x' _ _ _. reflexivity. Qed.


(* regression example (the witness of the former C15_refuted_beneficiary): four recorded witnesses,
   threshold 3; two honest yes-votes; the third witness names account 2 as Locker and crosses the
   threshold: the 100 tokens go to account 1, which submitted the lock; account 2 gets nothing *)
Example C15_lying_locker_does_not_redirect :
  let s := run E0 (init ∅) two_honest in
  let o := Report 1%N 2%N 22%N 2 true in
  lying_locker s o = true /\ log (step E0 s o).1 = Minted 1%N 1%N 100 :: log s /\
  balof (bal (step E0 s o).1) 1%N = 100 /\ balof (bal (step E0 s o).1) 2%N = 0.
Proof. vm_compute. repeat split; reflexivity. Qed.

(* (7) redeem: debit and tracker creation are one successful step, and the name was in no store *)
Theorem C15_redeem_debits_first : forall E s a x s',
  do_redeem E s a x = (s', Ok) ->
  exists amt, x_redeem (e_tx E x) = Some amt /\
    let n := x_name (e_tx E x) in
    ongoing s !! n = None /\ passed s !! n = None /\ failed s !! n = None /\
    ongoing s' !! n = Some (new_tracker T_REDEEM a x n (e_wits E)) /\
    amt <= balof (bal s) a /\
    bal s' = credit (credit (bal s) a (- amt)) (e_supply E) (- amt) /\
    log s' = Debited n a amt :: log s.
Proof. exact redeem_debits. Qed.
Print Assumptions C15_redeem_debits_first.

Definition honest : list op := two_honest ++ [Report 1%N 1%N 22%N 2 true; EndBlock {| nl_witness := false; nl_addr := 0%N; nl_bjob := [] |} [1%N]].

(* (7b) ERC-20 locks (runERC20Lock; only its effect on the tracker stores is modelled).  FULL since
   /repo 81bf4e3 (the handler got runLock's existence rule; before, it had none: former finding
   C15.erc20_lock_no_existence_check, double mint and take-over of a pending lock): the handler
   keeps the one-name-one-tracker invariant from every state, and never touches a name that is
   ongoing or passed. *)
Theorem C15_erc_lock_unique : forall E okf s a x s' r,
  stores_disjoint s -> do_lock_erc E okf s a x = (s', r) -> stores_disjoint s'.
Proof. exact erc_lock_unique. Qed.
Print Assumptions C15_erc_lock_unique.
Theorem C15_erc_lock_refuses : forall E okf s a x,
  has (ongoing s) (x_name (e_tx E x)) || has (passed s) (x_name (e_tx E x)) = true ->
  do_lock_erc E okf s a x = (s, Fail).
Proof. exact erc_lock_refuses. Qed.

(* regression examples (the witnesses of the former refuted theorems): a name that passed and was
   minted is refused; a pending tracker with two votes is not replaced *)
Example C15_erc_relock_of_passed_name_refused :
  let s := run E0 (init ∅) honest in
  erc_relock E0 s 1%N = true /\ minted_names (log s) = [1%N] /\
  (do_lock_erc E0 (fun _ => true) s 1%N 1%N).2 = Fail /\ has (ongoing (do_lock_erc E0 (fun _ => true) s 1%N 1%N).1) 1%N = false.
Proof. vm_compute. repeat split; reflexivity. Qed.
Example C15_erc_pending_lock_not_overwritten :
  let s := run E0 (init ∅) two_honest in
  (do_lock_erc E0 (fun _ => true) s 2%N 1%N).2 = Fail /\
  option_map t_owner (ongoing (do_lock_erc E0 (fun _ => true) s 2%N 1%N).1 !! 1%N) = Some 1%N /\
  option_map yes_votes (ongoing (do_lock_erc E0 (fun _ => true) s 2%N 1%N).1 !! 1%N) = Some 2.
Proof. vm_compute. repeat split; reflexivity. Qed.

(* (7c) since /repo d276709 DeliverTx runs the kind's Validate first ([valid], [vstep]): a report with
   a negative vote index (it made AddVote index out of range before) and any transaction naming
   a signer without key have no effect *)
Theorem C15_invalid_no_effect : forall E s o, valid E o = false -> vstep E s o = (s, Fail).
Proof. intros E s o H. unfold vstep. by rewrite H. Qed.
Example C15_negative_index_refused :
  let s := run E0 (init ∅) two_honest in vstep E0 s (Report 1%N 1%N 22%N (-1) true) = (s, Fail).
Proof. vm_compute. reflexivity. Qed.

(* (7d) node independence (FULL since /repo 3dd4152; before, the lock step Finalizing dropped its state
   change on a witness node that had not voted and held no broadcast job: former finding
   C15.lock_finalizing_depends_on_local_jobs, an application-hash divergence).  Two nodes that see
   the same transactions and the same committed tracker names, but have ANY different witness
   flags, validator addresses and job stores at each block end, compute the same state — tracker
   stores of lock and redeem trackers alike, balances and ghost log.  (The redeem steps
   VerifyRedeem / RedeemConfirmed may fail on a missing job but write nothing.)  What stays
   node-local is outside this state: the node's job store. *)
Theorem C15_tracker_state_node_independent : forall E ops ops',
  Forall2 op_sim ops ops' -> forall s, run E s ops = run E s ops'.
Proof. exact state_node_independent. Qed.
Print Assumptions C15_tracker_state_node_independent.

(* regression example: a witness node without the broadcast job that has not voted moves the
   tracker to BusyFinalizing like everybody else *)
Example C15_finalizing_without_local_job :
  let s := run E0 (init ∅) [Lock 1%N 1%N; EndBlock {| nl_witness := false; nl_addr := 50%N; nl_bjob := [] |} [1%N];
                            Report 1%N 1%N 20%N 0 true] in
  option_map t_state (ongoing (vstep E0 s (EndBlock {| nl_witness := true; nl_addr := 50%N; nl_bjob := [] |} [1%N])).1 !! 1%N)
    = Some S_BUSYFINALIZING.
Proof. vm_compute. reflexivity. Qed.

(* (8) supply counter = wrapped tokens in circulation ([tot] counts the supply address too, hence
   the factor 2).  FULL over all histories when the configured supply address is not the address
   of a signing key and is not 20 bytes long (true of the shipped configurations:
   "oneledgerSupplyAddress" has 22 bytes, so SEND's Validate refuses it as a target — effective on
   the deliver path since /repo d276709). *)
Theorem C15_supply_always : forall E ops b,
  e_key E (e_supply E) = false -> e_len20 E (e_supply E) = false ->
  tot b = 2 * balof b (e_supply E) -> supply_ok E (run E (init b) ops).
Proof. exact supply_always. Qed.
Print Assumptions C15_supply_always.

(* for ANY configuration: as long as no step has the supply address as sender, tracker owner or
   transfer end.  If TotalSupplyAddr is configured as a 20-byte string the guard is needed: known
   finding C15.supply_address_transacts (a SEND to it is accepted). *)
Theorem C15_supply_partial : forall E ops s,
  supply_ok E s -> supply_guarded E s ops -> supply_ok E (run E s ops).
Proof. exact supply_run. Qed.
Print Assumptions C15_supply_partial.

Definition b0 : gmap acct Z := {[ 1%N := 50; 99%N := 50 ]}.
Theorem C15_refuted_supply : exists E s o,
  e_key E (e_supply E) = false /\ e_len20 E (e_supply E) = true /\
  supply_ok E s /\ trig_supply E s o = true /\ valid E o = true /\ ~ supply_ok E (vstep E s o).1.
Proof.
  exists E1, (init b0), (Transfer 1%N 99%N 10). repeat (split; [by vm_compute|]).
  intros H. vm_compute in H. discriminate.
Qed.
(* the same transfer with the 22-byte address is refused *)
Example C15_send_to_malformed_supply_address_refused :
  vstep E0 (init b0) (Transfer 1%N 99%N 10) = (init b0, Fail).
Proof. vm_compute. reflexivity. Qed.

(* non-vacuity: an honest history satisfies every hypothesis above, mints exactly once, credits
   the owner and keeps the counter equal to the circulation; a failing redeem is refunded once *)
Example C15_honest_history :
  let s := run E0 (init ∅) honest in
  supply_guarded E0 (init ∅) honest /\ minted_names (log s) = [1%N] /\ balof (bal s) 1%N = 100 /\
  balof (bal s) 99%N = 100 /\ has (passed s) 1%N = true /\ has (ongoing s) 1%N = false.
Proof. vm_compute. repeat split; reflexivity. Qed.

Definition redeem_fails : list op :=
  [Redeem 1%N 1%N; Report 1%N 1%N 20%N 0 false; Report 1%N 1%N 20%N 0 false; Report 1%N 1%N 40%N 1 false;
   Report 1%N 1%N 21%N 1 false; Report 1%N 1%N 22%N 2 false; Report 1%N 1%N 23%N 3 false].
Example C15_refund_history :
  let s := run E0 (init b0) redeem_fails in
  supply_guarded E0 (init b0) redeem_fails /\ refunded_names (log s) = [1%N] /\
  balof (bal s) 1%N = 50 /\ balof (bal s) 99%N = 50.
Proof. vm_compute. repeat split; reflexivity. Qed.
