(* C15 — cross-chain lock/redeem: threshold-gated, exactly-once mint and refund.
   Only property theorems here, each closed by [exact <lemma>]; proofs are in proofs/TrackerProofs.v *)
From stdpp Require Import gmap list.
From Coq Require Import ZArith.
From OL Require Import theories.Tracker theories.TrackerCheck proofs.TrackerProofs.
Local Open Scope Z_scope.

(* (1) A mint (the model credits wrapped tokens for a lock: ghost event [Minted n a z]) can only be
   the effect of a report-finality step on an ongoing lock tracker whose reporter is the RECORDED
   witness of the slot it names and had not voted; that vote takes the yes-count from below
   floor(2n/3)+1 to at least it; the amount is the value the oracle parses from the recorded
   external transaction; both the beneficiary and the supply counter get exactly that amount and
   the tracker becomes Released in the same step.  From ANY state (no reachability needed). *)
Theorem C15_mint_gated : forall E s o s' r n a z,
  step E s o = (s', r) -> log s' = Minted n a z :: log s ->
  exists v idx k t,
    o = Report n a v idx true /\ r = Ok /\
    ongoing s !! n = Some t /\ t_type t = T_LOCK /\
    idx = Z.of_nat k /\ t_wit t !! k = Some v /\ voted t v = false /\
    let t' := set_votes t (<[k := 1]> (t_votes t)) in
    yes_votes t < threshold t /\ threshold t <= yes_votes t' /\
    x_lock (e_tx E (t_tx t)) = Some z /\
    ongoing s' !! n = Some (set_state t' S_RELEASED) /\
    passed s' = passed s /\ failed s' = failed s /\
    bal s' = credit (credit (bal s) a z) (e_supply E) z.
Proof. exact mint_gated. Qed.
Print Assumptions C15_mint_gated.

(* (2) the same for the refund of a redeem: only when a recorded witness's no-vote crosses the
   threshold, in the redeemed amount, and to the tracker's owner (the account that was debited) *)
Theorem C15_refund_gated : forall E s o s' r n a z,
  step E s o = (s', r) -> log s' = Refunded n a z :: log s ->
  exists l v idx k t,
    o = Report n l v idx false /\ r = Ok /\
    ongoing s !! n = Some t /\ t_type t = T_REDEEM /\ a = t_owner t /\
    idx = Z.of_nat k /\ t_wit t !! k = Some v /\ voted t v = false /\
    let t' := set_votes t (<[k := 2]> (t_votes t)) in
    no_votes t < threshold t /\ threshold t <= no_votes t' /\
    x_redeem (e_tx E (t_tx t)) = Some z /\
    ongoing s' !! n = Some (set_state t' S_FAILED) /\
    passed s' = passed s /\ failed s' = failed s /\
    bal s' = credit (credit (bal s) a z) (e_supply E) z.
Proof. exact refund_gated. Qed.
Print Assumptions C15_refund_gated.

(* (3) votes: a reporter that is not a recorded witness changes no slot; a recorded witness whose
   slot is filled is refused *)
Theorem C15_vote_non_witness : forall t a idx v t',
  a ∉ t_wit t -> add_vote t a idx v = AVOk t' -> t' = t.
Proof. exact add_vote_non_witness. Qed.
Theorem C15_vote_second : forall t a idx v k,
  NoDup (t_wit t) -> t_wit t !! k = Some a -> slot t k <> 0 -> 0 <= slot t k ->
  Z.of_nat (length (t_wit t)) <=? idx = false ->
  add_vote t a idx v = AVErr.
Proof. exact add_vote_second. Qed.
Print Assumptions C15_vote_second.
