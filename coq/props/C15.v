(* C15 — cross-chain lock/redeem: threshold-gated, exactly-once mint and refund.
   Only property theorems here, each closed by [exact <lemma>]; proofs are in proofs/TrackerProofs.v *)
From stdpp Require Import gmap list.
From Coq Require Import ZArith.
From OL Require Import theories.Tracker theories.TrackerCheck proofs.TrackerProofs.
Local Open Scope Z_scope.

(* (1) A mint (the model credits wrapped tokens for a lock: ghost event [Minted n a z]) can only be
   the effect of a report-finality step on an ongoing lock tracker whose reporter is the RECORDED
   witness of the slot it names and had not voted; that vote takes the yes-count from below
   floor(2n/3)+1 to at least it; the amount is the value the oracle parses from the recorded
   external transaction; both the beneficiary and the supply counter get exactly that amount and
   the tracker becomes Released in the same step.  From ANY state (no reachability needed). *)
Theorem C15_mint_gated : forall E s o s' r n a z,
  step E s o = (s', r) -> log s' = Minted n a z :: log s ->
  exists v idx k t,
    o = Report n a v idx true /\ r = Ok /\
    ongoing s !! n = Some t /\ t_type t = T_LOCK /\
    idx = Z.of_nat k /\ t_wit t !! k = Some v /\ voted t v = false /\
    let t' := set_votes t (<[k := 1]> (t_votes t)) in
    yes_votes t < threshold t /\ threshold t <= yes_votes t' /\
    x_lock (e_tx E (t_tx t)) = Some z /\
    ongoing s' !! n = Some (set_state t' S_RELEASED) /\
    passed s' = passed s /\ failed s' = failed s /\
    bal s' = credit (credit (bal s) a z) (e_supply E) z.
Proof. exact mint_gated. Qed.
Print Assumptions C15_mint_gated.

(* (2) the same for the refund of a redeem: only when a recorded witness's no-vote crosses the
   threshold, in the redeemed amount, and to the tracker's owner (the account that was debited) *)
Theorem C15_refund_gated : forall E s o s' r n a z,
  step E s o = (s', r) -> log s' = Refunded n a z :: log s ->
  exists l v idx k t,
    o = Report n l v idx false /\ r = Ok /\
    ongoing s !! n = Some t /\ t_type t = T_REDEEM /\ a = t_owner t /\
    idx = Z.of_nat k /\ t_wit t !! k = Some v /\ voted t v = false /\
    let t' := set_votes t (<[k := 2]> (t_votes t)) in
    no_votes t < threshold t /\ threshold t <= no_votes t' /\
    x_redeem (e_tx E (t_tx t)) = Some z /\
    ongoing s' !! n = Some (set_state t' S_FAILED) /\
    passed s' = passed s /\ failed s' = failed s /\
    bal s' = credit (credit (bal s) a z) (e_supply E) z.
Proof. exact refund_gated. Qed.
Print Assumptions C15_refund_gated.

(* (3) votes: a reporter that is not a recorded witness changes no slot; a recorded witness whose
   slot is filled is refused *)
Theorem C15_vote_non_witness : forall t a idx v t',
  a ∉ t_wit t -> add_vote t a idx v = AVOk t' -> t' = t.
Proof. exact add_vote_non_witness. Qed.
Theorem C15_vote_second : forall t a idx v k,
  NoDup (t_wit t) -> t_wit t !! k = Some a -> slot t k <> 0 -> 0 <= slot t k ->
  Z.of_nat (length (t_wit t)) <=? idx = false ->
  add_vote t a idx v = AVErr.
Proof. exact add_vote_second. Qed.
Print Assumptions C15_vote_second.

(* the shape of any accepted vote: nothing changes, or the slot the reporter is the recorded
   witness of is set to the reported code (and the reporter had not voted) *)
Theorem C15_vote_shape : forall t a idx v t',
  add_vote t a idx v = AVOk t' ->
  t' = t \/
  exists k, idx = Z.of_nat k /\ t_wit t !! k = Some a /\ voted t a = false /\
            t' = set_votes t (<[k := vote_code v]> (t_votes t)).
Proof. exact add_vote_ok. Qed.
Theorem C15_vote_slot_was_empty : forall t a k,
  NoDup (t_wit t) -> t_wit t !! k = Some a -> voted t a = false -> slot t k <= 0.
Proof. exact add_vote_slot_empty. Qed.

(* (4) exactly-once: over every history of operations from any senders in any order, starting
   from empty stores and any balances, no tracker name is minted twice *)
Theorem C15_mint_at_most_once : forall E ops b,
  NoDup (minted_names (log (run E (init b) ops))).
Proof. exact mint_at_most_once. Qed.
Print Assumptions C15_mint_at_most_once.

Theorem C15_refund_at_most_once : forall E ops b,
  NoDup (refunded_names (log (run E (init b) ops))).
Proof. exact refund_at_most_once. Qed.
Print Assumptions C15_refund_at_most_once.

(* (5) the same external transaction name never backs two trackers: in every reachable state a
   name is in at most one of the three stores *)
Theorem C15_unique_name : forall E ops b, stores_disjoint (run E (init b) ops).
Proof. exact unique_name. Qed.
Print Assumptions C15_unique_name.

(* (6) "to the account that submitted the lock".  The full statement is false of the faithful
   model (and of the code: known finding C15.mint_to_report_locker): the beneficiary is the Locker
   field of the report that crosses the threshold.  Outside the trigger it holds. *)
Theorem C15_beneficiary_partial : forall E s o s' r n a z,
  step E s o = (s', r) -> log s' = Minted n a z :: log s -> trig_locker s o = false ->
  exists t, ongoing s !! n = Some t /\ a = t_owner t.
Proof. exact beneficiary_partial. Qed.
Print Assumptions C15_beneficiary_partial.

Definition E0 : env :=
  {| e_wits := [20; 21; 22; 23]%N; e_cap := 1000; e_supply := 99%N;
     e_tx := fun _ => {| x_name := 1%N; x_lock := Some 100; x_redeem := Some 30 |} |}.
Definition two_honest : list op := [Lock 1%N 1%N; Report 1%N 1%N 20%N 0 true; Report 1%N 1%N 21%N 1 true].

(* four recorded witnesses, threshold 3; two honest yes-votes; the third witness names account 2 *)
Theorem C15_refuted_beneficiary : exists E s o n a z t,
  (exists ops, s = run E (init ∅) ops) /\ trig_locker s o = true /\
  log (step E s o).1 = Minted n a z :: log s /\ ongoing s !! n = Some t /\ a <> t_owner t.
Proof.
  exists E0, (run E0 (init ∅) two_honest), (Report 1%N 2%N 22%N 2 true), 1%N, 2%N, 100,
    {| t_type := 1; t_state := 0; t_name := 1%N; t_tx := 1%N; t_wit := [20; 21; 22; 23]%N; t_owner := 1%N;
       t_votes := [1; 1; 0; 0] |}.
  split; [by exists two_honest|]. vm_compute. repeat split; try reflexivity. discriminate.
Qed.

(* (7) redeem: debit and tracker creation are one successful step, and the name was in no store *)
Theorem C15_redeem_debits_first : forall E s a x s',
  do_redeem E s a x = (s', Ok) ->
  exists amt, x_redeem (e_tx E x) = Some amt /\
    let n := x_name (e_tx E x) in
    ongoing s !! n = None /\ passed s !! n = None /\ failed s !! n = None /\
    ongoing s' !! n = Some (new_tracker T_REDEEM a x n (e_wits E)) /\
    amt <= balof (bal s) a /\
    bal s' = credit (credit (bal s) a (- amt)) (e_supply E) (- amt) /\
    log s' = Debited n a amt :: log s.
Proof. exact redeem_debits. Qed.
Print Assumptions C15_redeem_debits_first.

(* (8) supply counter = wrapped tokens in circulation ([tot] counts the supply address too, hence
   the factor 2).  Forced hypothesis: no step of the history has the supply address as sender,
   named Locker, tracker owner or transfer end.  Without it the statement is false of the model
   and of the code: known finding C15.supply_address_transacts. *)
Theorem C15_supply_partial : forall E ops s,
  supply_ok E s -> supply_guarded E s ops -> supply_ok E (run E s ops).
Proof. exact supply_run. Qed.
Print Assumptions C15_supply_partial.

Definition b0 : gmap acct Z := {[ 1%N := 50; 99%N := 50 ]}.
Theorem C15_refuted_supply : exists E s o,
  supply_ok E s /\ trig_supply E s o = true /\ ~ supply_ok E (step E s o).1.
Proof.
  exists E0, (init b0), (Transfer 1%N 99%N 10). split; [by vm_compute|]. split; [by vm_compute|].
  intros H. vm_compute in H. discriminate.
Qed.

(* non-vacuity: an honest history satisfies every hypothesis above, mints exactly once, credits
   the owner and keeps the counter equal to the circulation; a failing redeem is refunded once *)
Definition honest : list op := two_honest ++ [Report 1%N 1%N 22%N 2 true; EndBlock {| nl_witness := false; nl_addr := 0%N; nl_bjob := [] |} [1%N]].
Example C15_honest_history :
  let s := run E0 (init ∅) honest in
  supply_guarded E0 (init ∅) honest /\ minted_names (log s) = [1%N] /\ balof (bal s) 1%N = 100 /\
  balof (bal s) 99%N = 100 /\ has (passed s) 1%N = true /\ has (ongoing s) 1%N = false.
Proof. vm_compute. repeat split; reflexivity. Qed.

Definition redeem_fails : list op :=
  [Redeem 1%N 1%N; Report 1%N 1%N 20%N 0 false; Report 1%N 1%N 20%N 0 false; Report 1%N 1%N 40%N 1 false;
   Report 1%N 1%N 21%N 1 false; Report 1%N 1%N 22%N 2 false; Report 1%N 1%N 23%N 3 false].
Example C15_refund_history :
  let s := run E0 (init b0) redeem_fails in
  supply_guarded E0 (init b0) redeem_fails /\ refunded_names (log s) = [1%N] /\
  balof (bal s) 1%N = 50 /\ balof (bal s) 99%N = 50.
Proof. vm_compute. repeat split; reflexivity. Qed.
