(* C06 — failed transactions are atomic no-ops.  Only property theorems here. *)
From stdpp Require Import gmap list.
From Coq Require Import ZArith String.
From OL Require Import theories.Store theories.Abci proofs.StoreProofs proofs.AbciProofs
  gen.Facts_Wrapper.
Local Open Scope Z_scope.

(* tie to the source: txDeliverer, and the two internal-transaction loops that run at block end,
   open the session before the handler, run the fee step inside it, commit only under
   ok (&& feeOk) and discard otherwise — as [Abci.deliver] assumes.  Regenerated on every run. *)
Theorem C06_fact_deliverer : wrapper_ok deliverer = true /\ deliverer_guard = "ok_and_fee"%string
                             /\ deliverer_no_return_inside = true
                             /\ deliverer_validate_guards_handler = true.
Proof. vm_compute. auto. Qed.

Theorem C06_fact_internal_loops :
  wrapper_ok expire_proposals = true /\ expire_proposals_guard = "ok"%string /\
  wrapper_ok finalize_proposals = true /\ finalize_proposals_guard = "ok"%string.
Proof. vm_compute. auto. Qed.

(* for EVERY handler program and fee program (adaptive, state dependent, failing at any point
   after any partial updates), every state: a delivered transaction that returns a non-zero code
   leaves every component of the state unchanged except the block gas counter *)
Theorem C06_failed_is_noop : forall s h fee, sess s = None ->
  (deliver s h fee).1 = false -> exists g, (deliver s h fee).2 = with_gas s g.
Proof. exact failed_deliver_is_noop. Qed.
Print Assumptions C06_failed_is_noop.

(* no delivered transaction, failed or not, leaves a session open or touches the tree, the saved
   versions or the tree-call log *)
Theorem C06_deliver_frame : forall s h fee, sess s = None ->
  let s' := (deliver s h fee).2 in
  sess s' = None /\ tree s' = tree s /\ saved s' = saved s /\ version s' = version s /\
  wlog s' = wlog s.
Proof. exact deliver_frame. Qed.

(* removing every failed transaction from any block yields the same results for the remaining
   transactions and the same final state (hence the same commit), in the gas-free semantics;
   C09_gas_erasure carries it to metered blocks that stay below the gas limit.  The proviso is
   real: the gas counter is the one thing a failed transaction advances. *)
Theorem C06_block_without_failed : forall txs s, sess s = None -> gas s = None ->
  let '(res, s') := run_block s txs in
  run_block s (drop_failed txs res) = (only_ok res, s').
Proof. exact block_without_failed. Qed.
Print Assumptions C06_block_without_failed.

(* the same three statements for the deliverer as it is now written: BeginTxSession, then
   handler.Validate (an arbitrary program as well); a rejection discards the session and returns
   before the handler and the fee step *)
Theorem C06_failed_is_noop_validating : forall s v h fee, sess s = None ->
  (deliver_v s v h fee).1 = false -> exists g, (deliver_v s v h fee).2 = with_gas s g.
Proof. exact failed_deliver_v_is_noop. Qed.
Print Assumptions C06_failed_is_noop_validating.

Theorem C06_deliver_frame_validating : forall s v h fee, sess s = None ->
  let s' := (deliver_v s v h fee).2 in
  sess s' = None /\ tree s' = tree s /\ saved s' = saved s /\ version s' = version s /\
  wlog s' = wlog s.
Proof. exact deliver_v_frame. Qed.

Theorem C06_block_without_failed_validating : forall txs s, sess s = None -> gas s = None ->
  let '(res, s') := run_block_v s txs in
  run_block_v s (drop_failed_v txs res) = (only_ok res, s').
Proof. exact block_v_without_failed. Qed.
Print Assumptions C06_block_without_failed_validating.

(* non-vacuity: a handler that writes, deletes, reads its own write and then fails *)
Example C06_nonvacuous :
  let h := PSet 1%N [7%N] (fun _ => PDel 2%N (PGet 1%N (fun r => Ret (bool_decide (r = None))))) in
  let s0 := (step (step (init {| recent := 0; every := 0; cycles := 0 |}) (Fresh (Some 100000))).2
                  (Set_ 2%N [9%N])).2 in
  (deliver s0 h (fun _ => Ret true)).1 = false /\
  cache (deliver s0 h (fun _ => Ret true)).2 = cache s0 /\
  (deliver s0 (PSet 1%N [7%N] (fun _ => Ret true)) (fun _ => Ret true)).1 = true.
Proof. vm_compute. auto. Qed.
