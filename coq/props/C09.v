(* C09 — the layered state store behaves like a transactional, versioned map.
   Only property theorems here, each closed by [exact <lemma>]; proofs are in proofs/StoreProofs.v *)
From stdpp Require Import gmap list.
From Coq Require Import ZArith.
From OL Require Import theories.Store theories.StoreSpec theories.StoreCheck proofs.StoreProofs
  gen.Facts_Consts.
Local Open Scope Z_scope.

(* tie to the source: the delete marker of the model is the constant in storage/const.go *)
Theorem C09_fact_tombstone : TOMB = tombstone_bytes.
Proof. vm_compute. reflexivity. Qed.

(* (1) refinement: on every operation sequence that never writes the delete marker itself as a
   value and stays below the block gas limit, every answer of the store (reads, existence
   checks, commit versions, versioned reads, reads after reopen) is the answer of the reference
   transactional map, from any related pair of states — in particular from the empty store. *)
Theorem C09_refinement : forall ops s p, R s p -> guarded s ops ->
  outputs s ops = spec_outputs p ops /\ R (final s ops) (spec_run p ops).2.
Proof. exact store_refines_spec. Qed.
Print Assumptions C09_refinement.

Theorem C09_refinement_from_empty : forall r ops, guarded (init r) ops ->
  outputs (init r) ops = spec_outputs (spec_init r) ops.
Proof. intros r ops H. exact (proj1 (store_refines_spec ops _ _ (R_init r) H)). Qed.
Print Assumptions C09_refinement_from_empty.

(* the boolean guard used by the harness implies the guard of the theorem *)
Theorem C09_guard_sound : forall ops s, guardedb s ops = true -> guarded s ops.
Proof. exact guardedb_sound. Qed.

(* the full statement (no guard on values) is false of the faithful model: writing the marker
   as a value reads back as absent.  Known finding C09.tombstone_alias. *)
Theorem C09_refuted_tombstone_alias : exists r ops,
  outputs (init r) ops <> spec_outputs (spec_init r) ops.
Proof.
  exists {| recent := 0; every := 0; cycles := 0 |}, [Set_ 1%N TOMB; Get 1%N].
  vm_compute. discriminate.
Qed.

(* (2) a discarded session leaves no trace (gas-free semantics; see C09_gas_erasure) *)
Theorem C09_discard : forall p s, gas s = None -> forallb is_data p = true ->
  final s (BeginTx :: p ++ [DiscardTx]) = with_sess s None.
Proof. exact discarded_session_invisible. Qed.
Print Assumptions C09_discard.

(* (3) reads, existence checks and versioned reads do not influence the state — in particular
   not the sequence of tree calls [wlog] the root hash is a function of *)
Theorem C09_reads_invisible : forall ops s, gas s = None -> no_gas_ops ops ->
  final s ops = final s (filter (fun o => negb (is_read o)) ops).
Proof. exact reads_invisible. Qed.
Print Assumptions C09_reads_invisible.

(* (3') reads AND discarded sessions together, for whole histories: after any operation sequence
   and after the same sequence without its reads and without the sessions that end up discarded
   ([strip], the sequence the harness runs on a second real store), everything but the open
   session is identical — in particular the tree-call log [wlog] INCLUDING ITS ORDER and the
   block cache including its first-write order, so the root hash cannot depend on them *)
Theorem C09_discarded_sessions_and_reads_invisible : forall ops s,
  gas s = None -> sess s = None -> no_gas_ops ops ->
  with_sess (final s ops) None = with_sess (final s (strip ops)) None.
Proof. exact strip_invisible. Qed.
Print Assumptions C09_discarded_sessions_and_reads_invisible.

Theorem C09_tree_calls_independent_of_discarded_sessions : forall ops s,
  gas s = None -> sess s = None -> no_gas_ops ops ->
  let a := final s ops in let b := final s (strip ops) in
  wlog a = wlog b /\ okeys (cache a) = okeys (cache b) /\ ovals (cache a) = ovals (cache b) /\
  tree a = tree b /\ saved a = saved b /\ version a = version b.
Proof. exact strip_same_tree_calls. Qed.
Print Assumptions C09_tree_calls_independent_of_discarded_sessions.

(* the call list the harness feeds to its bare-tree twin is the model's tree-call log *)
Theorem C09_tree_calls_are_the_log : forall ops s,
  map tcall_of (wlog (final s ops)) = map tcall_of (wlog s) ++ filter not_reopen (tree_calls s ops).
Proof. exact tree_calls_are_wlog. Qed.
Print Assumptions C09_tree_calls_are_the_log.

(* the order matters to the model: the same surviving writes in another first-write order are
   a different tree-call log (what a stale order index of a discarded session would produce) *)
Example C09_tree_calls_order_sensitive :
  let r := {| recent := 0; every := 0; cycles := 0 |} in
  tree_calls (init r) [BeginTx; Set_ 3%N [1%N]; DiscardTx;
                       BeginTx; Set_ 1%N [1%N]; Set_ 2%N [1%N]; Set_ 3%N [1%N]; CommitTx; BlockCommit]
  = [CSet 1%N [1%N]; CSet 2%N [1%N]; CSet 3%N [1%N]; CSave] /\
  tree_calls (init r) [BeginTx; Set_ 3%N [1%N]; Set_ 1%N [1%N]; Set_ 2%N [1%N]; CommitTx; BlockCommit]
  = [CSet 3%N [1%N]; CSet 1%N [1%N]; CSet 2%N [1%N]; CSave].
Proof. vm_compute. split; reflexivity. Qed.

(* below the gas limit the metered store is the gas-free store (outputs and all state but the
   counter), so (2) and (3) carry over to metered runs *)
Theorem C09_gas_erasure : forall ops s s0, gas_guarded s ops -> erase s = erase s0 ->
  gas s0 = None ->
  outputs s ops = outputs s0 (map erase_op ops) /\
  erase (final s ops) = erase (final s0 (map erase_op ops)).
Proof. exact run_erase. Qed.
Print Assumptions C09_gas_erasure.

(* (4) versions *)
Theorem C09_saved_immutable : forall s o v t, versions_below s ->
  saved (step s o).2 !! v = Some t -> v <= version s -> saved s !! v = Some t.
Proof. exact saved_immutable. Qed.

Theorem C09_commit_then_read : forall s k, wf (cache s) ->
  let s' := (step s BlockCommit).2 in
  version s' = version s + 1 /\
  tree s' = apply_layer (abs_ov (cache s)) (tree s) /\
  (saved s' !! version s' = Some (tree s') ->
   (step s' (GetVersioned (version s') k)).1 = OVal (tree s' !! k) /\
   tree (step s' Reopen).2 = tree s').
Proof. exact commit_then_read. Qed.

Theorem C09_latest_survives_rotation : forall r lastv sv t,
  0 <= recent r -> 0 <= every r -> 0 <= cycles r -> 0 <= lastv ->
  rotate r lastv (<[lastv + 1 := t]> sv) !! (lastv + 1) = Some t.
Proof. exact rotate_latest. Qed.
Print Assumptions C09_latest_survives_rotation.

(* (4') the retained-version set: a commit changes the saved versions only at the new version
   and at the (at most two) versions the rotation rule names; every other version is retained *)
Theorem C09_commit_retains : forall s v,
  v <> version s + 1 -> v <> version s - recent (rot s) ->
  v <> version s - recent (rot s) - cycles (rot s) * every (rot s) ->
  saved (step s BlockCommit).2 !! v = saved s !! v.
Proof. exact commit_retains. Qed.
Print Assumptions C09_commit_retains.

(* every versioned read (retained or released version) answers the same before and after any run
   without a block commit — reads, writes, sessions, fresh states and REOPEN — and the version
   number is unchanged; a reopen returns the last commit as the working tree *)
Theorem C09_versioned_reads_stable : forall ops s v k, Forall (fun o => o <> BlockCommit) ops ->
  (step (final s ops) (GetVersioned v k)).1 = (step s (GetVersioned v k)).1 /\
  version (final s ops) = version s.
Proof. exact versioned_reads_stable. Qed.
Print Assumptions C09_versioned_reads_stable.

Theorem C09_reopen_keeps_versions : forall s v k,
  (step (step s Reopen).2 (GetVersioned v k)).1 = (step s (GetVersioned v k)).1 /\
  saved (step s Reopen).2 = saved s /\ version (step s Reopen).2 = version s /\
  tree (step s Reopen).2 = default ∅ (saved s !! version s).
Proof. exact reopen_keeps_versions. Qed.
Print Assumptions C09_reopen_keeps_versions.

(* (5) a write that is refused (block gas exhausted) has NO effect: the state, what the next block
   commit persists and its tree calls are those without the write; an accepted block-level write
   is in the block cache.  So a commit persists exactly the Sets that returned success. *)
Theorem C09_refused_set_no_effect : forall s k v s', step s (Set_ k v) = (OErr, s') -> s' = s.
Proof. exact refused_set_no_effect. Qed.
Print Assumptions C09_refused_set_no_effect.
Theorem C09_refused_set_not_committed : forall s k v, (step s (Set_ k v)).1 = OErr ->
  step (step s (Set_ k v)).2 BlockCommit = step s BlockCommit.
Proof. exact refused_set_not_committed. Qed.
Theorem C09_accepted_set_in_cache : forall s k v, sess s = None -> (step s (Set_ k v)).1 = OUnit ->
  oget (cache (step s (Set_ k v)).2) k = Some v.
Proof. exact accepted_set_in_cache. Qed.
(* non-vacuity: limit 220 = exactly one 1-byte Set; the second Set is refused and not persisted *)
Example C09_refused_set_example :
  outputs (init {| recent := 1; every := 0; cycles := 0 |})
    [Fresh (Some 220); Set_ 0%N [1%N]; Set_ 1%N [2%N]; BlockCommit; GetVersioned 1 0%N; GetVersioned 1 1%N]
  = [OUnit; OUnit; OErr; OVersion 1; OVal (Some [1%N]); OVal None].
Proof. vm_compute. reflexivity. Qed.

(* non-vacuity under the node default (recent 10, every 100, cycles 10): three commits, a reopen;
   versions 1 and 2 (older than the last commit) still read their old values, and the seeded
   lazy-load behaviour (absent) is not what the model says *)
Example C09_versions_after_reopen_node_default :
  outputs (init {| recent := 10; every := 100; cycles := 10 |})
    [Set_ 0%N [1%N]; BlockCommit; Set_ 0%N [2%N]; BlockCommit; Set_ 0%N [3%N]; BlockCommit; Reopen;
     GetVersioned 1 0%N; GetVersioned 2 0%N; GetVersioned 3 0%N; Get 0%N]
  = [OUnit; OVersion 1; OUnit; OVersion 2; OUnit; OVersion 3; OUnit;
     OVal (Some [1%N]); OVal (Some [2%N]); OVal (Some [3%N]); OVal (Some [3%N])].
Proof. vm_compute. reflexivity. Qed.

(* non-vacuity: a concrete non-trivial sequence satisfies the guard and exercises every layer *)
Example C09_guard_nonvacuous :
  guardedb (init {| recent := 1; every := 2; cycles := 1 |})
    [Fresh (Some 100000); Set_ 1%N [7%N]; BeginTx; Delete 1%N; Get 1%N; CommitTx; Exists_ 1%N;
     BlockCommit; GetVersioned 1 1%N; Reopen; Get 1%N] = true.
Proof. vm_compute. reflexivity. Qed.
