(* C14 — governance proposals follow their lifecycle and their funds are accounted for.
   Only property theorems here, each closed by [exact <lemma>]; proofs are in proofs/GovProofs.v *)
From stdpp Require Import gmap list.
From Coq Require Import ZArith String Lia.
From OL Require Import theories.Gov theories.GovCheck proofs.GovProofs gen.Facts_TxKinds.
Local Open Scope Z_scope.

(* ---- tie to the source: which governance kinds the PUBLIC router accepts (regenerated on every run).
   The model's public operations are exactly these; EXPIRE_VOTES and PROPOSAL_FINALIZE are among them. ---- *)
Definition gov_public_kinds : list string :=
  ["PROPOSAL_CREATE"; "PROPOSAL_FUND"; "PROPOSAL_VOTE"; "PROPOSAL_CANCEL"; "PROPOSAL_WITHDRAW_FUNDS";
   "EXPIRE_VOTES"; "PROPOSAL_FINALIZE"]%string.
Definition gov_internal_kinds : list string := ["EXPIRE_VOTES"; "PROPOSAL_FINALIZE"]%string.
Definition mem_str (x : string) (l : list string) : bool := existsb (String.eqb x) l.
Definition is_gov_kind (k : string) : bool :=
  String.prefix "PROPOSAL_" k || String.eqb k "EXPIRE_VOTES".
Theorem C14_fact_routers :
  List.filter is_gov_kind public_kinds = List.filter (fun k => mem_str k gov_public_kinds) public_kinds /\
  forallb (fun k => mem_str k public_kinds) gov_public_kinds = true /\
  List.filter is_gov_kind internal_kinds = gov_internal_kinds.
Proof. vm_compute. repeat split; reflexivity. Qed.

(* ---- (1) lifecycle: the stage never moves backwards, along EVERY history (FULL since /repo 9dda72d).
   rank: absent 0 < funding 1 < voting 2 < passed/failed 3 < finalized/finalizeFailed 4. ---- *)
Theorem C14_stage_monotone : forall ts1 ts2 id,
  (rank_of (run init ts1).1 id <= rank_of (run (run init ts1).1 ts2).1 id)%nat.
Proof. exact stage_monotone. Qed.
Print Assumptions C14_stage_monotone.

Theorem C14_stage_monotone_from : forall s ts, Inv s ->
  Inv (run s ts).1 /\ forall id, (rank_of s id <= rank_of (run s ts).1 id)%nat.
Proof. exact stage_monotone_from. Qed.
Print Assumptions C14_stage_monotone_from.

(* terminal states are never left: a record in the finalized or the finalize-failed store is never changed again,
   from any state and by any history (in particular it never moves back) *)
Theorem C14_terminal_never_left : forall s ts id p, g_props s !! id = Some p ->
  p_store p = SFinalized \/ p_store p = SFinFailed -> g_props (run s ts).1 !! id = Some p.
Proof. exact terminal_never_left. Qed.
Print Assumptions C14_terminal_never_left.

(* ids are unique across all five stores (active, passed, failed, finalized, finalize-failed): along every history an
   id that has ever been created is never accepted by PROPOSAL_CREATE again — any sender, any parameters, any later
   state — and a successful create always concerns an id that no store holds *)
Theorem C14_id_never_created_twice : forall ts1 ts2 id ty pr amt fdl vdl goal pass cv e payer fee cur,
  (1 <= rank_of (run init ts1).1 id)%nat ->
  let s := (run (run init ts1).1 ts2).1 in
  step s (mkTx (OCreate id ty pr amt fdl vdl goal pass cv) e payer fee cur) = (s, false, []).
Proof. exact id_never_created_twice. Qed.
Print Assumptions C14_id_never_created_twice.

Theorem C14_create_only_fresh : forall s e id ty pr amt fdl vdl goal pass cv s' ev,
  h_create s e id ty pr amt fdl vdl goal pass cv = Some (s', ev) -> g_props s !! id = None.
Proof. exact create_only_fresh. Qed.

(* witness environment: one validator (account 10, power 100) *)
Definition wopts : opts := mkOpts 1 10 5 51 (mkDist 180000 180000 100000 180000 180000) (mkDist 180000 180000 100000 180000 180000).
Definition wenv : env := mkEnv wopts wopts wopts [(10%N, 100)] [10%N] 13%N 14%N [].
Definition wtx (o : op) (_ : list (N * N)) : txop := mkTx o wenv 0%N 0 0%N.

(* an honest life of a configuration proposal up to its automatic finalisation *)
Definition w_life (keep : list (N * N)) : list txop :=
  [wtx (OAdjust 1%N 100) []; wtx (OAdjust 2%N 100) [];
   wtx (OBegin 1) []; wtx (OCreate 0%N TConfig 1%N 5 5 10 10 51 true) []; wtx (OFund 0%N 2%N 5) []; wtx OEnd [];
   wtx (OBegin 2) []; wtx (OVote 0%N 10%N OpYes) []; wtx OEnd [];
   wtx (OBegin 3) []; wtx OEnd keep].

(* the former witness of the finding C14.stale_fund_records (fixed by /repo 9dda72d), now an example of the repaired
   behaviour: the finalisation leaves no funder record, a later withdrawal attempt on the finalised proposal (zero or
   positive amount) is refused and the proposal stays in its last stage *)
Example C14_stale_records_repaired :
  let s := (run init (w_life [])).1 in
  (fun p => (p_store p, p_indiv p, p_total p)) <$> (g_props s !! 0%N) = Some (SFinalized, [], 0) /\
  let s6 := (step s (wtx (OBegin 6) [])).1.1 in
  (step s6 (wtx (OWithdraw 0%N 2%N 0 2%N) [])).1.2 = false /\
  (step s6 (wtx (OWithdraw 0%N 2%N 5 2%N) [])).1.2 = false /\
  rank_of (run s6 [wtx (OWithdraw 0%N 2%N 0 2%N) []; wtx (OWithdraw 0%N 2%N 5 2%N) []]).1 0%N = 4%nat.
Proof. vm_compute. repeat split; reflexivity. Qed.

(* non-vacuity: the honest life satisfies the guard and reaches the last stage, applying the update once *)
Example C14_life_nonvacuous :
  rank_of (run init (w_life [])).1 0%N = 4%nat /\
  (run init (w_life [])).2 = [EvContrib 0 1 5; EvContrib 0 2 5; EvConfig 0; EvDistrib 0 9 10] /\
  g_applied (run init (w_life [])).1 = [0%N] /\ g_anom (run init (w_life [])).1 = false.
Proof. vm_compute. repeat split; reflexivity. Qed.

(* non-vacuity for the finalize-failed outcome: the update function of a passed configuration proposal reports an
   error at finalisation ([e_cfgfail]): the proposal ends in the finalize-failed store with its funds still recorded,
   no configuration change is applied, and its id cannot be created again *)
Example C14_finalize_failed_terminal :
  let fenv := mkEnv wopts wopts wopts [(10%N, 100)] [10%N] 13%N 14%N [0%N] in
  let ts := [wtx (OAdjust 1%N 100) []; wtx (OAdjust 2%N 100) [];
             wtx (OBegin 1) []; wtx (OCreate 0%N TConfig 1%N 5 5 10 10 51 true) []; wtx (OFund 0%N 2%N 5) []; wtx OEnd [];
             wtx (OBegin 2) []; wtx (OVote 0%N 10%N OpYes) []; wtx OEnd [];
             wtx (OBegin 3) []; mkTx OEnd fenv 0%N 0 0%N; wtx (OBegin 4) []] in
  let s := (run init ts).1 in
  (fun p => (p_store p, p_total p)) <$> (g_props s !! 0%N) = Some (SFinFailed, 10) /\
  (run init ts).2 = [EvContrib 0 1 5; EvContrib 0 2 5] /\ g_applied s = [] /\
  (step s (wtx (OCreate 0%N TGeneral 2%N 5 9 14 10 51 true) [])).1.2 = false /\
  (step s (wtx (OCreate 1%N TGeneral 2%N 5 9 14 10 51 true) [])).1.2 = true /\
  (step s (wtx (OWithdraw 0%N 2%N 5 2%N) [])).1.2 = false.
Proof. vm_compute. repeat split; reflexivity. Qed.

(* ---- (2) voting starts only when the goal is met no later than the funding deadline ---- *)
Theorem C14_voting_only_when_goal_met : forall s e id f amt s' ev p p',
  h_fund s e id f amt = Some (s', ev) -> g_props s !! id = Some p -> g_props s' !! id = Some p' ->
  p_status p = StFunding /\ p_store p = SActive /\ g_h s <= p_fdl p /\ p_total p' = p_total p + amt /\
  (p_status p' = StVoting -> p_goal p <= p_total p' /\ p_vdl p' = g_h s + o_vdelta (opts_of e (p_type p))) /\
  (p_status p' = StFunding -> p_total p' < p_goal p).
Proof. exact fund_to_voting. Qed.
Print Assumptions C14_voting_only_when_goal_met.

(* ---- (3) expiry.  The BeginBlock rule queues a proposal for expiry only when it is in its voting stage and
   the voting deadline is behind the block height ... ---- *)
Theorem C14_expire_queue_sound : forall s h id, id ∈ g_qexp (begin_block s h) ->
  exists p, g_props s !! id = Some p /\ p_store p = SActive /\ p_status p = StVoting /\ p_vdl p < h.
Proof. exact expire_queue_sound. Qed.
Print Assumptions C14_expire_queue_sound.

(* ... and, since /repo 0988205 (runExpireVotes requires the voting stage and a passed voting deadline; the kind is
   still in the public router), the FULL statement holds: along every history, whatever the next operation is
   (any kind, any sender, any height, any inputs, including the public EXPIRE_VOTES and the EndBlock queues), a
   proposal acquires the outcome insufficientVotes only if, before that operation, it was in its voting stage
   with its voting deadline behind the current height. *)
Theorem C14_expiry_after_deadline : forall ts t id p',
  let s := (run init ts).1 in
  g_props (step s t).1.1 !! id = Some p' -> p_outcome p' = OInsufVotes ->
  exists p, g_props s !! id = Some p /\
    (p_outcome p = OInsufVotes \/ (p_store p = SActive /\ p_status p = StVoting /\ p_vdl p < g_h s)).
Proof. exact expiry_after_deadline. Qed.
Print Assumptions C14_expiry_after_deadline.

(* the former witness of the finding C14.public_expire_votes (fixed), now an example of the repaired behaviour:
   a public EXPIRE_VOTES on a proposal in its FUNDING stage (deadline 5) at height 1 is refused and changes nothing;
   on a voting proposal it is refused until the voting deadline (6) is behind the height, then it succeeds *)
Example C14_public_expire_repaired :
  let ts := [wtx (OAdjust 1%N 100) []; wtx (OBegin 1) []; wtx (OCreate 0%N TGeneral 1%N 5 5 10 10 51 true) []] in
  let s := (run init ts).1 in
  trig_public_expire (wtx (OExpire 0%N) []) = true /\
  (step s (wtx (OExpire 0%N) [])).1.2 = false /\ (step s (wtx (OExpire 0%N) [])).1.1 = s /\
  let s2 := (run s [wtx (OFund 0%N 1%N 5) []; wtx OEnd []; wtx (OBegin 6) []]).1 in
  (step s2 (wtx (OExpire 0%N) [])).1.2 = false /\
  let s3 := (run s2 [wtx OEnd []; wtx (OBegin 7) []; wtx (OExpire 0%N) []]).1 in
  p_outcome <$> (g_props s3 !! 0%N) = Some OInsufVotes /\ p_store <$> (g_props s3 !! 0%N) = Some SFailed.
Proof. vm_compute. repeat split; reflexivity. Qed.

(* ---- (4) pass / fail only per the tally of the snapshot; a vote changes one opinion, never a power ---- *)
Theorem C14_pass_fail_per_tally : forall s e id v o s' ev p p',
  h_vote s e id v o = Some (s', ev) -> g_props s !! id = Some p -> g_props s' !! id = Some p' ->
  p_store p = SActive /\ p_status p = StVoting /\ g_h s <= p_vdl p /\
  vote_update v o (p_votes p) = Some (p_votes p') /\
  match tally (p_votes p') (p_pass p) with
  | RPassed => p_store p' = SPassed /\ p_outcome p' = OCompletedYes
  | RFailed => p_store p' = SFailed /\ p_outcome p' = OCompletedNo
  | RTBD => p_store p' = SActive /\ p_outcome p' = p_outcome p
  end.
Proof. exact vote_per_tally. Qed.
Print Assumptions C14_pass_fail_per_tally.

Theorem C14_vote_keeps_snapshot_powers : forall v o vs vs', vote_update v o vs = Some vs' ->
  map (fun x => (v_val x, v_power x)) vs' = map (fun x => (v_val x, v_power x)) vs.
Proof. exact vote_update_powers. Qed.

(* ---- (5) a configuration change is applied only for a passed proposal, and at most once.
   [sane_op]: the option set in force when a proposal is created has initial funding >= 0 and a pass percentage in
   (0,100] — ValidateProposal demands >= 1 and 51..80 at genesis and at every update.
   FULL (since /repo 23f7d29 votes are tallied with the proposal's own percentage, like the finalisation): along every
   history, whatever the next operation is (public finalise or the EndBlock queue), a configuration change is
   applied only for a configuration proposal that, in the state in which its finalisation runs, is in the passed
   store with outcome completedYes and votes passing under its own percentage. ---- *)
Theorem C14_config_only_for_passed : forall ts t id, Forall sane_op ts -> sane_op t ->
  EvConfig id ∈ (step (run init ts).1 t).2 ->
  exists st p, Good st /\ g_props st !! id = Some p /\ p_type p = TConfig /\ p_store p = SPassed /\
    p_outcome p = OCompletedYes /\ tally (p_votes p) (p_pass p) = RPassed.
Proof. exact config_only_for_passed. Qed.
Print Assumptions C14_config_only_for_passed.

Theorem C14_config_only_when_votes_pass : forall s e id s' ev id', h_finalize s e id = Some (s', ev) -> EvConfig id' ∈ ev ->
  id' = id /\ exists p, g_props s !! id = Some p /\ p_type p = TConfig /\
    (p_store p = SPassed \/ p_store p = SFailed) /\ p_extra p < 8 /\
    tally (p_votes p) (p_pass p) = RPassed /\ p_votes p <> [] /\ (p_store p = SPassed -> rank_of s' id = 4%nat).
Proof. exact config_event_sound. Qed.
Print Assumptions C14_config_only_when_votes_pass.

(* the former witness of the finding C14.pass_percentage_drift (fixed by /repo 23f7d29), now an example of the
   repaired behaviour: the option is raised from 51 to 80 during the vote, the votes yes(100) yes(100) are tallied
   with the proposal's own 51%: the proposal PASSES with the second vote, is finalised from the passed store, its
   update is applied once and it sits in one store only *)
Definition wopts80 : opts := mkOpts 1 10 5 80 (mkDist 180000 180000 100000 180000 180000) (mkDist 180000 180000 100000 180000 180000).
Definition wenv3 (o : opts) : env := mkEnv o o o [(10%N, 100); (11%N, 100); (12%N, 100)] [10%N; 11%N; 12%N] 13%N 14%N [].
Definition wtx3 (o : opts) (x : op) : txop := mkTx x (wenv3 o) 0%N 0 0%N.
Definition w_drift : list txop :=
  [wtx3 wopts (OAdjust 1%N 100); wtx3 wopts (OAdjust 2%N 100);
   wtx3 wopts (OBegin 1); wtx3 wopts (OCreate 0%N TConfig 1%N 5 5 10 10 51 true); wtx3 wopts (OFund 0%N 2%N 5); wtx3 wopts OEnd;
   wtx3 wopts80 (OBegin 2); wtx3 wopts80 (OVote 0%N 10%N OpYes); wtx3 wopts80 (OVote 0%N 11%N OpYes);
   wtx3 wopts80 (OVote 0%N 12%N OpNo); wtx3 wopts80 OEnd; wtx3 wopts80 (OBegin 3)].
Example C14_pass_drift_repaired :
  let s := (run init w_drift).1 in
  (fun p => (p_store p, p_outcome p)) <$> (g_props s !! 0%N) = Some (SPassed, OCompletedYes) /\
  (step s (wtx3 wopts80 OEnd)).2 = [EvConfig 0; EvDistrib 0 8 10] /\
  (fun p => (p_store p, p_outcome p, p_extra p)) <$> (g_props (step s (wtx3 wopts80 OEnd)).1.1 !! 0%N)
     = Some (SFinalized, OCompletedYes, 0) /\
  g_applied (step s (wtx3 wopts80 OEnd)).1.1 = [0%N].
Proof. vm_compute. repeat split; reflexivity. Qed.

Theorem C14_config_at_most_once : forall s e id p, g_props s !! id = Some p ->
  p_store p = SFinalized \/ p_store p = SFinFailed \/ 8 <= p_extra p -> h_finalize s e id = Some (s, []).
Proof. exact finalize_terminal_noop. Qed.

(* ---- (6) funds ---- *)
Theorem C14_refund_exact : forall s id f amt ben s' ev p,
  h_withdraw s id f amt ben = Some (s', ev) -> g_props s !! id = Some p ->
  ev = [EvRefund id f ben amt] /\ 0 < amt /\ (p_store p = SActive \/ p_store p = SFailed) /\
  exists p' cur, g_props s' !! id = Some p' /\ refundable (p_outcome p') = true /\
    alookup f (p_indiv p) = Some cur /\ amt <= cur /\ amt <= p_total p /\
    p_total p' = p_total p - amt /\ p_indiv p' = aupd f (- amt) (p_indiv p) /\
    (refundable (p_outcome p) = false -> p_total p < p_goal p /\ p_fdl p < g_h s).
Proof. exact withdraw_refund_exact. Qed.
Print Assumptions C14_refund_exact.

(* "returned in full", FULL (since /repo 782c385 / 19a3caa / 9dda72d): along every history the recorded total of every
   proposal is the sum of its non-negative funder records, and a funder of a cancelled / goal-missed proposal whose
   record is committed and positive can withdraw the whole record *)
Theorem C14_funds_invariant : forall ts, Forall sane_op ts ->
  forall id p, g_props (run init ts).1 !! id = Some p ->
  Forall (fun kv => 0 <= kv.2) (p_indiv p) /\ p_total p = asum (p_indiv p).
Proof. intros ts Hn id p H. exact (run_funds ts init Hn FundsInv_init id p H). Qed.
Print Assumptions C14_funds_invariant.

Theorem C14_refund_in_full : forall ts id f ben p cur,
  Forall sane_op ts ->
  let s := (run init ts).1 in
  g_props s !! id = Some p -> refundable (p_outcome p) = true -> funded_visible (g_blk s) p f = true ->
  alookup f (p_indiv p) = Some cur -> 0 < cur ->
  exists s', h_withdraw s id f cur ben = Some (s', [EvRefund id f ben cur]).
Proof. exact refund_in_full. Qed.
Print Assumptions C14_refund_in_full.

(* the former witness of the finding C14.negative_fund_amount (fixed by /repo 782c385), now an example of the repaired
   behaviour: the negative contribution is refused, nobody is paid, and after the cancellation the proposer
   withdraws the whole contribution *)
Example C14_negative_fund_repaired :
  let ts := [wtx (OAdjust 1%N 100) []; wtx (OAdjust 2%N 100) [];
             wtx (OBegin 1) []; wtx (OCreate 0%N TGeneral 1%N 5 5 10 10 51 true) []; wtx OEnd []; wtx (OBegin 2) []] in
  let s := (run init ts).1 in
  (step s (wtx (OFund 0%N 2%N (-5)) [])).1.2 = false /\ (step s (wtx (OFund 0%N 2%N 0) [])).1.2 = false /\
  let s3 := (run s [wtx (OFund 0%N 2%N (-5)) []; wtx (OCancel 0%N 1%N) []; wtx OEnd []; wtx (OBegin 3) []]).1 in
  bal s3 2%N = 100 /\ (step s3 (wtx (OWithdraw 0%N 1%N (-1) 1%N) [])).1.2 = false /\
  (step s3 (wtx (OWithdraw 0%N 1%N 5 1%N) [])).1.2 = true /\
  bal (step s3 (wtx (OWithdraw 0%N 1%N 5 1%N) [])).1.1 1%N = 100.
Proof. vm_compute. repeat split; reflexivity. Qed.

Theorem C14_distribution_within_total : forall s e id p d s' paid bad,
  distribute s e id p d = (s', paid, bad) -> e_vals e <> [] -> 0 <= p_total p -> 0 <= d_burn d ->
  paid <= p_total p.
Proof. exact distribute_paid_le. Qed.
Print Assumptions C14_distribution_within_total.

(* reachability of the full refund: after a cancellation every funder gets back exactly what they put in *)
Example C14_full_refund_reachable :
  let ts := [wtx (OAdjust 1%N 100) []; wtx (OAdjust 2%N 100) [];
             wtx (OBegin 1) []; wtx (OCreate 0%N TGeneral 1%N 5 5 10 10 51 true) []; wtx (OFund 0%N 2%N 3) []; wtx OEnd [];
             wtx (OBegin 2) []; wtx (OCancel 0%N 1%N) []; wtx OEnd [];
             wtx (OBegin 3) []; wtx (OWithdraw 0%N 1%N 5 1%N) []; wtx (OWithdraw 0%N 2%N 3 2%N) [];
             wtx (OWithdraw 0%N 2%N 1 2%N) []; wtx OEnd []] in
  (run init ts).2 = [EvContrib 0 1 5; EvContrib 0 2 3; EvRefund 0 1 1 5; EvRefund 0 2 2 3] /\
  bal (run init ts).1 1%N = 100 /\ bal (run init ts).1 2%N = 100.
Proof. vm_compute. repeat split; reflexivity. Qed.

(* ---- (7) relaunch from an exported state (olfullnode save_state -> genesis -> LoadProposals).
   load ∘ dump preserves every proposal record, its fund records and its votes (validator, power, OPINION): only the
   deadlines of active proposals are re-based on the exported version, as the dump does ---- *)
Theorem C14_load_dump_preserves : forall s ver bals pool, FundsInv s -> WInv s ->
  forall id, match g_props s !! id with
             | Some p => exists r, g_props (reload s ver bals pool) !! id = Some r /\ same_record ver p r
             | None => g_props (reload s ver bals pool) !! id = None
             end.
Proof. exact reload_preserves. Qed.
Print Assumptions C14_load_dump_preserves.

(* every history, relaunches included (any number, at any point): all invariants hold in the final state — the
   lifecycle invariant, the agreement of tally and store, total = sum of non-negative funder records, distinct
   validators / funders per proposal — and the stage of no proposal ever moved backwards, also across relaunches *)
Theorem C14_relaunch_keeps_everything : forall hs, Forall sane_hop hs ->
  AllInv (hrun init hs).1 /\ forall id, (rank_of init id <= rank_of (hrun init hs).1 id)%nat.
Proof. intros hs H. exact (hrun_allinv hs init H AllInv_init). Qed.
Print Assumptions C14_relaunch_keeps_everything.

Theorem C14_relaunch_monotone_from : forall hs s, Forall sane_hop hs -> AllInv s ->
  AllInv (hrun s hs).1 /\ forall id, (rank_of s id <= rank_of (hrun s hs).1 id)%nat.
Proof. exact hrun_allinv. Qed.

(* so the theorems about good states apply after any number of relaunches, e.g.: *)
Theorem C14_config_only_for_passed_any_state : forall s e id s' ev id', Good s ->
  h_finalize s e id = Some (s', ev) -> EvConfig id' ∈ ev ->
  id' = id /\ exists p, g_props s !! id = Some p /\ p_type p = TConfig /\ p_store p = SPassed /\
    p_outcome p = OCompletedYes /\ tally (p_votes p) (p_pass p) = RPassed /\ rank_of s' id = 4%nat.
Proof. exact finalize_config_passed. Qed.

Theorem C14_refund_in_full_any_state : forall s id f ben p cur, Inv s -> FundsInv s ->
  g_props s !! id = Some p -> refundable (p_outcome p) = true -> funded_visible (g_blk s) p f = true ->
  alookup f (p_indiv p) = Some cur -> 0 < cur ->
  exists s', h_withdraw s id f cur ben = Some (s', [EvRefund id f ben cur]).
Proof. exact refund_in_full_inv. Qed.

(* Example with partial votes: two of three validators have voted yes (66% < 67%: undecided) when the state is
   exported; the import keeps the two opinions; the third yes on the new chain passes the proposal and it is
   finalised there *)
Definition wopts67 : opts := mkOpts 1 10 5 67 (mkDist 180000 180000 100000 180000 180000) (mkDist 180000 180000 100000 180000 180000).
Example C14_relaunch_keeps_partial_votes :
  let t := wtx3 wopts67 in
  let hs1 := [HOp (t (OAdjust 1%N 100)); HOp (t (OAdjust 2%N 100));
              HOp (t (OBegin 1)); HOp (t (OCreate 0%N TGeneral 1%N 5 9 14 10 67 true)); HOp (t (OFund 0%N 2%N 5)); HOp (t OEnd);
              HOp (t (OBegin 2)); HOp (t (OVote 0%N 10%N OpYes)); HOp (t (OVote 0%N 11%N OpYes)); HOp (t OEnd)] in
  let s1 := (hrun init hs1).1 in
  let s2 := (hstep s1 (HReload 2 [(1%N, 95); (2%N, 95)] 0)).1.1 in
  (fun p => (p_store p, p_status p, p_votes p, p_total p, p_indiv p, p_vdl p)) <$> (g_props s1 !! 0%N)
    = Some (SActive, StVoting, [mkVote 10 100 OpYes; mkVote 11 100 OpYes; mkVote 12 100 OpUnknown], 10, [(1%N, 5); (2%N, 5)], 6) /\
  (fun p => (p_store p, p_status p, p_votes p, p_total p, p_indiv p, p_vdl p)) <$> (g_props s2 !! 0%N)
    = Some (SActive, StVoting, [mkVote 10 100 OpYes; mkVote 11 100 OpYes; mkVote 12 100 OpUnknown], 10, [(1%N, 5); (2%N, 5)], 4) /\
  let s3 := (hrun s2 [HOp (t (OBegin 1)); HOp (t (OVote 0%N 12%N OpYes)); HOp (t OEnd); HOp (t (OBegin 2)); HOp (t OEnd)]).1 in
  (fun p => (p_store p, p_outcome p)) <$> (g_props s3 !! 0%N) = Some (SFinalized, OCompletedYes).
Proof. vm_compute. repeat split; reflexivity. Qed.

(* ---- (8) the fund store is denominated in OLT: a create / fund / withdraw whose amount names any other currency (a
   registered one the sender really owns, an unknown name, the empty string) is refused and changes nothing ---- *)
Theorem C14_non_olt_refused : forall s t, t_cur t <> 0%N ->
  match t_op t with OCreate _ _ _ _ _ _ _ _ _ | OFund _ _ _ | OWithdraw _ _ _ _ => step s t = (s, false, []) | _ => True end.
Proof. exact non_olt_refused. Qed.
Print Assumptions C14_non_olt_refused.

(* ---- (9) tallies on and next to the thresholds (the code decides in exact integer arithmetic since /repo 6d9c57c, as the
   model always did): with powers 3350000 / 3300000 / 3350000 and 67%, a NO of exactly 33% leaves the proposal undecided,
   a NO of 33.5% fails it, a YES of exactly 67% passes it.  Former finding C14.tally_float_boundary (fixed). ---- *)
Example C14_tally_on_the_thresholds :
  tally [mkVote 10 3350000 OpUnknown; mkVote 11 3300000 OpNo; mkVote 12 3350000 OpUnknown] 67 = RTBD /\
  tally [mkVote 10 3350000 OpNo; mkVote 11 3300000 OpUnknown; mkVote 12 3350000 OpUnknown] 67 = RFailed /\
  tally [mkVote 10 3350000 OpYes; mkVote 11 3300000 OpUnknown; mkVote 12 3350000 OpYes] 67 = RPassed /\
  tally [mkVote 10 3350000 OpYes; mkVote 11 3300000 OpNo; mkVote 12 3350000 OpYes] 67 = RPassed /\
  tally [mkVote 10 100 OpYes; mkVote 11 100 OpYes; mkVote 12 100 OpNo] 67 = RFailed.
Proof. vm_compute. repeat split; reflexivity. Qed.

(* "failed" means exactly: the recorded NO votes make a pass impossible even if everybody else votes YES *)
Theorem C14_failed_iff_pass_unreachable : forall vs pass,
  0 < power_all vs - power_of OpGiveup vs -> tally vs pass <> RPassed ->
  (tally vs pass = RFailed <->
   (power_all vs - power_of OpGiveup vs - power_of OpNo vs) * 100 < pass * (power_all vs - power_of OpGiveup vs)).
Proof.
  intros vs pass Ht Hnp. unfold tally in *. apply Z.ltb_lt in Ht. rewrite Ht in *.
  destruct (pass * (power_all vs - power_of OpGiveup vs) <=? power_of OpYes vs * 100); [congruence|].
  destruct ((power_all vs - power_of OpGiveup vs - power_of OpNo vs) * 100 <? pass * (power_all vs - power_of OpGiveup vs)) eqn:E.
  - apply Z.ltb_lt in E. split; auto.
  - apply Z.ltb_ge in E. split; [discriminate | lia].
Qed.

(* ---- (10) "... then passed, failed or expired, then finalised": FALSE of the faithful model (and of the code) for an
   EXPIRED proposal whose goal was reached: it is never finalised, a public PROPOSAL_FINALIZE is refused (the tally is
   undecided), a withdrawal is refused (the goal was reached): the funds are neither returned nor distributed.
   Known finding C14.expired_never_finalised (a product decision, not a repair). ---- *)
Theorem C14_expired_funds_locked_refuted : exists ts,
  let s := (run init ts).1 in
  (fun p => (p_store p, p_outcome p, p_total p, p_goal p)) <$> (g_props s !! 0%N) = Some (SFailed, OInsufVotes, 10, 10) /\
  h_finalize s wenv 0%N = None /\ h_withdraw s 0%N 2%N 5 2%N = None /\ g_qfin (begin_block s 100) = [].
Proof.
  exists [wtx3 wopts67 (OAdjust 1%N 100); wtx3 wopts67 (OAdjust 2%N 100);
          wtx3 wopts67 (OBegin 1); wtx3 wopts67 (OCreate 0%N TGeneral 1%N 5 3 8 10 67 true); wtx3 wopts67 (OFund 0%N 2%N 5); wtx3 wopts67 OEnd;
          wtx3 wopts67 (OBegin 2); wtx3 wopts67 (OVote 0%N 10%N OpYes); wtx3 wopts67 OEnd;
          wtx3 wopts67 (OBegin 7); wtx3 wopts67 OEnd; wtx3 wopts67 (OBegin 8)].
  vm_compute. repeat split; reflexivity.
Qed.
