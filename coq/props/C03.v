(* C03 — no unauthorised debit.
   Only property theorems here; proofs are in proofs/LedgerProofs.v and proofs/LedgerTxProofs.v. *)
From stdpp Require Import gmap list.
From Coq Require Import ZArith NArith String.
From OL Require Import theories.Ledger theories.LedgerTx proofs.LedgerProofs.
Local Open Scope Z_scope.

(* ---------------- generic ---------------- *)

(* the holdings (balances in currency c, locked / unlocking / withdrawable stake, delegated and undelegating
   amounts, reward claims) of account a decrease across a transaction only if some operation takes from a *)
Theorem C03_tx_debit_needs_source : forall a c l ops,
  holdings a c (run_tx l ops) < holdings a c l -> In a (debited ops).
Proof. exact run_tx_debit_needs_source. Qed.
Print Assumptions C03_tx_debit_needs_source.

Theorem C03_block_debit_needs_source : forall a c txs l,
  holdings a c (run_block l txs) < holdings a c l -> exists ops, In ops txs /\ In a (debited ops).
Proof. exact run_block_debit_needs_source. Qed.
Print Assumptions C03_block_debit_needs_source.

Theorem C03_history_debit_needs_source : forall a c bs l,
  holdings a c (run_history l bs) < holdings a c l ->
  exists b ops, In b bs /\ In ops b /\ In a (debited ops).
Proof. exact run_history_debit_needs_source. Qed.
Print Assumptions C03_history_debit_needs_source.

(* movements between an account's own records never change anybody's holdings *)
Theorem C03_own_moves_neutral : forall a c l ops,
  forallb own_move ops = true -> holdings a c (run_tx l ops) = holdings a c l.
Proof. exact run_tx_own_moves. Qed.
Print Assumptions C03_own_moves_neutral.

Definition kA : key := mk 1 B_BAL 0 0.
Definition kB : key := mk 2 B_BAL 0 0.
Definition l_ex : gmap key Z := ladd (ladd ∅ kA 100) kB 5.
Example C03_ex_debit : holdings 1 0 (run_tx l_ex [Move kA kB 30]) = 70 /\ debited [Move kA kB 30] = [1%N].
Proof. vm_compute. auto. Qed.
(* a negative amount makes the TARGET the debited party: the authority theorems therefore need amount >= 0 *)
Example C03_negative_move_debits_target_refuted :
  holdings 2 0 (run_tx l_ex [Move kA kB (-4)]) = 1 /\ debited [Move kA kB (-4)] = [2%N].
Proof. vm_compute. auto. Qed.
