(* C03 — no unauthorised debit.
   Only property theorems here; proofs are in proofs/LedgerProofs.v and proofs/LedgerTxProofs.v. *)
From stdpp Require Import gmap list.
From Coq Require Import ZArith NArith String.
From OL Require Import theories.Ledger theories.LedgerTx proofs.LedgerProofs proofs.LedgerTxProofs gen.Facts_Signers.
Local Open Scope Z_scope.

(* ---------------- generic ---------------- *)

(* the holdings (balances in currency c, locked / unlocking / withdrawable stake, delegated and undelegating
   amounts, reward claims) of account a decrease across a transaction only if some operation takes from a *)
Theorem C03_tx_debit_needs_source : forall a c l ops,
  holdings a c (run_tx l ops) < holdings a c l -> In a (debited ops).
Proof. exact run_tx_debit_needs_source. Qed.
Print Assumptions C03_tx_debit_needs_source.

Theorem C03_block_debit_needs_source : forall a c txs l,
  holdings a c (run_block l txs) < holdings a c l -> exists ops, In ops txs /\ In a (debited ops).
Proof. exact run_block_debit_needs_source. Qed.
Print Assumptions C03_block_debit_needs_source.

Theorem C03_history_debit_needs_source : forall a c bs l,
  holdings a c (run_history l bs) < holdings a c l ->
  exists b ops, In b bs /\ In ops b /\ In a (debited ops).
Proof. exact run_history_debit_needs_source. Qed.
Print Assumptions C03_history_debit_needs_source.

(* movements between an account's own records never change anybody's holdings *)
Theorem C03_own_moves_neutral : forall a c l ops,
  forallb own_move ops = true -> holdings a c (run_tx l ops) = holdings a c l.
Proof. exact run_tx_own_moves. Qed.
Print Assumptions C03_own_moves_neutral.


(* ---------------- per transaction kind: the owners an effect function takes from ----------------
   takes_only_from ops who := every owner in (debited ops) is in who.  [who] is the payload field(s) named in
   LedgerTx.model_debit_fields (+ the delegation pool for NETWORK_UNDELEGATE, a protocol account) and the fee payer,
   which is the FIRST signer (LedgerTx.model_fee_payer_field); the obligation C03_signers_facts below checks on the
   regenerated coq/gen/Facts_Signers.v that these fields are returned by the Go Signers() of that message type. *)
Theorem C03_debit_needs_authority_send : forall known cur from to v payer fp fee ops, 0 <= fee -> effect_send known cur from to v = Some ops ->
  takes_only_from (ops ++ fee_ops payer fp fee) [from; payer].
Proof. exact send_authority. Qed.
Print Assumptions C03_debit_needs_authority_send.
Theorem C03_debit_needs_authority_sendpool : forall known cur from pool v payer fp fee ops, 0 <= fee -> effect_sendpool known cur from pool v = Some ops ->
  takes_only_from (ops ++ fee_ops payer fp fee) [from; payer].
Proof. exact sendpool_authority. Qed.
Print Assumptions C03_debit_needs_authority_sendpool.
Theorem C03_debit_needs_authority_stake : forall known cur staker val v payer fp fee ops, 0 <= fee -> effect_stake known cur staker val v = Some ops ->
  takes_only_from (ops ++ fee_ops payer fp fee) [staker; payer].
Proof. exact stake_authority. Qed.
Print Assumptions C03_debit_needs_authority_stake.
Theorem C03_debit_needs_authority_unstake : forall known cur staker val v h payer fp fee ops, 0 <= fee -> effect_unstake known cur staker val v h = Some ops ->
  takes_only_from (ops ++ fee_ops payer fp fee) [staker; payer].
Proof. exact unstake_authority. Qed.
Print Assumptions C03_debit_needs_authority_unstake.
Theorem C03_debit_needs_authority_withdraw : forall known cur staker v payer fp fee ops, 0 <= fee -> effect_withdraw known cur staker v = Some ops ->
  takes_only_from (ops ++ fee_ops payer fp fee) [staker; payer].
Proof. exact withdraw_authority. Qed.
Print Assumptions C03_debit_needs_authority_withdraw.
Theorem C03_debit_needs_authority_delegate : forall known cur u pool v payer fp fee ops, 0 <= fee -> effect_delegate known cur u pool v = Some ops ->
  takes_only_from (ops ++ fee_ops payer fp fee) [u; payer].
Proof. exact delegate_authority. Qed.
Print Assumptions C03_debit_needs_authority_delegate.
Theorem C03_debit_needs_authority_undelegate : forall known cur u pool v h payer fp fee ops, 0 <= fee -> effect_undelegate known cur u pool v h = Some ops ->
  takes_only_from (ops ++ fee_ops payer fp fee) [u; pool; payer].
Proof. exact undelegate_authority. Qed.
Print Assumptions C03_debit_needs_authority_undelegate.
Theorem C03_debit_needs_authority_rewards_withdraw : forall known cur u v h payer fp fee ops, 0 <= fee -> effect_rewards_withdraw known cur u v h = Some ops ->
  takes_only_from (ops ++ fee_ops payer fp fee) [u; payer].
Proof. exact rewards_withdraw_authority. Qed.
Print Assumptions C03_debit_needs_authority_rewards_withdraw.
Theorem C03_debit_needs_authority_reinvest : forall known cur u pool v payer fp fee ops, 0 <= fee -> effect_reinvest known cur u pool v = Some ops ->
  takes_only_from (ops ++ fee_ops payer fp fee) [u; payer].
Proof. exact reinvest_authority. Qed.
Print Assumptions C03_debit_needs_authority_reinvest.
Theorem C03_debit_needs_authority_proposal_create : forall known cur p prop v init goal payer fp fee ops, 0 <= fee -> 0 <= init -> effect_proposal_create known cur p prop v init goal = Some ops ->
  takes_only_from (ops ++ fee_ops payer fp fee) [p; payer].
Proof. exact proposal_create_authority. Qed.
Print Assumptions C03_debit_needs_authority_proposal_create.
Theorem C03_debit_needs_authority_proposal_fund : forall known cur f prop v payer fp fee ops, 0 <= fee -> effect_proposal_fund known cur f prop v = Some ops ->
  takes_only_from (ops ++ fee_ops payer fp fee) [f; payer].
Proof. exact proposal_fund_authority. Qed.
Print Assumptions C03_debit_needs_authority_proposal_fund.
Theorem C03_debit_needs_authority_proposal_withdraw : forall known cur f b prop v payer fp fee ops, 0 <= fee -> effect_proposal_withdraw known cur f b prop v = Some ops ->
  takes_only_from (ops ++ fee_ops payer fp fee) [f; payer].
Proof. exact proposal_withdraw_authority. Qed.
Print Assumptions C03_debit_needs_authority_proposal_withdraw.
Theorem C03_debit_needs_authority_domain_create : forall known cur o fp v base payer fee ops, 0 <= fee -> 0 <= base -> effect_domain_create known cur o fp v base = Some ops ->
  takes_only_from (ops ++ fee_ops payer fp fee) [o; payer].
Proof. exact domain_create_authority. Qed.
Print Assumptions C03_debit_needs_authority_domain_create.
Theorem C03_debit_needs_authority_domain_renew : forall known cur o fp v pb payer fee ops, 0 <= fee -> 0 <= pb -> effect_domain_renew known cur o fp v pb = Some ops ->
  takes_only_from (ops ++ fee_ops payer fp fee) [o; payer].
Proof. exact domain_renew_authority. Qed.
Print Assumptions C03_debit_needs_authority_domain_renew.
Theorem C03_debit_needs_authority_domain_purchase : forall known cur buyer fp offer on_sale sale seller base payer fee ops, 0 <= fee -> 0 <= sale -> 0 <= base -> effect_domain_purchase known cur buyer fp offer on_sale sale seller base = Some ops ->
  takes_only_from (ops ++ fee_ops payer fp fee) [buyer; payer].
Proof. exact domain_purchase_authority. Qed.
Print Assumptions C03_debit_needs_authority_domain_purchase.
Theorem C03_debit_needs_authority_domain_send : forall known cur from benef v payer fp fee ops, 0 <= fee -> effect_domain_send known cur from benef v = Some ops ->
  takes_only_from (ops ++ fee_ops payer fp fee) [from; payer].
Proof. exact domain_send_authority. Qed.
Print Assumptions C03_debit_needs_authority_domain_send.

(* WITHDRAW_REWARD: takes from the reward pool (a protocol account) and the fee payer only (amounts >= 0 since 45cfd0d / ed95e98) *)
Theorem C03_debit_needs_authority_withdraw_reward : forall known cur signer rpool v payer fp fee ops, 0 <= fee ->
  effect_withdraw_reward known cur signer rpool v = Some ops -> takes_only_from (ops ++ fee_ops payer fp fee) [rpool; payer].
Proof. exact withdraw_reward_authority. Qed.
Print Assumptions C03_debit_needs_authority_withdraw_reward.

(* PROPOSAL_WITHDRAW_FUNDS is FULL since /repo 19a3caa.  The former refutation witness (finding C03.withdraw_funds_negative,
   fixed): funder 1 signs, beneficiary 2 is named, amount -5 - rejected now, the beneficiary keeps its holdings *)
Definition l_w : gmap key Z := ladd (ladd ∅ (bal 1 0) 1000) (bal 2 0) 30.
Example C03_former_witness_proposal_withdraw_rejected :
  effect_proposal_withdraw true 0 1 2 7 (-5) = None /\
  holdings 2 0 (run_tx l_w (default [] (tx_ops (effect_proposal_withdraw true 0 1 2 7 (-5)) 1 9 1))) = holdings 2 0 l_w /\
  debited (default [] (tx_ops (effect_proposal_withdraw true 0 1 2 7 5) 1 9 1)) = [1%N; 1%N].
Proof. vm_compute. auto. Qed.

(* bid app: the bidder's holdings (balance + escrow) are unchanged by locking / unlocking his bid - also by the PUBLIC, unguarded
   BID_EXPIRE that anybody may send - and decrease only by the owner's accept of the bid he signed or by his own accept of a counter offer *)
Theorem C03_bid_unlock_neutral : forall (l : gmap key Z) (bidder conv payer fp : N) (fee : Z), 0 <= fee -> nonneg l ->
  no_creation (unlock_ops l bidder conv ++ fee_ops payer fp fee) /\ credits_ok (unlock_ops l bidder conv ++ fee_ops payer fp fee) /\
  takes_only_from (unlock_ops l bidder conv ++ fee_ops payer fp fee) [bidder; payer] /\
  forall a c, a <> payer -> holdings a c (run_tx l (unlock_ops l bidder conv)) = holdings a c l.
Proof. exact bid_unlock_stmt. Qed.
Print Assumptions C03_bid_unlock_neutral.
Theorem C03_bid_create_authority : forall known cur bidder conv v hc c payer fp fee ops, 0 <= fee ->
  effect_bid_create known cur bidder conv v hc c = Some ops ->
  no_creation (ops ++ fee_ops payer fp fee) /\ credits_ok (ops ++ fee_ops payer fp fee) /\ takes_only_from (ops ++ fee_ops payer fp fee) [bidder; payer].
Proof. exact bid_create_stmt. Qed.
Print Assumptions C03_bid_create_authority.
Theorem C03_bid_owner_accept_takes_the_escrow_only : forall (l : gmap key Z) (bidder owner conv payer fp : N) (fee : Z) ops, 0 <= fee -> nonneg l ->
  effect_bid_owner_accept l bidder owner conv = Some ops ->
  no_creation (ops ++ fee_ops payer fp fee) /\ credits_ok (ops ++ fee_ops payer fp fee) /\ takes_only_from (ops ++ fee_ops payer fp fee) [bidder; payer].
Proof. exact bid_owner_accept_stmt. Qed.
Print Assumptions C03_bid_owner_accept_takes_the_escrow_only.

(* an account outside [who] keeps its holdings *)
Theorem C03_others_keep_holdings : forall a c l ops who, takes_only_from ops who -> ~ In a who -> holdings a c l <= holdings a c (run_tx l ops).
Proof. exact takes_only_holdings. Qed.
Print Assumptions C03_others_keep_holdings.

(* the guilty-verdict hook takes from the guilty validator's STAKE ADDRESS only (the exception named in the property) *)
Theorem C03_penalty_debits_the_guilty_stake_account : forall (l : gmap key Z) (stake val bounty : N) (pct dec bpct bdec : Z),
  0 <= val_total l val -> 0 <= pct -> 0 < dec -> 0 <= bpct <= bdec -> 0 < bdec ->
  no_creation (penalty_ops l stake val bounty pct dec bpct bdec) /\ credits_ok (penalty_ops l stake val bounty pct dec bpct bdec) /\
  takes_only_from (penalty_ops l stake val bounty pct dec bpct bdec) [stake].
Proof. exact penalty_ops_facts. Qed.
Print Assumptions C03_penalty_debits_the_guilty_stake_account.

(* ---------------- the three maturity hooks never change anybody's holdings ---------------- *)
Theorem C03_maturity_neutral_undelegation : forall a c (l : gmap key Z) h,
  holdings a c (run_tx l (maturity_ops l B_UNDELEG h to_balance)) = holdings a c l.
Proof. exact undelegation_maturity_neutral. Qed.
Print Assumptions C03_maturity_neutral_undelegation.
Theorem C03_maturity_neutral_reward_withdrawal : forall a c (l : gmap key Z) h,
  holdings a c (run_tx l (maturity_ops l B_REWPEND h to_balance)) = holdings a c l.
Proof. exact reward_maturity_neutral. Qed.
Print Assumptions C03_maturity_neutral_reward_withdrawal.
Theorem C03_maturity_neutral_unstake : forall a c (l : gmap key Z) h,
  holdings a c (run_tx l (maturity_ops l B_UNSTAKE h to_withdrawable)) = holdings a c l.
Proof. exact stake_maturity_neutral. Qed.
Print Assumptions C03_maturity_neutral_unstake.
Example C03_ex_maturity : let l := ladd (ladd ∅ (mk 1 B_UNDELEG 0 7) 40) (bal 1 0) 2 in
  maturity_ops l B_UNDELEG 7 to_balance = [Move (mk 1 B_UNDELEG 0 7) (bal 1 0) 40] /\
  lget (run_tx l (maturity_ops l B_UNDELEG 7 to_balance)) (bal 1 0) = 42.
Proof. vm_compute. auto. Qed.

(* ---------------- facts obligation: the signer sets the Go code really uses ---------------- *)
(* every payload field an effect function takes from is returned by Signers() of that message type, and the fee payer
   field is the FIRST signer - on the table regenerated from /repo on every run *)
Theorem C03_signers_facts : signers_facts_ok signers_table = true.
Proof. vm_compute. reflexivity. Qed.

Definition kA : key := mk 1 B_BAL 0 0.
Definition kB : key := mk 2 B_BAL 0 0.
Definition l_ex : gmap key Z := ladd (ladd ∅ kA 100) kB 5.
Example C03_ex_debit : holdings 1 0 (run_tx l_ex [Move kA kB 30]) = 70 /\ debited [Move kA kB 30] = [1%N].
Proof. vm_compute. auto. Qed.
(* a negative amount makes the TARGET the debited party: the authority theorems therefore need amount >= 0 *)
Example C03_negative_move_debits_target_refuted :
  holdings 2 0 (run_tx l_ex [Move kA kB (-4)]) = 1 /\ debited [Move kA kB (-4)] = [2%N].
Proof. vm_compute. auto. Qed.
