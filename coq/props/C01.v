(* C01 — replica determinism.  Only property theorems here. *)
From stdpp Require Import gmap list sorting.
From Coq Require Import ZArith String.
From OL Require Import theories.Store theories.Abci theories.Restart theories.Nondet
  proofs.StoreProofs proofs.RestartProofs proofs.NondetProofs gen.Facts_Nondet
  theories.Globals proofs.GlobalsProofs gen.Facts_Globals.
From OL Require theories.Replay.
Local Open Scope Z_scope.

(* (1) Go map iteration is an arbitrary permutation chosen per loop.  For each loop idiom that
   the site table below admits on a consensus path, the loop's result is independent of it. *)
Theorem C01_collect_then_sort : forall (V : Type) (m : gmap Z V) l l',
  range_order m l -> range_order m l' -> collect_sort l.*1 = collect_sort l'.*1.
Proof. exact @range_keys. Qed.
Print Assumptions C01_collect_then_sort.

Theorem C01_build_map : forall (V W : Type) (f : Z -> V -> W) (m : gmap Z V) l l',
  range_order m l -> range_order m l' -> build_map f l = build_map f l'.
Proof. exact @build_map_order_independent. Qed.

Theorem C01_accumulate : forall (V : Type) (f : Z -> V -> Z) (m : gmap Z V) l l',
  range_order m l -> range_order m l' -> accumulate f l = accumulate f l'.
Proof. exact @accumulate_order_independent. Qed.

Theorem C01_find_unique : forall (V : Type) (p : Z -> V -> bool) (m : gmap Z V) l l',
  range_order m l -> range_order m l' ->
  (forall k1 v1 k2 v2, m !! k1 = Some v1 -> m !! k2 = Some v2 -> p k1 v1 = true -> p k2 v2 = true -> k1 = k2) ->
  find_unique p l = find_unique p l'.
Proof. exact @find_unique_order_independent. Qed.

(* an effectful body run in map order is NOT order independent (why such a site is a defect) *)
Theorem C01_effectful_body_refuted : exists (m : gmap Z Z) l l',
  range_order m l /\ range_order m l' /\ l.*1 <> l'.*1.
Proof. exact effectful_body_order_dependent. Qed.

(* (2) the block transcript (verdicts, committed version, committed tree, tree-call log — the root
   hash is a function of the log) is a function of the block and the committed state only: the
   model of the store and of the wrapper has no other input, so two replicas that agree on the
   durable state agree on every later transcript, whatever their caches, sessions, gas counters
   or LastVersion were (node-local leftovers). *)
Theorem C01_transcript_function_of_disk : forall s s' b, durable s -> same_disk s s' ->
  run_blk (do_reopen s') b = run_blk s b.
Proof.
  intros s s' b Hd Hs. apply run_blk_fresh_only. apply fresh_after_reopen; assumption.
Qed.
Print Assumptions C01_transcript_function_of_disk.

(* (3) tie to the source, regenerated on every run: every `range` over a map in the consensus
   packages is a site (id, hash of the normalised loop) of an admitted idiom.  AUDIT (trusted):
   the class of each site was assigned by reading the loop; the hash pins the text that was read,
   so an edited or new loop is unclassified and breaks the obligation. *)
Definition site_table : list (string * string * idiom) := [
  ("app:App.rpcStarter#range1", "fe45768b067f", INotConsensus);
  ("app:handleBlockRewards#range1", "d0b3d0217f8f", ICollectSort);
  ("chains/ethereum:mapkey#range1", "3068c433a41d", IFindUnique);
  ("data/balance:Balance.String#range1", "d3143110f60f", INotConsensus);
  ("data/balance:CurrencySet.GetCurrencies#range1", "dc6ca4e309b0", IBuildMap);
  ("data/delegation:DelegationStore.LoadState#range1", "3a01799c7b74", ICollectSort);
  ("data/evidence:EvidenceStore.CleanTracker#range1", "3615081c1915", ICollectSort);
  ("data:ContractData.Update#range1", "1fa1a1d40451", IBuildMap);
  ("data:ContractData.UpdateByJSONData#range1", "0953a28d4170", IBuildMap);
  ("data:StorageRouter.WithState#range1", "49c9a092a4e6", IBuildMap);
  ("external_apps:RegisterExtApp#range1", "d17ee4428b42", INotConsensus);
  ("external_apps:RegisterExtApp#range2", "6d092d10bf21", INotConsensus);
  ("identity:ValidatorStore.CheckMaliciousValidators#range1", "e063fb439e4c", ICollectSort);
  ("identity:ValidatorStore.ExecuteAllegationTracker#range1", "0b7e1a61e70c", ICollectSort);
  ("identity:ValidatorStore.GetEndBlockUpdate#range1", "a8452ae5044c", ICollectSort);
  ("storage:KeyValue.Dump#range1", "e7e719f78c8d", INotConsensus);
  ("storage:KeyValueSession.Dump#range1", "e7e719f78c8d", INotConsensus);
  ("storage:cacheSession.Iterate#range1", "05120ec5af91", INotConsensus);
  ("storage:sessionCache.DumpState#range1", "eb0c84437033", INotConsensus);
  ("utils:PrintStringMap#range1", "549d682b19c6", INotConsensus);
  ("vm:CopyCommitStateDB#range1", "39cf33127149", IBuildMap);
  ("vm:CopyCommitStateDB#range2", "6d9917ae30ea", IBuildMap);
  ("vm:accessList.Copy#range1", "fee096ac17ef", IBuildMap);
  ("vm:accessList.Copy#range2", "bb2a0b3fc372", IBuildMap)
]%string.

Theorem C01_fact_map_ranges : bad_sites site_table false map_range_sites = [].
Proof. vm_compute. reflexivity. Qed.

(* wall clock, random sources, UUIDs, environment reads, goroutines and selects in the consensus
   packages: each is on the audited list of sites that cannot reach state or results
   (start-up, job bus of the witness node, key-file naming, ids of node-local internal
   transactions whose handlers ignore them) *)
Definition ambient_allowed : list string := [
  "app:App.Prepare#go1"; "app:App.Prepare#os.Getenv1";
  "app:ExpireProposals#uuid.NewUUID1"; "app:FinalizeProposals#uuid.NewUUID1";
  "app:newContext#os.Getenv1";
  "data/evidence:EvidenceStore.GenerateRequestID#uuid.NewUUID1";
  "data/keys:buildFileName#time.Now1";
  "event:BroadcastGovExpireVotesTx#uuid.NewUUID1"; "event:BroadcastGovFinalizeVotesTx#uuid.NewUUID1";
  "event:BroadcastReportFinalityETHTx#uuid.NewUUID1";
  "event:JobBTCCheckFinality.DoMyJob#time.Now1"; "event:JobBTCCheckFinality.DoMyJob#time.Now2";
  "event:JobBus.Start#go1"; "event:JobBus.Start#select1"; "event:NewBTCCheckFinalityJob#time.Now1";
  "external_apps/bid/bid_block_func:PopExpireBidTxFromQueue#uuid.NewUUID1";
  "storage:dbDir#os.Getenv1"
]%string.

Theorem C01_fact_ambient : unlisted ambient_allowed ambient_sites = [].
Proof. vm_compute. reflexivity. Qed.

(* ... and WHO CALLS a function that contains such a site is audited as well: a state-machine function that
   starts calling one of them (a store that fills in a missing request id with GenerateRequestID, a handler
   that stamps a record with a job-creation helper) makes the value it gets part of consensus state.  The
   callers below are start-up, the block ender's two internal-transaction loops (the UUID is the memo of a
   transaction that is never stored) and job-bus jobs. *)
Definition ambient_callers_allowed : list (string * string) := [
  ("app:App.Prepare", "app:App.Start");
  ("app:ExpireProposals", "app:App.blockEnder"); ("app:FinalizeProposals", "app:App.blockEnder");
  ("app:newContext", "app:NewApp");
  ("data/keys:buildFileName", "data/keys:KeyStore.SaveKeyData");
  ("event:BroadcastGovExpireVotesTx", "event:JobGovCheckVotes.DoMyJob");
  ("event:BroadcastGovFinalizeVotesTx", "event:JobGovFinalizeProposal.DoMyJob");
  ("event:BroadcastReportFinalityETHTx", "event:JobETHBroadcast.DoMyJob");
  ("event:BroadcastReportFinalityETHTx", "event:JobETHCheckFinality.DoMyJob");
  ("event:BroadcastReportFinalityETHTx", "event:JobETHSignRedeem.DoMyJob");
  ("event:BroadcastReportFinalityETHTx", "event:JobETHVerifyRedeem.DoMyJob");
  ("event:NewBTCCheckFinalityJob", "event:ReportBroadcastSuccess")
]%string.

Definition unlisted_pairs (allowed l : list (string * string)) : list (string * string) :=
  filter (fun '(a, b) => negb (existsb (fun '(a', b') => String.eqb a a' && String.eqb b b') allowed)) l.

Theorem C01_fact_ambient_callers : unlisted_pairs ambient_callers_allowed ambient_callers = [].
Proof. vm_compute. reflexivity. Qed.

Example C01_facts_nonvacuous :
  (20 <=? Z.of_nat (List.length map_range_sites)) = true /\
  (10 <=? Z.of_nat (List.length ambient_sites)) = true /\
  bad_sites [] false map_range_sites <> [].
Proof. vm_compute. repeat split; discriminate. Qed.

(* (4) node identity and node-local data: two nodes fed the same consensus inputs persist the same
   tracker state whatever their witness flag, their own votes and the content of their job stores
   (model: theories/Globals.v; tie: the facts below, regenerated from the source on every run) *)
Theorem C01_tracker_state_independent_of_the_node : forall h1 h2 t,
  same_inputs h1 h2 -> writes_ok h1 = true -> writes_ok h2 = true ->
  run false t h1 = run false t h2.
Proof. exact run_local_independent. Qed.
Print Assumptions C01_tracker_state_independent_of_the_node.

Theorem C01_fact_node_local_inputs :
  unknown_globals written_globals = [] /\ unaudited_reads local_reads = [] /\ state_then_lookup_error = [].
Proof. vm_compute. repeat split; reflexivity. Qed.
Print Assumptions C01_fact_node_local_inputs.

(* ---------- the replay record is node-local (known finding C01.replay_record_is_node_local) ----------
   Whether a delivered transaction was executed before is asked of Tendermint's transaction index
   (theories/Replay.v: txDeliverer looks the hash up first and answers from the index without executing).
   The index is node configuration ("kv" or "null") and is not part of the state the blocks determine: two
   nodes with the same application state, fed the same block, compute different states when the block contains
   bytes that an earlier block already contained.  Closed witness; exhibited on the real application by the
   replica "tx-index-off" on histories with re-included transactions. *)
Theorem C01_replay_record_node_local_refuted : exists (b : Replay.bytes),
  let decode := fun x : Replay.bytes => Some x in
  let adm := fun (_ : Replay.bytes) (_ : Z) => true in
  let app := fun (_ : Replay.bytes) (s : Z) => (s + 1)%Z in
  let kv_node := {| Replay.idx := [b]; Replay.st := 1%Z; Replay.pending := [] |} in
  let null_node := {| Replay.idx := []; Replay.st := 1%Z; Replay.pending := [] |} in
  Replay.st Z kv_node = Replay.st Z null_node /\
  Replay.st Z (snd (Replay.deliver Replay.bytes decode Z adm app kv_node b)) <>
  Replay.st Z (snd (Replay.deliver Replay.bytes decode Z adm app null_node b)).
Proof. exists [1%Z]. cbn. split; [reflexivity|discriminate]. Qed.
