(* C19 — allegations: verdicts follow votes, frozen stays frozen, penalties bounded.
   Only property theorems here, each closed by [exact <lemma>]; proofs are in proofs/AllegationProofs.v.
   The model (theories/Allegation.v) takes as operation inputs what other properties own: the
   validator queue one version back, the missed-votes candidates, the outcome of the non-allegation
   part of the staking handlers; every theorem quantifies over ALL such inputs. *)
From stdpp Require Import gmap list.
From Coq Require Import ZArith Bool Lia.
From OL Require Import theories.Allegation theories.AllegationCheck proofs.AllegationProofs.
Local Open Scope Z_scope.

(* (1) verdicts follow votes.  For every history (any genesis stakes, any operations) and every block
   end in it: each verdict event of that block end certifies, against the log of everything that
   happened BEFORE that block end, that
   - the required count is ceil(active * votePct / voteDec) for the active count of this EndBlock,
   - GUILTY: yes/required > allegPct/allegDec; INNOCENT: not that, and no/required > 1 - allegPct/allegDec
     (exact integer comparisons, see C19_verdict_exact),
   - there are [yes] pairwise distinct addresses with an accepted YES vote event on this request and
     [no] pairwise distinct addresses with an accepted NO vote event. *)
Theorem C19_verdict_follows_votes : forall c stk ops1 q ord s1 log1 s2 ev,
  run c (init_with stk) ops1 = (s1, log1) -> step c s1 (OEnd q ord) = (s2, ev) ->
  Forall (verdict_certified c log1) ev.
Proof. exact verdict_follows_votes. Qed.
Print Assumptions C19_verdict_follows_votes.

(* ... and every vote event in a history was produced by a vote transaction whose sender was, in the
   state in which it was executed, an active validator and not frozen *)
Theorem C19_votes_from_active_validators : forall c ops s0 s' log id a ch,
  run c s0 ops = (s', log) -> EvVote id a ch ∈ log ->
  exists ops1 ops2 s1 l1, ops = ops1 ++ OVote id a ch :: ops2 /\ run c s0 ops1 = (s1, l1) /\
    is_active s1 a = true /\ is_frozen s1 a = false.
Proof. exact vote_events_from_active. Qed.
Print Assumptions C19_votes_from_active_validators.

(* each validator counts at most once per request: in every reachable state the voter list of every
   request is duplicate-free *)
Theorem C19_one_vote_per_validator : forall c stk ops s log id r,
  run c (init_with stk) ops = (s, log) -> reqs s !! id = Some r -> NoDup (r_votes r).*1.
Proof. exact one_vote_per_validator. Qed.
Print Assumptions C19_one_vote_per_validator.

(* the shares are the exact rational ones (full statement since /repo d95b5d2, which replaced the
   float64 quotients by integer cross-multiplication): required is the ceiling of
   active*votePct/voteDec, GUILTY iff yes/required > allegPct/allegDec, INNOCENT iff
   no/required > 1 - allegPct/allegDec *)
Theorem C19_verdict_exact : forall c active yes no req, 0 < voteDec c ->
  (required_x c active - 1) * voteDec c < active * votePct c <= required_x c active * voteDec c /\
  (guilty_x c yes req = true <-> yes * allegDec c > allegPct c * req) /\
  (innocent_x c no req = true <-> no * allegDec c > (allegDec c - allegPct c) * req).
Proof. exact tally_exact. Qed.
Print Assumptions C19_verdict_exact.

Definition cfg90 : Cfg := mkCfg 100 100 90 100 30 100 50 100 1 4 1000 16.
Definition q10 : list (Z * Z) := map (fun i => (i, 3000000)) [1;2;3;4;5;6;7;8;9;10].
(* the former witness of C19.float_tally_mismatch (fixed by d95b5d2), now an example of the repaired
   behaviour: 10 active validators, all required, share 90%: one NO vote (no/required = 1/10, not
   > 1 - 9/10) decides nothing, the request stays open with its vote; a second NO vote closes it *)
Example C19_boundary_share_is_not_crossed :
  let ops := [OBegin 2 30 []; OEnd q10 []; OBegin 3 45 []; OAllege 0 1 10 3; OVote 0 2 NO; OEnd q10 []] in
  let r := run cfg90 (init_with []) ops in
  cfg_ok cfg90 = true /\
  r.2 = [EvTx true; EvOpened 0 1 10; EvTx true; EvVote 0 2 NO] /\
  (r_votes <$> reqs r.1 !! 0) = Some [(2, NO)] /\
  (run cfg90 r.1 [OBegin 4 60 []; OVote 0 3 NO; OEnd q10 []]).2 = [EvTx true; EvVote 0 3 NO; EvVerdict 0 10 INNOCENT 0 2 10 10].
Proof. vm_compute. repeat split; reflexivity. Qed.

(* (2) guilty => frozen byzantine-fault record at this height/time; stake reduced by exactly the
   penalty (when the accused has a validator record and the penalty does not exceed the stake; other
   validators' stakes untouched); the bounty program receives bounty_of(penalty) *)
Theorem C19_guilty_xrozen_and_penalised : forall c q active req s dec ev id r s' dec' ev',
  process_req c q active req (s, dec, ev) id = (s', dec', ev') ->
  reqs s !! id = Some r -> guilty_x c (count_choice YES (r_votes r)) req = true ->
  susp s' !! r_mal r = Some {| l_status := BYZ; l_fh := height s; l_fat := now s; l_rh := 0; l_rat := None |} /\
  is_frozen s' (r_mal r) = true /\
  (forall b, b <> r_mal r -> stake s' !! b = stake s !! b) /\
  (inb (r_mal r) q.*1 = true ->
     let amt := default 0 (stake s !! r_mal r) in
     (penalty c amt <= amt -> stake s' !! r_mal r = Some (amt - penalty c amt) /\
                              bounty s' = bounty s + bounty_of c (penalty c amt)) /\
     (amt < penalty c amt -> stake s' = stake s /\ bounty s' = bounty s)).
Proof. exact process_req_guilty. Qed.
Print Assumptions C19_guilty_xrozen_and_penalised.

(* the penalty is the configured percentage of the stake, rounded half up ... *)
Theorem C19_penalty_is_percentage : forall c st, 0 < penDec c ->
  2 * penDec c * penalty c st <= 2 * st * penBase c + penDec c < 2 * penDec c * (penalty c st + 1).
Proof. exact penalty_rounds_half_up. Qed.
Theorem C19_penalty_le_stake : forall c st, 0 < penDec c -> 0 <= penBase c <= penDec c -> 0 <= st ->
  penalty c st <= st.
Proof. exact penalty_le_stake. Qed.
(* ... of which at most the penalty (in base units) goes to the bounty program *)
Theorem C19_bounty_le_penalty : forall c p, 0 <= p -> 0 < oltDec c -> 0 < bountyDec c ->
  0 <= bountyPct c <= bountyDec c -> 0 <= bounty_of c p <= p * oltDec c.
Proof. exact bounty_le_penalty. Qed.
Print Assumptions C19_bounty_le_penalty.
(* the closed formula agrees with a bit-exact model of the big.Float computation (64-bit mantissa,
   round to nearest even after Mul, Quo and Add) on boundary samples inside the guard *)
Example C19_penalty_bigfloat_samples :
  forallb (fun x : Z * Z * Z =>
     let c := mkCfg 50 100 50 100 x.1.2 x.2 50 100 1 4 1000 16 in
     penalty_guard c x.1.1 && (penalty c x.1.1 =? penalty_bigfloat c x.1.1))
    [(2999001, 30, 100); (5, 30, 100); (5, 1, 2); (7, 1, 2); (3, 1, 6); (1, 1, 3); (2, 1, 3); (0, 30, 100);
     (3000000, 1, 3); (777777, 7, 9); (123457, 5, 1000); (2 ^ 40 + 1, 1, 2); (2 ^ 61 + 1, 3, 7); (2 ^ 61 - 1, 1, 2)] = true.
Proof. vm_compute. reflexivity. Qed.

(* (3) frozen validators are excluded from staking, from voting and from being accused again *)
Theorem C19_frozen_staking_rejected : forall s kind v envok delta,
  is_frozen s v = true -> do_stake s kind v envok delta = (s, [EvTx false]).
Proof. exact frozen_staking_rejected. Qed.
Theorem C19_frozen_cannot_vote : forall s id a ch,
  is_frozen s a = true -> do_vote s id a ch = (s, [EvTx false]).
Proof. exact frozen_cannot_vote. Qed.
Print Assumptions C19_frozen_staking_rejected.

(* (4) frozen stays frozen: a frozen byzantine-fault record stays one under EVERY operation other
   than a release of that validator (full statement since /repo 5d81591: the missed-votes scan
   skips validators that already have a freeze record), and hence along every history that holds
   no release of that validator *)
Theorem C19_frozen_stays_frozen : forall c s o s' ev a,
  byz_frozen_m s a = true -> step c s o = (s', ev) -> o <> ORelease a -> byz_frozen_m s' a = true.
Proof. exact frozen_stays_frozen. Qed.
Print Assumptions C19_frozen_stays_frozen.
Theorem C19_frozen_until_released : forall c ops s a, byz_frozen_m s a = true ->
  ~ In (ORelease a) ops -> byz_frozen_m (run c s ops).1 a = true.
Proof. exact frozen_until_released. Qed.
Print Assumptions C19_frozen_until_released.

Definition cfg50 : Cfg := mkCfg 50 100 50 100 30 100 50 100 1 4 1000 16.
Definition q4 : list (Z * Z) := [(1, 3000000); (2, 2999000); (3, 2998000); (4, 2997000)].
Definition guilty_history : list Op :=
  [OBegin 2 30 []; OEnd q4 []; OBegin 6 90 []; OAllege 0 1 4 6; OVote 0 1 YES; OVote 0 2 YES; OEnd q4 []].
(* the former witness of C19.missed_scan_overwrites_byzantine (fixed by 5d81591), now an example of
   the repaired behaviour: validator 4 is found guilty at height 6; the missed-votes scan of
   BeginBlock 7 reaches it and leaves the record alone; releases 15 s and 30 s after the verdict are
   refused and the validator is still frozen *)
Example C19_missed_scan_keeps_byzantine_record :
  let s := (run cfg50 (init_with q4) guilty_history).1 in
  byz_frozen_m s 4 = true /\
  byz_frozen_m (step cfg50 s (OBegin 7 105 [4])).1 4 = true /\
  let r := run cfg50 (step cfg50 s (OBegin 7 105 [4])).1 [ORelease 4; OEnd q4 []; OBegin 8 120 [4]; ORelease 4] in
  byz_frozen_m r.1 4 = true /\ r.2 = [EvTx false; EvTx false].
Proof. vm_compute. repeat split; reflexivity. Qed.

(* (5) release: only a frozen record, a byzantine-fault record only strictly after
   FrozenAt + ValidatorReleaseTime days; and the validator is unfrozen exactly when the release
   happens strictly after the freeze time (a release in the freeze block leaves it frozen) *)
Theorem C19_release_only_after_time : forall c s a s' ev,
  do_release c s a = (s', ev) -> In (EvTx true) ev ->
  exists l, susp s !! a = Some l /\ lvh_frozen l = true /\
    (l_status l = MISSED \/ (l_status l = BYZ /\ now s > l_fat l + releaseDays c * DAY)) /\
    susp s' !! a = Some {| l_status := l_status l; l_fh := l_fh l; l_fat := l_fat l; l_rh := height s; l_rat := Some (now s) |}.
Proof. exact release_ok. Qed.
Print Assumptions C19_release_only_after_time.
Theorem C19_release_unfreezes_iff_later : forall c s a s' ev l,
  do_release c s a = (s', ev) -> In (EvTx true) ev -> susp s !! a = Some l ->
  is_frozen s' a = negb (now s >? l_fat l).
Proof. exact release_unfreezes_iff_later. Qed.

(* (6) accounts that are not active validators can neither open nor vote *)
Theorem C19_outsider_cannot_open : forall s id rep mal bh,
  is_active s rep = false -> do_allege s id rep mal bh = (s, [EvTx false]).
Proof. exact outsider_cannot_open. Qed.
Theorem C19_outsider_cannot_vote : forall s id a ch,
  is_active s a = false -> do_vote s id a ch = (s, [EvTx false]).
Proof. exact outsider_cannot_vote. Qed.
Theorem C19_open_only_by_active : forall s id rep mal bh s' ev,
  do_allege s id rep mal bh = (s', ev) -> In (EvTx true) ev ->
  is_active s rep = true /\ is_frozen s mal = false /\ rep <> mal /\ bh <= height s /\
  reqs s !! id = None /\ request_exists s mal = false.
Proof. exact allege_ok. Qed.
Print Assumptions C19_open_only_by_active.

(* (7) a frozen validator drops out of the validator set: frozen at the start of a block (any
   height above 1; full statement since /repo 304e1e1) => not active after that block's EndBlock,
   whatever transactions the block holds *)
Theorem C19_frozen_drops_out : forall c s h t low txs q ord a,
  1 < h -> is_frozen s a = true -> a ∈ q.*1 -> forallb is_tx_op txs = true ->
  is_active (run c s (OBegin h t low :: txs ++ [OEnd q ord])).1 a = false.
Proof. exact frozen_drops_out. Qed.
Print Assumptions C19_frozen_drops_out.

Definition cfg_diff8 : Cfg := mkCfg 50 100 50 100 30 100 50 100 1 8 1000 16.
(* the former witness of C19.height_le_votes_diff (fixed by 304e1e1), now an example of the repaired
   behaviour: guilty at height 3 with BlockVotesDiff 8, inactive after EndBlock 4 *)
Example C19_frozen_drops_out_below_votes_diff :
  let s := (run cfg_diff8 (init_with q4)
    [OBegin 2 30 []; OEnd q4 []; OBegin 3 45 []; OAllege 0 1 4 3; OVote 0 1 YES; OVote 0 2 YES; OEnd q4 []]).1 in
  is_frozen s 4 = true /\ is_active s 4 = true /\
  is_active (run cfg_diff8 s [OBegin 4 60 []; OEnd q4 []]).1 4 = false.
Proof. vm_compute. repeat split; reflexivity. Qed.

(* (8) a decision is taken once: after an EndBlock that ran the tracker, a tracked request that is
   still open has votes that cross neither share — outside the trigger [guilty_without_record]
   (YES votes cross, but the accused has no validator record one version back) ... *)
Theorem C19_crossing_requests_are_closed_partial : forall c s q ord s' ev id r,
  end_block c s q ord = (s', ev) -> 1 < height s -> (elect c s q).2 <> 0 ->
  0 < voteDec c -> 0 < allegDec c ->
  id ∈ tracker s -> reqs s' !! id = Some r ->
  let req := required_x c (elect c s q).2 in
  guilty_without_record c q req r = false ->
  verdict_x c (count_choice YES (r_votes r)) (count_choice NO (r_votes r)) req = VOTING.
Proof.
  intros c s q ord s' ev id r H Hh Ha Hv Hd Hid Hr req G.
  destruct (end_block_closes c s q ord s' ev id r H Hh Ha Hv Hd Hid Hr) as [V|T]; [exact V|].
  fold req in T. congruence.
Qed.
Print Assumptions C19_crossing_requests_are_closed_partial.

Definition q3 : list (Z * Z) := [(1, 3000000); (2, 2999000); (3, 2998000)].
(* ... and is false inside it: validator 4 unstaked everything (its record is gone from the queue),
   two YES votes of three active validators cross 50% of ceil(3*50%) = 2; EndBlock 8 freezes it and
   leaves the request open with no verdict event; EndBlock 9 freezes it again from the same votes:
   the freeze height and time move every block, so FrozenAt + ValidatorReleaseTime is never reached,
   and staking/withdrawing stay rejected.  Known finding C19.guilty_without_validator_record,
   reproduced on the real code (findings/C19_guilty_without_validator_record.json). *)
Theorem C19_crossing_requests_are_closed_refuted_1 : exists c stk ops q id r,
  let s := (run c (init_with stk) ops).1 in
  let '(s', ev) := end_block c s q [] in
  1 < height s /\ (elect c s q).2 <> 0 /\ id ∈ tracker s /\ reqs s' !! id = Some r /\
  guilty_without_record c q (required_x c (elect c s q).2) r = true /\
  verdict_x c (count_choice YES (r_votes r)) (count_choice NO (r_votes r)) (required_x c (elect c s q).2) = GUILTY /\
  ev = [EvFrozen 4 BYZ 8] /\ (l_fh <$> susp s' !! 4) = Some 8 /\
  let r2 := run c s' [OBegin 9 86500 []; OStake 0 4 true 5000; OStake 2 4 true 0; OEnd q []] in
  r2.2 = [EvTx false; EvTx false; EvFrozen 4 BYZ 9] /\ (l_fat <$> susp r2.1 !! 4) = Some 86500 /\
  is_Some (reqs r2.1 !! id).
Proof.
  exists cfg50, q3,
    [OBegin 2 30 []; OEnd q3 []; OBegin 8 120 []; OAllege 0 1 4 8; OVote 0 1 YES; OVote 0 2 YES],
    q3, 0, (mkReq 1 4 8 VOTING [(1, YES); (2, YES)]).
  vm_compute. repeat split; try reflexivity; try discriminate; try lia.
  - apply elem_of_list_singleton. reflexivity.
  - eexists. reflexivity.
Qed.

(* (9) "active" in the model IS the election: the status EndBlock writes for a queue entry is exactly
   its election result (enough power, a free slot among TopValidatorCount when its turn comes, not
   frozen); at most TopValidatorCount stakers are counted active; a staker whose turn comes when all
   slots are taken is recorded inactive — so by (6) it can neither open nor vote *)
Theorem C19_status_is_election_result : forall c mal h vs cnt q,
  let upd := (minPower c <=? q.2) && (cnt <? topN c) && negb (inb q.1 mal) in
  active_in (elect_one c mal h (vs, cnt) q).1 q.1 = upd /\
  (elect_one c mal h (vs, cnt) q).2 = (if upd then cnt + 1 else cnt) /\
  (forall b, b <> q.1 -> (elect_one c mal h (vs, cnt) q).1 !! b = vs !! b).
Proof. exact elect_one_status. Qed.
Theorem C19_active_count_le_top : forall c s q, 0 <= topN c -> 0 <= (elect c s q).2 <= topN c.
Proof. exact active_count_le_top. Qed.
Theorem C19_standby_inactive : forall c mal h vs cnt q,
  topN c <= cnt -> active_in (elect_one c mal h (vs, cnt) q).1 q.1 = false.
Proof. exact standby_inactive. Qed.
Print Assumptions C19_active_count_le_top.

Definition cfg_top2 : Cfg := mkCfg 100 100 50 100 30 100 50 100 1 4 1000 2.
Definition q5 : list (Z * Z) := [(1, 3000000); (2, 2999000); (3, 2998000); (4, 2997000); (5, 2996000)].
(* five qualified stakers, two slots: only 1 and 2 are active; the standby stakers 3, 4, 5 are refused
   when they accuse and vote, so validator 2 cannot be convicted by them; the request opened by 1
   stays open with no votes *)
Example C19_standby_stakers_are_refused :
  let r := run cfg_top2 (init_with q5)
    [OBegin 2 30 []; OEnd q5 []; OBegin 3 45 []; OAllege 0 3 2 3; OAllege 1 1 2 3;
     OVote 1 3 YES; OVote 1 4 YES; OVote 1 5 YES; OEnd q5 []] in
  map (is_active r.1) [1; 2; 3; 4; 5] = [true; true; false; false; false] /\
  r.2 = [EvTx false; EvTx true; EvOpened 1 1 2; EvTx false; EvTx false; EvTx false] /\
  is_frozen r.1 2 = false /\ (r_votes <$> reqs r.1 !! 1) = Some [].
Proof. vm_compute. repeat split; reflexivity. Qed.

(* repeat offence: validator 4 is convicted at height 6, releases itself one day later, is elected
   again, and is convicted a second time at height 11: the second verdict writes a fresh frozen
   byzantine-fault record (the released one is replaced), its stake/unstake/withdraw and vote are
   refused again, and it drops out of the active set at the next EndBlock *)
Example C19_repeat_offender_is_frozen_again :
  let s1 := (run cfg50 (init_with q4) (guilty_history ++
     [OBegin 7 105 []; OEnd q4 []; OBegin 8 86506 []; ORelease 4; OEnd q4 []; OBegin 9 86521 []; OEnd q4 []])).1 in
  let r2 := run cfg50 s1 [OBegin 11 86551 []; OAllege 2 1 4 11; OVote 2 1 YES; OVote 2 2 YES; OEnd q4 [];
     OBegin 12 86566 []; OStake 0 4 true 500; OStake 1 4 true (-500); OStake 2 4 true 0; OVote 2 4 YES; OEnd q4 []] in
  is_frozen s1 4 = false /\ is_active s1 4 = true /\
  (l_fh <$> susp r2.1 !! 4) = Some 11 /\ byz_frozen_m r2.1 4 = true /\ is_active r2.1 4 = false /\
  filter (fun e => match e with EvTx _ | EvVerdict _ _ _ _ _ _ _ => true | _ => false end = true) r2.2 =
    [EvTx true; EvTx true; EvTx true; EvVerdict 2 4 GUILTY 2 0 2 4; EvTx false; EvTx false; EvTx false; EvTx false].
Proof. vm_compute. repeat split; reflexivity. Qed.

(* (10) strict reading of "votes of distinct CURRENTLY active validators": every verdict of an EndBlock
   is also reached on the votes of the validators that are active after that block's election —
   outside the trigger [stale_votes] (some voter of the request is no longer active at the tally).
   (1) above is the reading "active when they voted" and holds without a guard. *)
Theorem C19_verdict_on_currently_active_votes_partial : forall c s q ord s' ev e,
  end_block c s q ord = (s', ev) -> e ∈ ev ->
  match e with
  | EvVerdict id mal st yes no req active =>
      exists r, reqs s !! id = Some r /\
        (stale_votes (elect c s q).1 (r_votes r) = false ->
         (st = GUILTY -> guilty_x c (count_active_choice (elect c s q).1 YES (r_votes r)) req = true) /\
         (st = INNOCENT -> innocent_x c (count_active_choice (elect c s q).1 NO (r_votes r)) req = true))
  | _ => True
  end.
Proof. exact end_block_active_votes. Qed.
Print Assumptions C19_verdict_on_currently_active_votes_partial.

(* ... and is false inside it: validator 1 votes YES and then drops out of the active set (its power
   falls below the minimum); validator 2's YES vote gives 2 of ceil(3*50%) = 2 required: GUILTY,
   although the currently active voters alone give 1 of 2.  Known finding C19.stale_votes_counted,
   reproduced on the real code (findings/C19_stale_votes_counted.json). *)
Theorem C19_verdict_on_currently_active_votes_refuted_1 : exists c stk ops q id r,
  let s := (run c (init_with stk) ops).1 in
  reqs s !! id = Some r /\ stale_votes (elect c s q).1 (r_votes r) = true /\
  (end_block c s q []).2 = [EvFrozen 4 BYZ 9; EvPenalty 4 2997000 899100 (bounty_of c 899100); EvVerdict id 4 GUILTY 2 0 2 3] /\
  guilty_x c (count_active_choice (elect c s q).1 YES (r_votes r)) 2 = false.
Proof.
  exists cfg50, q4,
    [OBegin 2 30 []; OEnd q4 []; OBegin 6 90 []; OAllege 0 2 4 6; OVote 0 1 YES; OEnd q4 [];
     OBegin 8 120 []; OEnd [(2, 2999000); (3, 2998000); (4, 2997000); (1, 500)] [];
     OBegin 9 135 []; OVote 0 2 YES],
    [(2, 2999000); (3, 2998000); (4, 2997000); (1, 500)], 0, (mkReq 2 4 6 VOTING [(1, YES); (2, YES)]).
  vm_compute. repeat split; reflexivity.
Qed.

(* non-vacuity: the hypotheses of the theorems above are met by a concrete history in which a
   verdict is reached with votes of distinct active validators, the stake drops by the penalty and
   the bounty program is credited *)
Example C19_nonvacuous :
  cfg_ok cfg50 = true /\
  (run cfg50 (init_with q4) guilty_history).2 !! 5%nat = Some (EvVote 0 2 YES) /\
  EvVerdict 0 4 GUILTY 2 0 2 4 ∈ (run cfg50 (init_with q4) guilty_history).2 /\
  stake (run cfg50 (init_with q4) guilty_history).1 !! 4 = Some (2997000 - 899100) /\
  bounty (run cfg50 (init_with q4) guilty_history).1 = 899100 * 10 ^ 18 / 2 /\
  byz_frozen_m (run cfg50 (init_with q4) guilty_history).1 4 = true.
Proof.
  split; [vm_compute; reflexivity|]. split; [vm_compute; reflexivity|].
  split; [apply elem_of_list_In; vm_compute; repeat first [left; reflexivity | right]|]. vm_compute. repeat split; reflexivity.
Qed.
