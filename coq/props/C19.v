(* C19 — allegations: verdicts follow votes, frozen stays frozen, penalties bounded. *)
From stdpp Require Import gmap list.
From Coq Require Import ZArith Bool Lia.
From OL Require Import theories.Allegation theories.AllegationCheck proofs.AllegationProofs.
Local Open Scope Z_scope.
