(* C17 — OLVM transactions keep one ledger and charge exactly the gas used.
   Only property theorems here; proofs are in proofs/OlvmProofs.v.
   The EVM interpreter is an oracle: every theorem quantifies over ALL its answers
   (gas left, refund counter, failure flag, the code's own OLT transfers, self-destructed
   accounts), over all ledgers and all transactions. *)
From stdpp Require Import gmap list.
From Coq Require Import ZArith.
From OL Require Import theories.Olvm theories.OlvmCheck proofs.OlvmProofs.
Local Open Scope Z_scope.

(* (1) one ledger: for EVERY state — hence before and after every transaction of either kind —
   the balance the EVM reads for an account (state object <- keeper.GetAccount, including the
   legacy path for accounts without a keeper record) is the native balance record *)
Theorem C17_one_ledger : forall s a, evm_view s a = native_view s a.
Proof. exact one_ledger. Qed.
Print Assumptions C17_one_ledger.

Theorem C17_one_ledger_history : forall steps s a,
  evm_view (run s steps) a = native_view (run s steps) a.
Proof. exact history_one_ledger. Qed.
Print Assumptions C17_one_ledger_history.

(* (2) a transaction that is not executed — failed consensus pre-check at any stage (also after
   buyGas has debited the session), failed fee step, or duplicate — changes nothing *)
Theorem C17_not_executed_unchanged : forall s e t o,
  (forall f u, (deliver_olvm s e t o).1 <> Executed f u) -> (deliver_olvm s e t o).2 = s.
Proof. exact not_executed_unchanged. Qed.
Print Assumptions C17_not_executed_unchanged.

(* (3) exact charge: an executed transaction (successful or VM-failed) reports 0 < gasUsed <= limit,
   credits the fee pool exactly gasUsed*price — for every oracle answer, refund counter and
   self-destructs included — debits the sender exactly gasUsed*price + value moved, credits the
   recipient the value moved (0 when the VM failed), leaves every other account to the code's
   own transfers, and raises the sender's nonce by exactly one (the sender, an externally owned
   account, is not among the accounts that executed SELFDESTRUCT) *)
Theorem C17_exact_charge : forall s e t o f used s',
  well_formed e t o ->
  deliver_olvm s e t o = (Executed f used, s') ->
  f = o_failed o /\ 0 < used <= t_gas t /\
  pool s' = pool s + used * t_price t /\
  (forall a, balance s' a =
     balance s a
     + (if decide (a = t_from t) then - (used * t_price t + moved t f) else 0)
     + (if decide (a = recipient e t) then moved t f else 0)
     + (if f then 0 else delta_int (o_int o) a)) /\
  (survives o (t_from t) -> recipient e t <> t_from t ->
   nonce_of s' (t_from t) = nonce_of s (t_from t) + 1).
Proof. exact exact_charge. Qed.
Print Assumptions C17_exact_charge.

(* (4) conservation, FULL (since /repo 8b9b1c9: removing an EVM account writes its balance
   record): total OLT over any set of accounts containing everything the transaction touches,
   plus the fee pool, changes by exactly the net of the code's own transfers (0 for transfers
   between accounts, SELFDESTRUCT included): buyGas - refund = gasUsed*price = the separate
   AddToPool credit *)
Theorem C17_conservation : forall s e t o f used s' l,
  well_formed e t o ->
  deliver_olvm s e t o = (Executed f used, s') ->
  NoDup l -> t_from t ∈ l -> recipient e t ∈ l -> (forall p, p ∈ o_int o -> p.1 ∈ l) ->
  total_over s' l = total_over s l + (if f then 0 else sum_int (o_int o)).
Proof. exact conservation. Qed.
Print Assumptions C17_conservation.

Definition w_state : state :=
  {| bal := list_to_map [(0%N, 1000000000000000000); (1%N, 5000)] ;
     seqs := list_to_map [(0%N, 3); (1%N, 1)] ; pool := 0 |}.
Definition w_env : env :=
  {| e_block_gas := MaxInt64 ; e_sender_code := false ; e_created := 9%N ; e_dup := false |}.
Definition w_call (nonce : Z) : otx :=
  {| t_from := 0%N ; t_to := Some 1%N ; t_value := 11 ; t_gas := 100000 ; t_price := 1000000000 ;
     t_nonce := nonce ; t_nz := 0 ; t_z := 0 ; t_chain_ok := true ; t_memo_ok := true |}.
Definition w_suicide : oracle :=
  {| o_left := 73998 ; o_refund := 0 ; o_failed := false ;
     o_int := [(1%N, -5011); (0%N, 5011)] ; o_dead := [1%N] |}.
Definition w_plain : oracle :=
  {| o_left := 79000 ; o_refund := 0 ; o_failed := false ; o_int := [] ; o_dead := [] |}.

(* the former witness of the refutation (fixed finding C17.selfdestruct_funded): a contract
   holding 5000 self-destructs towards the caller of a call carrying 11 — the caller receives
   5011, the contract's record is written as 0, its keeper record is gone, total unchanged *)
Example C17_selfdestruct_conserves :
  let s' := (deliver_olvm w_state w_env (w_call 3) w_suicide).2 in
  selfdestruct_funded w_state w_suicide = true /\
  (deliver_olvm w_state w_env (w_call 3) w_suicide).1 = Executed false 26002 /\
  balance s' 1%N = 0 /\ nonce_of s' 1%N = 0 /\
  balance s' 0%N = 1000000000000000000 - 26002 * 1000000000 - 11 + 5011 /\
  total_over s' [0%N; 1%N] = total_over w_state [0%N; 1%N].
Proof. vm_compute. intuition discriminate. Qed.

(* (5) the nonce rule, FULL (since /repo 579eea0: preCheck rejects state < msg as well): an
   executed transaction carries exactly the account's nonce; any other nonce is never executed *)
Theorem C17_nonce_exact : forall s e t o f used s',
  well_formed e t o ->
  deliver_olvm s e t o = (Executed f used, s') -> t_nonce t = nonce_of s (t_from t).
Proof. exact executed_nonce_exact. Qed.
Print Assumptions C17_nonce_exact.

Theorem C17_wrong_nonce_not_executed : forall s e t o,
  well_formed e t o -> nonce_of s (t_from t) <> t_nonce t ->
  forall f u, (deliver_olvm s e t o).1 <> Executed f u.
Proof. exact stale_nonce_not_executed. Qed.
Print Assumptions C17_wrong_nonce_not_executed.

(* (6) at most once, FULL: after its execution the account nonce is above the transaction's
   nonce, and the same transaction — any encoding, any environment, any interpreter answer —
   is not executed again (and by C17_wrong_nonce_not_executed not in any later state whose
   account nonce differs from it) *)
Theorem C17_no_second_execution : forall s e t o f used s' e2 o2,
  well_formed e t o -> well_formed e2 t o2 ->
  survives o (t_from t) -> recipient e t <> t_from t ->
  deliver_olvm s e t o = (Executed f used, s') ->
  t_nonce t < nonce_of s' (t_from t) /\
  forall f2 u2, (deliver_olvm s' e2 t o2).1 <> Executed f2 u2.
Proof. exact no_second_execution. Qed.
Print Assumptions C17_no_second_execution.

(* the former witness (fixed finding C17.nonce_gap): nonce = account nonce + 2 is not executed *)
Example C17_nonce_gap_rejected :
  nonce_gap w_state (w_call 5) = true /\
  deliver_olvm w_state w_env (w_call 5) w_plain = (NotExecuted, w_state).
Proof. vm_compute. auto. Qed.

(* (7) a transaction CheckTx accepts on a ledger AND that carries exactly the account's nonce
   passes every consensus pre-check on the same ledger (block gas and the sender-is-EOA test
   aside).  Without the exact-nonce hypothesis the statement is false: validateEthTx still
   accepts a nonce ahead of the account's (mempool-side leniency), preCheck rejects it. *)
Theorem C17_validated_executes : forall s e t o min_fee,
  well_formed e t o -> validate s min_fee t = true -> nonce_gap s t = false ->
  e_dup e = false -> e_sender_code e = false -> gas_u64 t <= e_block_gas e ->
  exists f u, (deliver_olvm s e t o).1 = Executed f u.
Proof. exact validated_executes. Qed.
Print Assumptions C17_validated_executes.

Example C17_validated_gap_not_executed :
  validate w_state 1000000000 (w_call 5) = true /\ nonce_gap w_state (w_call 5) = true /\
  (deliver_olvm w_state w_env (w_call 5) w_plain).1 = NotExecuted.
Proof. vm_compute. auto. Qed.

(* (8) native SEND on the same ledger: exact charge, failure is a no-op, conservation *)
Theorem C17_send_exact : forall s t used s',
  deliver_send s t used = (true, s') ->
  pool s' = pool s + n_price t * used /\
  (forall a, balance s' a = balance s a
     + (if decide (a = n_from t) then - (n_amount t + n_price t * used) else 0)
     + (if decide (a = n_to t) then n_amount t else 0)) /\
  (forall a, nonce_of s' a = nonce_of s a).
Proof. exact send_exact. Qed.
Print Assumptions C17_send_exact.

Theorem C17_send_failed_unchanged : forall s t used,
  (deliver_send s t used).1 = false -> (deliver_send s t used).2 = s.
Proof. exact send_failed_unchanged. Qed.

Theorem C17_send_conservation : forall s t used s' l,
  deliver_send s t used = (true, s') -> NoDup l -> n_from t ∈ l -> n_to t ∈ l ->
  total_over s' l = total_over s l.
Proof. exact send_conservation. Qed.
Print Assumptions C17_send_conservation.

(* non-vacuity: the hypotheses of (3)/(4) are satisfiable — a successful call with a refund, a
   reverted call, a creation; and every pre-check stage rejects on some input *)
Example C17_nonvacuous_executed :
  let o := {| o_left := 60000 ; o_refund := 4800 ; o_failed := false ; o_int := [] ; o_dead := [] |} in
  well_formed w_env (w_call 3) o /\
  deliver_olvm w_state w_env (w_call 3) o =
    (Executed false 35200,
     (deliver_olvm w_state w_env (w_call 3) o).2) /\
  balance (deliver_olvm w_state w_env (w_call 3) o).2 0%N = 1000000000000000000 - 35200 * 1000000000 - 11 /\
  balance (deliver_olvm w_state w_env (w_call 3) o).2 1%N = 5011 /\
  pool (deliver_olvm w_state w_env (w_call 3) o).2 = 35200 * 1000000000 /\
  nonce_of (deliver_olvm w_state w_env (w_call 3) o).2 0%N = 4.
Proof. vm_compute. intuition discriminate. Qed.

Example C17_nonvacuous_reverted :
  let o := {| o_left := 1000 ; o_refund := 0 ; o_failed := true ; o_int := [] ; o_dead := [] |} in
  (deliver_olvm w_state w_env (w_call 3) o).1 = Executed true 99000 /\
  balance (deliver_olvm w_state w_env (w_call 3) o).2 1%N = 5000 /\
  nonce_of (deliver_olvm w_state w_env (w_call 3) o).2 0%N = 4.
Proof. vm_compute. auto. Qed.

Example C17_nonvacuous_rejected :
  (deliver_olvm w_state w_env (w_call 2) w_plain).1 = NotExecuted /\                       (* nonce too low *)
  (deliver_olvm w_state w_env (w_call 4) w_plain).1 = NotExecuted /\                       (* nonce too high *)
  (deliver_olvm w_state w_env
     {| t_from := 0%N ; t_to := None ; t_value := 0 ; t_gas := 52999 ; t_price := 1 ; t_nonce := 3 ;
        t_nz := 0 ; t_z := 0 ; t_chain_ok := true ; t_memo_ok := true |} w_plain).1 = NotExecuted /\   (* intrinsic, after buyGas *)
  (deliver_olvm w_state w_env
     {| t_from := 1%N ; t_to := Some 0%N ; t_value := 0 ; t_gas := 21000 ; t_price := 1 ; t_nonce := 1 ;
        t_nz := 0 ; t_z := 0 ; t_chain_ok := true ; t_memo_ok := true |} w_plain).1 = NotExecuted.    (* cannot pay the gas *)
Proof. vm_compute. auto. Qed.
