(* C20 — domain names: exclusive ownership, owner-only changes, paid transfers.
   Only property theorems here, each closed by [exact <lemma>]; proofs are in proofs/OnsProofs.v.
   Model: theories/Ons.v (the run* functions of action/ons, data/ons, fee step, session rule). *)
From Coq Require Import ZArith Ascii String.
From stdpp Require Import gmap list strings.
From OL Require Import theories.Ons theories.OnsCheck proofs.OnsProofs proofs.OnsInv
  theories.Options gen.Facts_Options.
Local Open Scope Z_scope.
Local Open Scope string_scope.

(* (1) Owner-only changes, paid transfers.  For every state, every delivered transaction (any
   message, any signer, any context, any fee) and every name n: if n's record (owner,
   beneficiary, heights, expiry, sale status and price, active flag, uri — or its existence)
   differs after the transaction, then the transaction succeeded and
     - its signer owns n or owns a name of which n is a sub-name, or
     - it is the first registration of the free top-level name n by the signer, or
     - it is a purchase of n in which — every account's balance is accounted for — the buyer paid
       the offer >= the asking price, the previous owner received exactly the asking price and
       the rest went to the fee pool; or n was expired and the buyer paid >= the base price, or
     - n is a sub-name deleted by such a paid purchase of a name above it. *)
Theorem C20_change_authorised : forall s t s' ok, deliver s t = (s', ok) ->
  forall n, reg s' !! n <> reg s !! n -> ok = true /\ change_justified s s' t n.
Proof. exact deliver_authorised. Qed.
Print Assumptions C20_change_authorised.

(* the same over all histories (transactions of any senders and block ends, by induction) *)
Theorem C20_history_authorised : forall evs s n,
  reg (run s evs) !! n <> reg s !! n -> history_justified s evs n.
Proof. exact history_authorised. Qed.
Print Assumptions C20_history_authorised.

(* (2) frame: strangers' transactions never change a name they have no authority over *)
Theorem C20_strangers_frame : forall s t n,
  ~ authority s (signer (t_op t)) n -> ~ targets (t_op t) n ->
  reg (deliver s t).1 !! n = reg s !! n.
Proof. exact strangers_frame. Qed.
Print Assumptions C20_strangers_frame.

(* sale status changes only by the owner's signature: whenever a name is on sale after a
   transaction, it was on sale before for the same owner at the same price, or the transaction
   is that owner's own sell transaction at that price.  In particular a purchase (live or of an
   expired name) never leaves the buyer's name on sale at the previous owner's price. *)
Theorem C20_listing_authored : forall s t n d',
  reg (deliver s t).1 !! n = Some d' -> d_onsale d' = true -> listing_ok s (t_op t) n d'.
Proof. exact listing_authored. Qed.
Print Assumptions C20_listing_authored.

(* over histories: the owner of an on-sale name signed a sell transaction for it at that price
   while owning it (or the listing was already there at the start) *)
Theorem C20_history_listing_authored : forall evs s n d',
  reg (run s evs) !! n = Some d' -> d_onsale d' = true ->
  (exists d, reg s !! n = Some d /\ d_onsale d = true /\ d_owner d = d_owner d' /\ d_price d = d_price d')
  \/ listed_by s evs n (d_owner d') (d_price d').
Proof. exact history_listing_authored. Qed.
Print Assumptions C20_history_listing_authored.

(* a failed transaction leaves no trace at all *)
Theorem C20_failed_no_trace : forall s t s', deliver s t = (s', false) -> s' = s.
Proof. exact deliver_failed. Qed.

(* (4) at most one record per name *)
Theorem C20_one_record_per_name : forall s n d1 d2,
  reg s !! n = Some d1 -> reg s !! n = Some d2 -> d1 = d2.
Proof. exact one_record_per_name. Qed.

(* the sub-name range of p (reversed-key prefix "lo.p." in data/ons/store.go) contains exactly
   the names pre.p with a non-empty pre: a look-alike sibling ("xn.ol" for "n.ol") is not in it *)
Theorem C20_sub_range : forall p n,
  is_sub_of p n = true <-> exists pre : name, pre <> [] /\ n = (pre ++ p)%list.
Proof. exact is_sub_of_spec. Qed.
Theorem C20_sub_range_parent : forall p n, length p = 2%nat -> is_sub_of p n = true ->
  parent_name n = p /\ is_sub n = true.
Proof. exact is_sub_of_parent. Qed.
Example C20_sub_range_ex :
  is_sub_of ["n";"ol"] ["a";"n";"ol"] = true /\ is_sub_of ["n";"ol"] ["c";"a";"n";"ol"] = true /\
  is_sub_of ["n";"ol"] ["xn";"ol"] = false /\ is_sub_of ["n";"ol"] ["a";"xn";"ol"] = false /\
  is_sub_of ["n";"ol"] ["n";"ol"] = false.
Proof. vm_compute. repeat split. Qed.

(* (3) expiry = exactly the blocks bought, for ALL amounts (full theorems since /repo bd3d183: a
   block count that does not fit an int64 expiry height is refused instead of wrapped; before
   that fix these were _partial + a _refuted witness, finding C20.expiry_blocks_ge_2p63, now
   "fixed").  The expiry is never in the past after a paid create / renew / purchase. *)
Theorem C20_create_expiry : forall e s a b n uo u price s1,
  run_create e s a b n uo u price = Some s1 -> is_sub n = false ->
  0 < o_perblock (e_opts e) -> 0 <= e_v e ->
  exists d, reg s1 !! n = Some d /\
    d_expiry d = e_v e + (price - o_base (e_opts e)) / o_perblock (e_opts e) /\
    e_v e <= d_expiry d.
Proof. exact create_expiry_exact. Qed.
Print Assumptions C20_create_expiry.

(* the former refuting input (perBlockFees = 1, 10 OLT = 10^19 units >= 2^63 blocks) is now
   refused without a trace; the 9 OLT registration next to it is served exactly *)
Definition C20_big_e : env :=
  {| e_h := 2; e_v := 1; e_opts := {| o_perblock := 1; o_base := 1; o_tlds := ["ol"] |} |}.
Example C20_create_overflow_refused :
  let s := init_state {[ 0%N := 1000000000000000000000000 ]} in
  let t price := {| t_op := Create 0%N None ["n";"ol"] true "http://x.y" price; t_env := C20_big_e;
                    t_payer := 0%N; t_fee := Some 1; t_static_ok := true; t_nil_benef := false |} in
  deliver s (t 10000000000000000000) = (s, false) /\
  (deliver s (t 9000000000000000000)).2 = true /\
  (d_expiry <$> reg (deliver s (t 9000000000000000000)).1 !! ["n";"ol"]) = Some 9000000000000000000.
Proof. vm_compute. repeat split. Qed.

(* a sub-name gets its parent's expiry *)
Theorem C20_create_sub_expiry : forall e s a b n uo u price s1,
  run_create e s a b n uo u price = Some s1 -> is_sub n = true ->
  exists d p, reg s1 !! n = Some d /\ reg s !! parent_name n = Some p /\ d_expiry d = d_expiry p.
Proof. exact create_sub_expiry. Qed.

(* renewal: only the owner, of a name that is not expired, pays the price to the pool; expiry
   extended by exactly price/perBlock blocks; every committed sub-name follows
   ([int64 (d_expiry d)]: the stored field is a Go int64) *)
Theorem C20_renew_expiry : forall e s a n price s1, run_renew e s a n price = Some s1 ->
  0 < o_perblock (e_opts e) ->
  exists d d', reg s !! n = Some d /\ reg s1 !! n = Some d' /\ d_owner d = a /\
    pool s1 = pool s + price /\ e_v e <= d_expiry d /\
    (int64 (d_expiry d) ->
     d_expiry d' = d_expiry d + price / o_perblock (e_opts e) /\ d_expiry d <= d_expiry d') /\
    (forall m dm, visited s n m = true -> reg s !! m = Some dm ->
       exists dm', reg s1 !! m = Some dm' /\ d_expiry dm' = d_expiry d').
Proof. exact renew_expiry_exact. Qed.
Print Assumptions C20_renew_expiry.

Theorem C20_purchase_expiry : forall e s buyer acct n offer s1,
  run_purchase e s buyer acct n offer = Some s1 -> 0 < o_perblock (e_opts e) -> 0 <= e_v e ->
  exists d d', reg s !! n = Some d /\ reg s1 !! n = Some d' /\ d_owner d' = buyer /\
    d_onsale d' = false /\ d_price d' = None /\ d_active d' = true /\
    let paid_for_time := if sale_branch e d then offer - default 0 (d_price d)
                         else offer - o_base (e_opts e) in
    (int64 (d_expiry d) ->
     d_expiry d' = Z.max (d_expiry d) (e_v e) + paid_for_time / o_perblock (e_opts e) /\
     e_v e <= d_expiry d').
Proof. exact purchase_expiry_exact. Qed.
Print Assumptions C20_purchase_expiry.

(* Exclusive ownership below a name: "every sub-name is owned by its parent's owner" is FALSE of
   the faithful model.  DeleteAllSubdomains iterates the committed tree's keys, so a sub-name
   registered earlier in the same block survives the purchase of its parent and stays with the
   previous owner (who can still update it).  Known finding C20.purchase_misses_uncommitted_sub. *)
Definition C20_e (h : Z) : env :=
  {| e_h := h; e_v := h - 1; e_opts := {| o_perblock := 1; o_base := 5; o_tlds := ["ol"] |} |}.
Definition C20_tx (h : Z) (o : op) : event :=
  Tx {| t_op := o; t_env := C20_e h; t_payer := signer o; t_fee := Some 1;
        t_static_ok := true; t_nil_benef := false |}.
Definition C20_witness : list event :=
  [ C20_tx 2 (Create 0%N (Some 0%N) ["n";"ol"] true "http://x.y" 100); EndBlock;
    C20_tx 3 (Sell 0%N ["n";"ol"] 20 false); EndBlock;
    C20_tx 4 (Create 0%N (Some 0%N) ["a";"n";"ol"] true "http://x.y" 6);
    C20_tx 4 (Purchase 1%N (Some 1%N) ["n";"ol"] 30); EndBlock;
    C20_tx 6 (Update 0%N (Some 0%N) ["a";"n";"ol"] true true "http://old.owner") ].

Theorem C20_sub_owner_refuted_1 :
  let s0 := init_state {[ 0%N := 1000; 1%N := 1000 ]} in
  let s5 := run s0 (take 6 C20_witness) in
  let s := run s0 C20_witness in
  trig_purchase_uncommitted s5 (Purchase 1%N (Some 1%N) ["n";"ol"] 30) = true /\
  exists d p, reg s !! ["a";"n";"ol"] = Some d /\ reg s !! ["n";"ol"] = Some p /\
    d_owner p = 1%N /\ d_owner d = 0%N /\ d_uri d = "http://old.owner".
Proof.
  split; [vm_compute; reflexivity|].
  eexists. eexists. split; [vm_compute; reflexivity|]. split; [vm_compute; reflexivity|].
  vm_compute. repeat split.
Qed.

(* ... and it holds outside that trigger: every transaction that is not a purchase meeting an
   uncommitted sub-name of the purchased name preserves "stored names have >= 2 labels and every
   sub-name's parent exists and has the same owner"; by induction over histories from the
   empty registry. *)
Theorem C20_sub_owner_partial : forall s t,
  trig_purchase_uncommitted s (t_op t) = false -> sub_owner_inv s -> sub_owner_inv (deliver s t).1.
Proof. exact deliver_sub_owner_inv. Qed.
Print Assumptions C20_sub_owner_partial.

Theorem C20_sub_owner_history_partial : forall evs b,
  no_trigger (init_state b) evs -> sub_owner_inv (run (init_state b) evs).
Proof. intros evs b. exact (history_sub_owner_inv evs _ (init_sub_owner_inv b)). Qed.
Print Assumptions C20_sub_owner_history_partial.

(* non-vacuity: the first five events of the witness history (up to and including the
   registration of a.n.ol) never fire the trigger *)
Example C20_sub_owner_nonvacuous :
  no_trigger (init_state {[ 0%N := 1000; 1%N := 1000 ]}) (take 5 C20_witness).
Proof. vm_compute. repeat split. Qed.

(* "A sub-name expires with its parent": every sub-name's expiry height EQUALS its parent's.
   Renewal sets the expiry of ALL committed sub-names (C20_renew_expiry, last clause, over the
   whole sub-name range); as an invariant over histories it holds outside the same trigger region
   (extended to renewals: the parent is renewed or purchased while a sub-name registered in this
   block is not yet in the committed tree) and is refuted inside it by a closed witness. *)
Theorem C20_sub_expiry_partial : forall s t,
  trig_uncommitted s (t_op t) = false -> sub_expiry_eq_inv s -> sub_expiry_eq_inv (deliver s t).1.
Proof. exact deliver_sub_expiry_inv. Qed.
Print Assumptions C20_sub_expiry_partial.

Theorem C20_sub_expiry_history_partial : forall evs b,
  no_trigger_u (init_state b) evs -> sub_expiry_eq_inv (run (init_state b) evs).
Proof. intros evs b. exact (history_sub_expiry_inv evs _ (init_sub_expiry_inv b)). Qed.
Print Assumptions C20_sub_expiry_history_partial.

Definition C20_witness_renew : list event :=
  [ C20_tx 2 (Create 0%N (Some 0%N) ["n";"ol"] true "http://x.y" 100); EndBlock;
    C20_tx 3 (Create 0%N (Some 0%N) ["b";"n";"ol"] true "http://x.y" 6); EndBlock;
    C20_tx 4 (Create 0%N (Some 0%N) ["a";"n";"ol"] true "http://x.y" 6);
    C20_tx 4 (Renew 0%N ["n";"ol"] 10); EndBlock ].

Theorem C20_sub_expiry_refuted_1 :
  let s0 := init_state {[ 0%N := 1000 ]} in
  let s3 := run s0 (take 5 C20_witness_renew) in
  let s := run s0 C20_witness_renew in
  trig_uncommitted s3 (Renew 0%N ["n";"ol"] 10) = true /\
  (d_expiry <$> reg s !! ["n";"ol"]) = Some 106 /\
  (d_expiry <$> reg s !! ["b";"n";"ol"]) = Some 106 /\   (* committed sub-name: follows *)
  (d_expiry <$> reg s !! ["a";"n";"ol"]) = Some 96.       (* registered in this block: left behind *)
Proof. vm_compute. repeat split. Qed.

Example C20_sub_expiry_nonvacuous :
  no_trigger_u (init_state {[ 0%N := 1000 ]}) (take 5 C20_witness_renew).
Proof. vm_compute. repeat split. Qed.

(* non-vacuity: the hypotheses of (1) and (3) are satisfiable by successful, record-changing
   transactions (the paid purchase of the witness history: seller +20, buyer -30-fee) *)
Example C20_nonvacuous :
  let s0 := init_state {[ 0%N := 1000; 1%N := 1000 ]} in
  let s3 := run s0 (take 4 C20_witness) in
  let t := {| t_op := Purchase 1%N (Some 1%N) ["n";"ol"] 30; t_env := C20_e 4; t_payer := 1%N; t_fee := Some 1;
             t_static_ok := true; t_nil_benef := false |} in
  (deliver s3 t).2 = true /\
  (d_owner <$> reg s3 !! ["n";"ol"]) = Some 0%N /\
  (d_owner <$> reg (deliver s3 t).1 !! ["n";"ol"]) = Some 1%N /\
  (d_expiry <$> reg (deliver s3 t).1 !! ["n";"ol"]) = Some (96 + 10) /\
  getbal (bal (deliver s3 t).1) 0%N = getbal (bal s3) 0%N + 20 /\
  getbal (bal (deliver s3 t).1) 1%N = getbal (bal s3) 1%N - 30 - 1.
Proof. vm_compute. repeat split. Qed.

(* tie to the source (regenerated on every run): the model prices every transaction with the ONS options AS
   PERSISTED in the state the transaction runs on (an input of every step).  The domain store also holds a copy
   of those options in memory; no handler of action/ons (nor any other transaction path) reads it — the only
   callers of DomainStore.GetOptions are start-up functions — so what the copy holds cannot enter a price or
   an expiry (theories/Options.v: an unread copy is invisible). *)
Theorem C20_fact_prices_from_persisted_options :
  filter (fun '(a, c) => String.prefix "data/ons.DomainStore." a) (unaudited_calls option_accessor_calls) = [] /\
  filter (fun '(f, fn) => String.prefix "data/ons.DomainStore." f) (foreign_uses option_field_uses) = [].
Proof. vm_compute. split; reflexivity. Qed.
