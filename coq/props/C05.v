(* C05 — at-most-once execution of a signed transaction.  Only property theorems here. *)
From Coq Require Import ZArith List Bool String.
Import ListNotations.
From OL Require Import theories.Replay proofs.ReplayProofs gen.Facts_Wrapper
  theories.ReplayGuard proofs.ReplayGuardProofs gen.Facts_Deletes.
Local Open Scope Z_scope.

(* every transaction delivered in a block is in the hash index after the commit (given the
   node's indexer indexes every committed transaction), and stays there *)
Theorem C05_delivered_is_indexed : forall content decode state admissible apply
  (n : node state) b,
  mem b (idx state (commit state (snd (deliver content decode state admissible apply n b)))) = true.
Proof. exact delivered_is_indexed. Qed.
Print Assumptions C05_delivered_is_indexed.

Theorem C05_index_monotone : forall content decode state admissible apply (n : node state) b h,
  mem h (idx state n) = true ->
  mem h (idx state (snd (deliver content decode state admissible apply n b))) = true /\
  mem h (idx state (commit state n)) = true.
Proof. exact index_monotone. Qed.

(* byte-identical resubmission: rejected by the mempool check, no effect when delivered *)
Theorem C05_identical_bytes : forall content decode state admissible apply (n : node state) b,
  mem b (idx state n) = true ->
  check content decode state admissible n b = Duplicate /\
  deliver content decode state admissible apply n b = (Duplicate, n).
Proof. exact identical_bytes_noop. Qed.
Print Assumptions C05_identical_bytes.

(* partial: among canonical encodings, the same signed content is the same bytes *)
Theorem C05_at_most_once_partial : forall content decode state admissible apply (n : node state) b b',
  (forall x y c, decode x = Some c -> decode y = Some c -> x = y) ->
  canonical b -> canonical b' -> parse content decode b <> None ->
  parse content decode b' = parse content decode b ->
  mem b (idx state n) = true ->
  deliver content decode state admissible apply n b' = (Duplicate, n).
Proof. exact canonical_same_content_noop. Qed.
Print Assumptions C05_at_most_once_partial.

(* the full statement is refuted: a re-encoding (one leading space) of an executed transaction
   has another hash and the same parsed, signed content: accepted and executed again.
   Known finding C05.reencoding_replay. *)
Theorem C05_refuted_reencoding : exists (b b' : bytes),
  let decode := fun x : bytes => Some x in
  let adm := fun (_ : bytes) (_ : Z) => true in
  let app := fun (_ : bytes) (s : Z) => s + 1 in
  let n0 := {| idx := [] ; st := 0 ; pending := [] |} in
  let n1 := commit Z (snd (deliver bytes decode Z adm app n0 b)) in
  b' <> b /\ parse bytes decode b' = parse bytes decode b /\
  check bytes decode Z adm n1 b' = Accepted /\
  st Z (snd (deliver bytes decode Z adm app n1 b')) = 2.
Proof. exact reencoding_executes_twice. Qed.

(* tie to the source (regenerated): both CheckTx and DeliverTx consult the hash index before
   anything else *)
Theorem C05_fact_cache_lookup_first :
  checker_cache_lookup_first = true /\ deliverer_cache_lookup_first = true.
Proof. vm_compute. auto. Qed.

(* ---------- the second line of defence: the record an executed transaction leaves (theories/ReplayGuard.v) ----------
   A creating transaction (DOMAIN_CREATE, PROPOSAL_CREATE, ALLEGATION, ETH / ERC20 lock and redeem, BID_CREATE,
   an OLVM transaction) carries a guard id that is a function of its SIGNED content — every encoding that passes
   the signature check carries the same id — and executes only when that id is not taken.  For all histories of
   submissions in any encodings, removals of other records and unrelated operations: it takes effect at most once,
   and once executed every later submission changes nothing, for as long as nothing removes its record. *)
Theorem C05_guarded_at_most_once : forall g ops, never_removes g ops = true ->
  (gcount g (effects (grun ginit ops)) <= 1)%nat.
Proof. exact guard_at_most_once. Qed.
Print Assumptions C05_guarded_at_most_once.

Theorem C05_guarded_executed_stays_refused : forall g pre post,
  never_removes g post = true ->
  let s := grun (gstep (grun ginit pre) (GSubmit g)) post in
  gmem g (taken s) = true /\ gstep s (GSubmit g) = s.
Proof. exact guard_executed_stays_refused. Qed.
Print Assumptions C05_guarded_executed_stays_refused.

(* the hypothesis is necessary: a removal in between and the same signed content takes effect twice *)
Theorem C05_guard_removed_refuted : exists g ops,
  never_removes g ops = false /\ gcount g (effects (grun ginit ops)) = 2%nat.
Proof. exact guard_removed_executes_twice. Qed.

(* tie to the source (regenerated on every run): every call that deletes a guard record is of an audited class
   (theories/ReplayGuard.v): a move between state prefixes (the id stays taken under the other prefix), the
   removal of SUB domains, the replacement of a FAILED Ethereum lock (retry by design), an allegation request
   after its verdict (its ALLEGATION can then run again in another encoding: listed under the known finding
   C05.reencoding_replay), an empty or self-destructed OLVM account (nonce 0).  A new deletion site, or an old
   one reached from another function or on another state prefix, is an open obligation. *)
Theorem C05_fact_guard_deletions_audited : unaudited_deletes guard_deletes = [].
Proof. vm_compute. reflexivity. Qed.

Example C05_fact_guard_deletions_nonvacuous :
  (20 <=? List.length guard_deletes)%nat = true /\
  (10 <=? count_dclass (fun c => match c with DMove => true | _ => false end) guard_deletes)%nat = true /\
  count_dclass (fun c => match c with DRetry => true | _ => false end) guard_deletes = 2%nat /\
  unaudited_deletes [("data/ons.DomainStore.DeleteASubdomain"%string, "action/ons.runRenew"%string, "-"%string)] <> [] /\
  unaudited_deletes [("data/ethereum.TrackerStore.Delete"%string, "event.Cleanup"%string, "WithPrefixType(ethereum.PrefixPassed)"%string)] <> [].
Proof. vm_compute. repeat split; discriminate. Qed.
