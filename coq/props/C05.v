(* C05 — at-most-once execution of a signed transaction.  Only property theorems here. *)
From Coq Require Import ZArith List Bool String.
Import ListNotations.
From OL Require Import theories.Replay proofs.ReplayProofs gen.Facts_Wrapper.
Local Open Scope Z_scope.

(* every transaction delivered in a block is in the hash index after the commit (given the
   node's indexer indexes every committed transaction), and stays there *)
Theorem C05_delivered_is_indexed : forall content decode state admissible apply
  (n : node state) b,
  mem b (idx state (commit state (snd (deliver content decode state admissible apply n b)))) = true.
Proof. exact delivered_is_indexed. Qed.
Print Assumptions C05_delivered_is_indexed.

Theorem C05_index_monotone : forall content decode state admissible apply (n : node state) b h,
  mem h (idx state n) = true ->
  mem h (idx state (snd (deliver content decode state admissible apply n b))) = true /\
  mem h (idx state (commit state n)) = true.
Proof. exact index_monotone. Qed.

(* byte-identical resubmission: rejected by the mempool check, no effect when delivered *)
Theorem C05_identical_bytes : forall content decode state admissible apply (n : node state) b,
  mem b (idx state n) = true ->
  check content decode state admissible n b = Duplicate /\
  deliver content decode state admissible apply n b = (Duplicate, n).
Proof. exact identical_bytes_noop. Qed.
Print Assumptions C05_identical_bytes.

(* partial: among canonical encodings, the same signed content is the same bytes *)
Theorem C05_at_most_once_partial : forall content decode state admissible apply (n : node state) b b',
  (forall x y c, decode x = Some c -> decode y = Some c -> x = y) ->
  canonical b -> canonical b' -> parse content decode b <> None ->
  parse content decode b' = parse content decode b ->
  mem b (idx state n) = true ->
  deliver content decode state admissible apply n b' = (Duplicate, n).
Proof. exact canonical_same_content_noop. Qed.
Print Assumptions C05_at_most_once_partial.

(* the full statement is refuted: a re-encoding (one leading space) of an executed transaction
   has another hash and the same parsed, signed content: accepted and executed again.
   Known finding C05.reencoding_replay. *)
Theorem C05_refuted_reencoding : exists (b b' : bytes),
  let decode := fun x : bytes => Some x in
  let adm := fun (_ : bytes) (_ : Z) => true in
  let app := fun (_ : bytes) (s : Z) => s + 1 in
  let n0 := {| idx := [] ; st := 0 ; pending := [] |} in
  let n1 := commit Z (snd (deliver bytes decode Z adm app n0 b)) in
  b' <> b /\ parse bytes decode b' = parse bytes decode b /\
  check bytes decode Z adm n1 b' = Accepted /\
  st Z (snd (deliver bytes decode Z adm app n1 b')) = 2.
Proof. exact reencoding_executes_twice. Qed.

(* tie to the source (regenerated): both CheckTx and DeliverTx consult the hash index before
   anything else *)
Theorem C05_fact_cache_lookup_first :
  checker_cache_lookup_first = true /\ deliverer_cache_lookup_first = true.
Proof. vm_compute. auto. Qed.
