(* C04 — only authentically signed, untampered transactions are admitted or executed.
   Only property theorems here. *)
From Coq Require Import ZArith List Bool String.
Import ListNotations.
From OL Require Import theories.Auth proofs.AuthProofs gen.Facts_Signers gen.Facts_Validate
  gen.Facts_Wrapper gen.Facts_TxKinds theories.Caches gen.Facts_Caches.
Local Open Scope Z_scope.

(* admission (CheckTx): an accepted transaction carries, for each address its payload requires,
   in order, a signature produced by that address's key over exactly (type, payload, fee, memo) *)
Theorem C04_admit_sound : forall signers_of static_ok process_ok t,
  check_tx signers_of static_ok process_ok t = true ->
  authentic (t_raw t) (signers_of (t_raw t)) (t_sigs t).
Proof. exact check_sound. Qed.
Print Assumptions C04_admit_sound.

(* tampering with type, payload, any fee field or memo after signing: the same signatures pass
   for at most one content *)
Theorem C04_tamper_rejected : forall msg msg' signers signers' sigs,
  validate_basic msg signers sigs = true -> validate_basic msg' signers' sigs = true ->
  signers' <> [] -> msg' = msg.
Proof. exact tamper_rejected. Qed.
Print Assumptions C04_tamper_rejected.

(* dropping, adding, reordering or substituting a required signer, or signing with another key *)
Theorem C04_keys_determined : forall msg signers sigs,
  validate_basic msg signers sigs = true -> map s_key sigs = signers.
Proof. exact keys_determined. Qed.
Theorem C04_wrong_count_rejected : forall msg signers sigs,
  List.length sigs <> List.length signers -> validate_basic msg signers sigs = false.
Proof. exact wrong_count_rejected. Qed.
Theorem C04_forged_signature_rejected : forall msg signers sigs i s,
  nth_error sigs i = Some s -> (s_by s <> s_key s \/ s_over s <> msg \/ s_alg_ok s = false) ->
  validate_basic msg signers sigs = false.
Proof. exact forged_signature_rejected. Qed.

(* authentic transactions are not rejected by the signature rule (the rule is not vacuous) *)
Theorem C04_authentic_passes : forall msg signers,
  validate_basic msg signers (map (fun a => sign a msg) signers) = true.
Proof. exact validate_basic_complete. Qed.

(* delivery: the deliverer validates (fact below), so a transaction that is executed carries an
   authentic signature of every required signer over exactly its content *)
Theorem C04_deliver_sound : forall signers_of static_ok process_ok t,
  deliver_tx signers_of static_ok process_ok deliverer_calls_validate t = true ->
  authentic (t_raw t) (signers_of (t_raw t)) (t_sigs t).
Proof. exact deliver_sound_if_validated. Qed.
Print Assumptions C04_deliver_sound.

(* the call is necessary: a deliverer that does not validate executes a transaction without
   any signature (this was the code before fix d276709; finding C04.deliver_unvalidated) *)
Theorem C04_deliver_unvalidated_refuted : exists signers_of static_ok process_ok t,
  deliver_tx signers_of static_ok process_ok false t = true /\
  ~ authentic (t_raw t) (signers_of (t_raw t)) (t_sigs t).
Proof.
  exists (fun _ => [7]), (fun _ => true), (fun _ => true),
    {| t_raw := {| r_type := 1; r_data := 1; r_feecur := 0; r_feeprice := 1; r_feegas := 1; r_memo := 0 |};
       t_sigs := [] |}.
  split; [vm_compute; reflexivity|]. simpl. auto.
Qed.

(* ---- tie to the source (regenerated on every run) ---- *)

(* CheckTx calls handler.Validate before anything else, and so does DeliverTx: the handler call
   is guarded by an `if` on the Validate result that discards the session and returns *)
Theorem C04_fact_checker_validates : checker_calls_validate = true.
Proof. vm_compute. reflexivity. Qed.
Theorem C04_fact_deliverer_validates :
  deliverer_calls_validate = true /\ deliverer_validate_guards_handler = true.
Proof. vm_compute. auto. Qed.

(* every handler's Validate calls ValidateBasic(tx.RawBytes(), msg.Signers(), tx.Signatures)
   before any `return true` and checks its error — except OLVM, audited: it recovers the
   EIP-155 sender from the embedded Ethereum transaction and compares it with From *)
Definition validate_exempt : list string := ["olvm.olvmTx"%string].
Theorem C04_fact_every_validate_checks :
  forallb (fun '(h, (calls, checks, _)) =>
             existsb (String.eqb h) validate_exempt || (calls && checks)) validate_table = true.
Proof. vm_compute. reflexivity. Qed.

(* the address fields whose authority each payload requires — written by hand from the
   semantics of each kind (whose value the transaction spends or speaks for) — are exactly the
   fields its Signers() returns, in order *)
Definition required_authority : list (string * list string) := [
  ("bid_action.BidderDecision", ["Bidder"]); ("bid_action.CancelBid", ["Bidder"]);
  ("bid_action.CounterOffer", ["AssetOwner"]); ("bid_action.CreateBid", ["Bidder"]);
  ("bid_action.ExpireBid", ["ValidatorAddress"]); ("bid_action.OwnerDecision", ["Owner"]);
  ("btc.AddSignature", ["ValidatorAddress"]); ("btc.BroadcastSuccess", ["ValidatorAddress"]);
  ("btc.FailedBroadcastReset", ["ValidatorAddress"]); ("btc.Lock", ["Locker"]);
  ("btc.Redeem", ["Redeemer"]); ("btc.ReportFinalityMint", ["ValidatorAddress"]);
  ("eth.ERC20Lock", ["Locker"]); ("eth.ERC20Redeem", ["Owner"]); ("eth.Lock", ["Locker"]);
  ("eth.Redeem", ["Owner"]); ("eth.ReportFinality", ["ValidatorAddress"]);
  ("evidence.Allegation", ["ValidatorAddress"]); ("evidence.AllegationVote", ["Address"]);
  ("evidence.Release", ["ValidatorAddress"]);
  ("governance.CancelProposal", ["Proposer"]); ("governance.CreateProposal", ["Proposer"]);
  ("governance.ExpireVotes", ["ValidatorAddress"]); ("governance.FinalizeProposal", ["ValidatorAddress"]);
  ("governance.FundProposal", ["FunderAddress"]);
  ("governance.VoteProposal", ["Address"; "ValidatorAddress"]);
  ("governance.WithdrawFunds", ["Funder"]);
  ("network_delegation.AddNetworkDelegation", ["DelegationAddress"]);
  ("network_delegation.Reinvest", ["Delegator"]); ("network_delegation.Undelegate", ["Delegator"]);
  ("network_delegation.Withdraw", ["Delegator"]);
  ("olvm.Transaction", ["From"]);
  ("ons.DeleteSub", ["Owner"]); ("ons.DomainCreate", ["Owner"]); ("ons.DomainPurchase", ["Buyer"]);
  ("ons.DomainSale", ["OwnerAddress"]); ("ons.DomainSend", ["From"]); ("ons.DomainUpdate", ["Owner"]);
  ("ons.RenewDomain", ["Owner"]);
  ("rewards.Withdraw", ["SignerAddress"]);
  ("staking.Stake", ["StakeAddress"; "ValidatorAddress"]);
  ("staking.Unstake", ["StakeAddress"; "ValidatorAddress"]);
  ("staking.Withdraw", ["StakeAddress"; "ValidatorAddress"]);
  ("transfer.Send", ["From"]); ("transfer.SendPool", ["From"])
]%string.

Definition table_eqb (a b : list (string * list string)) : bool :=
  (Nat.eqb (List.length a) (List.length b)) &&
  forallb (fun '((n1, f1), (n2, f2)) =>
             String.eqb n1 n2 && (Nat.eqb (List.length f1) (List.length f2)) &&
             forallb (fun '(x, y) => String.eqb x y) (combine f1 f2)) (combine a b).

Theorem C04_fact_signers_are_authority : table_eqb signers_table required_authority = true.
Proof. vm_compute. reflexivity. Qed.

Example C04_nonvacuous :
  let m := {| r_type := 1; r_data := 5; r_feecur := 0; r_feeprice := 9; r_feegas := 100; r_memo := 3 |} in
  let m' := {| r_type := 1; r_data := 6; r_feecur := 0; r_feeprice := 9; r_feegas := 100; r_memo := 3 |} in
  validate_basic m [11; 12] [sign 11 m; sign 12 m] = true /\
  validate_basic m' [11; 12] [sign 11 m; sign 12 m] = false /\
  validate_basic m [11; 12] [sign 12 m; sign 11 m] = false /\
  validate_basic m [11; 12] [sign 11 m] = false /\
  validate_basic m [11] [sign 13 m] = false /\
  (30 <=? Z.of_nat (List.length signers_table)) = true.
Proof. vm_compute. repeat split; reflexivity. Qed.

(* authentication of a request must not depend on earlier requests: the ABCI closures capture no
   variable (the decoded transaction is a fresh object per request) and the application object has no
   field outside the audited classes (e.g. no table of earlier validation outcomes) *)
Theorem C04_fact_no_state_across_requests : closure_vars = [] /\ unknown_fields cache_fields = [].
Proof. vm_compute. split; reflexivity. Qed.
Print Assumptions C04_fact_no_state_across_requests.
