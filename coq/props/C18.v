(* C18 — no transaction input can crash or halt the node.  Only property theorems here. *)
From Coq Require Import ZArith List Bool String.
Import ListNotations.
From OL Require Import theories.Crash proofs.CrashProofs gen.Facts_Crash gen.Facts_Wrapper.
Local Open Scope Z_scope.

(* the fee step (BasicFeeHandling: Signatures[0], Price.ToCoin, MultiplyInt64, Coin.Minus on the
   payer's balance, Coin.Plus on the fee pool) never stops the node on a transaction that passed
   the fee part of Validate — for every price, gas figure, balance, pool amount, signature count *)
Theorem C18_validated_fee_step_no_crash : forall x nsigners i guard,
  registered x (fee_cur x) = true -> (1 <= nsigners)%nat ->
  validate_fee x nsigners i = true -> fee_step guard x i <> Crash.
Proof. exact validated_fee_step_no_crash. Qed.
Print Assumptions C18_validated_fee_step_no_crash.

(* the deliverer validates (regenerated fact), hence DeliverTx's fee step never stops the node,
   for EVERY input, validated or not *)
Theorem C18_deliver_fee_no_crash : forall x nsigners i guard,
  registered x (fee_cur x) = true -> (1 <= nsigners)%nat ->
  deliver_fee deliverer_calls_validate guard x nsigners i <> Crash.
Proof. exact deliver_fee_no_crash. Qed.
Print Assumptions C18_deliver_fee_no_crash.

(* a handler that checks Amount.IsValid before using a payload amount never stops the node in
   its debit/credit, for any amount (negative, huge), any currency name, any balances *)
Theorem C18_checked_amount_no_crash : forall reg cur v bal poolamt,
  debit_credit true reg cur v bal cur poolamt <> Crash.
Proof. exact checked_debit_credit_no_crash. Qed.

(* both guards are necessary — closed witnesses of what the code did before the fixes:
   (1) a deliverer that does not validate: a fee priced in an unregistered currency stops the
       node in the fee step (finding C18.deliver_unvalidated_crashes, fixed by d276709);
   (2) an empty signature list indexed by the fee step (C18.deliver_no_signature, 5b9d413);
   (3) a handler that uses an amount in an unregistered currency without checking it
       (C18.undelegate_foreign_currency, 1d1d85c) *)
Definition x0 : feectx := {| fee_cur := 0 ; min_price := 1 ; registered := fun c => c =? 0 ;
                             payer_balance := fun _ => 100 ; pool := 5 |}.
Theorem C18_refuted_unvalidated_fee_currency :
  deliver_fee false true x0 1 {| nsigs := 1 ; price_cur := 7 ; price_val := 1 ; used := 10 ; gas_limit := 100 |} = Crash.
Proof. vm_compute. reflexivity. Qed.
Theorem C18_refuted_unguarded_empty_signatures :
  deliver_fee false false x0 1 {| nsigs := 0 ; price_cur := 0 ; price_val := 1 ; used := 10 ; gas_limit := 100 |} = Crash.
Proof. vm_compute. reflexivity. Qed.
Theorem C18_refuted_unchecked_amount :
  debit_credit false (fun c => c =? 0) 7 5 100 0 50 = Crash.
Proof. vm_compute. reflexivity. Qed.

Example C18_nonvacuous :
  validate_fee x0 1 {| nsigs := 1 ; price_cur := 0 ; price_val := 3 ; used := 10 ; gas_limit := 100 |} = true /\
  fee_step true x0 {| nsigs := 1 ; price_cur := 0 ; price_val := 3 ; used := 10 ; gas_limit := 100 |} = Done (70, 35) /\
  fee_step true x0 {| nsigs := 1 ; price_cur := 0 ; price_val := 30 ; used := 10 ; gas_limit := 100 |} = Refused.
Proof. vm_compute. repeat split; reflexivity. Qed.

(* ---- tie to the source (regenerated on every run) ---- *)
Theorem C18_fact_deliverer_validates :
  deliverer_calls_validate = true /\ deliverer_validate_guards_handler = true /\ checker_calls_validate = true.
Proof. vm_compute. auto. Qed.

(* every explicit stop site (panic / logger.Fatal / os.Exit) of the consensus packages is
   classified.  AUDIT (trusted): classes assigned by reading each site; a new site is an open
   obligation.  Implicit stops (nil dereference, index out of range) cannot be inventoried
   syntactically: they are the target of the hostile-input runs of this check. *)
Definition crash_table : list (string * sclass) := [
  ("action/governance:CreateProposal.Validate#panic1", SValidateInvariant);
  ("action/governance:WithdrawFunds.Validate#panic1", SValidateInvariant);
  ("action/governance:fundProposalTx.Validate#panic1", SValidateInvariant);
  ("action/ons:RenewDomainTx.Validate#panic1", SValidateInvariant);
  ("action/ons:domainCreateTx.Validate#panic1", SValidateInvariant);
  ("action/ons:domainPurchaseTx.Validate#panic1", SValidateInvariant);
  ("action/ons:domainSaleTx.Validate#panic1", SValidateInvariant);
  ("action/rewards:withdrawTx.Validate#panic1", SValidateInvariant);
  ("action/transfer:sendPoolTx.Validate#panic1", SValidateInvariant);
  ("external_apps/bid/bid_action:CounterOfferTx.Validate#panic1", SValidateInvariant);
  ("external_apps/bid/bid_action:CreateBidTx.Validate#panic1", SValidateInvariant);
  ("app:App.blockBeginner#panic1", SHookStoreError);
  ("app:addMaturedAmountsToBalance#panic1", SHookStoreError);
  ("app:addMaturedAmountsToBalance#panic2", SHookStoreError);
  ("app:addMaturedAmountsToBalance#panic3", SHookStoreError);
  ("app:matureDelegationRewards#panic1", SHookStoreError);
  ("app:matureDelegationRewards#panic2", SHookStoreError);
  ("app:matureDelegationRewards#panic3", SHookStoreError);
  ("app:doEthTransitions#panic1", SHookStoreError);
  ("app:context.Close#panic1", SStorageInternal);
  ("chains/ethereum:ERC20LRContract.IsRedeemAvailable#panic1", SNodeLocalJob);
  ("chains/ethereum:ERC20LRContract.VerifyRedeem#panic1", SNodeLocalJob);
  ("chains/ethereum:ETHChainDriver.GetClient#panic1", SNodeLocalJob);
  ("chains/ethereum:ETHChainDriver.GetContract#panic1", SNodeLocalJob);
  ("chains/ethereum:ETHChainDriver.GetContract#panic2", SNodeLocalJob);
  ("data/balance:Coin.LessThanCoin#fatal1", SCoinArith);
  ("data/balance:Coin.LessThanEqualCoin#fatal1", SCoinArith);
  ("data/balance:Coin.Minus#fatal1", SCoinArith);
  ("data/balance:Coin.Plus#fatal1", SCoinArith);
  ("data/balance:Coin.Plus#fatal2", SCoinArith);
  ("data/balance:EthAccount.SubBalance#panic1", SEvmInternal);
  ("data/governance:Store.Get#panic1", SGenesisInvariant);
  ("event:FreezeForBroadcast#panic1", SNodeLocalJob);
  ("event:JobETHSignRedeem.DoMyJob#panic1", SNodeLocalJob);
  ("event:JobETHSignRedeem.DoMyJob#panic2", SNodeLocalJob);
  ("event:JobETHSignRedeem.DoMyJob#panic3", SNodeLocalJob);
  ("event:JobETHSignRedeem.DoMyJob#panic4", SNodeLocalJob);
  ("event:JobETHSignRedeem.DoMyJob#panic5", SNodeLocalJob);
  ("event:JobETHSignRedeem.DoMyJob#panic6", SNodeLocalJob);
  ("event:JobETHVerifyRedeem.DoMyJob#panic1", SNodeLocalJob);
  ("event:JobETHVerifyRedeem.DoMyJob#panic2", SNodeLocalJob);
  ("event:JobETHVerifyRedeem.DoMyJob#panic3", SNodeLocalJob);
  ("event:MakeAvailable#panic1", SNodeLocalJob);
  ("event:ProcessAllJobs#panic1", SNodeLocalJob);
  ("event:ReportBroadcastSuccess#panic1", SNodeLocalJob);
  ("event:ReserveTracker#panic1", SNodeLocalJob);
  ("event:init#panic1", SStartUp); ("event:init#panic2", SStartUp); ("event:init#panic3", SStartUp);
  ("event:init#panic4", SStartUp); ("event:init#panic5", SStartUp);
  ("identity:ValidatorStore.CheckMaliciousValidators#fatal1", SGenesisInvariant);
  ("identity:ValidatorStore.GetEndBlockUpdate#fatal1", SKnownC10);
  ("identity:ValidatorStore.GetEndBlockUpdate#fatal2", SKnownC10);
  ("identity:ValidatorStore.GetEndBlockUpdate#fatal3", SKnownC10);
  ("identity:ValidatorStore.GetEndBlockUpdate#fatal4", SKnownC10);
  ("identity:ValidatorStore.GetEndBlockUpdate#fatal5", SKnownC10);
  ("serialize:msgpackRegConc#panic1", SStartUp);
  ("storage:ChainState.Commit#panic1", SStorageInternal);
  ("storage:KeyValue.Close#panic1", SStorageInternal);
  ("storage:KeyValue.Delete#panic1", SStorageInternal);
  ("storage:KeyValue.Set#panic1", SStorageInternal);
  ("storage:KeyValue.empty#panic1", SStorageInternal);
  ("storage:KeyValue.list#panic1", SStorageInternal);
  ("storage:KeyValueSession.Commit#fatal1", SStorageInternal);
  ("storage:State.CommitTxSession#panic1", SStorageInternal);
  ("storage:cache.IterateRange#panic1", SStorageInternal);
  ("storage:cacheSafe.IterateRange#panic1", SStorageInternal);
  ("storage:cacheSession.IterateRange#panic1", SStorageInternal);
  ("storage:newKeyValue#panic1", SStartUp);
  ("storage:newKeyValue#panic2", SStartUp);
  ("storage:sessionCache.IterateRange#panic1", SStorageInternal);
  ("utils/transition:engine.Process#panic1", SNodeLocalJob);
  ("vm:Bloom.SetBytes#panic1", SEvmInternal);
  ("vm:CommitStateDB.GetBlockHash#panic1", SEvmInternal);
  ("vm:CommitStateDB.RevertToSnapshot#panic1", SEvmInternal);
  ("vm:CommitStateDB.SubRefund#panic1", SEvmInternal);
  ("vm:accessList.DeleteSlot#panic1", SEvmInternal);
  ("vm:stateObject.setNonce#panic1", SEvmInternal)
]%string.

Theorem C18_fact_crash_sites : unclassified crash_table crash_sites = [].
Proof. vm_compute. reflexivity. Qed.

Example C18_fact_crash_sites_nonvacuous :
  (60 <=? Z.of_nat (List.length crash_sites)) = true /\ unclassified [] crash_sites <> [].
Proof. vm_compute. split; [reflexivity|discriminate]. Qed.
