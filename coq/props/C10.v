(* C10 — validator-set updates are well formed and follow the staking rule.
   Only property theorems here, each closed by [exact <lemma>]; proofs are in proofs/ElectionProofs.v.

   Model: theories/Election.v (GetEndBlockUpdate), theories/Tendermint.v (UpdateWithChangeSet of
   tendermint v0.33.3 and the H+2 pipeline).  A history is a list of [env]: per block an ARBITRARY
   candidate table, options, malicious set, and an arbitrary election satisfying [valid_election]
   (the heap's tie-breaking is not modelled).  This is stronger than quantifying over the tables
   reachable by stake / unstake / withdraw / penalty / governance transactions. *)
From stdpp Require Import gmap list sorting.
From Coq Require Import ZArith Lia.
From OL Require Import theories.Election theories.Tendermint theories.ElectionCheck proofs.ElectionProofs.
Local Open Scope Z_scope.

(* ---- the rule ---- *)

(* the election the model makes (candidates by non-increasing power, the first top-count eligible
   ones) is a valid election, for every candidate table, options and malicious set *)
Theorem C10_model_election_valid : forall minp top mal cands, NoDup cands ->
  valid_election minp top mal cands (elect minp top mal cands).
Proof. exact elect_valid. Qed.
Print Assumptions C10_model_election_valid.

(* C10_rule.  For EVERY valid election (any tie-breaking), with a minimum self delegation of at
   least 1: every positive-power update names a candidate record of the previous block that is
   elected, has power (= stake, see cand_ok in the check) at least the minimum, is not in the
   malicious set, and carries that power; at most top-count positive updates are issued; an
   eligible candidate that is left out has no more power than any elected one and is left out
   only because the top count is exhausted. *)
Theorem C10_rule : forall h byz cands el la pg minp top mal,
  valid_election minp top mal cands el -> 1 <= minp ->
  let ups := (finish h byz cands el la pg).1 in
  (forall k p, (k, p) ∈ ups -> 0 < p ->
     exists c, c ∈ cands /\ c ∈ el /\ c_pk c = k /\ c_power c = p /\ minp <= c_power c /\ c_addr c ∉ mal) /\
  Z.of_nat (length (List.filter (fun u : upd => 0 <? u.2) ups)) <= Z.max 0 top /\
  (forall d, d ∈ cands -> eligible minp mal d -> d ∉ el ->
     top <= Z.of_nat (length el) /\ forall c, c ∈ el -> c_power d <= c_power c).
Proof. exact rule_holds. Qed.
Print Assumptions C10_rule.

(* "neither frozen nor flagged malicious": the malicious set given to the election is the set of
   frozen records at EVERY height (CheckMaliciousValidators since /repo 304e1e1; before that fix it
   was empty while height <= BlockVotesDiff — finding C10.frozen_elected_in_votes_window, fixed).
   No frozen validator is elected, at any height, for any window. *)
Theorem C10_rule_no_frozen_elected : forall h bvd frozen minp top cands c, NoDup cands ->
  c ∈ elect minp top (malicious_set h bvd frozen) cands -> c_addr c ∉ frozen.
Proof. exact no_frozen_elected. Qed.
Print Assumptions C10_rule_no_frozen_elected.

(* the former witness of the defect (height 4 inside a window of 6, validator 3 frozen) now shows
   the repaired behaviour: validator 3 is left out *)
Example C10_frozen_in_window_not_elected :
  elect 1000 4 (malicious_set 4 6 [3%N]) [mkc 1%N 1%N 1500 1500; mkc 3%N 3%N 1200 1200]
  = [mkc 1%N 1%N 1500 1500].
Proof. vm_compute. reflexivity. Qed.

(* ---- acceptance ---- *)

(* C10_accepted (partial: under the guard [env_ok]).  For every genesis set and every history
   whose blocks satisfy env_ok — record address = address of the record's consensus key, distinct
   addresses, 1 <= minimum (after int64 narrowing), top count >= 1, at least one eligible
   candidate, powers below per-key caps that sum to at most MaxTotalVotingPower — Tendermint
   accepts the update list of every block (no duplicate key, no removal of a non-member, set
   never emptied, powers and total in range): the run never halts. *)
Theorem C10_accepted_partial : forall U cap g es,
  cap_ok U cap -> genesis_ok U cap g -> Forall (env_ok U cap) es ->
  is_Some (chain_run (chain_init g) es).
Proof. exact accepted. Qed.
Print Assumptions C10_accepted_partial.

(* Since /repo 9246c8d the STAKE handler refuses a validator address that is not the address of
   the consensus key, and ValidatorStore.set has no other caller that creates a record.  "Record
   address = address of its key, distinct addresses" is therefore an INVARIANT of the record
   table under every sequence of record operations (stake, unstake / penalty, rewrite of the
   stake, deletion), not a hypothesis: *)
Theorem C10_records_keyed : forall ops t, table_ok t -> table_ok (rec_run t ops).
Proof. exact rec_run_ok. Qed.
Print Assumptions C10_records_keyed.

(* and no record gets a negative stake: the handlers refuse negative amounts (/repo 48c76fc) and
   HandleUnstake refuses a negative result (/repo e681066; before that fix a record could go
   negative and EndBlock exited the node — findings C10.negative_power_record /
   C10.zero_total_power, fixed) *)
Theorem C10_records_nonnegative : forall ops t, Forall op_nonneg ops -> stakes_nonneg t ->
  stakes_nonneg (rec_run t ops).
Proof. exact rec_run_nonneg. Qed.
Print Assumptions C10_records_nonnegative.

Example C10_unstake_more_than_record_refused :
  rec_run [mkc 6%N 6%N 488 488] [RUnstake 6%N 495] = [mkc 6%N 6%N 488 488].
Proof. vm_compute. reflexivity. Qed.

(* C10_accepted for reachable tables.  The candidate table of each block is the table the record
   operations of the previous blocks left (starting from a genesis table t0 whose records are
   keyed by the address of their key — the genesis loader calls HandleStake without the handler's
   check, so this is assumed of the genesis file).  What remains assumed per block (env_rest):
   1 <= minimum self delegation after int64 narrowing; top count >= 1; at least one eligible
   candidate (findings C10.no_eligible_candidate); the election is a valid one; powers below
   per-key caps that sum to at most MaxTotalVotingPower. *)
Theorem C10_accepted_reachable : forall U cap g t0 bs,
  cap_ok U cap -> genesis_ok U cap g -> table_ok t0 ->
  Forall (env_rest U cap) (envs_of t0 bs) -> is_Some (chain_run (chain_init g) (envs_of t0 bs)).
Proof. exact accepted_reachable. Qed.
Print Assumptions C10_accepted_reachable.

(* ... and "the run does not halt" means that each block's list passed the acceptance rule *)
Theorem C10_run_means_accepted : forall es ch ch', chain_run ch es = Some ch' ->
  forall pre e post, es = pre ++ e :: post ->
  exists ch1, chain_run ch pre = Some ch1 /\ acceptb (ch_next ch1) (chain_updates ch1 e).1 = true.
Proof. exact run_some_accepts. Qed.

(* the invariant behind it, e.g. the purge bookkeeping: a validator missing from the next set
   although it signed recently was purged at one of the last two heights *)
Theorem C10_invariant : forall U cap es ch, cap_ok U cap -> chain_inv U cap ch ->
  Forall (env_ok U cap) es -> exists ch', chain_run ch es = Some ch' /\ chain_inv U cap ch'.
Proof. exact run_ok. Qed.
Print Assumptions C10_invariant.

(* non-vacuity: a concrete three-validator history satisfies every hypothesis *)
Definition ex_cap (k : key) : Z := 1000000.
Definition ex_U : list key := [1%N; 2%N; 3%N].
Definition ex_cands (p3 : Z) : list cand := [mkc 1%N 1%N 1500 1500; mkc 2%N 2%N 1200 1200; mkc 3%N 3%N p3 p3].
Definition ex_env (p3 : Z) : env :=
  let cs := ex_cands p3 in mke cs (mko 1000 2) [] false (elect 1000 2 [] cs).

Example C10_hypotheses_satisfiable :
  cap_ok ex_U ex_cap /\ genesis_ok ex_U ex_cap [(1%N, 1500); (2%N, 1200)] /\
  Forall (env_ok ex_U ex_cap) [ex_env 0; ex_env 2000; ex_env 2000; ex_env 900; ex_env 900].
Proof.
  split; [|split].
  - split; [repeat constructor; set_solver | intros; unfold ex_cap; lia | vm_compute; discriminate].
  - split; [repeat constructor; set_solver|].
    intros k p Hin. unfold ex_U, ex_cap. set_unfold. destruct Hin as [[= -> ->]|[[= -> ->]|[]]]; split; try lia; set_solver.
  - repeat apply Forall_cons_2; try apply Forall_nil_2;
    (split;
      [ repeat constructor; set_solver
      | intros c Hc; unfold ex_env, ex_cands in Hc; simpl in Hc; set_unfold; destruct Hc as [->|[->|[->|[]]]]; reflexivity
      | vm_compute; discriminate
      | vm_compute; discriminate
      | exists (mkc 1%N 1%N 1500 1500); split; [simpl; set_solver | split; [vm_compute; discriminate | set_solver]]
      | apply elect_valid; repeat constructor; set_unfold; intuition congruence
      | intros c Hc; unfold ex_env, ex_cands in Hc; simpl in Hc; set_unfold;
        destruct Hc as [->|[->|[->|[]]]]; simpl; unfold ex_U, ex_cap; (split; [set_solver | lia]) ]).
Qed.

Example C10_example_run_accepted :
  chain_run (chain_init [(1%N, 1500); (2%N, 1200)]) [ex_env 0; ex_env 2000; ex_env 2000; ex_env 900; ex_env 900]
  <> None.
Proof. vm_compute. discriminate. Qed.

(* ---- the full statements are false of the faithful model: witnesses ---- *)

(* the former witness of finding C10.duplicate_pubkey_stake (a STAKE registering address 2 with
   the consensus key of validator 1), now the repaired behaviour: the operation is refused, the
   table is unchanged, and the run is accepted *)
Example C10_duplicate_key_stake_refused :
  rec_run [mkc 1%N 1%N 1000 1000] [RStake 2%N 1%N 5000] = [mkc 1%N 1%N 1000 1000] /\
  chain_run (chain_init [(1%N, 1000)])
    (envs_of [mkc 1%N 1%N 1000 1000]
       [mkblk [RStake 2%N 1%N 5000] (mko 1000 4) [] false [mkc 1%N 1%N 1000 1000];
        mkblk [] (mko 1000 4) [] false [mkc 1%N 1%N 1000 1000];
        mkblk [] (mko 1000 4) [] false [mkc 1%N 1%N 1000 1000]]) <> None.
Proof. split; vm_compute; [reflexivity|discriminate]. Qed.

(* (the invariant matters: an arbitrary table with two records sharing a key — no longer
   reachable — would make Tendermint reject) *)
Definition dup_cands : list cand := [mkc 1%N 1%N 1000 1000; mkc 2%N 1%N 5000 5000].
Definition dup_env : env := mke dup_cands (mko 1000 4) [] false (elect 1000 4 [] dup_cands).
Example C10_accepted_needs_keyed_tables :
  chain_run (chain_init [(1%N, 1000)]) [dup_env; dup_env] = None.
Proof. vm_compute. reflexivity. Qed.

(* without "at least one eligible candidate" (everybody unstaked: known finding
   C10.no_eligible_candidate) the only update removes the last validator: rejected *)
Definition gone_env : env := mke [mkc 1%N 1%N 0 0] (mko 1000 4) [] false [].
Theorem C10_accepted_refuted_no_eligible : exists g es,
  elect 1000 4 [] [mkc 1%N 1%N 0 0] = [] /\ chain_run (chain_init g) es = None.
Proof. exists [(1%N, 1000)], [gone_env; gone_env]. split; vm_compute; reflexivity. Qed.

(* ---- convergence ---- *)

(* C10_converges (partial).  From any state satisfying the chain invariant (every reachable state
   does: C10_invariant) at height >= 1, if the candidate table, options, malicious set and
   election stay the same and satisfy env_ok, then after 3 blocks — hence after the 5 of the
   property text, and after any larger number — the pending validator set is exactly the
   election (keys and powers), PROVIDED every member of the pending set still has a validator
   record.  That proviso is the complement of trigger C10.member_without_record. *)
Theorem C10_converges_partial : forall U cap ch e n, cap_ok U cap -> chain_inv U cap ch -> env_ok U cap e ->
  1 <= ch_height ch ->
  (forall a, a ∈ vkeys (ch_next ch) -> a ∈ map c_addr (e_cands e)) ->
  exists ch', chain_run ch (replicate (3 + n) e) = Some ch' /\ ch_next ch' ≡ₚ pos_updates (e_el e).
Proof. exact converges. Qed.
Print Assumptions C10_converges_partial.

Theorem C10_converges_five_blocks : forall U cap ch e, cap_ok U cap -> chain_inv U cap ch -> env_ok U cap e ->
  1 <= ch_height ch ->
  (forall a, a ∈ vkeys (ch_next ch) -> a ∈ map c_addr (e_cands e)) ->
  exists ch', chain_run ch (replicate 5 e) = Some ch' /\ ch_next ch' ≡ₚ pos_updates (e_el e).
Proof. exact converges5. Qed.
Print Assumptions C10_converges_five_blocks.

(* C10_converges is false of the faithful model: a validator that is elected once and whose record
   disappears before it shows up in LastCommitInfo is never purged (known finding
   C10.member_without_record): after 6 blocks of unchanged input the set still is not the election *)
Definition quiet_env : env := let cs := [mkc 2%N 2%N 1000 1000] in mke cs (mko 1000 4) [] false (elect 1000 4 [] cs).
Definition ghost_in : env :=
  let cs := [mkc 2%N 2%N 1000 1000; mkc 1%N 1%N 7000 7000] in mke cs (mko 1000 4) [] false (elect 1000 4 [] cs).
Definition ghost_out : env :=
  let cs := [mkc 2%N 2%N 1000 1000; mkc 1%N 1%N 0 0] in mke cs (mko 1000 4) [] false (elect 1000 4 [] cs).
Theorem C10_converges_refuted_member_without_record : exists g es ch,
  chain_run (chain_init g) (es ++ replicate 6 quiet_env) = Some ch /\
  upds_eqb (canon (ch_next ch)) (canon (pos_updates (e_el quiet_env))) = false /\
  existsb (fun u => negb (existsb (fun d => N.eqb (c_addr d) u.1) (e_cands quiet_env))) (ch_next ch) = true.
Proof.
  exists [(2%N, 1000)], [quiet_env; quiet_env; ghost_in; ghost_out]. eexists.
  split; [vm_compute; reflexivity|]. split; vm_compute; reflexivity.
Qed.

(* ... while a member that still has a record (here below the minimum) is purged and the set
   becomes exactly the election (the partial theorem is not vacuous) *)
Definition quiet_env2 : env :=
  let cs := [mkc 2%N 2%N 1000 1000; mkc 3%N 3%N 900 900] in mke cs (mko 1000 4) [] false (elect 1000 4 [] cs).
Example C10_converges_example : exists ch,
  chain_run (chain_init [(2%N, 1000); (3%N, 900)]) (replicate 5 quiet_env2) = Some ch /\
  upds_eqb (canon (ch_next ch)) (canon (pos_updates (e_el quiet_env2))) = true.
Proof. eexists. split; vm_compute; reflexivity. Qed.
