(* C10 — validator-set updates are well formed and follow the staking rule.
   Only property theorems here, each closed by [exact <lemma>]; proofs are in proofs/ElectionProofs.v *)
From stdpp Require Import gmap list sorting.
From Coq Require Import ZArith.
From OL Require Import theories.Election theories.Tendermint theories.ElectionCheck proofs.ElectionProofs.
Local Open Scope Z_scope.

(* the election the model makes (candidates by non-increasing power, the first top-count eligible
   ones) follows the staking rule, for every candidate table, options and malicious set *)
Theorem C10_model_election_valid : forall minp top mal cands, NoDup cands ->
  valid_election minp top mal cands (elect minp top mal cands).
Proof. exact elect_valid. Qed.
Print Assumptions C10_model_election_valid.
