(* C07 — mempool checks are isolated from consensus execution.  Only property theorems here. *)
From stdpp Require Import gmap list.
From Coq Require Import ZArith String.
From OL Require Import theories.Store theories.Abci theories.Aiming proofs.AimingProofs
  gen.Facts_Aiming theories.Caches gen.Facts_Caches theories.Globals gen.Facts_Globals
  theories.Options proofs.OptionsProofs gen.Facts_Options.
Local Open Scope string_scope.

(* for every sequence of consensus hooks, every family of store-use programs, and every
   interleaving of CheckTx calls (any number, any programs, at any call boundary): if each bare
   use of a shared store in a hook is preceded in the same hook by a re-aim at the deliver state,
   the hook results and the deliver state are those of the run without the CheckTx calls *)
Theorem C07_checks_invisible : forall evs w1 w2, well_aimed evs = true -> dl w1 = dl w2 ->
  (run_events w1 evs).1 = (run_events w2 (strip_checks evs)).1 /\
  dl (run_events w1 evs).2 = dl (run_events w2 (strip_checks evs)).2.
Proof. exact checks_invisible. Qed.
Print Assumptions C07_checks_invisible.

(* the hypothesis is necessary: one bare use after a CheckTx reads the check state *)
Theorem C07_unaimed_use_is_visible : exists evs w,
  well_aimed evs = false /\
  (run_events w evs).1 <> (run_events w (strip_checks evs)).1.
Proof.
  exists [ECheck (PSet 1%N [1%N] (fun _ => Ret true));
          EHook [CUse "govern" false (PGet 1%N (fun r => Ret (bool_decide (r = None))))]],
         {| dl := init {| recent := 0; every := 0; cycles := 0 |};
            ck := init {| recent := 0; every := 0; cycles := 0 |}; ptr := fun _ => Deliver |}.
  vm_compute. split; [reflexivity|discriminate].
Qed.

(* tie to the source (regenerated on every run): in BeginBlock, DeliverTx, EndBlock and Commit
   of package app, every use of a shared store singleton is aimed at the deliver state at the
   use, or follows an unconditional re-aim of that store (or Context.Action(header, deliver))
   earlier in the same hook — except the audited sites below.

   AUDIT (part of the trusted base; see DESIGN.md C07):
   - blockBeginner/feePool      : SetupOpt(feeOpt) — sets an in-memory field, no state access.
   - blockBeginner/stateDB      : SetBlockHash — in-memory field of the EVM adapter.
   - txDeliverer/stateDB        : Prepare/Finality — in-memory tx hash / log bookkeeping.
   - blockEnder/ethTrackers, witnesses : passed to doEthTransitions, which re-aims the tracker
                                   store itself (ts = ts.WithState(deliver)); witnesses is read-only
                                   and its records only change at InitChain.
   - blockEnder/stateDB         : GetBloomEvent / Reset — in-memory.
   Two earlier entries of this audit were WRONG and are gone: blockBeginner read the fee option
   (govern.GetFeeOption) and built the internal finalize/expire queue (AddInternalTX over
   proposalMaster) through whatever state the last ABCI call had left — "reads only", but what was read
   is installed as the fee option of the block / decides which proposals are finalised in it.  A CheckTx
   of a PROPOSAL_FINALIZE for a passed configuration proposal (anybody may send it) applies the update to
   the CHECK state, and the next BeginBlock then took the new minimal fee from there: a payment that the
   block without that CheckTx executes was refused.  Repaired in /repo (both uses re-aimed); found when a
   directed variant submitted every finalize/expire transaction at every call boundary. *)
Definition audited : list (string * string) :=
  [("blockBeginner", "feePool"); ("blockBeginner", "stateDB"); ("txDeliverer", "stateDB");
   ("blockEnder", "ethTrackers"); ("blockEnder", "witnesses"); ("blockEnder", "stateDB")].

Theorem C07_fact_aiming : unaimed_uses audited hook_uses = [].
Proof. vm_compute. reflexivity. Qed.

(* the fact is not vacuous: without the audit the generated table does contain bare uses, and
   the hooks are really there *)
Example C07_fact_nonvacuous :
  List.length (unaimed_uses [] hook_uses) <> 0%nat /\ List.length hook_uses = 5%nat /\
  forallb (fun '(h, us) => String.eqb h "commitor" || negb (Nat.eqb (List.length us) 0)) hook_uses = true.
Proof. vm_compute. repeat split; discriminate. Qed.

(* what a CheckTx could leave behind for the consensus calls besides the store singletons of the
   aiming table is in-memory state that outlives a request: a field of the long-lived application
   objects, a variable captured by an ABCI closure, or a package-level variable.  Every such place is
   listed from the source on every run and must be of an audited class (theories/Caches.v,
   theories/Globals.v); a new one — e.g. a decoded record memoised in a store object, a map of
   validation outcomes, a decode target kept between requests — is an open obligation. *)
Theorem C07_fact_no_unclassified_memory :
  unknown_fields cache_fields = [] /\ closure_vars = [] /\ unknown_globals written_globals = [].
Proof. vm_compute. repeat split; reflexivity. Qed.
Print Assumptions C07_fact_no_unclassified_memory.

(* ---------- the in-memory copies of governance options (theories/Options.v) ----------
   The store objects shared by the mempool and the consensus connection hold copies of the options in
   memory; handlers read the copy (every Validate prices the fee with it).  For every history of ABCI calls
   about one option — block starts with or without a reload, finalisations, commits, restarts, and any
   number of mempool checks of finalize / creation transactions at any position: if no mempool-reachable
   run of an update function writes the copy, every consensus read returns the option as persisted in the
   deliver state, and the reads are those of the history without the mempool calls. *)
Theorem C07_option_reads_are_the_persisted_option : forall evs s, copy s = rec_d s -> disciplined evs = true ->
  orun s evs = srun s evs.
Proof. exact options_coherent. Qed.
Print Assumptions C07_option_reads_are_the_persisted_option.

Theorem C07_option_checks_invisible : forall evs s, disciplined evs = true ->
  snd (orun s evs) = snd (orun s (strip_ochecks evs)).
Proof. exact option_checks_invisible. Qed.
Print Assumptions C07_option_checks_invisible.

(* a copy that BeginBlock reloads is right again from that BeginBlock on *)
Theorem C07_option_reload_heals : forall post s, disciplined post = true ->
  snd (orun s (OBegin true :: post)) = snd (srun s (OBegin true :: post)).
Proof. exact option_reload_heals. Qed.

(* the discipline is necessary in both of its halves; the first witness is the defect that was in /repo
   (FinalizeProposal.ProcessCheck ran the update function in update mode: repaired, 58a24fe) *)
Theorem C07_option_update_mode_in_check_is_visible : exists evs s, copy s = rec_d s /\ disciplined evs = false /\
  snd (orun s evs) <> snd (orun s (strip_ochecks evs)).
Proof. exact option_applying_check_visible. Qed.
Theorem C07_option_early_setter_is_visible : exists evs s, copy s = rec_d s /\ disciplined evs = false /\
  snd (orun s evs) <> snd (orun s (strip_ochecks evs)).
Proof. exact option_early_write_visible. Qed.

(* a copy with no reader on a consensus path cannot show, whoever writes it (the ONS options copy) *)
Theorem C07_option_unread_copy_invisible : forall evs s, no_reads evs = true -> snd (orun s evs) = [].
Proof. exact option_unread_copy_invisible. Qed.

(* tie to the source (regenerated on every run).  The discipline holds in /repo because
   (1) the copies are used directly only inside methods of the object that holds them;
   (2) every caller of such a method is audited (theories/Options.v audited_call): setters are called at
       start-up, by BeginBlock (fee option) and by the governance update functions of action/govUpdate.go;
       getters by the Validate methods (fee option) and the listed block hooks — a handler that starts
       reading a copy (pricing a domain from DomainStore.GetOptions) is not in the table;
   (3) inside the update functions no setter precedes the validate-only return;
   (4) update mode is requested only by FinalizeProposal.ProcessDeliver: ProcessCheck and the creation
       of a proposal pass ValidateOnly. *)
Theorem C07_fact_option_discipline :
  foreign_uses option_field_uses = [] /\ unaudited_calls option_accessor_calls = [] /\
  early_writes option_accessor_calls = [] /\ unaudited_modes update_mode_calls = [].
Proof. vm_compute. repeat split; reflexivity. Qed.

Example C07_fact_option_discipline_nonvacuous :
  (20 <=? List.length option_field_uses)%nat = true /\ (100 <=? List.length option_accessor_calls)%nat = true /\
  List.length update_mode_calls = 4%nat /\
  (* the audit refuses what the seeded changes of round five did *)
  unaudited_calls [("data/ons.DomainStore.GetOptions", "action/ons.runCreate", false)] <> [] /\
  early_writes [("data/fees.Store.SetupOpt", "action.feeOptionminFeeDecimal", true)] <> [] /\
  unaudited_modes [("action/governance.runFinalizeProposal", "<function value>", "action.ValidateAndUpdate")] <> [].
Proof. vm_compute. repeat split; discriminate. Qed.
