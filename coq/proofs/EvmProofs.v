(* EvmProofs.v — lemmas for C16 (EVM state adapter vs reference state).
   Shape of the argument: [look] is what the adapter answers for an address (live object, else
   loaded from the persistent layer); [crel] relates it pointwise to the spec's account map;
   every journal entry has a spec-level undo [sundo]; the saved state of every live revision is
   the spec-level undo of the journal suffix ([SR]); reverting one entry on the adapter is [sundo]
   on the spec side ([revert_entry_sim]); hence RevertToSnapshot = restore the copy. *)
From stdpp Require Import gmap list.
From Coq Require Import ZArith Lia.
From OL Require Import theories.EvmSpec theories.EvmAdapter theories.EvmCheck.
Local Open Scope Z_scope.

(* ---- slice + index map: stateObjects / addressToObjectIndex ------------------------------- *)
Definition look (a : astate) (x : addr) : option obj :=
  match a_oidx a !! x with
  | Some i => snd <$> a_objs a !! i
  | None => load (a_pers a) x
  end.

Definition WOl (l : list (addr * obj)) (m : gmap addr nat) : Prop :=
  forall x i, m !! x = Some i <-> exists o, l !! i = Some (x, o).
Definition WO (a : astate) : Prop := WOl (a_objs a) (a_oidx a).

Lemma set_obj_spec a x o : WO a ->
  exists l m, set_obj a x o = Some (w_objs a l m) /\ WOl l m /\
    forall y, look (w_objs a l m) y = if decide (x = y) then Some o else look a y.
Proof.
  intros HW. unfold set_obj. destruct (a_oidx a !! x) as [i|] eqn:Hx.
  - destruct (proj1 (HW x i) Hx) as [o0 Ho0]. rewrite Ho0. simpl.
    exists (<[i := (x, o)]> (a_objs a)), (a_oidx a). split; [reflexivity|]. split.
    + intros y j. rewrite (HW y j). destruct (decide (i = j)) as [->|Hij].
      * rewrite list_lookup_insert by (eapply lookup_lt_Some; eauto).
        split; intros [o' Ho'].
        -- rewrite Ho0 in Ho'. inversion Ho'; subst. eauto.
        -- inversion Ho'; subst. eauto.
      * rewrite list_lookup_insert_ne by done. reflexivity.
    + intros y. unfold look; simpl. destruct (decide (x = y)) as [<-|Hxy].
      * rewrite Hx. rewrite list_lookup_insert by (eapply lookup_lt_Some; eauto). reflexivity.
      * destruct (a_oidx a !! y) as [j|] eqn:Hy; [|reflexivity].
        assert (i <> j) as Hij.
        { intros ->. destruct (proj1 (HW y j) Hy) as [o' Ho']. rewrite Ho0 in Ho'. inversion Ho'; subst. done. }
        rewrite list_lookup_insert_ne by done. reflexivity.
  - exists (a_objs a ++ [(x, o)]), (<[x := length (a_objs a)]> (a_oidx a)). split; [reflexivity|]. split.
    + intros y j. destruct (decide (x = y)) as [<-|Hxy].
      * rewrite lookup_insert. split.
        -- intros [= <-]. exists o. rewrite lookup_app_r by lia. rewrite Nat.sub_diag. reflexivity.
        -- intros [o' Ho']. destruct (decide (j < length (a_objs a))%nat) as [Hlt|Hge].
           ++ rewrite lookup_app_l in Ho' by done.
              assert (a_oidx a !! x = Some j) as Hc by (apply HW; eauto). congruence.
           ++ rewrite lookup_app_r in Ho' by lia.
              destruct (j - length (a_objs a))%nat eqn:Hd; simpl in Ho'; [f_equal; lia|].
              rewrite lookup_nil in Ho'. done.
      * rewrite lookup_insert_ne by done. rewrite (HW y j). split; intros [o' Ho'].
        -- exists o'. rewrite lookup_app_l; [done|]. eapply lookup_lt_Some; eauto.
        -- destruct (decide (j < length (a_objs a))%nat) as [Hlt|Hge].
           ++ rewrite lookup_app_l in Ho' by done. eauto.
           ++ rewrite lookup_app_r in Ho' by lia.
              destruct (j - length (a_objs a))%nat eqn:Hd; simpl in Ho'.
              ** inversion Ho'; subst. done.
              ** rewrite lookup_nil in Ho'. done.
    + intros y. unfold look; simpl. destruct (decide (x = y)) as [<-|Hxy].
      * rewrite lookup_insert. rewrite lookup_app_r by lia. rewrite Nat.sub_diag. reflexivity.
      * rewrite lookup_insert_ne by done. destruct (a_oidx a !! y) as [j|] eqn:Hy; [|reflexivity].
        destruct (proj1 (HW y j) Hy) as [o' Ho'].
        rewrite lookup_app_l by (eapply lookup_lt_Some; eauto). reflexivity.
Qed.

Lemma look_live a x i : WO a -> a_oidx a !! x = Some i -> exists o, a_objs a !! i = Some (x, o) /\ look a x = Some o.
Proof.
  intros HW Hx. destruct (proj1 (HW x i) Hx) as [o Ho]. exists o. split; [done|].
  unfold look. rewrite Hx, Ho. reflexivity.
Qed.

(* getStateObject is transparent: it answers [look] and does not change what [look] answers *)
Lemma get_obj_spec a x : WO a ->
  exists l m, get_obj a x = Some (w_objs a l m, look a x) /\ WOl l m /\
    forall y, look (w_objs a l m) y = look a y.
Proof.
  intros HW. unfold get_obj. destruct (a_oidx a !! x) as [i|] eqn:Hx.
  - destruct (look_live a x i HW Hx) as [o [Ho Hl]]. rewrite Ho. simpl.
    exists (a_objs a), (a_oidx a). rewrite Hl. split; [destruct a; reflexivity|]. split; [exact HW|].
    intros y. reflexivity.
  - assert (look a x = load (a_pers a) x) as Hl by (unfold look; rewrite Hx; reflexivity).
    rewrite Hl. destruct (load (a_pers a) x) as [o|] eqn:Hld.
    + destruct (set_obj_spec a x o HW) as [l [m [Hs [HW' Hlk]]]]. rewrite Hs. simpl.
      exists l, m. split; [reflexivity|]. split; [done|].
      intros y. rewrite Hlk. destruct (decide (x = y)) as [<-|]; [|reflexivity]. rewrite Hl. reflexivity.
    + exists (a_objs a), (a_oidx a). split; [destruct a; reflexivity|]. split; [exact HW|]. reflexivity.
Qed.

(* createObjectChange.revert: removal with left shift and re-indexing keeps slice and map in step *)
Definition uniq (l : list (addr * obj)) : Prop :=
  forall y q1 q2 o1 o2, l !! q1 = Some (y, o1) -> l !! q2 = Some (y, o2) -> q1 = q2.

Lemma WOl_uniq l m : WOl l m -> uniq l.
Proof.
  intros HW y q1 q2 o1 o2 H1 H2.
  assert (m !! y = Some q1) as A by (apply HW; eauto).
  assert (m !! y = Some q2) as B by (apply HW; eauto). congruence.
Qed.

Lemma uniq_tail e l : uniq (e :: l) -> uniq l.
Proof. intros H y q1 q2 o1 o2 H1 H2. assert (S q1 = S q2) by (eapply H; simpl; eauto). lia. Qed.

Lemma reindex_lookup l2 : forall i m y, uniq l2 ->
  (forall q o, l2 !! q = Some (y, o) -> reindex l2 i m !! y = Some (i + q)%nat) /\
  ((forall q o, l2 !! q <> Some (y, o)) -> reindex l2 i m !! y = m !! y).
Proof.
  induction l2 as [|[z oz] rest IH]; intros i m y Hu.
  - split; [intros q o Hq; rewrite lookup_nil in Hq; done | intros _; reflexivity].
  - pose proof (uniq_tail _ _ Hu) as Hu'. simpl. split.
    + intros q o Hq. destruct q as [|q'].
      * simpl in Hq. inversion Hq; subst.
        destruct (IH (S i) (<[y := i]> m) y Hu') as [_ IH2]. rewrite IH2.
        -- rewrite lookup_insert. f_equal; lia.
        -- intros q o' Hc. assert (0 = S q)%nat by (eapply Hu; simpl; eauto). lia.
      * simpl in Hq. destruct (IH (S i) (<[z := i]> m) y Hu') as [IH1 _].
        rewrite (IH1 q' o Hq). f_equal; lia.
    + intros Hn. destruct (IH (S i) (<[z := i]> m) y Hu') as [_ IH2]. rewrite IH2.
      * rewrite lookup_insert_ne; [done|]. intros ->. apply (Hn 0%nat oz). reflexivity.
      * intros q o Hc. apply (Hn (S q) o). exact Hc.
Qed.

Lemma remove_obj_spec a x : WO a ->
  exists l m, remove_obj a x = w_objs a l m /\ WOl l m /\
    forall y, look (w_objs a l m) y = if decide (x = y) then load (a_pers a) x else look a y.
Proof.
  intros HW. unfold remove_obj. destruct (a_oidx a !! x) as [i|] eqn:Hx.
  2: { exists (a_objs a), (a_oidx a). split; [destruct a; reflexivity|]. split; [exact HW|].
       intros y. destruct (decide (x = y)) as [<-|]; [|reflexivity]. unfold look; simpl. rewrite Hx. reflexivity. }
  destruct (proj1 (HW x i) Hx) as [ox Hox].
  pose proof (lookup_lt_Some _ _ _ Hox) as Hlen.
  pose proof (WOl_uniq _ _ HW) as Hu.
  set (l := a_objs a) in *. set (m := a_oidx a) in *.
  (* the general shape covers the one-element case too *)
  assert (exists l' m', (if decide (length l = 1%nat) then w_objs a [] (delete x m)
            else w_objs a (take i l ++ drop (S i) l) (reindex (drop (S i) l) i (delete x m))) = w_objs a l' m' /\
          l' = take i l ++ drop (S i) l /\
          forall y, m' !! y = reindex (drop (S i) l) i (delete x m) !! y) as [l' [m' [Heq [Hl' Hm']]]].
  { destruct (decide (length l = 1%nat)) as [H1|H1].
    - exists [], (delete x m). split; [reflexivity|].
      destruct l as [|e [|e2 l2]]; simpl in H1; try lia. assert (i = 0)%nat as -> by (simpl in Hlen; lia).
      simpl. split; reflexivity.
    - eexists _, _. split; [reflexivity|]. split; reflexivity. }
  rewrite Heq. exists l', m'. split; [reflexivity|].
  assert (forall j, l' !! j = if decide (j < i)%nat then l !! j else l !! (S j)) as Hlk.
  { intros j. subst l'. destruct (decide (j < i)%nat) as [Hlt|Hge].
    - rewrite lookup_app_l by (rewrite take_length; lia). rewrite lookup_take by lia. reflexivity.
    - rewrite lookup_app_r by (rewrite take_length; lia). rewrite take_length, lookup_drop.
      f_equal; lia. }
  assert (uniq (drop (S i) l)) as Hud.
  { intros y q1 q2 o1 o2 H1 H2. rewrite lookup_drop in H1, H2.
    assert (S i + q1 = S i + q2)%nat by (eapply Hu; eauto). lia. }
  assert (forall y j, m' !! y = Some j <-> exists o, l' !! j = Some (y, o)) as HW'.
  { intros y j. rewrite Hm'. destruct (reindex_lookup (drop (S i) l) i (delete x m) y Hud) as [R1 R2].
    rewrite Hlk. split.
    - intros Hy.
      assert ((exists q o, drop (S i) l !! q = Some (y, o)) \/ (forall q o, drop (S i) l !! q <> Some (y, o))) as [[q [o Hq]]|Hno].
      { destruct (m !! y) as [j0|] eqn:Hy0.
        - destruct (proj1 (HW y j0) Hy0) as [o Ho]. fold l in Ho.
          destruct (decide (i < j0)%nat) as [Hgt|Hle].
          + left. exists (j0 - S i)%nat, o. rewrite lookup_drop. rewrite <- Ho. f_equal; lia.
          + right. intros q o' Hc. rewrite lookup_drop in Hc.
            assert (j0 = S i + q)%nat by (eapply Hu; eauto). lia.
        - right. intros q o' Hc. rewrite lookup_drop in Hc.
          assert (m !! y = Some (S i + q)%nat) by (apply HW; eauto). congruence. }
      + rewrite (R1 q o Hq) in Hy. inversion Hy; subst j.
        rewrite decide_False by lia. rewrite lookup_drop in Hq. exists o. rewrite <- Hq. f_equal; lia.
      + rewrite R2 in Hy by exact Hno.
        destruct (decide (x = y)) as [<-|Hxy]; [rewrite lookup_delete in Hy; done|].
        rewrite lookup_delete_ne in Hy by done.
        destruct (proj1 (HW y j) Hy) as [o Ho]. exists o.
        destruct (decide (j < i)%nat) as [|Hge]; [done|].
        exfalso. destruct (decide (j = i)) as [->|Hne].
        * fold l in Ho. rewrite Hox in Ho. inversion Ho; subst. done.
        * apply (Hno (j - S i)%nat o). rewrite lookup_drop. fold l in Ho. rewrite <- Ho. f_equal; lia.
    - intros [o Ho]. destruct (decide (j < i)%nat) as [Hlt|Hge].
      + rewrite R2.
        * assert (x <> y) as Hxy. { intros <-. assert (j = i) by (eapply Hu; eauto). lia. }
          rewrite lookup_delete_ne by done. apply HW. eauto.
        * intros q o' Hc. rewrite lookup_drop in Hc. assert (j = S i + q)%nat by (eapply Hu; eauto). lia.
      + assert (drop (S i) l !! (j - i)%nat = Some (y, o)) as Hq.
        { rewrite lookup_drop. rewrite <- Ho. f_equal; lia. }
        rewrite (R1 _ _ Hq). f_equal; lia. }
  split; [exact HW'|].
  intros y. unfold look at 1; simpl.
  destruct (decide (x = y)) as [<-|Hxy].
  - destruct (m' !! x) as [j|] eqn:Hj; [|reflexivity].
    exfalso. destruct (proj1 (HW' x j) Hj) as [o Ho]. rewrite Hlk in Ho.
    destruct (decide (j < i)%nat).
    + assert (j = i) by (eapply Hu; eauto). lia.
    + assert (S j = i) by (eapply Hu; eauto). lia.
  - unfold look. fold m l. destruct (m' !! y) as [j|] eqn:Hj.
    + destruct (proj1 (HW' y j) Hj) as [o Ho]. rewrite Ho. rewrite Hlk in Ho.
      destruct (decide (j < i)%nat).
      * assert (m !! y = Some j) as -> by (apply HW; eauto). rewrite Ho. reflexivity.
      * assert (m !! y = Some (S j)) as -> by (apply HW; eauto). rewrite Ho. reflexivity.
    + destruct (m !! y) as [j|] eqn:Hy; [|reflexivity].
      exfalso. destruct (proj1 (HW y j) Hy) as [o Ho]. fold l in Ho.
      assert (j <> i). { intros ->. rewrite Hox in Ho. inversion Ho; subst; done. }
      destruct (decide (j < i)%nat).
      * assert (m' !! y = Some j) as Hc. { apply HW'. exists o. rewrite Hlk. rewrite decide_True by done. done. }
        congruence.
      * assert (m' !! y = Some (j - 1)%nat) as Hc.
        { apply HW'. exists o. rewrite Hlk. rewrite decide_False by lia. rewrite <- Ho. f_equal; lia. }
        congruence.
Qed.
