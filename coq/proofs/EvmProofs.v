(* EvmProofs.v — lemmas for C16 (EVM state adapter vs reference state).
   Shape of the argument: [look] is what the adapter answers for an address (live object, else
   loaded from the persistent layer); [crel] relates it pointwise to the spec's account map;
   every journal entry has a spec-level undo [sundo]; the saved state of every live revision is
   the spec-level undo of the journal suffix ([SR]); reverting one entry on the adapter is [sundo]
   on the spec side ([revert_entry_sim]); hence RevertToSnapshot = restore the copy. *)
From stdpp Require Import gmap list.
From Coq Require Import ZArith Lia.
From OL Require Import theories.EvmSpec theories.EvmAdapter theories.EvmCheck.
Local Open Scope Z_scope.

(* ---- slice + index map: stateObjects / addressToObjectIndex ------------------------------- *)
Definition look (a : astate) (x : addr) : option obj :=
  match a_oidx a !! x with
  | Some i => snd <$> a_objs a !! i
  | None => load (a_pers a) x
  end.

Definition WOl (l : list (addr * obj)) (m : gmap addr nat) : Prop :=
  forall x i, m !! x = Some i <-> exists o, l !! i = Some (x, o).
Definition WO (a : astate) : Prop := WOl (a_objs a) (a_oidx a).

Lemma set_obj_spec a x o : WO a ->
  exists l m, set_obj a x o = Some (w_objs a l m) /\ WOl l m /\
    forall y, look (w_objs a l m) y = if decide (x = y) then Some o else look a y.
Proof.
  intros HW. unfold set_obj. destruct (a_oidx a !! x) as [i|] eqn:Hx.
  - destruct (proj1 (HW x i) Hx) as [o0 Ho0]. rewrite Ho0. simpl.
    exists (<[i := (x, o)]> (a_objs a)), (a_oidx a). split; [reflexivity|]. split.
    + intros y j. rewrite (HW y j). destruct (decide (i = j)) as [->|Hij].
      * rewrite list_lookup_insert by (eapply lookup_lt_Some; eauto).
        split; intros [o' Ho'].
        -- rewrite Ho0 in Ho'. inversion Ho'; subst. eauto.
        -- inversion Ho'; subst. eauto.
      * rewrite list_lookup_insert_ne by done. reflexivity.
    + intros y. unfold look; simpl. destruct (decide (x = y)) as [<-|Hxy].
      * rewrite Hx. rewrite list_lookup_insert by (eapply lookup_lt_Some; eauto). reflexivity.
      * destruct (a_oidx a !! y) as [j|] eqn:Hy; [|reflexivity].
        assert (i <> j) as Hij.
        { intros ->. destruct (proj1 (HW y j) Hy) as [o' Ho']. rewrite Ho0 in Ho'. inversion Ho'; subst. done. }
        rewrite list_lookup_insert_ne by done. reflexivity.
  - exists (a_objs a ++ [(x, o)]), (<[x := length (a_objs a)]> (a_oidx a)). split; [reflexivity|]. split.
    + intros y j. destruct (decide (x = y)) as [<-|Hxy].
      * rewrite lookup_insert. split.
        -- intros [= <-]. exists o. rewrite lookup_app_r by lia. rewrite Nat.sub_diag. reflexivity.
        -- intros [o' Ho']. destruct (decide (j < length (a_objs a))%nat) as [Hlt|Hge].
           ++ rewrite lookup_app_l in Ho' by done.
              assert (a_oidx a !! x = Some j) as Hc by (apply HW; eauto). congruence.
           ++ rewrite lookup_app_r in Ho' by lia.
              destruct (j - length (a_objs a))%nat eqn:Hd; simpl in Ho'; [f_equal; lia|].
              rewrite lookup_nil in Ho'. done.
      * rewrite lookup_insert_ne by done. rewrite (HW y j). split; intros [o' Ho'].
        -- exists o'. rewrite lookup_app_l; [done|]. eapply lookup_lt_Some; eauto.
        -- destruct (decide (j < length (a_objs a))%nat) as [Hlt|Hge].
           ++ rewrite lookup_app_l in Ho' by done. eauto.
           ++ rewrite lookup_app_r in Ho' by lia.
              destruct (j - length (a_objs a))%nat eqn:Hd; simpl in Ho'.
              ** inversion Ho'; subst. done.
              ** rewrite lookup_nil in Ho'. done.
    + intros y. unfold look; simpl. destruct (decide (x = y)) as [<-|Hxy].
      * rewrite lookup_insert. rewrite lookup_app_r by lia. rewrite Nat.sub_diag. reflexivity.
      * rewrite lookup_insert_ne by done. destruct (a_oidx a !! y) as [j|] eqn:Hy; [|reflexivity].
        destruct (proj1 (HW y j) Hy) as [o' Ho'].
        rewrite lookup_app_l by (eapply lookup_lt_Some; eauto). reflexivity.
Qed.

Lemma look_live a x i : WO a -> a_oidx a !! x = Some i -> exists o, a_objs a !! i = Some (x, o) /\ look a x = Some o.
Proof.
  intros HW Hx. destruct (proj1 (HW x i) Hx) as [o Ho]. exists o. split; [done|].
  unfold look. rewrite Hx, Ho. reflexivity.
Qed.

(* getStateObject is transparent: it answers [look] and does not change what [look] answers *)
Lemma get_obj_spec a x : WO a ->
  exists l m, get_obj a x = Some (w_objs a l m, look a x) /\ WOl l m /\
    forall y, look (w_objs a l m) y = look a y.
Proof.
  intros HW. unfold get_obj. destruct (a_oidx a !! x) as [i|] eqn:Hx.
  - destruct (look_live a x i HW Hx) as [o [Ho Hl]]. rewrite Ho. simpl.
    exists (a_objs a), (a_oidx a). rewrite Hl. split; [destruct a; reflexivity|]. split; [exact HW|].
    intros y. reflexivity.
  - assert (look a x = load (a_pers a) x) as Hl by (unfold look; rewrite Hx; reflexivity).
    rewrite Hl. destruct (load (a_pers a) x) as [o|] eqn:Hld.
    + destruct (set_obj_spec a x o HW) as [l [m [Hs [HW' Hlk]]]]. rewrite Hs. simpl.
      exists l, m. split; [reflexivity|]. split; [done|].
      intros y. rewrite Hlk. destruct (decide (x = y)) as [<-|]; [|reflexivity]. rewrite Hl. reflexivity.
    + exists (a_objs a), (a_oidx a). split; [destruct a; reflexivity|]. split; [exact HW|]. reflexivity.
Qed.

(* createObjectChange.revert: removal with left shift and re-indexing keeps slice and map in step *)
Definition uniq (l : list (addr * obj)) : Prop :=
  forall y q1 q2 o1 o2, l !! q1 = Some (y, o1) -> l !! q2 = Some (y, o2) -> q1 = q2.

Lemma WOl_uniq l m : WOl l m -> uniq l.
Proof.
  intros HW y q1 q2 o1 o2 H1 H2.
  assert (m !! y = Some q1) as A by (apply HW; eauto).
  assert (m !! y = Some q2) as B by (apply HW; eauto). congruence.
Qed.

Lemma uniq_tail e l : uniq (e :: l) -> uniq l.
Proof. intros H y q1 q2 o1 o2 H1 H2. assert (S q1 = S q2) by (eapply H; simpl; eauto). lia. Qed.

Lemma reindex_lookup l2 : forall i m y, uniq l2 ->
  (forall q o, l2 !! q = Some (y, o) -> reindex l2 i m !! y = Some (i + q)%nat) /\
  ((forall q o, l2 !! q <> Some (y, o)) -> reindex l2 i m !! y = m !! y).
Proof.
  induction l2 as [|[z oz] rest IH]; intros i m y Hu.
  - split; [intros q o Hq; rewrite lookup_nil in Hq; done | intros _; reflexivity].
  - pose proof (uniq_tail _ _ Hu) as Hu'. simpl. split.
    + intros q o Hq. destruct q as [|q'].
      * simpl in Hq. inversion Hq; subst.
        destruct (IH (S i) (<[y := i]> m) y Hu') as [_ IH2]. rewrite IH2.
        -- rewrite lookup_insert. f_equal; lia.
        -- intros q o' Hc. assert (0 = S q)%nat by (eapply Hu; simpl; eauto). lia.
      * simpl in Hq. destruct (IH (S i) (<[z := i]> m) y Hu') as [IH1 _].
        rewrite (IH1 q' o Hq). f_equal; lia.
    + intros Hn. destruct (IH (S i) (<[z := i]> m) y Hu') as [_ IH2]. rewrite IH2.
      * rewrite lookup_insert_ne; [done|]. intros ->. apply (Hn 0%nat oz). reflexivity.
      * intros q o Hc. apply (Hn (S q) o). exact Hc.
Qed.

Lemma remove_obj_spec a x : WO a ->
  exists l m, remove_obj a x = w_objs a l m /\ WOl l m /\
    forall y, look (w_objs a l m) y = if decide (x = y) then load (a_pers a) x else look a y.
Proof.
  intros HW. unfold remove_obj. destruct (a_oidx a !! x) as [i|] eqn:Hx.
  2: { exists (a_objs a), (a_oidx a). split; [destruct a; reflexivity|]. split; [exact HW|].
       intros y. destruct (decide (x = y)) as [<-|]; [|reflexivity]. unfold look; simpl. rewrite Hx. reflexivity. }
  destruct (proj1 (HW x i) Hx) as [ox Hox].
  pose proof (lookup_lt_Some _ _ _ Hox) as Hlen.
  pose proof (WOl_uniq _ _ HW) as Hu.
  set (l := a_objs a) in *. set (m := a_oidx a) in *.
  (* the general shape covers the one-element case too *)
  assert (exists l' m', (if decide (length l = 1%nat) then w_objs a [] (delete x m)
            else w_objs a (take i l ++ drop (S i) l) (reindex (drop (S i) l) i (delete x m))) = w_objs a l' m' /\
          l' = take i l ++ drop (S i) l /\
          forall y, m' !! y = reindex (drop (S i) l) i (delete x m) !! y) as [l' [m' [Heq [Hl' Hm']]]].
  { destruct (decide (length l = 1%nat)) as [H1|H1].
    - exists [], (delete x m). split; [reflexivity|].
      destruct l as [|e [|e2 l2]]; simpl in H1; try lia. assert (i = 0)%nat as -> by (simpl in Hlen; lia).
      simpl. split; reflexivity.
    - eexists _, _. split; [reflexivity|]. split; reflexivity. }
  rewrite Heq. exists l', m'. split; [reflexivity|].
  assert (forall j, l' !! j = if decide (j < i)%nat then l !! j else l !! (S j)) as Hlk.
  { intros j. subst l'. destruct (decide (j < i)%nat) as [Hlt|Hge].
    - rewrite lookup_app_l by (rewrite take_length; lia). rewrite lookup_take by lia. reflexivity.
    - rewrite lookup_app_r by (rewrite take_length; lia). rewrite take_length, lookup_drop.
      f_equal; lia. }
  assert (uniq (drop (S i) l)) as Hud.
  { intros y q1 q2 o1 o2 H1 H2. rewrite lookup_drop in H1, H2.
    assert (S i + q1 = S i + q2)%nat by (eapply Hu; eauto). lia. }
  assert (forall y j, m' !! y = Some j <-> exists o, l' !! j = Some (y, o)) as HW'.
  { intros y j. rewrite Hm'. destruct (reindex_lookup (drop (S i) l) i (delete x m) y Hud) as [R1 R2].
    rewrite Hlk. split.
    - intros Hy.
      assert ((exists q o, drop (S i) l !! q = Some (y, o)) \/ (forall q o, drop (S i) l !! q <> Some (y, o))) as [[q [o Hq]]|Hno].
      { destruct (m !! y) as [j0|] eqn:Hy0.
        - destruct (proj1 (HW y j0) Hy0) as [o Ho]. fold l in Ho.
          destruct (decide (i < j0)%nat) as [Hgt|Hle].
          + left. exists (j0 - S i)%nat, o. rewrite lookup_drop. rewrite <- Ho. f_equal; lia.
          + right. intros q o' Hc. rewrite lookup_drop in Hc.
            assert (j0 = S i + q)%nat by (eapply Hu; eauto). lia.
        - right. intros q o' Hc. rewrite lookup_drop in Hc.
          assert (m !! y = Some (S i + q)%nat) by (apply HW; eauto). congruence. }
      + rewrite (R1 q o Hq) in Hy. inversion Hy; subst j.
        rewrite decide_False by lia. rewrite lookup_drop in Hq. exists o. rewrite <- Hq. f_equal; lia.
      + rewrite R2 in Hy by exact Hno.
        destruct (decide (x = y)) as [<-|Hxy]; [rewrite lookup_delete in Hy; done|].
        rewrite lookup_delete_ne in Hy by done.
        destruct (proj1 (HW y j) Hy) as [o Ho]. exists o.
        destruct (decide (j < i)%nat) as [|Hge]; [done|].
        exfalso. destruct (decide (j = i)) as [->|Hne].
        * fold l in Ho. rewrite Hox in Ho. inversion Ho; subst. done.
        * apply (Hno (j - S i)%nat o). rewrite lookup_drop. fold l in Ho. rewrite <- Ho. f_equal; lia.
    - intros [o Ho]. destruct (decide (j < i)%nat) as [Hlt|Hge].
      + rewrite R2.
        * assert (x <> y) as Hxy. { intros <-. assert (j = i) by (eapply Hu; eauto). lia. }
          rewrite lookup_delete_ne by done. apply HW. eauto.
        * intros q o' Hc. rewrite lookup_drop in Hc. assert (j = S i + q)%nat by (eapply Hu; eauto). lia.
      + assert (drop (S i) l !! (j - i)%nat = Some (y, o)) as Hq.
        { rewrite lookup_drop. rewrite <- Ho. f_equal; lia. }
        rewrite (R1 _ _ Hq). f_equal; lia. }
  split; [exact HW'|].
  intros y. unfold look at 1; simpl.
  destruct (decide (x = y)) as [<-|Hxy].
  - destruct (m' !! x) as [j|] eqn:Hj; [|reflexivity].
    exfalso. destruct (proj1 (HW' x j) Hj) as [o Ho]. rewrite Hlk in Ho.
    destruct (decide (j < i)%nat).
    + assert (j = i) by (eapply Hu; eauto). lia.
    + assert (S j = i) by (eapply Hu; eauto). lia.
  - unfold look. fold m l. destruct (m' !! y) as [j|] eqn:Hj.
    + destruct (proj1 (HW' y j) Hj) as [o Ho]. rewrite Ho. rewrite Hlk in Ho.
      destruct (decide (j < i)%nat).
      * assert (m !! y = Some j) as -> by (apply HW; eauto). rewrite Ho. reflexivity.
      * assert (m !! y = Some (S j)) as -> by (apply HW; eauto). rewrite Ho. reflexivity.
    + destruct (m !! y) as [j|] eqn:Hy; [|reflexivity].
      exfalso. destruct (proj1 (HW y j) Hy) as [o Ho]. fold l in Ho.
      assert (j <> i). { intros ->. rewrite Hox in Ho. inversion Ho; subst; done. }
      destruct (decide (j < i)%nat).
      * assert (m' !! y = Some j) as Hc. { apply HW'. exists o. rewrite Hlk. rewrite decide_True by done. done. }
        congruence.
      * assert (m' !! y = Some (j - 1)%nat) as Hc.
        { apply HW'. exists o. rewrite Hlk. rewrite decide_False by lia. rewrite <- Ho. f_equal; lia. }
        congruence.
Qed.

(* ---- journal.dirties / addressToJournalIndex --------------------------------------------- *)
Definition JOKl (l : list (addr * Z)) (m : gmap addr nat) : Prop :=
  forall x i, m !! x = Some i -> exists n, l !! i = Some (x, n).
Definition JOK (a : astate) : Prop := JOKl (a_dirties a) (a_jidx a).

Lemma add_dirty_spec a x : JOK a -> exists l m, add_dirty a x = Some (w_dirties a l m) /\ JOKl l m.
Proof.
  intros HJ. unfold add_dirty. destruct (a_jidx a !! x) as [i|] eqn:Hx.
  - destruct (HJ x i Hx) as [n Hn]. rewrite Hn. simpl.
    eexists _, _. split; [reflexivity|]. intros y j Hy. destruct (decide (i = j)) as [->|Hij].
    + destruct (HJ y j Hy) as [n' Hn']. rewrite Hn in Hn'. inversion Hn'; subst.
      rewrite list_lookup_insert by (eapply lookup_lt_Some; eauto). eauto.
    + rewrite list_lookup_insert_ne by done. apply HJ. exact Hy.
  - eexists _, _. split; [reflexivity|]. intros y j Hy. destruct (decide (x = y)) as [<-|Hxy].
    + rewrite lookup_insert in Hy. inversion Hy; subst. rewrite lookup_app_r by lia.
      rewrite Nat.sub_diag. simpl. eauto.
    + rewrite lookup_insert_ne in Hy by done. destruct (HJ y j Hy) as [n Hn]. exists n.
      rewrite lookup_app_l; [done|]. eapply lookup_lt_Some; eauto.
Qed.

Lemma j_append_spec a e : JOK a ->
  exists l m, j_append a e = Some (w_dirties (w_entries a (a_entries a ++ [e])) l m) /\ JOKl l m.
Proof.
  intros HJ. unfold j_append. destruct (dirtied e) as [x|].
  - destruct (add_dirty_spec (w_entries a (a_entries a ++ [e])) x HJ) as [l [m [H1 H2]]]. eauto.
  - exists (a_dirties a), (a_jidx a). split; [reflexivity|exact HJ].
Qed.

(* the dirties bookkeeping never touches anything else *)
Lemma add_dirty_shape a x a' : add_dirty a x = Some a' -> exists l m, a' = w_dirties a l m.
Proof.
  unfold add_dirty. destruct (a_jidx a !! x); [destruct (a_dirties a !! _); simpl|]; intros [= <-]; eauto.
Qed.
Lemma sub_dirty_shape a x a' : sub_dirty a x = Some a' -> exists l m, a' = w_dirties a l m.
Proof.
  unfold sub_dirty. destruct (a_jidx a !! x); [destruct (a_dirties a !! _) as [d|]; simpl; [destruct (d.2 =? 0)|]|];
    intros [= <-]; eauto; exists (a_dirties a), (a_jidx a); destruct a; reflexivity.
Qed.
Lemma delete_dirty_shape a x a' : delete_dirty a x = Some a' -> exists l m, a' = w_dirties a l m.
Proof.
  unfold delete_dirty. destruct (a_jidx a !! x); [destruct (decide _)|]; intros [= <-]; eauto;
    exists (a_dirties a), (a_jidx a); destruct a; reflexivity.
Qed.

(* since fix 4b2faa6: the dirties bookkeeping of a revert keeps slice and index map in step *)
Lemma reindex_d_lookup l2 : forall i m y j, reindex_d l2 i m !! y = Some j ->
  (exists q n, l2 !! q = Some (y, n) /\ j = (i + q)%nat) \/
  ((forall q n, l2 !! q <> Some (y, n)) /\ m !! y = Some j).
Proof.
  induction l2 as [|[z nz] rest IH]; intros i m y j H; simpl in H.
  - right. split; [intros q n Hc; rewrite lookup_nil in Hc; done|exact H].
  - destruct (IH _ _ _ _ H) as [(q & n & Hq & ->)|[Hno Hm]].
    + left. exists (S q), n. split; [exact Hq|lia].
    + destruct (decide (z = y)) as [->|Hne].
      * rewrite lookup_insert in Hm. inversion Hm; subst. left. exists 0%nat, nz. split; [reflexivity|lia].
      * rewrite lookup_insert_ne in Hm by done. right. split; [|exact Hm].
        intros [|q] n Hc; simpl in Hc; [inversion Hc; subst; done|]. exact (Hno q n Hc).
Qed.

Lemma sub_dirty_JOK a x : JOK a -> exists l m, sub_dirty a x = Some (w_dirties a l m) /\ JOKl l m.
Proof.
  intros HJ. unfold sub_dirty. destruct (a_jidx a !! x) as [i|] eqn:Hx.
  - destruct (HJ x i Hx) as [n Hn]. rewrite Hn. simpl. destruct (n =? 0).
    + exists (a_dirties a), (a_jidx a). split; [destruct a; reflexivity|exact HJ].
    + eexists _, _. split; [reflexivity|]. intros y j Hy. destruct (decide (i = j)) as [->|Hij].
      * destruct (HJ y j Hy) as [n' Hn']. rewrite Hn in Hn'. inversion Hn'; subst.
        rewrite list_lookup_insert by (eapply lookup_lt_Some; eauto). eauto.
      * rewrite list_lookup_insert_ne by done. apply HJ. exact Hy.
  - exists (a_dirties a), (a_jidx a). split; [destruct a; reflexivity|exact HJ].
Qed.
Lemma get_dirty_JOK a x : JOK a -> exists n, get_dirty a x = Some n.
Proof.
  intros HJ. unfold get_dirty. destruct (a_jidx a !! x) as [i|] eqn:Hx; [|eauto].
  destruct (HJ x i Hx) as [n Hn]. rewrite Hn. simpl. eauto.
Qed.
Lemma delete_dirty_JOK a x : JOK a -> exists l m, delete_dirty a x = Some (w_dirties a l m) /\ JOKl l m.
Proof.
  intros HJ. unfold delete_dirty. destruct (a_jidx a !! x) as [i|] eqn:Hx.
  2: { exists (a_dirties a), (a_jidx a). split; [destruct a; reflexivity|exact HJ]. }
  destruct (HJ x i Hx) as [n Hn]. pose proof (lookup_lt_Some _ _ _ Hn) as Hlt.
  rewrite decide_True by exact Hlt. eexists _, _. split; [reflexivity|].
  set (l := a_dirties a) in *.
  assert (forall j, (take i l ++ drop (S i) l) !! j = if decide (j < i)%nat then l !! j else l !! (S j)) as Hlk.
  { intros j. destruct (decide (j < i)%nat) as [Hl|Hge].
    - rewrite lookup_app_l by (rewrite take_length; lia). rewrite lookup_take by lia. reflexivity.
    - rewrite lookup_app_r by (rewrite take_length; lia). rewrite take_length, lookup_drop. f_equal; lia. }
  intros y j Hy. rewrite Hlk. destruct (reindex_d_lookup _ _ _ _ _ Hy) as [(q & n' & Hq & ->)|[Hno Hm]].
  - rewrite lookup_drop in Hq. rewrite decide_False by lia. exists n'. rewrite <- Hq. f_equal; lia.
  - destruct (decide (x = y)) as [<-|Hne]; [rewrite lookup_delete in Hm; done|].
    rewrite lookup_delete_ne in Hm by done. destruct (HJ y j Hm) as [n' Hn']. fold l in Hn'.
    assert (j <> i) by (intros ->; rewrite Hn in Hn'; inversion Hn'; done).
    destruct (decide (j < i)%nat) as [|Hge]; [eauto|].
    (* y sits behind the removed entry: then the re-indexing has overwritten its index *)
    exfalso. apply (Hno (j - S i)%nat n'). rewrite lookup_drop. rewrite <- Hn'. f_equal; lia.
Qed.

(* ---- per-object storage: dirtyStorage/originStorage + their index maps -------------------- *)
Definition DW (o : obj) : Prop := forall k i, o_didx o !! k = Some i <-> exists v, o_dirty o !! i = Some (k, v).
Definition OW (p : pers) (x : addr) (o : obj) : Prop :=
  forall k i, o_oidx o !! k = Some i -> o_origin o !! i = Some (k, pslot p x k).
Definition oget (p : pers) (x : addr) (o : obj) (k : key) : Z :=
  match o_didx o !! k with
  | Some i => default 0 (snd <$> o_dirty o !! i)
  | None => pslot p x k
  end.

Lemma obj_committed_spec p x o k : OW p x o ->
  exists l m, obj_committed p x o k = Some (pslot p x k, set_origin o l m) /\ OW p x (set_origin o l m).
Proof.
  intros HO. unfold obj_committed. destruct (o_oidx o !! k) as [i|] eqn:Hk.
  - rewrite (HO k i Hk). simpl. exists (o_origin o), (o_oidx o). split; [destruct o; reflexivity|exact HO].
  - eexists _, _. split; [reflexivity|]. intros k' j Hk'. simpl in *.
    destruct (decide (k = k')) as [<-|Hne].
    + rewrite lookup_insert in Hk'. inversion Hk'; subst. rewrite lookup_app_r by lia.
      rewrite Nat.sub_diag. reflexivity.
    + rewrite lookup_insert_ne in Hk' by done. rewrite lookup_app_l; [apply HO; done|].
      eapply lookup_lt_Some. apply HO. exact Hk'.
Qed.

Lemma obj_getstate_spec p x o k : DW o -> OW p x o ->
  exists l m, obj_getstate p x o k = Some (oget p x o k, set_origin o l m) /\ OW p x (set_origin o l m).
Proof.
  intros HD HO. unfold obj_getstate, oget. destruct (o_didx o !! k) as [i|] eqn:Hk.
  - destruct (proj1 (HD k i) Hk) as [v Hv]. rewrite Hv. simpl.
    exists (o_origin o), (o_oidx o). split; [destruct o; reflexivity|exact HO].
  - apply obj_committed_spec. exact HO.
Qed.

Lemma obj_setstate_spec p x o k v : DW o ->
  exists l m, obj_setstate o k v = Some (set_dirty o l m) /\ DW (set_dirty o l m) /\
    forall k', oget p x (set_dirty o l m) k' = if decide (k = k') then v else oget p x o k'.
Proof.
  intros HD. unfold obj_setstate. destruct (o_didx o !! k) as [i|] eqn:Hk.
  - destruct (proj1 (HD k i) Hk) as [v0 Hv0]. rewrite Hv0. simpl.
    pose proof (lookup_lt_Some _ _ _ Hv0) as Hlt.
    eexists _, _. split; [reflexivity|]. split.
    + intros k' j. simpl. rewrite (HD k' j). destruct (decide (i = j)) as [->|Hij].
      * rewrite list_lookup_insert by done. split; intros [v' Hv'].
        -- rewrite Hv0 in Hv'. inversion Hv'; subst. eauto.
        -- inversion Hv'; subst. eauto.
      * rewrite list_lookup_insert_ne by done. reflexivity.
    + intros k'. unfold oget; simpl. destruct (decide (k = k')) as [<-|Hne].
      * rewrite Hk. rewrite list_lookup_insert by done. reflexivity.
      * destruct (o_didx o !! k') as [j|] eqn:Hk'; [|reflexivity].
        assert (i <> j). { intros ->. destruct (proj1 (HD k' j) Hk') as [v' Hv']. rewrite Hv0 in Hv'. inversion Hv'; subst; done. }
        rewrite list_lookup_insert_ne by done. reflexivity.
  - eexists _, _. split; [reflexivity|]. split.
    + intros k' j. simpl. destruct (decide (k = k')) as [<-|Hne].
      * rewrite lookup_insert. split.
        -- intros [= <-]. exists v. rewrite lookup_app_r by lia. rewrite Nat.sub_diag. reflexivity.
        -- intros [v' Hv']. destruct (decide (j < length (o_dirty o))%nat) as [Hlt|Hge].
           ++ rewrite lookup_app_l in Hv' by done.
              assert (o_didx o !! k = Some j) as Hc by (apply HD; eauto). congruence.
           ++ rewrite lookup_app_r in Hv' by lia.
              destruct (j - length (o_dirty o))%nat eqn:Hd; simpl in Hv'; [f_equal; lia|].
              rewrite lookup_nil in Hv'. done.
      * rewrite lookup_insert_ne by done. rewrite (HD k' j). split; intros [v' Hv'].
        -- exists v'. rewrite lookup_app_l; [done|]. eapply lookup_lt_Some; eauto.
        -- destruct (decide (j < length (o_dirty o))%nat) as [Hlt|Hge].
           ++ rewrite lookup_app_l in Hv' by done. eauto.
           ++ rewrite lookup_app_r in Hv' by lia.
              destruct (j - length (o_dirty o))%nat eqn:Hd; simpl in Hv'.
              ** inversion Hv'; subst. done.
              ** rewrite lookup_nil in Hv'. done.
    + intros k'. unfold oget; simpl. destruct (decide (k = k')) as [<-|Hne].
      * rewrite lookup_insert. rewrite lookup_app_r by lia. rewrite Nat.sub_diag. reflexivity.
      * rewrite lookup_insert_ne by done. destruct (o_didx o !! k') as [j|] eqn:Hk'; [|reflexivity].
        destruct (proj1 (HD k' j) Hk') as [v' Hv']. rewrite lookup_app_l by (eapply lookup_lt_Some; eauto). reflexivity.
Qed.

(* ---- composite steps --------------------------------------------------------------------- *)
(* logs and access list: the part of the state the object machinery never touches *)
Definition aux (a : astate) : list (N * N * Z) * Z * gmap addr unit * gmap (addr * key) unit :=
  (a_logs a, a_logsize a, a_al_addrs a, a_al_slots a).
Definition saux (c : core) : list (N * N * Z) * Z * gmap addr unit * gmap (addr * key) unit :=
  (logs c, logsize c, al_addrs c, al_slots c).

Definition same_frame (a a1 : astate) : Prop :=
  a_pers a1 = a_pers a /\ a_revs a1 = a_revs a /\ a_nextid a1 = a_nextid a /\ a_refund a1 = a_refund a /\
  aux a1 = aux a.

Lemma load_none_pbal p x : load p x = None -> pbal p x = 0.
Proof.
  unfold load. destruct (p_keeper p !! x) as [[n h]|]; [done|].
  destruct (pbal p x =? 0) eqn:E; [|done]. intros _. apply Z.eqb_eq. exact E.
Qed.

Lemma get_or_new_spec a x : WO a -> JOK a ->
  exists a1 o new, get_or_new_obj a x = Some (a1, o) /\ WO a1 /\ JOK a1 /\
    look a1 x = Some o /\ (forall y, y <> x -> look a1 y = look a y) /\
    a_entries a1 = a_entries a ++ new /\ same_frame a a1 /\
    ((look a x = Some o /\ new = []) \/
     (look a x = None /\ load (a_pers a) x = None /\ new = [ECreate x] /\ o = mk_obj 0 0 0%N)).
Proof.
  intros HW HJ. unfold get_or_new_obj.
  destruct (get_obj_spec a x HW) as [l [m [Hg [HW1 Hl1]]]]. rewrite Hg. simpl.
  destruct (look a x) as [o|] eqn:Hlx.
  - exists (w_objs a l m), o, []. split; [reflexivity|]. split; [exact HW1|]. split; [exact HJ|].
    split; [rewrite Hl1; exact Hlx|]. split; [intros y _; apply Hl1|].
    split; [simpl; rewrite app_nil_r; reflexivity|]. split; [repeat split|]. left; done.
  - set (a1 := w_objs a l m) in *.
    assert (WO a1) as HWa1 by exact HW1.
    assert (look a1 x = None) as Hl1x by (rewrite Hl1; exact Hlx).
    assert (load (a_pers a) x = None) as Hld.
    { unfold look in Hlx. destruct (a_oidx a !! x) as [i|] eqn:Hi; [|exact Hlx].
      destruct (look_live a x i HW Hi) as [o' [_ Hc]]. unfold look in Hc. rewrite Hi in Hc. congruence. }
    unfold create_obj.
    destruct (get_obj_spec a1 x HWa1) as [l2 [m2 [Hg2 [HW2 Hl2]]]]. rewrite Hg2, Hl1x. simpl.
    set (a2 := w_objs a1 l2 m2) in *.
    destruct (j_append_spec a2 (ECreate x) HJ) as [dl [dm [Hj HJ3]]]. rewrite Hj. simpl.
    rewrite (load_none_pbal _ _ Hld).
    match goal with |- context [set_obj ?t x _] => set (a3 := t) end.
    assert (WO a3) as HW3 by exact HW2.
    destruct (set_obj_spec a3 x (mk_obj 0 0 0%N) HW3) as [l4 [m4 [Hs [HW4 Hl4]]]]. rewrite Hs. simpl.
    exists (w_objs a3 l4 m4), (mk_obj 0 0 0%N), [ECreate x].
    split; [reflexivity|]. split; [exact HW4|]. split; [exact HJ3|].
    split; [rewrite Hl4; rewrite decide_True by done; reflexivity|].
    split.
    { intros y Hy. rewrite Hl4. rewrite decide_False by done.
      change (look a3 y) with (look a2 y). rewrite Hl2. apply Hl1. }
    split; [reflexivity|]. split; [repeat split|]. right. done.
Qed.

(* ---- the simulation relation -------------------------------------------------------------- *)
Definition canon (m : gmap key Z) : Prop := forall k, m !! k <> Some 0.

(* code cache coherence: so.code is nil or the code whose hash the account carries (and then it is
   marked dirty, so commitCode stores it); a nil cache of a non-empty hash is backed by the code store *)
Definition CC (p : pers) (o : obj) : Prop :=
  (o_cache o = 0%N \/ (o_cache o = o_hash o /\ o_dirtycode o = true)) /\
  (o_cache o = 0%N -> o_hash o <> 0%N -> is_Some (p_codes p !! o_hash o)).
Lemma CC_code p o : CC p o -> obj_code p o = o_hash o.
Proof.
  intros [[Hc|[Hc _]] H2]; unfold obj_code.
  - rewrite Hc. simpl. destruct (o_hash o =? 0)%N eqn:E; [apply N.eqb_eq in E; congruence|].
    apply N.eqb_neq in E. destruct (H2 Hc E) as [u ->]. reflexivity.
  - destruct (o_cache o =? 0)%N eqn:E; simpl; [|exact Hc].
    apply N.eqb_eq in E. rewrite <- Hc, E. reflexivity.
Qed.

Definition arel (p : pers) (x : addr) (o : obj) (c : acct) : Prop :=
  o_bal o = bal c /\ o_nonce o = nonce c /\ (o_hash o = code c /\ CC p o) /\ o_suic o = suic c /\
  (forall k, oget p x o k = sget (stor c) k) /\ (forall k, pslot p x k = sget (comm c) k) /\
  DW o /\ OW p x o /\ canon (stor c).
Definition orel (p : pers) (x : addr) (so : option obj) (sc : option acct) : Prop :=
  match so, sc with
  | Some o, Some c => arel p x o c
  | None, None => True
  | _, _ => False
  end.
Definition crel (a : astate) (c : core) : Prop :=
  (forall x, orel (a_pers a) x (look a x) (accts c !! x)) /\ a_refund a = refund c.

(* no residue: an account that does not exist for the adapter has no stored storage words *)
Definition NR (p : pers) : Prop := forall x, load p x = None -> forall k, pslot p x k = 0.

(* spec-level undo of one journal entry *)
Definition sundo (e : entry) (c : core) : core :=
  match e with
  | ECreate x => with_accts c (delete x (accts c))
  | EBalance x prev => with_accts c (alter (fun a => with_bal a prev) x (accts c))
  | ENonce x prev => with_accts c (alter (fun a => with_nonce a prev) x (accts c))
  | EStorage x k prev => with_accts c (alter (fun a => with_stor a (cset k prev (stor a))) x (accts c))
  | ESuicide x prev pb => with_accts c (alter (fun a => with_suic (with_bal a pb) prev) x (accts c))
  | ECode x ph _ => with_accts c (alter (fun a => with_code a ph) x (accts c))
  | ERefund prev => with_refund c prev
  | ELog => {| accts := accts c; refund := refund c; logs := removelast (logs c); logsize := logsize c - 1;
               al_addrs := al_addrs c; al_slots := al_slots c |}
  | EAlAddr x => {| accts := accts c; refund := refund c; logs := logs c; logsize := logsize c;
                    al_addrs := delete x (al_addrs c); al_slots := al_slots c |}
  | EAlSlot x k => {| accts := accts c; refund := refund c; logs := logs c; logsize := logsize c;
                      al_addrs := al_addrs c; al_slots := delete (x, k) (al_slots c) |}
  | _ => c
  end.
Definition sundo_list (l : list entry) (c : core) : core := fold_left (fun c e => sundo e c) l c.

(* journal entries the proved core can produce *)
Definition entry_ok (p : pers) (e : entry) : Prop :=
  match e with
  | ECreate x => load p x = None
  | ECode _ ph pc => pc = ph
  | EReset _ _ => False
  | _ => True
  end.

Lemma cset_get k v m k' : canon m -> sget (cset k v m) k' = if decide (k = k') then v else sget m k'.
Proof.
  intros Hc. unfold cset, sget. destruct (v =? 0) eqn:E.
  - apply Z.eqb_eq in E. subst. destruct (decide (k = k')) as [<-|Hne].
    + rewrite lookup_delete. reflexivity.
    + rewrite lookup_delete_ne by done. reflexivity.
  - destruct (decide (k = k')) as [<-|Hne].
    + rewrite lookup_insert. reflexivity.
    + rewrite lookup_insert_ne by done. reflexivity.
Qed.
Lemma cset_canon k v m : canon m -> canon (cset k v m).
Proof.
  intros Hc k'. unfold cset. destruct (v =? 0) eqn:E.
  - destruct (decide (k = k')) as [<-|Hne]; [rewrite lookup_delete; done|rewrite lookup_delete_ne by done; apply Hc].
  - destruct (decide (k = k')) as [<-|Hne]; [|rewrite lookup_insert_ne by done; apply Hc].
    rewrite lookup_insert. intros [= ->]. done.
Qed.
(* writing back the value a slot had restores the map exactly (maps are canonical) *)
Lemma cset_undo k v m : canon m -> cset k (sget m k) (cset k v m) = m.
Proof.
  intros Hc. apply map_eq. intros k'. unfold sget.
  destruct (m !! k) as [w|] eqn:Hk; simpl.
  - assert (w <> 0) as Hw by (intros ->; apply (Hc k); done).
    unfold cset at 1. rewrite (proj2 (Z.eqb_neq w 0) Hw).
    destruct (decide (k = k')) as [<-|Hne].
    + rewrite lookup_insert. done.
    + rewrite lookup_insert_ne by done. unfold cset. destruct (v =? 0).
      * rewrite lookup_delete_ne by done. reflexivity.
      * rewrite lookup_insert_ne by done. reflexivity.
  - unfold cset at 1. simpl. destruct (decide (k = k')) as [<-|Hne].
    + rewrite lookup_delete. done.
    + rewrite lookup_delete_ne by done. unfold cset. destruct (v =? 0).
      * rewrite lookup_delete_ne by done. reflexivity.
      * rewrite lookup_insert_ne by done. reflexivity.
Qed.
Lemma cset_same k m : canon m -> cset k (sget m k) m = m.
Proof.
  intros Hc. apply map_eq. intros k'. unfold sget. destruct (m !! k) as [w|] eqn:Hk; simpl.
  - assert (w <> 0) as Hw by (intros ->; apply (Hc k); done).
    unfold cset. rewrite (proj2 (Z.eqb_neq w 0) Hw).
    destruct (decide (k = k')) as [<-|Hne]; [rewrite lookup_insert; done|rewrite lookup_insert_ne by done; done].
  - unfold cset. simpl. destruct (decide (k = k')) as [<-|Hne]; [rewrite lookup_delete; done|rewrite lookup_delete_ne by done; done].
Qed.

Lemma arel_set_origin p x o c l m : OW p x (set_origin o l m) -> arel p x o c -> arel p x (set_origin o l m) c.
Proof. intros HO (A & B & C & D & E & F & G & H & I). exact (conj A (conj B (conj C (conj D (conj E (conj F (conj G (conj HO I)))))))). Qed.

(* entries whose undo dereferences the state object: the account must exist when they are undone *)
Definition needs_live (e : entry) : option addr :=
  match e with
  | EBalance x _ | ENonce x _ | EStorage x _ _ | ECode x _ _ => Some x
  | _ => None
  end.
Fixpoint ex_ok (L : list entry) (c : core) : Prop :=     (* L: newest first *)
  match L with
  | [] => True
  | e :: rest => match needs_live e with Some x => is_Some (accts c !! x) | None => True end /\
                 ex_ok rest (sundo e c)
  end.
(* an entry about account x that does not remove it *)
Definition on_acct (x : addr) (e : entry) : Prop :=
  match e with
  | ECreate _ | EReset _ _ => False
  | _ => match dirtied e with Some y => y = x | None => True end
  end.

(* ---- invariant --------------------------------------------------------------------------- *)
Definition mono (l : list (Z * nat)) : Prop :=
  forall i j r1 r2, l !! i = Some r1 -> l !! j = Some r2 -> (i <= j)%nat -> (r1.2 <= r2.2)%nat.
Definition SR (a : astate) (s : sstate) : Prop :=
  Forall2 (fun (r : Z * nat) (sn : Z * core) =>
             r.1 = sn.1 /\ (r.2 <= length (a_entries a))%nat /\
             sn.2 = sundo_list (rev (drop r.2 (a_entries a))) (cur s)) (a_revs a) (snaps s)
  /\ mono (a_revs a).

(* no empty account is persisted (EIP-161 state) *)
Definition NE (p : pers) : Prop := forall x o, load p x = Some o -> obj_empty o = false.

Record Inv (a : astate) (s : sstate) : Prop := {
  i_wo : WO a; i_jok : JOK a; i_nr : NR (a_pers a); i_crel : crel a (cur s);
  i_id : a_nextid a = nextid s; i_sr : SR a s;
  i_ent : Forall (entry_ok (a_pers a)) (a_entries a);
  i_ne : NE (a_pers a);
  i_aux : aux a = saux (cur s);
  i_ex : ex_ok (rev (a_entries a)) (cur s) }.

Lemma sundo_list_app l1 l2 c : sundo_list (l1 ++ l2) c = sundo_list l2 (sundo_list l1 c).
Proof. unfold sundo_list. apply fold_left_app. Qed.

Lemma ex_ok_app L1 : forall L2 c, ex_ok (L1 ++ L2) c <-> ex_ok L1 c /\ ex_ok L2 (sundo_list L1 c).
Proof.
  induction L1 as [|e L1 IH]; intros L2 c; simpl; [tauto|].
  rewrite IH. unfold sundo_list at 2. simpl. fold (sundo_list L1 (sundo e c)). tauto.
Qed.
Lemma ex_ok_nolive L : forall c, Forall (fun e => needs_live e = None) L -> ex_ok L c.
Proof.
  induction L as [|e L IH]; intros c H; simpl; [exact I|]. inversion H as [|? ? He HL]; subst.
  rewrite He. split; [exact I|apply IH; exact HL].
Qed.
Lemma ex_ok_on x L : forall c, Forall (on_acct x) L -> is_Some (accts c !! x) -> ex_ok L c.
Proof.
  induction L as [|e L IH]; intros c H Hx; simpl; [exact I|]. inversion H as [|? ? He HL]; subst.
  split.
  - destruct e; simpl in *; try exact I; subst; exact Hx.
  - apply IH; [exact HL|]. destruct e; simpl in *; try done; subst; try exact Hx;
      rewrite lookup_alter; apply fmap_is_Some; exact Hx.
Qed.
Lemma ex_extend es new c c2 : ex_ok (rev es) c -> sundo_list (rev new) c2 = c -> ex_ok (rev new) c2 ->
  ex_ok (rev (es ++ new)) c2.
Proof. intros H1 H2 H3. rewrite rev_app_distr. apply ex_ok_app. rewrite H2. split; assumption. Qed.

Lemma SR_extend a a' s c2 new :
  a_revs a' = a_revs a -> a_entries a' = a_entries a ++ new ->
  sundo_list (rev new) c2 = cur s -> SR a s -> SR a' (with_cur s c2).
Proof.
  intros Hr He Hu [HF Hm]. split; [|rewrite Hr; exact Hm]. rewrite Hr. simpl.
  eapply Forall2_impl; [exact HF|]. intros r sn (H1 & H2 & H3). split; [exact H1|]. split.
  - rewrite He, app_length. lia.
  - rewrite He. rewrite drop_app_le by exact H2. rewrite rev_app_distr, sundo_list_app, Hu. exact H3.
Qed.

Lemma with_accts_id c : with_accts c (accts c) = c.
Proof. destruct c; reflexivity. Qed.

Lemma arel_new p x : NR p -> load p x = None -> arel p x (mk_obj 0 0 0%N) (new_acct 0).
Proof.
  intros HN Hl. unfold arel, new_acct; simpl.
  assert (CC p (mk_obj 0 0 0%N)) as Hcc by (split; [left; reflexivity|intros _ Hc; done]).
  refine (conj eq_refl (conj eq_refl (conj (conj eq_refl Hcc) (conj eq_refl (conj _ (conj _ (conj _ (conj _ _)))))))).
  - intros k. unfold oget; simpl. rewrite lookup_empty. unfold sget. rewrite lookup_empty. simpl. apply HN. exact Hl.
  - intros k. unfold sget. rewrite lookup_empty. simpl. apply HN. exact Hl.
  - intros k i. simpl. rewrite lookup_empty. split; [done|]. intros [v Hv]. rewrite lookup_nil in Hv. done.
  - intros k i Hk. simpl in Hk. rewrite lookup_empty in Hk. done.
  - intros k. rewrite lookup_empty. done.
Qed.

Lemma gn_rel a s x : Inv a s ->
  exists a1 o new ac, get_or_new_obj a x = Some (a1, o) /\ WO a1 /\ JOK a1 /\
    look a1 x = Some o /\ (forall y, y <> x -> look a1 y = look a y) /\
    a_entries a1 = a_entries a ++ new /\ same_frame a a1 /\
    arel (a_pers a) x o ac /\ get_or_new (accts (cur s)) x = ac /\
    ((new = [] /\ accts (cur s) !! x = Some ac) \/
     (new = [ECreate x] /\ accts (cur s) !! x = None /\ load (a_pers a) x = None)).
Proof.
  intros HI. destruct (get_or_new_spec a x (i_wo _ _ HI) (i_jok _ _ HI))
    as (a1 & o & new & Hg & HW & HJ & Hl & Hoth & He & Hf & Hcase).
  pose proof (proj1 (i_crel _ _ HI) x) as Hx. unfold orel in Hx.
  destruct Hcase as [[Hlx ->]|(Hlx & Hld & -> & ->)].
  - rewrite Hlx in Hx. destruct (accts (cur s) !! x) as [ac|] eqn:Hac; [|done].
    exists a1, o, [], ac.
    refine (conj Hg (conj HW (conj HJ (conj Hl (conj Hoth (conj He (conj Hf (conj Hx (conj _ _))))))))).
    + unfold get_or_new; rewrite Hac; reflexivity.
    + left. done.
  - rewrite Hlx in Hx. destruct (accts (cur s) !! x) as [ac|] eqn:Hac; [done|].
    exists a1, (mk_obj 0 0 0%N), [ECreate x], (new_acct 0).
    refine (conj Hg (conj HW (conj HJ (conj Hl (conj Hoth (conj He (conj Hf (conj _ (conj _ _))))))))).
    + apply arel_new; [exact (i_nr _ _ HI)|exact Hld].
    + unfold get_or_new; rewrite Hac; reflexivity.
    + right. done.
Qed.

(* closing a mutation of account x: the new object is related to the new account, and undoing
   the entries journalled after the (possible) creation gives back the old account *)
Lemma fin_rel a s x a1 a' new es2 ac ac' o' :
  Inv a s ->
  (forall y, y <> x -> look a1 y = look a y) -> a_entries a1 = a_entries a ++ new -> same_frame a a1 ->
  ((new = [] /\ accts (cur s) !! x = Some ac) \/
   (new = [ECreate x] /\ accts (cur s) !! x = None /\ load (a_pers a) x = None)) ->
  WO a' -> JOK a' ->
  (forall y, look a' y = if decide (x = y) then Some o' else look a1 y) ->
  a_entries a' = a_entries a1 ++ es2 -> same_frame a1 a' ->
  arel (a_pers a) x o' ac' ->
  Forall (fun e => entry_ok (a_pers a) e /\ on_acct x e) es2 ->
  sundo_list (rev es2) (with_accts (cur s) (<[x := ac']> (accts (cur s)))) =
    with_accts (cur s) (<[x := ac]> (accts (cur s))) ->
  Inv a' (with_cur s (with_accts (cur s) (<[x := ac']> (accts (cur s))))).
Proof.
  intros HI Hoth He1 (Hp1 & Hr1 & Hn1 & Hf1 & Hx1) Hcase HW HJ Hl He2 (Hp2 & Hr2 & Hn2 & Hf2 & Hx2) Har Hok Hundo.
  assert (a_pers a' = a_pers a) as Hp by congruence.
  split.
  - exact HW.
  - exact HJ.
  - rewrite Hp. exact (i_nr _ _ HI).
  - split; simpl.
    + intros y. rewrite Hp, Hl. destruct (decide (x = y)) as [<-|Hxy].
      * rewrite lookup_insert. exact Har.
      * rewrite lookup_insert_ne by done. rewrite Hoth by done. apply (proj1 (i_crel _ _ HI)).
    + rewrite Hf2, Hf1. apply (proj2 (i_crel _ _ HI)).
  - simpl. rewrite Hn2, Hn1. exact (i_id _ _ HI).
  - apply (SR_extend a a' s _ (new ++ es2)); [congruence|rewrite He2, He1, app_assoc; reflexivity| |exact (i_sr _ _ HI)].
    rewrite rev_app_distr, sundo_list_app, Hundo.
    destruct Hcase as [[-> Hac]|(-> & Hac & _)]; unfold sundo_list; simpl.
    + rewrite insert_id by exact Hac. apply with_accts_id.
    + unfold with_accts; simpl. rewrite delete_insert by exact Hac. destruct (cur s); reflexivity.
  - rewrite Hp, He2, He1. apply Forall_app. split; [apply Forall_app; split|].
    + exact (i_ent _ _ HI).
    + destruct Hcase as [[-> _]|(-> & _ & Hld)]; [constructor|]. constructor; [exact Hld|constructor].
    + eapply Forall_impl; [exact Hok|]. intros e [H _]. exact H.
  - rewrite Hp. exact (i_ne _ _ HI).
  - rewrite Hx2, Hx1. exact (i_aux _ _ HI).
  - rewrite He2, He1, <- app_assoc. simpl.
    apply (ex_extend _ _ (cur s)); [exact (i_ex _ _ HI)| |].
    + rewrite rev_app_distr, sundo_list_app, Hundo.
      destruct Hcase as [[-> Hac]|(-> & Hac & _)]; unfold sundo_list; simpl.
      * rewrite insert_id by exact Hac. apply with_accts_id.
      * unfold with_accts; simpl. rewrite delete_insert by exact Hac. destruct (cur s); reflexivity.
    + rewrite rev_app_distr. apply ex_ok_app. split.
      * apply (ex_ok_on x); [apply Forall_rev; eapply Forall_impl; [exact Hok|]; intros e [_ H]; exact H|].
        simpl. rewrite lookup_insert. eauto.
      * apply ex_ok_nolive. apply Forall_rev. destruct Hcase as [[-> _]|(-> & _)]; repeat constructor.
Qed.

Lemma so_spec a x o : WO a -> JOK a ->
  exists a', set_obj a x o = Some a' /\ WO a' /\ JOK a' /\
    (forall y, look a' y = if decide (x = y) then Some o else look a y) /\
    a_entries a' = a_entries a /\ same_frame a a'.
Proof.
  intros HW HJ. destruct (set_obj_spec a x o HW) as (l & m & Hs & HW' & Hl).
  exists (w_objs a l m). split; [exact Hs|]. split; [exact HW'|]. split; [exact HJ|].
  split; [exact Hl|]. split; [reflexivity|]. repeat split.
Qed.

Lemma js_spec a e x o : WO a -> JOK a ->
  exists a2 a', j_append a e = Some a2 /\ set_obj a2 x o = Some a' /\ WO a' /\ JOK a' /\
    (forall y, look a' y = if decide (x = y) then Some o else look a y) /\
    a_entries a' = a_entries a ++ [e] /\ same_frame a a'.
Proof.
  intros HW HJ. destruct (j_append_spec a e HJ) as (dl & dm & Hj & HJ').
  set (a2 := w_dirties (w_entries a (a_entries a ++ [e])) dl dm) in *.
  assert (WO a2) as HW2 by exact HW.
  destruct (set_obj_spec a2 x o HW2) as (l & m & Hs & HW' & Hl).
  exists a2, (w_objs a2 l m). split; [exact Hj|]. split; [exact Hs|]. split; [exact HW'|]. split; [exact HJ'|].
  split; [exact Hl|]. split; [reflexivity|]. repeat split.
Qed.

Lemma inv_same_spec a a' s : Inv a s -> WO a' -> JOK a' ->
  a_pers a' = a_pers a -> a_refund a' = a_refund a -> a_nextid a' = a_nextid a ->
  a_revs a' = a_revs a -> a_entries a' = a_entries a -> aux a' = aux a ->
  (forall y, orel (a_pers a) y (look a' y) (accts (cur s) !! y)) -> Inv a' s.
Proof.
  intros HI HW HJ Hp Hf Hn Hr He Hx Hl. split.
  - exact HW.
  - exact HJ.
  - rewrite Hp. exact (i_nr _ _ HI).
  - split; [rewrite Hp; exact Hl|rewrite Hf; exact (proj2 (i_crel _ _ HI))].
  - rewrite Hn. exact (i_id _ _ HI).
  - destruct (i_sr _ _ HI) as [HF Hm]. split; [|rewrite Hr; exact Hm]. rewrite Hr, He. exact HF.
  - rewrite Hp, He. exact (i_ent _ _ HI).
  - rewrite Hp. exact (i_ne _ _ HI).
  - rewrite Hx. exact (i_aux _ _ HI).
  - rewrite He. exact (i_ex _ _ HI).
Qed.

(* reads *)
Lemma read_sim a s x f g : Inv a s ->
  (forall so sc, orel (a_pers a) x so sc -> f so = g sc) ->
  exists a', read_obj a x f = Some (g (accts (cur s) !! x), a') /\ Inv a' s.
Proof.
  intros HI Hfg. unfold read_obj. destruct (get_obj_spec a x (i_wo _ _ HI)) as (l & m & Hg & HW & Hl).
  rewrite Hg. simpl. exists (w_objs a l m). split.
  - f_equal. f_equal. apply Hfg. apply (proj1 (i_crel _ _ HI)).
  - apply (inv_same_spec a _ s HI); try reflexivity; [exact HW|exact (i_jok _ _ HI)|].
    intros y. rewrite Hl. apply (proj1 (i_crel _ _ HI)).
Qed.

Definition simo (a : astate) (s : sstate) (o : op) : Prop :=
  exists r a' s', astep_opt a o = Some (r, a') /\ spec_step s o = (r, s') /\ Inv a' s'.

Definition sim (a : astate) (s : sstate) (o : op) : Prop :=
  exists r a' s', astep a o = (r, a') /\ spec_step s o = (r, s') /\ Inv a' s'.
Lemma simo_sim a s o : simo a s o -> sim a s o.
Proof. intros (r & a' & s' & H1 & H2 & H3). exists r, a', s'. unfold astep. rewrite H1. done. Qed.

Lemma sim_GetBalance a s x : Inv a s -> simo a s (GetBalance x).
Proof.
  intros HI. destruct (read_sim a s x (fun so => OZ (match so with Some o => o_bal o | None => 0 end))
    (fun sc => OZ (match sc with Some c => bal c | None => 0 end)) HI) as (a' & H1 & H2).
  { intros [o|] [c|] Hr; simpl in Hr; try done. destruct Hr as (-> & _). reflexivity. }
  eexists _, a', s. split; [exact H1|]. split; [reflexivity|exact H2].
Qed.
Lemma sim_GetNonce a s x : Inv a s -> simo a s (GetNonce x).
Proof.
  intros HI. destruct (read_sim a s x (fun so => OZ (match so with Some o => o_nonce o | None => 0 end))
    (fun sc => OZ (match sc with Some c => nonce c | None => 0 end)) HI) as (a' & H1 & H2).
  { intros [o|] [c|] Hr; simpl in Hr; try done. destruct Hr as (_ & -> & _). reflexivity. }
  eexists _, a', s. split; [exact H1|]. split; [reflexivity|exact H2].
Qed.
Lemma sim_HasSuicided a s x : Inv a s -> simo a s (HasSuicided x).
Proof.
  intros HI. destruct (read_sim a s x (fun so => OBool (match so with Some o => o_suic o | None => false end))
    (fun sc => OBool (match sc with Some c => suic c | None => false end)) HI) as (a' & H1 & H2).
  { intros [o|] [c|] Hr; simpl in Hr; try done. destruct Hr as (_ & _ & _ & -> & _). reflexivity. }
  eexists _, a', s. split; [exact H1|]. split; [reflexivity|exact H2].
Qed.
Lemma sim_Exist a s x : Inv a s -> simo a s (Exist x).
Proof.
  intros HI. destruct (read_sim a s x (fun so => OBool (match so with Some _ => true | None => false end))
    (fun sc => OBool (match sc with Some _ => true | None => false end)) HI) as (a' & H1 & H2).
  { intros [o|] [c|] Hr; simpl in Hr; done. }
  eexists _, a', s. split; [exact H1|]. split; [reflexivity|exact H2].
Qed.
Lemma sim_Empty a s x : Inv a s -> simo a s (Empty x).
Proof.
  intros HI. destruct (read_sim a s x (fun so => OBool (match so with Some o => obj_empty o | None => true end))
    (fun sc => OBool (match sc with Some c => acct_empty c | None => true end)) HI) as (a' & H1 & H2).
  { intros [o|] [c|] Hr; simpl in Hr; try done. destruct Hr as (A & B & (C & _) & _).
    unfold obj_empty, acct_empty. rewrite A, B, C. reflexivity. }
  eexists _, a', s. split; [exact H1|]. split; [reflexivity|exact H2].
Qed.

(* writes *)
Lemma arel_bal p x o c b : arel p x o c -> arel p x (set_bal o b) (with_bal c b).
Proof. intros (A & B & C & D & E & F & G & H & I). exact (conj eq_refl (conj B (conj C (conj D (conj E (conj F (conj G (conj H I)))))))). Qed.
Lemma arel_nonce p x o c n : arel p x o c -> arel p x (set_nonce o n) (with_nonce c n).
Proof. intros (A & B & C & D & E & F & G & H & I). exact (conj A (conj eq_refl (conj C (conj D (conj E (conj F (conj G (conj H I)))))))). Qed.
Lemma arel_suic p x o c b : arel p x o c -> arel p x (set_suic o b) (with_suic c b).
Proof. intros (A & B & C & D & E & F & G & H & I). exact (conj A (conj B (conj C (conj eq_refl (conj E (conj F (conj G (conj H I)))))))). Qed.

Lemma arel_code p x o c h : arel p x o c -> arel p x (set_code o h h) (with_code c h).
Proof.
  intros (A & B & C & D & E & F & G & H & I).
  assert (CC p (set_code o h h)) as Hcc.
  { split; simpl.
    - destruct (decide (h = 0%N)) as [->|]; [left; reflexivity|right; split; reflexivity].
    - intros -> Hc. done. }
  exact (conj A (conj B (conj (conj eq_refl Hcc) (conj D (conj E (conj F (conj G (conj H I)))))))).
Qed.
Lemma with_code_undo c h : with_code (with_code c h) (code c) = c.
Proof. destruct c; reflexivity. Qed.

Lemma with_bal_undo c b : with_bal (with_bal c b) (bal c) = c.
Proof. destruct c; reflexivity. Qed.
Lemma with_nonce_undo c n : with_nonce (with_nonce c n) (nonce c) = c.
Proof. destruct c; reflexivity. Qed.
Lemma with_bal_same c : with_bal c (bal c) = c.
Proof. destruct c; reflexivity. Qed.

Lemma sundo_one e c : sundo_list [e] c = sundo e c.
Proof. reflexivity. Qed.

Lemma sim_AddBalance a s x v : Inv a s -> simo a s (AddBalance x v).
Proof.
  intros HI. destruct (gn_rel a s x HI) as (a1 & o & new & ac & Hg & HW1 & HJ1 & Hl1 & Hoth & He1 & Hf1 & Har & Hgn & Hcase).
  unfold simo. simpl. rewrite Hg. simpl. unfold upd_acct. rewrite Hgn.
  pose proof Har as (Ab & An & (Ah & _) & As & _).
  destruct (v =? 0) eqn:Ev.
  - apply Z.eqb_eq in Ev. subst v. rewrite Z.add_0_r, with_bal_same.
    assert (forall a', WO a' -> JOK a' -> (forall y, look a' y = look a1 y) -> forall es2,
              a_entries a' = a_entries a1 ++ es2 -> same_frame a1 a' ->
              Forall (fun e => entry_ok (a_pers a) e /\ on_acct x e) es2 ->
              sundo_list (rev es2) (with_accts (cur s) (<[x := ac]> (accts (cur s)))) =
                with_accts (cur s) (<[x := ac]> (accts (cur s))) ->
              Inv a' (with_cur s (with_accts (cur s) (<[x := ac]> (accts (cur s)))))) as Hfin.
    { intros a' HW' HJ' Hl' es2 He2 Hf2 Hok Hu.
      eapply (fin_rel a s x a1 a' new es2 ac ac o); eauto.
      intros y. rewrite Hl'. destruct (decide (x = y)) as [<-|]; [exact Hl1|reflexivity]. }
    destruct (obj_empty o).
    + destruct (j_append_spec a1 (ETouch x) HJ1) as (dl & dm & Hj & HJ2). rewrite Hj. simpl.
      set (a2 := w_dirties (w_entries a1 (a_entries a1 ++ [ETouch x])) dl dm) in *.
      destruct (x =? RIPEMD)%N.
      * destruct (add_dirty_spec a2 x HJ2) as (dl' & dm' & Hd & HJ3). rewrite Hd. simpl.
        eexists _, _, _. split; [reflexivity|]. split; [reflexivity|].
        apply (Hfin (w_dirties a2 dl' dm') HW1 HJ3 (fun y => eq_refl) [ETouch x]); [reflexivity|repeat split|repeat constructor|reflexivity].
      * eexists _, _, _. split; [reflexivity|]. split; [reflexivity|].
        apply (Hfin a2 HW1 HJ2 (fun y => eq_refl) [ETouch x]); [reflexivity|repeat split|repeat constructor|reflexivity].
    + eexists _, _, _. split; [reflexivity|]. split; [reflexivity|].
      apply (Hfin a1 HW1 HJ1 (fun y => eq_refl) []); [rewrite app_nil_r; reflexivity|repeat split|constructor|reflexivity].
  - unfold so_set_balance.
    destruct (js_spec a1 (EBalance x (o_bal o)) x (set_bal o (o_bal o + v)) HW1 HJ1) as (a2 & a' & Hj & Hs & HW' & HJ' & Hl' & He' & Hf').
    rewrite Hj. simpl. rewrite Hs. simpl. eexists _, _, _. split; [reflexivity|]. split; [reflexivity|].
    eapply (fin_rel a s x a1 a' new [EBalance x (o_bal o)] ac); eauto.
    + rewrite <- Ab. apply arel_bal. exact Har.
    + repeat constructor.
    + simpl. unfold with_accts; simpl. rewrite alter_insert. rewrite Ab, with_bal_undo. reflexivity.
Qed.

Lemma getbalance_opt a x : WO a ->
  exists a', astep_opt a (GetBalance x) = Some (OZ (match look a x with Some o => o_bal o | None => 0 end), a').
Proof.
  intros HW. simpl. unfold read_obj. destruct (get_obj_spec a x HW) as (l & m & Hg & _). rewrite Hg. simpl. eauto.
Qed.

Lemma sim_SubBalance a s x v : Inv a s -> pre_violated a (SubBalance x v) = false -> simo a s (SubBalance x v).
Proof.
  intros HI Hpre. destruct (gn_rel a s x HI) as (a1 & o & new & ac & Hg & HW1 & HJ1 & Hl1 & Hoth & He1 & Hf1 & Har & Hgn & Hcase).
  unfold simo. simpl. rewrite Hg. simpl. unfold upd_acct. rewrite Hgn.
  pose proof Har as (Ab & _).
  destruct (v =? 0) eqn:Ev.
  - apply Z.eqb_eq in Ev. subst v. rewrite Z.sub_0_r, with_bal_same.
    eexists _, _, _. split; [reflexivity|]. split; [reflexivity|].
    eapply (fin_rel a s x a1 a1 new [] ac ac o); eauto.
    + intros y. destruct (decide (x = y)) as [<-|]; [exact Hl1|reflexivity].
    + rewrite app_nil_r. reflexivity.
    + repeat split.
  - assert (o_bal o - v <? 0 = false) as Hnn.
    { unfold pre_violated in Hpre. destruct (getbalance_opt a x (i_wo _ _ HI)) as (a' & Hgb). rewrite Hgb in Hpre.
      apply orb_false_elim in Hpre. destruct Hpre as [Hlt _]. apply Z.ltb_ge in Hlt. apply Z.ltb_ge.
      destruct Hcase as [[_ Hac]|(_ & Hac & Hld)].
      - pose proof (proj1 (i_crel _ _ HI) x) as Hx. rewrite Hac in Hx. unfold orel in Hx.
        destruct (look a x) as [o0|]; [|done]. destruct Hx as (Hb0 & _). lia.
      - pose proof (proj1 (i_crel _ _ HI) x) as Hx. rewrite Hac in Hx. unfold orel in Hx.
        destruct (look a x) as [o0|]; [done|]. unfold get_or_new in Hgn. rewrite Hac in Hgn. subst ac. simpl in Ab. lia. }
    rewrite Hnn. unfold so_set_balance.
    destruct (js_spec a1 (EBalance x (o_bal o)) x (set_bal o (o_bal o - v)) HW1 HJ1) as (a2 & a' & Hj & Hs & HW' & HJ' & Hl' & He' & Hf').
    rewrite Hj. simpl. rewrite Hs. simpl. eexists _, _, _. split; [reflexivity|]. split; [reflexivity|].
    eapply (fin_rel a s x a1 a' new [EBalance x (o_bal o)] ac); eauto.
    + rewrite <- Ab. apply arel_bal. exact Har.
    + repeat constructor.
    + simpl. unfold with_accts; simpl. rewrite alter_insert. rewrite Ab, with_bal_undo. reflexivity.
Qed.

Lemma sim_SetNonce a s x n : Inv a s -> simo a s (SetNonce x n).
Proof.
  intros HI. destruct (gn_rel a s x HI) as (a1 & o & new & ac & Hg & HW1 & HJ1 & Hl1 & Hoth & He1 & Hf1 & Har & Hgn & Hcase).
  unfold simo. simpl. rewrite Hg. simpl. unfold upd_acct. rewrite Hgn.
  pose proof Har as (_ & An & _).
  destruct (js_spec a1 (ENonce x (o_nonce o)) x (set_nonce o n) HW1 HJ1) as (a2 & a' & Hj & Hs & HW' & HJ' & Hl' & He' & Hf').
  rewrite Hj. simpl. rewrite Hs. simpl. eexists _, _, _. split; [reflexivity|]. split; [reflexivity|].
  eapply (fin_rel a s x a1 a' new [ENonce x (o_nonce o)] ac); eauto.
  - apply arel_nonce. exact Har.
  - repeat constructor.
  - simpl. unfold with_accts; simpl. rewrite alter_insert. rewrite An, with_nonce_undo. reflexivity.
Qed.

Lemma with_refund_undo c r : with_refund (with_refund c r) (refund c) = c.
Proof. destruct c; reflexivity. Qed.

Lemma inv_refund a a1 s r : Inv a s ->
  a1 = w_entries a (a_entries a ++ [ERefund (a_refund a)]) ->
  Inv (w_refund a1 r) (with_cur s (with_refund (cur s) r)).
Proof.
  intros HI ->. split; simpl.
  - exact (i_wo _ _ HI).
  - exact (i_jok _ _ HI).
  - exact (i_nr _ _ HI).
  - split; [exact (proj1 (i_crel _ _ HI))|reflexivity].
  - exact (i_id _ _ HI).
  - apply (SR_extend a _ s _ [ERefund (a_refund a)]); [reflexivity|reflexivity| |exact (i_sr _ _ HI)].
    simpl. unfold sundo_list; simpl. rewrite (proj2 (i_crel _ _ HI)). apply with_refund_undo.
  - apply Forall_app. split; [exact (i_ent _ _ HI)|repeat constructor].
  - exact (i_ne _ _ HI).
  - exact (i_aux _ _ HI).
  - apply (ex_extend _ _ (cur s)); [exact (i_ex _ _ HI)| |simpl; split; exact I].
    simpl. unfold sundo_list; simpl. rewrite (proj2 (i_crel _ _ HI)). apply with_refund_undo.
Qed.

Lemma sim_AddRefund a s g : Inv a s -> sim a s (AddRefund g).
Proof.
  intros HI. apply simo_sim. unfold simo. simpl. unfold j_append; simpl.
  eexists _, _, _. split; [reflexivity|]. split; [reflexivity|].
  rewrite (proj2 (i_crel _ _ HI)). apply (inv_refund a _ s _ HI). rewrite (proj2 (i_crel _ _ HI)). reflexivity.
Qed.
Lemma sim_SubRefund a s g : Inv a s -> sim a s (SubRefund g).
Proof.
  intros HI. unfold sim, astep. simpl. unfold j_append; simpl. rewrite (proj2 (i_crel _ _ HI)).
  destruct (refund (cur s) <? g).
  - exists OPanic, a, s. done.
  - eexists _, _, _. split; [reflexivity|]. split; [reflexivity|].
    apply (inv_refund a _ s _ HI). rewrite (proj2 (i_crel _ _ HI)). reflexivity.
Qed.
Lemma sim_GetRefund a s : Inv a s -> sim a s GetRefund.
Proof.
  intros HI. exists (OZ (a_refund a)), a, s. split; [reflexivity|]. split; [|exact HI].
  simpl. rewrite (proj2 (i_crel _ _ HI)). reflexivity.
Qed.

(* storage *)
Lemma sim_read_slot a s x k (committed : bool) : Inv a s ->
  simo a s (if committed then GetCommittedState x k else GetState x k).
Proof.
  intros HI. unfold simo.
  destruct (get_obj_spec a x (i_wo _ _ HI)) as (l & m & Hg & HW1 & Hl1).
  set (a1 := w_objs a l m) in *.
  pose proof (proj1 (i_crel _ _ HI) x) as Hx. unfold orel in Hx.
  assert (exists r a' , (if committed then astep_opt a (GetCommittedState x k) else astep_opt a (GetState x k)) = Some (r, a') /\
            r = OZ (match accts (cur s) !! x with Some c => if committed then sget (comm c) k else sget (stor c) k | None => 0 end) /\
            Inv a' s) as (r & a' & H1 & H2 & H3).
  { destruct (look a x) as [o|] eqn:Hlx.
    - destruct (accts (cur s) !! x) as [ac|] eqn:Hac; [|done].
      pose proof Hx as (_ & _ & _ & _ & Hst & Hcm & HD & HO & _).
      assert (exists ol om v, (if committed then obj_committed (a_pers a) x o k else obj_getstate (a_pers a) x o k) =
                Some (v, set_origin o ol om) /\ OW (a_pers a) x (set_origin o ol om) /\
                v = if committed then sget (comm ac) k else sget (stor ac) k) as (ol & om & v & Hgs & HO' & Hv).
      { destruct committed.
        - destruct (obj_committed_spec (a_pers a) x o k HO) as (ol & om & E1 & E2). exists ol, om, (pslot (a_pers a) x k). split; [exact E1|]. split; [exact E2|apply Hcm].
        - destruct (obj_getstate_spec (a_pers a) x o k HD HO) as (ol & om & E1 & E2). exists ol, om, (oget (a_pers a) x o k). split; [exact E1|]. split; [exact E2|apply Hst]. }
      destruct (so_spec a1 x (set_origin o ol om) HW1 (i_jok _ _ HI)) as (a' & Hs & HW' & HJ' & Hl' & He' & (Hp' & Hr' & Hn' & Hf' & Hx')).
      exists (OZ v), a'. split; [|split; [subst v; reflexivity|]].
      + destruct committed; simpl; rewrite Hg; simpl; rewrite Hgs; simpl; rewrite Hs; reflexivity.
      + apply (inv_same_spec a a' s HI HW' HJ'); try assumption.
        intros y. rewrite Hl'. destruct (decide (x = y)) as [<-|].
        * rewrite Hac. apply arel_set_origin; assumption.
        * rewrite Hl1. apply (proj1 (i_crel _ _ HI)).
    - destruct (accts (cur s) !! x) as [ac|] eqn:Hac; [done|].
      exists (OZ 0), a1. split; [destruct committed; simpl; rewrite Hg; reflexivity|]. split; [reflexivity|].
      apply (inv_same_spec a a1 s HI HW1 (i_jok _ _ HI)); try reflexivity.
      intros y. rewrite Hl1. apply (proj1 (i_crel _ _ HI)). }
  exists r, a', s. split; [destruct committed; exact H1|]. split; [|exact H3].
  subst r. destruct committed; reflexivity.
Qed.

Lemma with_stor_undo c m : with_stor (with_stor c m) (stor c) = c.
Proof. destruct c; reflexivity. Qed.
Lemma with_stor_same c : with_stor c (stor c) = c.
Proof. destruct c; reflexivity. Qed.

Lemma sim_SetState a s x k v : Inv a s -> simo a s (SetState x k v).
Proof.
  intros HI. destruct (gn_rel a s x HI) as (a1 & o & new & ac & Hg & HW1 & HJ1 & Hl1 & Hoth & He1 & Hf1 & Har & Hgn & Hcase).
  unfold simo. simpl. rewrite Hg. simpl. unfold upd_acct. rewrite Hgn.
  pose proof Har as (_ & _ & _ & _ & Hst & Hcm & HD & HO & Hcan).
  destruct (obj_getstate_spec (a_pers a) x o k HD HO) as (ol & om & Hgs & HO1). rewrite Hgs. simpl.
  set (o1 := set_origin o ol om) in *.
  assert (arel (a_pers a) x o1 ac) as Har1 by (apply arel_set_origin; assumption).
  destruct (so_spec a1 x o1 HW1 HJ1) as (a2 & Hs2 & HW2 & HJ2 & Hl2 & He2 & Hf2). rewrite Hs2. simpl.
  destruct (oget (a_pers a) x o k =? v) eqn:Ev.
  - apply Z.eqb_eq in Ev. eexists _, _, _. split; [reflexivity|]. split; [reflexivity|].
    assert (cset k v (stor ac) = stor ac) as ->. { rewrite <- Ev, Hst. apply cset_same. exact Hcan. }
    rewrite with_stor_same.
    eapply (fin_rel a s x a1 a2 new [] ac ac o1); eauto.
    + rewrite app_nil_r. exact He2.
  - destruct (j_append_spec a2 (EStorage x k (oget (a_pers a) x o k)) HJ2) as (dl & dm & Hj & HJ3). rewrite Hj. simpl.
    set (a3 := w_dirties (w_entries a2 (a_entries a2 ++ [EStorage x k (oget (a_pers a) x o k)])) dl dm) in *.
    destruct (obj_setstate_spec (a_pers a) x o1 k v HD) as (dl2 & dm2 & Hss & HD2 & Hget2). rewrite Hss. simpl.
    set (o2 := set_dirty o1 dl2 dm2) in *.
    assert (WO a3) as HW3 by exact HW2.
    destruct (so_spec a3 x o2 HW3 HJ3) as (a4 & Hs4 & HW4 & HJ4 & Hl4 & He4 & Hf4). rewrite Hs4. simpl.
    eexists _, _, _. split; [reflexivity|]. split; [reflexivity|].
    destruct Hf2 as (Hp2 & Hr2 & Hn2 & Hrf2 & Hx2). destruct Hf4 as (Hp4 & Hr4 & Hn4 & Hrf4 & Hx4).
    eapply (fin_rel a s x a1 a4 new [EStorage x k (oget (a_pers a) x o k)] ac _ o2); eauto.
    + intros y. rewrite Hl4. destruct (decide (x = y)) as [<-|Hne]; [reflexivity|].
      change (look a3 y) with (look a2 y). rewrite Hl2. rewrite decide_False by done. reflexivity.
    + rewrite He4. simpl. rewrite He2. reflexivity.
    + assert (aux a4 = aux a1) as Hx41 by (rewrite Hx4; exact Hx2).
      unfold a3 in *. simpl in *. unfold same_frame. repeat split; congruence.
    + destruct Har1 as (A & B & C & D & E & F & G & H & I).
      unfold arel. simpl. refine (conj A (conj B (conj C (conj D (conj _ (conj F (conj HD2 (conj H _)))))))).
      * intros k'. rewrite Hget2. rewrite cset_get by exact I. destruct (decide (k = k')); [reflexivity|apply E].
      * apply cset_canon. exact I.
    + repeat constructor.
    + simpl. unfold with_accts; simpl. rewrite alter_insert. simpl.
      rewrite Hst. rewrite cset_undo by exact Hcan. rewrite with_stor_undo. reflexivity.
Qed.

Lemma sim_Suicide a s x : Inv a s -> simo a s (Suicide x).
Proof.
  intros HI. unfold simo. simpl.
  destruct (get_obj_spec a x (i_wo _ _ HI)) as (l & m & Hg & HW1 & Hl1). rewrite Hg. simpl.
  set (a1 := w_objs a l m) in *.
  pose proof (proj1 (i_crel _ _ HI) x) as Hx. unfold orel in Hx.
  destruct (look a x) as [o|] eqn:Hlx.
  - destruct (accts (cur s) !! x) as [ac|] eqn:Hac; [|done].
    pose proof Hx as (Ab & _ & _ & As & _).
    destruct (js_spec a1 (ESuicide x (o_suic o) (o_bal o)) x (set_suic o true) HW1 (i_jok _ _ HI))
      as (a2 & a3 & Hj & Hs & HW3 & HJ3 & Hl3 & He3 & Hf3).
    rewrite Hj. simpl. rewrite Hs. simpl. unfold so_set_balance.
    destruct (js_spec a3 (EBalance x (o_bal (set_suic o true))) x (set_bal (set_suic o true) 0) HW3 HJ3)
      as (a4 & a5 & Hj5 & Hs5 & HW5 & HJ5 & Hl5 & He5 & Hf5).
    rewrite Hj5. simpl. rewrite Hs5. simpl.
    eexists _, _, _. split; [reflexivity|]. split; [reflexivity|].
    destruct Hf3 as (Hp3 & Hr3 & Hn3 & Hrf3 & Hx3). destruct Hf5 as (Hp5 & Hr5 & Hn5 & Hrf5 & Hx5).
    eapply (fin_rel a s x a1 a5 [] [ESuicide x (o_suic o) (o_bal o); EBalance x (o_bal o)] ac
              (with_suic (with_bal ac 0) true) (set_bal (set_suic o true) 0) HI).
    + intros y _. apply Hl1.
    + simpl. rewrite app_nil_r. reflexivity.
    + repeat split.
    + left. done.
    + exact HW5.
    + exact HJ5.
    + intros y. rewrite Hl5. destruct (decide (x = y)) as [<-|Hne]; [reflexivity|]. rewrite Hl3. rewrite decide_False by done. reflexivity.
    + rewrite He5, He3. rewrite <- app_assoc. reflexivity.
    + unfold same_frame. repeat split; congruence.
    + apply (arel_bal _ _ _ _ 0 (arel_suic _ _ _ _ true Hx)).
    + repeat constructor.
    + simpl. unfold sundo_list; simpl. unfold with_accts; simpl. rewrite alter_insert. simpl. rewrite alter_insert. simpl.
      f_equal. f_equal. destruct ac; simpl in *. subst. reflexivity.
  - destruct (accts (cur s) !! x) as [ac|] eqn:Hac; [done|].
    eexists _, _, _. split; [reflexivity|]. split; [reflexivity|].
    apply (inv_same_spec a a1 s HI HW1 (i_jok _ _ HI)); try reflexivity.
    intros y. rewrite Hl1. apply (proj1 (i_crel _ _ HI)).
Qed.

(* ---- Snapshot ---------------------------------------------------------------------------- *)
Lemma sim_Snapshot a s : Inv a s -> sim a s Snapshot.
Proof.
  intros HI. apply simo_sim. unfold simo. simpl.
  eexists _, _, _. split; [reflexivity|]. split; [rewrite (i_id _ _ HI); reflexivity|].
  destruct (i_sr _ _ HI) as [HF Hm]. split; simpl.
  - exact (i_wo _ _ HI).
  - exact (i_jok _ _ HI).
  - exact (i_nr _ _ HI).
  - exact (i_crel _ _ HI).
  - rewrite (i_id _ _ HI). reflexivity.
  - split; simpl.
    + apply Forall2_app; [exact HF|]. constructor; [|constructor]. simpl.
      split; [exact (i_id _ _ HI)|]. split; [lia|]. rewrite drop_all. reflexivity.
    + intros i j r1 r2 H1 H2 Hij.
      destruct (decide (j < length (a_revs a))%nat) as [Hlt|Hge].
      * rewrite lookup_app_l in H1 by lia. rewrite lookup_app_l in H2 by lia. eapply Hm; eauto.
      * rewrite lookup_app_r in H2 by lia.
        destruct (j - length (a_revs a))%nat eqn:E; simpl in H2; [|rewrite lookup_nil in H2; done].
        inversion H2; subst r2. simpl.
        destruct (decide (i < length (a_revs a))%nat) as [Hlt'|Hge'].
        -- rewrite lookup_app_l in H1 by lia.
           destruct (Forall2_lookup_l _ _ _ _ _ HF H1) as (sn & _ & _ & Hle & _). exact Hle.
        -- rewrite lookup_app_r in H1 by lia.
           destruct (i - length (a_revs a))%nat eqn:E'; simpl in H1; [|rewrite lookup_nil in H1; done].
           inversion H1; subst r1. simpl. lia.
  - exact (i_ent _ _ HI).
  - exact (i_ne _ _ HI).
  - exact (i_aux _ _ HI).
  - exact (i_ex _ _ HI).
Qed.

(* ---- RevertToSnapshot -------------------------------------------------------------------- *)
Lemma crel_frame a a' c : a_pers a' = a_pers a -> a_refund a' = a_refund a ->
  (forall y, look a' y = look a y) -> crel a c -> crel a' c.
Proof.
  intros Hp Hf Hl [H1 H2]. split; [|rewrite Hf; exact H2]. intros y. rewrite Hp, Hl. apply H1.
Qed.

Lemma crel_alter a a' c x o' f ac :
  a_pers a' = a_pers a -> a_refund a' = a_refund a ->
  (forall y, look a' y = if decide (x = y) then Some o' else look a y) ->
  crel a c -> accts c !! x = Some ac -> arel (a_pers a) x o' (f ac) ->
  crel a' (with_accts c (alter f x (accts c))).
Proof.
  intros Hp Hf Hl [H1 H2] Hac Har. split; [|rewrite Hf; exact H2]. intros y. rewrite Hp, Hl. simpl.
  destruct (decide (x = y)) as [<-|Hne].
  - rewrite lookup_alter, Hac. exact Har.
  - rewrite lookup_alter_ne by done. apply H1.
Qed.

Definition keeps (a a' : astate) : Prop :=
  a_pers a' = a_pers a /\ a_entries a' = a_entries a /\ a_revs a' = a_revs a /\ a_nextid a' = a_nextid a.

Lemma live_obj_spec a x a1 o : WO a -> live_obj a x = Some (a1, o) ->
  look a x = Some o /\ WO a1 /\ (forall y, look a1 y = look a y) /\ keeps a a1 /\ a_refund a1 = a_refund a /\
  a_dirties a1 = a_dirties a /\ a_jidx a1 = a_jidx a.
Proof.
  intros HW. unfold live_obj. destruct (get_obj_spec a x HW) as (l & m & Hg & HW1 & Hl1). rewrite Hg. simpl.
  destruct (look a x) as [o0|]; simpl; [|done]. intros [= <- <-].
  split; [reflexivity|]. split; [exact HW1|]. split; [exact Hl1|]. repeat split.
Qed.

Lemma set_in_revert_spec a x o b a' : WO a -> so_set_balance_in_revert a x o b = Some a' ->
  WO a' /\ (forall y, look a' y = if decide (x = y) then Some (set_bal o b) else look a y) /\ keeps a a' /\
  a_refund a' = a_refund a.
Proof.
  intros HW. unfold so_set_balance_in_revert.
  destruct (set_obj_spec a x (set_bal o b) HW) as (l & m & Hs & HW' & Hl). rewrite Hs. intros [= <-].
  split; [exact HW'|]. split; [exact Hl|]. repeat split.
Qed.

Lemma revert_entry_sim a c e a' :
  WO a -> crel a c -> entry_ok (a_pers a) e -> revert_entry a e = Some a' ->
  WO a' /\ crel a' (sundo e c) /\ keeps a a'.
Proof.
  intros HW HC Hok Hre. destruct e as [x|x prev|x prev pb|x prev|x prev|x k prev|x ph pc|prev| |x|x|x k]; simpl in *; try done.
  - (* ECreate *) inversion Hre; subst a'. destruct (remove_obj_spec a x HW) as (l & m & -> & HW' & Hl).
    split; [exact HW'|]. split; [|repeat split]. split; [|exact (proj2 HC)]. intros y. simpl.
    change (a_pers (w_objs a l m)) with (a_pers a). rewrite Hl. destruct (decide (x = y)) as [<-|Hne].
    + rewrite lookup_delete, Hok. exact I.
    + rewrite lookup_delete_ne by done. apply (proj1 HC).
  - (* ESuicide *)
    destruct (get_obj_spec a x HW) as (l & m & Hg & HW1 & Hl1). rewrite Hg in Hre. simpl in Hre.
    set (a1 := w_objs a l m) in *.
    pose proof (proj1 HC x) as Hx. unfold orel in Hx.
    destruct (look a x) as [o|] eqn:Hlx.
    + destruct (accts c !! x) as [ac|] eqn:Hac; [|done].
      destruct (set_obj_spec a1 x (set_suic o prev) HW1) as (l2 & m2 & Hs & HW2 & Hl2). rewrite Hs in Hre. simpl in Hre.
      destruct (set_in_revert_spec (w_objs a1 l2 m2) _ _ _ _ HW2 Hre) as (HW' & Hl' & (Hp & He & Hr & Hn) & Hf).
      split; [exact HW'|]. split; [|repeat split; assumption].
      eapply (crel_alter a a' c x _ _ ac); eauto.
      * intros y. rewrite Hl'. destruct (decide (x = y)); [reflexivity|]. rewrite Hl2. rewrite decide_False by done. apply Hl1.
      * apply (arel_suic _ _ _ _ prev (arel_bal _ _ _ _ pb Hx)).
    + inversion Hre; subst a'. destruct (accts c !! x) as [ac|] eqn:Hac; [done|].
      split; [exact HW1|]. split; [|repeat split].
      split; [|exact (proj2 HC)]. intros y. simpl. change (a_pers a1) with (a_pers a). rewrite Hl1.
      destruct (decide (x = y)) as [<-|Hne].
      * rewrite lookup_alter, Hac, Hlx. exact I.
      * rewrite lookup_alter_ne by done. apply (proj1 HC).
  - (* EBalance *)
    destruct (live_obj a x) as [[a1 o]|] eqn:Hlo; simpl in Hre; [|done].
    destruct (live_obj_spec _ _ _ _ HW Hlo) as (Hlx & HW1 & Hl1 & (Hp1 & He1 & Hr1 & Hn1) & Hf1 & _).
    destruct (set_in_revert_spec _ _ _ _ _ HW1 Hre) as (HW' & Hl' & (Hp & He & Hr & Hn) & Hf).
    pose proof (proj1 HC x) as Hx. unfold orel in Hx. rewrite Hlx in Hx.
    destruct (accts c !! x) as [ac|] eqn:Hac; [|done].
    split; [exact HW'|]. split; [|repeat split; congruence].
    eapply (crel_alter a a' c x _ _ ac); eauto; try congruence.
    * intros y. rewrite Hl'. destruct (decide (x = y)); [reflexivity|apply Hl1].
    * apply arel_bal. exact Hx.
  - (* ENonce *)
    destruct (live_obj a x) as [[a1 o]|] eqn:Hlo; simpl in Hre; [|done].
    destruct (live_obj_spec _ _ _ _ HW Hlo) as (Hlx & HW1 & Hl1 & (Hp1 & He1 & Hr1 & Hn1) & Hf1 & _).
    destruct (set_obj_spec a1 x (set_nonce o prev) HW1) as (l & m & Hs & HW' & Hl'). rewrite Hs in Hre. inversion Hre; subst a'.
    pose proof (proj1 HC x) as Hx. unfold orel in Hx. rewrite Hlx in Hx.
    destruct (accts c !! x) as [ac|] eqn:Hac; [|done].
    split; [exact HW'|]. split; [|repeat split; simpl; congruence].
    eapply (crel_alter a _ c x _ _ ac); eauto.
    * intros y. rewrite Hl'. destruct (decide (x = y)); [reflexivity|apply Hl1].
    * apply arel_nonce. exact Hx.
  - (* EStorage *)
    destruct (live_obj a x) as [[a1 o]|] eqn:Hlo; simpl in Hre; [|done].
    destruct (live_obj_spec _ _ _ _ HW Hlo) as (Hlx & HW1 & Hl1 & (Hp1 & He1 & Hr1 & Hn1) & Hf1 & _).
    pose proof (proj1 HC x) as Hx. unfold orel in Hx. rewrite Hlx in Hx.
    destruct (accts c !! x) as [ac|] eqn:Hac; [|done].
    destruct Hx as (A & B & C & D & E & F & G & H & I).
    destruct (obj_setstate_spec (a_pers a) x o k prev G) as (dl & dm & Hss & HD2 & Hget2). rewrite Hss in Hre. simpl in Hre.
    destruct (set_obj_spec a1 x (set_dirty o dl dm) HW1) as (l & m & Hs & HW' & Hl'). rewrite Hs in Hre. inversion Hre; subst a'.
    split; [exact HW'|]. split; [|repeat split; simpl; congruence].
    eapply (crel_alter a _ c x _ _ ac); eauto.
    * intros y. rewrite Hl'. destruct (decide (x = y)); [reflexivity|apply Hl1].
    * unfold arel. simpl. refine (conj A (conj B (conj C (conj D (conj _ (conj F (conj HD2 (conj H _)))))))).
      -- intros k'. rewrite Hget2. rewrite cset_get by exact I. destruct (decide (k = k')); [reflexivity|apply E].
      -- apply cset_canon. exact I.
  - (* ECode *)
    destruct (live_obj a x) as [[a1 o]|] eqn:Hlo; simpl in Hre; [|done].
    destruct (live_obj_spec _ _ _ _ HW Hlo) as (Hlx & HW1 & Hl1 & (Hp1 & He1 & Hr1 & Hn1) & Hf1 & _).
    destruct (set_obj_spec a1 x (set_code o ph pc) HW1) as (l & m & Hs & HW' & Hl'). rewrite Hs in Hre. inversion Hre; subst a'.
    pose proof (proj1 HC x) as Hx. unfold orel in Hx. rewrite Hlx in Hx.
    destruct (accts c !! x) as [ac|] eqn:Hac; [|done].
    split; [exact HW'|]. split; [|repeat split; simpl; congruence].
    eapply (crel_alter a _ c x _ _ ac); eauto.
    * intros y. rewrite Hl'. destruct (decide (x = y)); [reflexivity|apply Hl1].
    * subst pc. apply arel_code. exact Hx.
  - (* ERefund *) inversion Hre; subst a'. split; [exact HW|]. split; [|repeat split].
    split; [exact (proj1 HC)|reflexivity].
  - (* ELog *) inversion Hre; subst a'. split; [exact HW|]. split; [|repeat split].
    split; [exact (proj1 HC)|exact (proj2 HC)].
  - (* ETouch *) inversion Hre; subst a'. split; [exact HW|]. split; [exact HC|repeat split].
  - (* EAlAddr *) inversion Hre; subst a'. split; [exact HW|]. split; [|repeat split].
    split; [exact (proj1 HC)|exact (proj2 HC)].
  - (* EAlSlot *) inversion Hre; subst a'. split; [exact HW|]. split; [|repeat split].
    split; [exact (proj1 HC)|exact (proj2 HC)].
Qed.

(* logs and access list under revert *)
Definition auxundo (e : entry) (t : list (N * N * Z) * Z * gmap addr unit * gmap (addr * key) unit) :=
  let '(lg, sz, aa, sl) := t in
  match e with
  | ELog => (removelast lg, sz - 1, aa, sl)
  | EAlAddr x => (lg, sz, delete x aa, sl)
  | EAlSlot x k => (lg, sz, aa, delete (x, k) sl)
  | _ => t
  end.
Lemma sundo_aux e c : saux (sundo e c) = auxundo e (saux c).
Proof. destruct e; reflexivity. Qed.

Lemma set_obj_shape a x o a' : set_obj a x o = Some a' -> exists l m, a' = w_objs a l m.
Proof.
  unfold set_obj. destruct (a_oidx a !! x); [destruct (a_objs a !! _); simpl|]; intros [= <-]; eauto.
Qed.
Lemma get_obj_shape a x a1 so : get_obj a x = Some (a1, so) -> exists l m, a1 = w_objs a l m.
Proof.
  unfold get_obj. destruct (a_oidx a !! x).
  - destruct (a_objs a !! _); simpl; intros [= <- <-]. exists (a_objs a), (a_oidx a). destruct a; reflexivity.
  - destruct (load (a_pers a) x).
    + destruct (set_obj a x o) as [a2|] eqn:Hs; simpl; [|done]. intros [= <- <-]. eapply set_obj_shape; eauto.
    + intros [= <- <-]. exists (a_objs a), (a_oidx a). destruct a; reflexivity.
Qed.
Lemma live_obj_aux a x a1 o : live_obj a x = Some (a1, o) -> aux a1 = aux a.
Proof.
  unfold live_obj. destruct (get_obj a x) as [[a2 so]|] eqn:Hg; simpl; [|done].
  destruct so; simpl; [|done]. intros [= <- <-]. destruct (get_obj_shape _ _ _ _ Hg) as (l & m & ->). reflexivity.
Qed.
Lemma set_in_revert_aux a x o b a' : so_set_balance_in_revert a x o b = Some a' -> aux a' = aux a.
Proof.
  unfold so_set_balance_in_revert. intros Hs. destruct (set_obj_shape _ _ _ _ Hs) as (l & m & ->). reflexivity.
Qed.

Lemma revert_entry_aux a e a' : revert_entry a e = Some a' -> aux a' = auxundo e (aux a).
Proof.
  destruct e as [x|x prev|x prev pb|x prev|x prev|x k prev|x ph pc|prev| |x|x|x k]; simpl; intros Hre.
  - inversion Hre; subst. unfold remove_obj. destruct (a_oidx a !! x); [destruct (decide _)|]; reflexivity.
  - destruct (set_obj_shape _ _ _ _ Hre) as (l & m & ->). reflexivity.
  - destruct (get_obj a x) as [[a1 so]|] eqn:Hg; simpl in Hre; [|done].
    destruct (get_obj_shape _ _ _ _ Hg) as (l & m & ->). destruct so as [o|].
    + destruct (set_obj _ x (set_suic o prev)) as [a2|] eqn:Hs; simpl in Hre; [|done].
      destruct (set_obj_shape _ _ _ _ Hs) as (l2 & m2 & ->). rewrite (set_in_revert_aux _ _ _ _ _ Hre). reflexivity.
    + inversion Hre; subst. reflexivity.
  - destruct (live_obj a x) as [[a1 o]|] eqn:Hl; simpl in Hre; [|done].
    rewrite (set_in_revert_aux _ _ _ _ _ Hre). exact (live_obj_aux _ _ _ _ Hl).
  - destruct (live_obj a x) as [[a1 o]|] eqn:Hl; simpl in Hre; [|done].
    destruct (set_obj_shape _ _ _ _ Hre) as (l & m & ->). exact (live_obj_aux _ _ _ _ Hl).
  - destruct (live_obj a x) as [[a1 o]|] eqn:Hl; simpl in Hre; [|done].
    destruct (obj_setstate o k prev); simpl in Hre; [|done].
    destruct (set_obj_shape _ _ _ _ Hre) as (l & m & ->). exact (live_obj_aux _ _ _ _ Hl).
  - destruct (live_obj a x) as [[a1 o]|] eqn:Hl; simpl in Hre; [|done].
    destruct (set_obj_shape _ _ _ _ Hre) as (l & m & ->). exact (live_obj_aux _ _ _ _ Hl).
  - inversion Hre; subst. reflexivity.
  - inversion Hre; subst. reflexivity.
  - inversion Hre; subst. reflexivity.
  - inversion Hre; subst. reflexivity.
  - inversion Hre; subst. reflexivity.
Qed.


Lemma dirties_step_frame a1 x a2 :
  (a' ← sub_dirty a1 x; n ← get_dirty a' x; if n =? 0 then delete_dirty a' x else Some a') = Some a2 ->
  exists l m, a2 = w_dirties a1 l m.
Proof.
  destruct (sub_dirty a1 x) as [a'|] eqn:H1; simpl; [|done].
  destruct (sub_dirty_shape _ _ _ H1) as (l & m & ->).
  destruct (get_dirty _ x) as [n|]; simpl; [|done].
  destruct (n =? 0).
  - intros H2. destruct (delete_dirty_shape _ _ _ H2) as (l' & m' & ->). eauto.
  - intros [= <-]. eauto.
Qed.

Lemma revert_list_sim L : forall a c a',
  WO a -> crel a c -> Forall (entry_ok (a_pers a)) L -> revert_list a L = Some a' ->
  WO a' /\ crel a' (sundo_list L c) /\ keeps a a'.
Proof.
  induction L as [|e L IH]; intros a c a' HW HC Hok Hr; simpl in Hr.
  - inversion Hr; subst. split; [exact HW|]. split; [exact HC|repeat split].
  - destruct (revert_entry a e) as [a1|] eqn:He; simpl in Hr; [|done].
    inversion Hok as [|? ? Hoe HoL]; subst.
    destruct (revert_entry_sim a c e a1 HW HC Hoe He) as (HW1 & HC1 & (Hp1 & He1 & Hr1 & Hn1)).
    assert (exists a2, match dirtied e with
                       | Some x => a'0 ← sub_dirty a1 x; n ← get_dirty a'0 x; if n =? 0 then delete_dirty a'0 x else Some a'0
                       | None => Some a1 end = Some a2 /\ revert_list a2 L = Some a') as (a2 & Hd & Hrl).
    { destruct (match dirtied e with Some _ => _ | None => _ end) as [a2|]; simpl in Hr; [|done]. eauto. }
    assert (exists l m, a2 = w_dirties a1 l m) as (dl & dm & ->).
    { destruct (dirtied e) as [x|]; [apply (dirties_step_frame _ _ _ Hd)|].
      inversion Hd; subst. exists (a_dirties a2), (a_jidx a2). destruct a2; reflexivity. }
    destruct (IH (w_dirties a1 dl dm) (sundo e c) a') as (HW' & HC' & (Hp' & He' & Hr' & Hn')).
    + exact HW1.
    + exact HC1.
    + simpl. rewrite Hp1. exact HoL.
    + exact Hrl.
    + split; [exact HW'|]. split; [exact HC'|]. simpl in *. repeat split; congruence.
Qed.

Lemma revert_list_aux L : forall a a', revert_list a L = Some a' ->
  aux a' = fold_left (fun t e => auxundo e t) L (aux a).
Proof.
  induction L as [|e L IH]; intros a a' Hr; simpl in Hr; [inversion Hr; reflexivity|].
  destruct (revert_entry a e) as [a1|] eqn:He; simpl in Hr; [|done].
  assert (exists a2, match dirtied e with
                     | Some x => a'0 ← sub_dirty a1 x; n ← get_dirty a'0 x; if n =? 0 then delete_dirty a'0 x else Some a'0
                     | None => Some a1 end = Some a2 /\ revert_list a2 L = Some a') as (a2 & Hd & Hrl).
  { destruct (match dirtied e with Some _ => _ | None => _ end) as [a2|]; simpl in Hr; [|done]. eauto. }
  assert (aux a2 = aux a1) as Hx.
  { destruct (dirtied e) as [x|]; [destruct (dirties_step_frame _ _ _ Hd) as (l & m & ->); reflexivity|].
    inversion Hd; reflexivity. }
  simpl. rewrite (IH _ _ Hrl), Hx, (revert_entry_aux _ _ _ He). reflexivity.
Qed.
Lemma sundo_list_aux L : forall c, saux (sundo_list L c) = fold_left (fun t e => auxundo e t) L (saux c).
Proof.
  induction L as [|e L IH]; intros c; [reflexivity|]. unfold sundo_list in *. simpl. rewrite IH, sundo_aux. reflexivity.
Qed.

Lemma find_agree id : forall (revs : list (Z * nat)) (snaps : list (Z * core)) i,
  Forall2 (fun r sn => r.1 = sn.1) revs snaps ->
  match find_rev id revs i with
  | Some (j, n) => exists c', find_snap id snaps i = Some (j, c') /\ (i <= j)%nat /\
                     revs !! (j - i)%nat = Some (id, n) /\ snaps !! (j - i)%nat = Some (id, c')
  | None => find_snap id snaps i = None
  end.
Proof.
  induction revs as [|[j0 n0] revs IH]; intros snaps i HF.
  - inversion HF; subst. reflexivity.
  - inversion HF as [|? [j1 c1] ? snaps' Hh Ht]; subst. simpl in Hh. subst j1. simpl.
    destruct (j0 =? id) eqn:E.
    + apply Z.eqb_eq in E. subst. exists c1. rewrite Nat.sub_diag. simpl. repeat split; lia || reflexivity.
    + destruct (id <? j0); [reflexivity|].
      specialize (IH snaps' (S i) Ht). destruct (find_rev id revs (S i)) as [[j n]|]; [|exact IH].
      destruct IH as (c' & H1 & H2 & H3 & H4). exists c'. split; [exact H1|]. split; [lia|].
      replace (j - i)%nat with (S (j - S i)) by lia. simpl. split; assumption.
Qed.

Lemma drop_split (l : list entry) r n : (r <= n)%nat -> (n <= length l)%nat ->
  drop r l = drop r (take n l) ++ drop n l.
Proof.
  intros H1 H2. rewrite <- (take_drop n l) at 1. rewrite drop_app_le; [reflexivity|].
  rewrite take_length. lia.
Qed.

(* since fix 4b2faa6 a revert cannot panic and leaves the dirties index in step *)
Lemma revert_entry_dirties a e a' : revert_entry a e = Some a' ->
  a_dirties a' = a_dirties a /\ a_jidx a' = a_jidx a.
Proof.
  destruct e as [x|x prev|x prev pb|x prev|x prev|x k prev|x ph pc|prev| |x|x|x k]; simpl; intros Hre.
  - inversion Hre; subst. unfold remove_obj. destruct (a_oidx a !! x); [destruct (decide _)|]; split; reflexivity.
  - destruct (set_obj_shape _ _ _ _ Hre) as (l & m & ->). split; reflexivity.
  - destruct (get_obj a x) as [[a1 so]|] eqn:Hg; simpl in Hre; [|done].
    destruct (get_obj_shape _ _ _ _ Hg) as (l & m & ->). destruct so as [o|].
    + destruct (set_obj _ x (set_suic o prev)) as [a2|] eqn:Hs; simpl in Hre; [|done].
      destruct (set_obj_shape _ _ _ _ Hs) as (l2 & m2 & ->). unfold so_set_balance_in_revert in Hre.
      destruct (set_obj_shape _ _ _ _ Hre) as (l3 & m3 & ->). split; reflexivity.
    + inversion Hre; subst. split; reflexivity.
  - destruct (live_obj a x) as [[a1 o]|] eqn:Hl; simpl in Hre; [|done]. unfold live_obj in Hl.
    destruct (get_obj a x) as [[a2 so]|] eqn:Hg; simpl in Hl; [|done]. destruct so; simpl in Hl; [|done]. inversion Hl; subst.
    destruct (get_obj_shape _ _ _ _ Hg) as (l & m & ->). unfold so_set_balance_in_revert in Hre.
    destruct (set_obj_shape _ _ _ _ Hre) as (l3 & m3 & ->). split; reflexivity.
  - destruct (live_obj a x) as [[a1 o]|] eqn:Hl; simpl in Hre; [|done]. unfold live_obj in Hl.
    destruct (get_obj a x) as [[a2 so]|] eqn:Hg; simpl in Hl; [|done]. destruct so; simpl in Hl; [|done]. inversion Hl; subst.
    destruct (get_obj_shape _ _ _ _ Hg) as (l & m & ->).
    destruct (set_obj_shape _ _ _ _ Hre) as (l3 & m3 & ->). split; reflexivity.
  - destruct (live_obj a x) as [[a1 o]|] eqn:Hl; simpl in Hre; [|done]. unfold live_obj in Hl.
    destruct (get_obj a x) as [[a2 so]|] eqn:Hg; simpl in Hl; [|done]. destruct so; simpl in Hl; [|done]. inversion Hl; subst.
    destruct (get_obj_shape _ _ _ _ Hg) as (l & m & ->). destruct (obj_setstate o k prev); simpl in Hre; [|done].
    destruct (set_obj_shape _ _ _ _ Hre) as (l3 & m3 & ->). split; reflexivity.
  - destruct (live_obj a x) as [[a1 o]|] eqn:Hl; simpl in Hre; [|done]. unfold live_obj in Hl.
    destruct (get_obj a x) as [[a2 so]|] eqn:Hg; simpl in Hl; [|done]. destruct so; simpl in Hl; [|done]. inversion Hl; subst.
    destruct (get_obj_shape _ _ _ _ Hg) as (l & m & ->).
    destruct (set_obj_shape _ _ _ _ Hre) as (l3 & m3 & ->). split; reflexivity.
  - inversion Hre; subst. split; reflexivity.
  - inversion Hre; subst. split; reflexivity.
  - inversion Hre; subst. split; reflexivity.
  - inversion Hre; subst. split; reflexivity.
  - inversion Hre; subst. split; reflexivity.
Qed.

Lemma live_obj_total a x o : WO a -> look a x = Some o -> exists a1, live_obj a x = Some (a1, o).
Proof.
  intros HW Hl. unfold live_obj. destruct (get_obj_spec a x HW) as (l & m & Hg & _). rewrite Hg, Hl. simpl. eauto.
Qed.

Lemma revert_entry_total a c e : WO a -> crel a c -> entry_ok (a_pers a) e ->
  match needs_live e with Some x => is_Some (accts c !! x) | None => True end ->
  exists a', revert_entry a e = Some a'.
Proof.
  intros HW HC Hok Hlive.
  assert (forall x, is_Some (accts c !! x) -> exists o ac, look a x = Some o /\ accts c !! x = Some ac /\ arel (a_pers a) x o ac) as Hget.
  { intros x [ac Hac]. pose proof (proj1 HC x) as Hx. rewrite Hac in Hx. unfold orel in Hx.
    destruct (look a x) as [o|]; [|done]. eauto. }
  destruct e as [x|x prev|x prev pb|x prev|x prev|x k prev|x ph pc|prev| |x|x|x k]; simpl in *; try done; eauto.
  - (* ESuicide *)
    destruct (get_obj_spec a x HW) as (l & m & Hg & HW1 & _). rewrite Hg. simpl.
    destruct (look a x) as [o|]; [|eauto].
    destruct (set_obj_spec (w_objs a l m) x (set_suic o prev) HW1) as (l2 & m2 & Hs & HW2 & _). rewrite Hs. simpl.
    unfold so_set_balance_in_revert.
    destruct (set_obj_spec (w_objs (w_objs a l m) l2 m2) x (set_bal (set_suic o prev) pb) HW2) as (l3 & m3 & Hs3 & _). eauto.
  - destruct (Hget x Hlive) as (o & ac & Hl & _). destruct (live_obj_total a x o HW Hl) as (a1 & Hlo). rewrite Hlo. simpl.
    destruct (live_obj_spec _ _ _ _ HW Hlo) as (_ & HW1 & _). unfold so_set_balance_in_revert.
    destruct (set_obj_spec a1 x (set_bal o prev) HW1) as (l3 & m3 & Hs3 & _). eauto.
  - destruct (Hget x Hlive) as (o & ac & Hl & _). destruct (live_obj_total a x o HW Hl) as (a1 & Hlo). rewrite Hlo. simpl.
    destruct (live_obj_spec _ _ _ _ HW Hlo) as (_ & HW1 & _).
    destruct (set_obj_spec a1 x (set_nonce o prev) HW1) as (l3 & m3 & Hs3 & _). eauto.
  - destruct (Hget x Hlive) as (o & ac & Hl & _ & Har). destruct (live_obj_total a x o HW Hl) as (a1 & Hlo). rewrite Hlo. simpl.
    destruct (live_obj_spec _ _ _ _ HW Hlo) as (_ & HW1 & _).
    destruct Har as (_ & _ & _ & _ & _ & _ & HD & _).
    destruct (obj_setstate_spec (a_pers a) x o k prev HD) as (dl & dm & Hss & _). rewrite Hss. simpl.
    destruct (set_obj_spec a1 x (set_dirty o dl dm) HW1) as (l3 & m3 & Hs3 & _). eauto.
  - destruct (Hget x Hlive) as (o & ac & Hl & _). destruct (live_obj_total a x o HW Hl) as (a1 & Hlo). rewrite Hlo. simpl.
    destruct (live_obj_spec _ _ _ _ HW Hlo) as (_ & HW1 & _).
    destruct (set_obj_spec a1 x (set_code o ph pc) HW1) as (l3 & m3 & Hs3 & _). eauto.
Qed.

Lemma dirties_step_total a1 x : JOK a1 ->
  exists l m, (a' ← sub_dirty a1 x; n ← get_dirty a' x; if n =? 0 then delete_dirty a' x else Some a') = Some (w_dirties a1 l m)
              /\ JOKl l m.
Proof.
  intros HJ. destruct (sub_dirty_JOK a1 x HJ) as (l & m & Hs & HJ1). rewrite Hs. simpl.
  assert (JOK (w_dirties a1 l m)) as HJ1' by exact HJ1.
  destruct (get_dirty_JOK _ x HJ1') as (n & Hn). rewrite Hn. simpl. destruct (n =? 0).
  - destruct (delete_dirty_JOK _ x HJ1') as (l2 & m2 & Hd & HJ2). rewrite Hd. exists l2, m2. split; [reflexivity|exact HJ2].
  - exists l, m. split; [reflexivity|exact HJ1].
Qed.

Lemma revert_list_total L : forall a c, WO a -> JOK a -> crel a c ->
  Forall (entry_ok (a_pers a)) L -> ex_ok L c -> exists a', revert_list a L = Some a' /\ JOK a'.
Proof.
  induction L as [|e L IH]; intros a c HW HJ HC Hok Hex; simpl; [eauto|].
  inversion Hok as [|? ? Hoe HoL]; subst. destruct Hex as [Hlive Hex].
  destruct (revert_entry_total a c e HW HC Hoe Hlive) as (a1 & He). rewrite He. simpl.
  destruct (revert_entry_sim a c e a1 HW HC Hoe He) as (HW1 & HC1 & (Hp1 & _)).
  destruct (revert_entry_dirties a e a1 He) as (Hd1 & Hj1).
  assert (JOK a1) as HJ1 by (unfold JOK; rewrite Hd1, Hj1; exact HJ).
  destruct (dirtied e) as [x|].
  - destruct (dirties_step_total a1 x HJ1) as (l & m & Hs & HJ2). rewrite Hs. simpl.
    apply (IH (w_dirties a1 l m) (sundo e c)); [exact HW1|exact HJ2|exact HC1|simpl; rewrite Hp1; exact HoL|exact Hex].
  - simpl. apply (IH a1 (sundo e c)); [exact HW1|exact HJ1|exact HC1|rewrite Hp1; exact HoL|exact Hex].
Qed.

Lemma sim_Revert a s id : Inv a s -> sim a s (RevertToSnapshot id).
Proof.
  intros HI. destruct (i_sr _ _ HI) as [HF Hm].
  assert (Forall2 (fun r sn => r.1 = sn.1) (a_revs a) (snaps s)) as HF1.
  { eapply Forall2_impl; [exact HF|]. intros r sn (H & _). exact H. }
  pose proof (find_agree id (a_revs a) (snaps s) 0%nat HF1) as Hfa.
  unfold sim, astep.
  destruct (find_rev id (a_revs a) 0) as [[j n]|] eqn:Hfr.
  2: { simpl. rewrite Hfr. simpl. rewrite Hfa. exists OPanic, a, s. done. }
  destruct Hfa as (c' & Hfs & _ & Hrj & Hsj). rewrite Nat.sub_0_r in Hrj, Hsj.
  destruct (Forall2_lookup_lr _ _ _ _ _ _ HF Hrj Hsj) as (_ & Hn & Hc'). simpl in Hn, Hc'.
  assert (Forall (entry_ok (a_pers a)) (rev (drop n (a_entries a)))) as HokL.
  { apply Forall_rev. apply Forall_drop. exact (i_ent _ _ HI). }
  assert (ex_ok (rev (drop n (a_entries a))) (cur s) /\
          ex_ok (rev (take n (a_entries a))) (sundo_list (rev (drop n (a_entries a))) (cur s))) as [HexL HexR].
  { apply ex_ok_app. rewrite <- rev_app_distr, take_drop. exact (i_ex _ _ HI). }
  destruct (revert_list_total _ a (cur s) (i_wo _ _ HI) (i_jok _ _ HI) (i_crel _ _ HI) HokL HexL) as (a1 & Hrl & HJ1).
  simpl. rewrite Hfr. simpl. unfold j_revert. rewrite Hrl. simpl.
  destruct (revert_list_sim (rev (drop n (a_entries a))) a (cur s) a1 (i_wo _ _ HI) (i_crel _ _ HI) HokL Hrl)
    as (HW1 & HC1 & (Hp1 & He1 & Hr1 & Hn1)).
  exists OUnit. eexists. exists {| cur := c'; snaps := take j (snaps s); nextid := nextid s |}.
  split; [reflexivity|]. split; [simpl; rewrite Hfs; reflexivity|].
  split; simpl.
  - exact HW1.
  - exact HJ1.
  - rewrite Hp1. exact (i_nr _ _ HI).
  - rewrite Hc'. exact HC1.
  - rewrite Hn1. exact (i_id _ _ HI).
  - split; simpl.
    + rewrite Hr1. apply Forall2_take with (n := j) in HF.
      eapply Forall2_lookup; intros q.
      destruct (take j (a_revs a) !! q) as [r|] eqn:Hq.
      * destruct (Forall2_lookup_l _ _ _ _ _ HF Hq) as (sn & Hsn & H1 & H2 & H3). rewrite Hsn. constructor.
        assert (q < j)%nat as Hqj. { apply lookup_lt_Some in Hq. rewrite take_length in Hq. lia. }
        rewrite lookup_take in Hq by exact Hqj.
        assert (r.2 <= n)%nat as Hle. { apply (Hm q j r (id, n) Hq Hrj). lia. }
        split; [exact H1|]. split; [rewrite take_length; lia|].
        rewrite H3. rewrite (drop_split (a_entries a) r.2 n Hle Hn).
        rewrite rev_app_distr, sundo_list_app, <- Hc'. reflexivity.
      * destruct (take j (snaps s) !! q) as [sn|] eqn:Hsn; [|constructor].
        exfalso. destruct (Forall2_lookup_r _ _ _ _ _ HF Hsn) as (r & Hr' & _). congruence.
    + rewrite Hr1. intros i1 i2 r1 r2 H1 H2 Hij.
      assert (i2 < j)%nat. { apply lookup_lt_Some in H2. rewrite take_length in H2. lia. }
      rewrite lookup_take in H1 by lia. rewrite lookup_take in H2 by lia. eapply Hm; eauto.
  - rewrite Hp1. apply Forall_take. exact (i_ent _ _ HI).
  - rewrite Hp1. exact (i_ne _ _ HI).
  - rewrite Hc', sundo_list_aux, <- (i_aux _ _ HI). exact (revert_list_aux _ _ _ Hrl).
  - rewrite Hc'. exact HexR.
Qed.

(* ---- Finalise ---------------------------------------------------------------------------- *)
Definition agree_at (x : addr) (p p' : pers) : Prop :=
  p_keeper p' !! x = p_keeper p !! x /\ p_bal p' !! x = p_bal p !! x /\
  forall k, p_cstore p' !! (x, k) = p_cstore p !! (x, k).
Lemma agree_refl x p : agree_at x p p.
Proof. repeat split. Qed.
Lemma agree_trans x p1 p2 p3 : agree_at x p1 p2 -> agree_at x p2 p3 -> agree_at x p1 p3.
Proof. intros (A & B & C) (A' & B' & C'). repeat split; [congruence|congruence|intros k; rewrite C', C; reflexivity]. Qed.
Lemma agree_pslot x p p' k : agree_at x p p' -> pslot p' x k = pslot p x k.
Proof. intros (_ & _ & C). unfold pslot. rewrite C. reflexivity. Qed.
Lemma agree_load x p p' : agree_at x p p' -> load p' x = load p x.
Proof. intros (A & B & _). unfold load, pbal. rewrite A, B. reflexivity. Qed.

Lemma commit_slot_frame x o p kv :
  p_keeper (commit_slot x o p kv) = p_keeper p /\ p_bal (commit_slot x o p kv) = p_bal p /\
  p_codes (commit_slot x o p kv) = p_codes p /\
  forall y k, (y, k) <> (x, kv.1) -> p_cstore (commit_slot x o p kv) !! (y, k) = p_cstore p !! (y, k).
Proof.
  destruct kv as [k0 v0]. unfold commit_slot. simpl.
  destruct (v0 =? 0) eqn:Ev.
  - destruct (o_oidx o !! k0); simpl; repeat split; intros y k Hne; rewrite lookup_delete_ne by congruence; reflexivity.
  - destruct (o_oidx o !! k0) as [i|]; [|repeat split].
    destruct (o_origin o !! i) as [e|]; [|repeat split].
    destruct (e.2 =? v0); [repeat split|]. simpl. repeat split.
    intros y k Hne. rewrite lookup_insert_ne by congruence. reflexivity.
Qed.

Lemma commit_slot_own x o p p0 k0 v0 :
  OW p0 x o -> pslot p x k0 = pslot p0 x k0 ->
  (v0 = 0 \/ is_Some (o_oidx o !! k0)) ->
  pslot (commit_slot x o p (k0, v0)) x k0 = v0.
Proof.
  intros HO Hsame Hc. unfold commit_slot, pslot. destruct (v0 =? 0) eqn:Ev.
  - apply Z.eqb_eq in Ev. subst. destruct (o_oidx o !! k0); simpl; rewrite lookup_delete; reflexivity.
  - apply Z.eqb_neq in Ev. destruct Hc as [->|[i Hi]]; [done|]. rewrite Hi.
    rewrite (HO k0 i Hi). simpl. destruct (pslot p0 x k0 =? v0) eqn:E2.
    + apply Z.eqb_eq in E2. unfold pslot in Hsame. rewrite Hsame. exact E2.
    + simpl. rewrite lookup_insert. reflexivity.
Qed.

Definition uniqk (l : list (key * Z)) : Prop :=
  forall i j k v1 v2, l !! i = Some (k, v1) -> l !! j = Some (k, v2) -> i = j.
Lemma uniqk_tail e l : uniqk (e :: l) -> uniqk l.
Proof. intros H i j k v1 v2 H1 H2. assert (S i = S j) by (eapply H; simpl; eauto). lia. Qed.

Lemma commit_fold x o p0 l : forall p,
  OW p0 x o -> uniqk l ->
  (forall i k v, l !! i = Some (k, v) -> pslot p x k = pslot p0 x k /\ (v = 0 \/ is_Some (o_oidx o !! k))) ->
  let p' := fold_left (commit_slot x o) l p in
  p_keeper p' = p_keeper p /\ p_bal p' = p_bal p /\ p_codes p' = p_codes p /\
  (forall y k, y <> x -> p_cstore p' !! (y, k) = p_cstore p !! (y, k)) /\
  (forall k, (exists i v, l !! i = Some (k, v) /\ pslot p' x k = v) \/
             ((forall i v, l !! i <> Some (k, v)) /\ pslot p' x k = pslot p x k)).
Proof.
  induction l as [|[k0 v0] rest IH]; intros p HO Hu Hall; cbn [fold_left].
  - repeat split. intros k. right. split; [intros i v Hc; rewrite lookup_nil in Hc; done|reflexivity].
  - destruct (commit_slot_frame x o p (k0, v0)) as (F1 & F2 & F3 & F4). simpl in F4.
    destruct (Hall 0%nat k0 v0 eq_refl) as [Hs0 Hc0].
    pose proof (commit_slot_own x o p p0 k0 v0 HO Hs0 Hc0) as Hown.
    set (p1 := commit_slot x o p (k0, v0)) in *.
    destruct (IH p1 HO (uniqk_tail _ _ Hu)) as (G1 & G2 & G3 & G4 & G5).
    { intros i k v Hi. destruct (Hall (S i) k v Hi) as [Hs Hc]. split; [|exact Hc].
      rewrite <- Hs. unfold pslot. rewrite F4; [reflexivity|].
      intros [= ->]. assert (0 = S i)%nat by (eapply Hu; simpl; eauto). lia. }
    fold p1. split; [congruence|]. split; [congruence|]. split; [congruence|]. split.
    { intros y k Hy. rewrite G4 by done. apply F4. congruence. }
    intros k. destruct (G5 k) as [(i & v & Hi & Hv)|[Hno Hv]].
    + left. exists (S i), v. split; [exact Hi|exact Hv].
    + destruct (decide (k = k0)) as [->|Hne].
      * left. exists 0%nat, v0. split; [reflexivity|]. rewrite Hv. exact Hown.
      * right. split.
        -- intros [|i] v Hc; simpl in Hc; [injection Hc as E1 E2; congruence|]. exact (Hno i v Hc).
        -- rewrite Hv. unfold pslot. rewrite F4; [reflexivity|congruence].
Qed.

Lemma slots_cachedb_spec o : slots_cachedb o = true ->
  forall i k v, o_dirty o !! i = Some (k, v) -> v = 0 \/ is_Some (o_oidx o !! k).
Proof.
  unfold slots_cachedb. rewrite forallb_forall. intros H i k v Hi.
  assert (In (k, v) (o_dirty o)) as Hin by (apply elem_of_list_In; eapply elem_of_list_lookup_2; eauto).
  specialize (H _ Hin). simpl in H. apply orb_prop in H. destruct H as [H|H].
  - left. apply Z.eqb_eq. exact H.
  - right. apply bool_decide_eq_true in H. exact H.
Qed.

Lemma commit_state_spec x o p : DW o -> OW p x o -> slots_cachedb o = true ->
  let p' := commit_state x o p in
  p_keeper p' = p_keeper p /\ p_bal p' = p_bal p /\ p_codes p' = p_codes p /\
  (forall y k, y <> x -> p_cstore p' !! (y, k) = p_cstore p !! (y, k)) /\
  (forall k, pslot p' x k = oget p x o k).
Proof.
  intros HD HO Hc. unfold commit_state.
  assert (uniqk (o_dirty o)) as Hu.
  { intros i j k v1 v2 H1 H2. assert (o_didx o !! k = Some i) as A by (apply HD; eauto).
    assert (o_didx o !! k = Some j) as B by (apply HD; eauto). congruence. }
  destruct (commit_fold x o p (o_dirty o) p HO Hu) as (G1 & G2 & G3 & G4 & G5).
  { intros i k v Hi. split; [reflexivity|]. eapply slots_cachedb_spec; eauto. }
  split; [exact G1|]. split; [exact G2|]. split; [exact G3|]. split; [exact G4|].
  intros k. unfold oget. destruct (G5 k) as [(i & v & Hi & Hv)|[Hno Hv]].
  - assert (o_didx o !! k = Some i) as -> by (apply HD; eauto). rewrite Hi. simpl. exact Hv.
  - destruct (o_didx o !! k) as [i|] eqn:Hk; [|exact Hv].
    exfalso. destruct (proj1 (HD k i) Hk) as [v Hv']. exact (Hno i v Hv').
Qed.

Lemma commit_state_frame x o p :
  p_keeper (commit_state x o p) = p_keeper p /\ p_bal (commit_state x o p) = p_bal p /\
  forall y k, y <> x -> p_cstore (commit_state x o p) !! (y, k) = p_cstore p !! (y, k).
Proof.
  unfold commit_state. generalize (o_dirty o). intros l. revert p.
  induction l as [|kv l IH]; intros p; cbn [fold_left]; [repeat split|].
  destruct (commit_slot_frame x o p kv) as (F1 & F2 & _ & F4). destruct (IH (commit_slot x o p kv)) as (G1 & G2 & G3).
  split; [congruence|]. split; [congruence|]. intros y k Hy. rewrite G3 by done. apply F4. congruence.
Qed.

Lemma commit_state_codes x o p : p_codes (commit_state x o p) = p_codes p.
Proof.
  unfold commit_state. generalize (o_dirty o). intros l. revert p.
  induction l as [|kv l IH]; intros p; cbn [fold_left]; [reflexivity|].
  rewrite IH. destruct (commit_slot_frame x o p kv) as (_ & _ & F3 & _). exact F3.
Qed.
Lemma finalise_obj_codes D p xo h : is_Some (p_codes p !! h) -> is_Some (p_codes (finalise_obj D p xo) !! h).
Proof.
  intros H. destruct xo as [x o]. unfold finalise_obj. destruct (o_suic o || _); [exact H|].
  destruct (bool_decide _); [|exact H]. simpl. rewrite commit_state_codes.
  destruct (negb (o_cache o =? 0)%N && o_dirtycode o); [|exact H].
  destruct (decide (o_hash o = h)) as [->|Hne]; [rewrite lookup_insert; eauto|rewrite lookup_insert_ne by done; exact H].
Qed.
Lemma fold_codes D l : forall p h, is_Some (p_codes p !! h) ->
  is_Some (p_codes (fold_left (finalise_obj D) l p) !! h).
Proof.
  induction l as [|xo l IH]; intros p h H; cbn [fold_left]; [exact H|]. apply IH. apply finalise_obj_codes. exact H.
Qed.

Lemma finalise_obj_other D p y o x : x <> y -> agree_at x p (finalise_obj D p (y, o)).
Proof.
  intros Hne. unfold finalise_obj. destruct (o_suic o || _).
  - split; simpl; [rewrite lookup_delete_ne by done; reflexivity|]. split; [rewrite lookup_insert_ne by done; reflexivity|reflexivity].
  - destruct (bool_decide _); [|apply agree_refl].
    destruct (commit_state_frame y o p) as (F1 & F2 & F3). split; simpl.
    + rewrite lookup_insert_ne by done. rewrite F1. reflexivity.
    + split; [rewrite lookup_insert_ne by done; rewrite F2; reflexivity|]. intros k. apply F3. done.
Qed.

Lemma fin_fold_absent D x : forall l p, (forall i o, l !! i <> Some (x, o)) ->
  agree_at x p (fold_left (finalise_obj D) l p).
Proof.
  induction l as [|[y o] l IH]; intros p Hno; cbn [fold_left]; [apply agree_refl|].
  eapply agree_trans; [apply (finalise_obj_other D p y o x)|apply IH].
  - intros ->. apply (Hno 0%nat o). reflexivity.
  - intros i o' Hc. apply (Hno (S i) o'). exact Hc.
Qed.

Lemma fin_fold_present D x o : forall l p i, uniq l -> l !! i = Some (x, o) ->
  exists p0, agree_at x p p0 /\ agree_at x (finalise_obj D p0 (x, o)) (fold_left (finalise_obj D) l p) /\
    (forall h, is_Some (p_codes p !! h) -> is_Some (p_codes p0 !! h)) /\
    (forall h, is_Some (p_codes (finalise_obj D p0 (x, o)) !! h) -> is_Some (p_codes (fold_left (finalise_obj D) l p) !! h)).
Proof.
  induction l as [|[y oy] l IH]; intros p i Hu Hi; [rewrite lookup_nil in Hi; done|].
  cbn [fold_left]. destruct i as [|i]; simpl in Hi.
  - inversion Hi; subst. exists p. split; [apply agree_refl|]. split.
    + apply fin_fold_absent.
      intros j o' Hc. assert (0 = S j)%nat by (eapply Hu; simpl; eauto). lia.
    + split; [intros h H; exact H|]. intros h H. apply fold_codes. exact H.
  - assert (x <> y) as Hne. { intros ->. assert (S i = 0)%nat by (eapply Hu; simpl; eauto). lia. }
    destruct (IH (finalise_obj D p (y, oy)) i (uniq_tail _ _ Hu) Hi) as (p0 & A & B & K0 & K1).
    exists p0. split; [eapply agree_trans; [apply finalise_obj_other; exact Hne|exact A]|]. split; [exact B|].
    split; [|exact K1]. intros h H. apply K0. apply finalise_obj_codes. exact H.
Qed.

Lemma load_shape p x o0 : load p x = Some o0 -> exists n h, o0 = mk_obj (pbal p x) n h.
Proof.
  unfold load. destruct (p_keeper p !! x) as [[n h]|]; [intros [= <-]; eauto|].
  destruct (pbal p x =? 0); [done|]. intros [= <-]. eauto.
Qed.

Lemma arel_mk p x b n h c :
  b = bal c -> n = nonce c -> h = code c -> (h <> 0%N -> is_Some (p_codes p !! h)) -> suic c = false ->
  (forall k, pslot p x k = sget (stor c) k) -> (forall k, pslot p x k = sget (comm c) k) -> canon (stor c) ->
  arel p x (mk_obj b n h) c.
Proof.
  intros -> -> -> Hcd Hs H1 H2 H3. unfold arel. simpl.
  assert (CC p (mk_obj (bal c) (nonce c) (code c))) as Hcc by (split; [left; reflexivity|intros _ Hc; exact (Hcd Hc)]).
  refine (conj eq_refl (conj eq_refl (conj (conj eq_refl Hcc) (conj (eq_sym Hs) (conj _ (conj H2 (conj _ (conj _ H3)))))))).
  - intros k. unfold oget; simpl. rewrite lookup_empty. apply H1.
  - intros k i. simpl. rewrite lookup_empty. split; [done|]. intros [v Hv]. rewrite lookup_nil in Hv. done.
  - intros k i Hk. simpl in Hk. rewrite lookup_empty in Hk. done.
Qed.

Definition promote (a : acct) : acct :=
  {| bal := bal a; nonce := nonce a; code := code a; stor := stor a; comm := stor a; suic := false |}.

Lemma fin_accts_lookup m x :
  finalise_accts m !! x =
    match m !! x with
    | Some ac => if suic ac || acct_empty ac then None else Some (promote ac)
    | None => None
    end.
Proof.
  unfold finalise_accts. rewrite lookup_fmap.
  destruct (m !! x) as [ac|] eqn:Hm.
  - destruct (suic ac || acct_empty ac) eqn:E.
    + assert (filter (fun p : addr * acct => suic p.2 = false /\ acct_empty p.2 = false) m !! x = None) as ->; [|reflexivity].
      apply map_filter_lookup_None. right. intros ac' Hac' [H1 H2]. simpl in *.
      rewrite Hm in Hac'. inversion Hac'; subst. rewrite H1, H2 in E. done.
    + apply orb_false_elim in E. destruct E as [E1 E2].
      assert (filter (fun p : addr * acct => suic p.2 = false /\ acct_empty p.2 = false) m !! x = Some ac) as ->; [|reflexivity].
      apply map_filter_lookup_Some. split; [exact Hm|]. simpl. done.
  - assert (filter (fun p : addr * acct => suic p.2 = false /\ acct_empty p.2 = false) m !! x = None) as ->; [|reflexivity].
    apply map_filter_lookup_None. left. exact Hm.
Qed.

Lemma has_slots_false p x : has_slots p x = false -> forall k, pslot p x k = 0.
Proof.
  intros H k. unfold pslot. destruct (p_cstore p !! (x, k)) as [v|] eqn:Hk; [|reflexivity].
  exfalso. unfold has_slots in H.
  assert (existsb (fun e : addr * key * Z => (e.1.1 =? x)%N) (map_to_list (p_cstore p)) = true) as Hc; [|congruence].
  apply existsb_exists. exists ((x, k), v). split; [|simpl; apply N.eqb_refl].
  apply elem_of_list_In. apply elem_of_map_to_list. exact Hk.
Qed.

Lemma oget_clean p x o : DW o ->
  forallb (fun kv : key * Z => kv.2 =? pslot p x kv.1) (o_dirty o) = true -> forall k, oget p x o k = pslot p x k.
Proof.
  intros HD H k. unfold oget. destruct (o_didx o !! k) as [i|] eqn:Hk; [|reflexivity].
  destruct (proj1 (HD k i) Hk) as [v Hv]. rewrite Hv. simpl.
  rewrite forallb_forall in H. assert (In (k, v) (o_dirty o)) as Hin by (apply elem_of_list_In; eapply elem_of_list_lookup_2; eauto).
  specialize (H _ Hin). simpl in H. apply Z.eqb_eq. exact H.
Qed.

Lemma oget_agree x p p0 o k : agree_at x p p0 -> oget p0 x o k = oget p x o k.
Proof. intros A. unfold oget. destruct (o_didx o !! k); [reflexivity|apply agree_pslot; exact A]. Qed.
Lemma OW_agree x p p0 o : agree_at x p p0 -> OW p x o -> OW p0 x o.
Proof. intros A H k i Hk. rewrite (agree_pslot _ _ _ k A). apply H. exact Hk. Qed.
Lemma pbal_agree x p p0 : agree_at x p p0 -> pbal p0 x = pbal p x.
Proof. intros (_ & B & _). unfold pbal. rewrite B. reflexivity. Qed.

Lemma fin_addr a s x : Inv a s ->
  trig_residue a Finalise = false -> fin_okb a = true ->
  let p' := fold_left (finalise_obj (dirty_set a)) (a_objs a) (a_pers a) in
  orel p' x (load p' x) (finalise_accts (accts (cur s)) !! x) /\
  (load p' x = None -> forall k, pslot p' x k = 0) /\
  (forall o', load p' x = Some o' -> obj_empty o' = false).
Proof.
  intros HI Htr Hfin p'. set (p := a_pers a) in *. set (D := dirty_set a) in *.
  pose proof (i_wo _ _ HI) as HW. pose proof (proj1 (i_crel _ _ HI) x) as Hx. fold p in Hx.
  rewrite fin_accts_lookup.
  destruct (a_oidx a !! x) as [i|] eqn:Hix.
  - (* a live object *)
    destruct (look_live a x i HW Hix) as (o & Hoi & Hlx). rewrite Hlx in Hx. unfold orel in Hx.
    destruct (accts (cur s) !! x) as [ac|] eqn:Hac; [|done].
    pose proof Hx as (Ab & An & (Ah & Hcc) & As & Hst & Hcm & HD & HO & Hcan).
    destruct (fin_fold_present D x o (a_objs a) p i (WOl_uniq _ _ HW) Hoi) as (p0 & A0 & A1 & K0 & K1). fold p' in A1, K1.
    assert (In (x, o) (a_objs a)) as Hin by (apply elem_of_list_In; eapply elem_of_list_lookup_2; eauto).
    assert (doomed a (x, o) && (negb (o_bal o =? 0) || has_slots p x) = false) as Hres.
    { simpl in Htr. destruct (doomed a (x, o) && (negb (o_bal o =? 0) || has_slots p x)) eqn:E; [|reflexivity].
      assert (existsb (fun xo => doomed a xo && (negb (o_bal xo.2 =? 0) || has_slots (a_pers a) xo.1)) (a_objs a) = true) as Hc; [|congruence].
      apply existsb_exists. exists (x, o). split; [exact Hin|exact E]. }
    assert ((if bool_decide (is_Some (D !! x)) then doomed a (x, o) || slots_cachedb o
             else obj_cleanb p x o) = true) as Hok.
    { unfold fin_okb in Hfin. rewrite forallb_forall in Hfin. exact (Hfin _ Hin). }
    assert (acct_empty ac = obj_empty o) as Hemp by (unfold acct_empty, obj_empty; rewrite Ab, An, Ah; reflexivity).
    unfold doomed in Hres, Hok. fold D in Hres, Hok.
    unfold finalise_obj in A1.
    destruct (o_suic o || bool_decide (is_Some (D !! x)) && obj_empty o) eqn:Hdoom.
    + (* removed *)
      simpl in Hres. apply orb_false_elim in Hres. destruct Hres as [Hb Hs]. apply negb_false_iff, Z.eqb_eq in Hb.
      pose proof (has_slots_false _ _ Hs) as Hz.
      assert (load p' x = None) as Hld.
      { rewrite (agree_load _ _ _ A1). unfold load; simpl. rewrite lookup_delete.
        assert (pbal {| p_keeper := delete x (p_keeper p0); p_bal := <[x := o_bal o]> (p_bal p0); p_cstore := p_cstore p0; p_codes := p_codes p0 |} x = 0) as ->; [|reflexivity].
        unfold pbal; simpl. rewrite lookup_insert. simpl. exact Hb. }
      rewrite Hld. split; [|split; [|intros o' Hc; done]].
      * assert (suic ac || acct_empty ac = true) as ->; [|exact I].
        rewrite <- As, Hemp. destruct (o_suic o); [reflexivity|]. simpl in *.
        apply andb_prop in Hdoom. destruct Hdoom as [_ ->]. reflexivity.
      * intros _ k. rewrite (agree_pslot _ _ _ k A1). unfold pslot; simpl. fold (pslot p0 x k).
        rewrite (agree_pslot _ _ _ k A0). apply Hz.
    + apply orb_false_elim in Hdoom. destruct Hdoom as [Hsu Hde].
      destruct (bool_decide (is_Some (D !! x))) eqn:Hdirty.
      * (* written back *)
        simpl in Hde. simpl in Hok.
        destruct (commit_state_spec x o p0 HD (OW_agree _ _ _ _ A0 HO) Hok) as (C1 & C2 & C3 & C4 & C5).
        set (q := {| p_keeper := <[x := (o_nonce o, o_hash o)]> (p_keeper (commit_state x o p0));
                     p_bal := <[x := o_bal o]> (p_bal (commit_state x o p0));
                     p_cstore := p_cstore (commit_state x o p0);
                     p_codes := if negb (o_cache o =? 0)%N && o_dirtycode o then <[o_hash o := tt]> (p_codes (commit_state x o p0))
                                else p_codes (commit_state x o p0) |}) in *.
        assert (load p' x = Some (mk_obj (o_bal o) (o_nonce o) (o_hash o))) as Hld.
        { rewrite (agree_load _ _ _ A1). unfold load, pbal; simpl. rewrite !lookup_insert. reflexivity. }
        assert (forall k, pslot p' x k = sget (stor ac) k) as Hsl.
        { intros k. rewrite (agree_pslot _ _ _ k A1). unfold pslot; simpl. fold (pslot (commit_state x o p0) x k).
          rewrite C5, (oget_agree _ _ _ _ k A0). apply Hst. }
        rewrite Hld. rewrite <- As, Hsu, Hemp, Hde. simpl.
        split; [|split; [done|]].
        -- apply arel_mk; simpl; try assumption; try reflexivity.
           intros Hh. apply K1. unfold finalise_obj. fold D. rewrite Hsu, Hdirty, Hde. simpl. rewrite commit_state_codes.
           destruct Hcc as [[Hc0|[Hc1 Hdc]] Hc2].
           ++ rewrite Hc0. simpl. apply K0. apply Hc2; assumption.
           ++ rewrite Hdc. assert ((o_cache o =? 0)%N = false) as -> by (apply N.eqb_neq; congruence). simpl.
              rewrite lookup_insert. eauto.
        -- intros o' [= <-]. exact Hde.
      * (* not marked dirty: clean by the side condition *)
        unfold obj_cleanb in Hok. destruct (load p x) as [o0|] eqn:Hl0; [|done].
        apply andb_prop in Hok. destruct Hok as [Hok Hcl]. apply andb_prop in Hok. destruct Hok as [Hok Ec].
        apply andb_prop in Hok. destruct Hok as [Hok _].
        apply andb_prop in Hok. destruct Hok as [Hok Eh]. apply andb_prop in Hok. destruct Hok as [Eb En].
        apply Z.eqb_eq in Eb, En. apply N.eqb_eq in Eh.
        assert (o_hash o <> 0%N -> is_Some (p_codes p !! o_hash o)) as Hcodes.
        { intros Hh. apply orb_prop in Ec. destruct Ec as [Ec|Ec].
          - apply orb_prop in Ec. destruct Ec as [Ec|Ec]; apply N.eqb_eq in Ec; [apply (proj2 Hcc); assumption|congruence].
          - apply bool_decide_eq_true in Ec. exact Ec. }
        assert (agree_at x p p') as A2 by (eapply agree_trans; eauto).
        rewrite (agree_load _ _ _ A2), Hl0.
        pose proof (i_ne _ _ HI x o0 Hl0) as Hne0.
        assert (obj_empty o = false) as Hne. { unfold obj_empty in *. rewrite Eb, En, Eh. exact Hne0. }
        rewrite <- As, Hsu, Hemp, Hne. simpl.
        destruct (load_shape _ _ _ Hl0) as (n0 & h0 & ->). simpl in *.
        split; [|split; [done|intros o' [= <-]; exact Hne0]].
        apply arel_mk; simpl; try congruence.
        -- intros Hh. apply (fold_codes D (a_objs a) p). rewrite <- Eh. apply Hcodes. congruence.
        -- intros k. rewrite (agree_pslot _ _ _ k A2). rewrite <- (oget_clean p x o HD Hcl k). apply Hst.
        -- intros k. rewrite (agree_pslot _ _ _ k A2). rewrite <- (oget_clean p x o HD Hcl k). apply Hst.
  - (* not live *)
    assert (look a x = load p x) as Hlx by (unfold look; rewrite Hix; reflexivity). rewrite Hlx in Hx.
    assert (agree_at x p p') as A2.
    { apply fin_fold_absent. intros i o Hc. assert (a_oidx a !! x = Some i) by (apply HW; eauto). congruence. }
    rewrite (agree_load _ _ _ A2).
    destruct (load p x) as [o0|] eqn:Hl0; unfold orel in Hx.
    + destruct (accts (cur s) !! x) as [ac|] eqn:Hac; [|done].
      pose proof Hx as (Ab & An & (Ah & Hcc) & As & Hst & Hcm & HD & HO & Hcan).
      pose proof (i_ne _ _ HI x o0 Hl0) as Hne0.
      assert (acct_empty ac = obj_empty o0) as Hemp by (unfold acct_empty, obj_empty; rewrite Ab, An, Ah; reflexivity).
      destruct (load_shape _ _ _ Hl0) as (n0 & h0 & ->). simpl in *.
      rewrite <- As, Hemp, Hne0. simpl.
      split; [|split; [done|intros o' [= <-]; exact Hne0]].
      apply arel_mk; simpl; try congruence.
      * intros Hh. apply (fold_codes D (a_objs a) p). apply (proj2 Hcc); [reflexivity|exact Hh].
      * intros k. rewrite (agree_pslot _ _ _ k A2). rewrite <- Hst. unfold oget; simpl. rewrite lookup_empty. reflexivity.
      * intros k. rewrite (agree_pslot _ _ _ k A2). rewrite <- Hst. unfold oget; simpl. rewrite lookup_empty. reflexivity.
    + destruct (accts (cur s) !! x) as [ac|] eqn:Hac; [done|].
      split; [exact I|]. split; [|intros o' Hc; done].
      intros _ k. rewrite (agree_pslot _ _ _ k A2). apply (i_nr _ _ HI). exact Hl0.
Qed.

Lemma inv_finalise a s (block : bool) c' nid :
  Inv a s -> trig_residue a Finalise = false -> fin_okb a = true ->
  accts c' = finalise_accts (accts (cur s)) -> refund c' = 0 ->
  nid = (if block then 0 else nextid s) ->
  saux c' = ([], if block then 0 else logsize (cur s), ∅, ∅) ->
  Inv (a_finalise a block) {| cur := c'; snaps := []; nextid := nid |}.
Proof.
  intros HI Htr Hfin Hacc Href Hnid Haux.
  pose proof (fun x => fin_addr a s x HI Htr Hfin) as Hall. cbv zeta in Hall.
  split.
  - intros x i. simpl. rewrite lookup_empty. split; [done|]. intros [o Ho]. rewrite lookup_nil in Ho. done.
  - intros x i. simpl. rewrite lookup_empty. done.
  - intros x Hl k. exact (proj1 (proj2 (Hall x)) Hl k).
  - split; [|simpl; rewrite Href; reflexivity]. intros x. unfold look; simpl. rewrite lookup_empty.
    rewrite Hacc. exact (proj1 (Hall x)).
  - subst nid. destruct block; [reflexivity|exact (i_id _ _ HI)].
  - split; [constructor|]. intros i j r1 r2 H. simpl in H. rewrite lookup_nil in H. done.
  - constructor.
  - intros x o Hl. exact (proj2 (proj2 (Hall x)) o Hl).
  - simpl. rewrite Haux. unfold aux; simpl. pose proof (i_aux _ _ HI) as Hx. unfold aux, saux in Hx.
    destruct block; [reflexivity|]. congruence.
  - exact I.
Qed.

Lemma step_class_fin a o : step_ok a o = true -> (o = Finalise \/ o = BlockCommit) ->
  trig_residue a Finalise = false /\ fin_okb a = true.
Proof.
  unfold step_ok, step_class. intros H Ho.
  destruct (trig_residue a o) eqn:E1; [done|]. destruct (trig_create_over a o); [done|].
  destruct (pre_violated a o); [done|].
  destruct (fin_unchecked a o) eqn:E5; [done|].
  destruct Ho as [-> | ->]; simpl in E1, E5; apply negb_false_iff in E5; split; assumption.
Qed.

Lemma sim_Finalise a s : Inv a s -> step_ok a Finalise = true -> sim a s Finalise.
Proof.
  intros HI Hok. destruct (step_class_fin a Finalise Hok (or_introl eq_refl)) as [Htr Hfin].
  unfold sim, astep. simpl. eexists _, _, _. split; [reflexivity|]. split; [reflexivity|].
  apply (inv_finalise a s false); try assumption; reflexivity.
Qed.
Lemma sim_BlockCommit a s : Inv a s -> step_ok a BlockCommit = true -> sim a s BlockCommit.
Proof.
  intros HI Hok. destruct (step_class_fin a BlockCommit Hok (or_intror eq_refl)) as [Htr Hfin].
  unfold sim, astep. simpl. eexists _, _, _. split; [reflexivity|]. split; [reflexivity|].
  apply (inv_finalise a s true); try assumption; reflexivity.
Qed.

Lemma sim_CreateAccount a s x : Inv a s -> a_exists a x = false -> simo a s (CreateAccount x).
Proof.
  intros HI Hex.
  assert (a_oidx a !! x = None /\ load (a_pers a) x = None) as [Hix Hld].
  { unfold a_exists in Hex. destruct (a_oidx a !! x); [done|]. destruct (load (a_pers a) x); [done|]. done. }
  assert (look a x = None) as Hlx by (unfold look; rewrite Hix; exact Hld).
  assert (get_obj a x = Some (a, None)) as Hgo by (unfold get_obj; rewrite Hix, Hld; reflexivity).
  destruct (get_or_new_spec a x (i_wo _ _ HI) (i_jok _ _ HI)) as (a1 & o & new & Hg & HW1 & HJ1 & Hl1 & Hoth & He1 & Hf1 & Hcase).
  destruct Hcase as [[Hc _]|(_ & _ & -> & ->)]; [congruence|].
  (* CreateAccount on a non-existent account is exactly the creation branch of GetOrNewStateObject *)
  unfold get_or_new_obj in Hg. rewrite Hgo in Hg. simpl in Hg.
  pose proof (proj1 (i_crel _ _ HI) x) as Hx. rewrite Hlx in Hx. unfold orel in Hx.
  destruct (accts (cur s) !! x) as [ac|] eqn:Hac; [done|].
  unfold simo. simpl.
  destruct (create_obj a x) as [[[a2 o2] prev]|] eqn:Hco; simpl in Hg; [|done].
  inversion Hg; subst a2 o2.
  assert (prev = None) as ->.
  { unfold create_obj in Hco. rewrite Hgo in Hco. simpl in Hco.
    destruct (j_append a (ECreate x)) as [a3|]; simpl in Hco; [|done].
    destruct (set_obj a3 x _); simpl in Hco; [|done]. inversion Hco. reflexivity. }
  simpl. rewrite Hac.
  eexists _, _, _. split; [reflexivity|]. split; [reflexivity|].
  eapply (fin_rel a s x a1 a1 [ECreate x] [] (new_acct 0) (new_acct 0) (mk_obj 0 0 0%N) HI); eauto.
  - intros y. destruct (decide (x = y)) as [<-|]; [exact Hl1|reflexivity].
  - rewrite app_nil_r. reflexivity.
  - repeat split.
  - apply arel_new; [exact (i_nr _ _ HI)|exact Hld].
Qed.

(* code *)
Lemma sim_read_code a s x (f : N -> Z) (dflt : Z) (opk : nat) : Inv a s ->
  forall op, (op = GetCodeHash x /\ f = Z.of_N /\ dflt = -1) \/ (op = GetCode x /\ f = Z.of_N /\ dflt = 0) \/
             (op = GetCodeSize x /\ f = code_size /\ dflt = 0) -> simo a s op.
Proof.
  intros HI op Hop. unfold simo.
  destruct (get_obj_spec a x (i_wo _ _ HI)) as (l & m & Hg & HW1 & Hl1).
  assert (Inv (w_objs a l m) s) as HI'.
  { apply (inv_same_spec a _ s HI); try reflexivity; [exact HW1|exact (i_jok _ _ HI)|].
    intros y. rewrite Hl1. apply (proj1 (i_crel _ _ HI)). }
  pose proof (proj1 (i_crel _ _ HI) x) as Hx. unfold orel in Hx.
  destruct Hop as [(-> & -> & ->)|[(-> & -> & ->)|(-> & -> & ->)]]; simpl; unfold read_obj; rewrite Hg; simpl;
    eexists _, _, s; (split; [reflexivity|]); (split; [|exact HI']);
    destruct (look a x) as [o|]; destruct (accts (cur s) !! x) as [ac|]; try done;
    destruct Hx as (_ & _ & (Hh & Hcc) & _); rewrite ?(CC_code _ _ Hcc), ?Hh; reflexivity.
Qed.

Lemma sim_SetCode a s x c : Inv a s -> simo a s (SetCode x c).
Proof.
  intros HI. destruct (gn_rel a s x HI) as (a1 & o & new & ac & Hg & HW1 & HJ1 & Hl1 & Hoth & He1 & Hf1 & Har & Hgn & Hcase).
  unfold simo. simpl. rewrite Hg. simpl. unfold upd_acct. rewrite Hgn.
  pose proof Har as (_ & _ & (Ah & Hcc) & _).
  destruct (js_spec a1 (ECode x (o_hash o) (obj_code (a_pers a) o)) x (set_code o c c) HW1 HJ1) as (a2 & a' & Hj & Hs & HW' & HJ' & Hl' & He' & Hf').
  rewrite Hj. simpl. rewrite Hs. simpl. eexists _, _, _. split; [reflexivity|]. split; [reflexivity|].
  eapply (fin_rel a s x a1 a' new [ECode x (o_hash o) (obj_code (a_pers a) o)] ac); eauto.
  - apply arel_code. exact Har.
  - constructor; [|constructor]. split; [simpl; apply CC_code; exact Hcc|reflexivity].
  - simpl. unfold with_accts; simpl. rewrite alter_insert. rewrite Ah, with_code_undo. reflexivity.
Qed.

(* logs and access list *)
Lemma inv_aux a s a' c2 new :
  Inv a s ->
  a_pers a' = a_pers a -> a_objs a' = a_objs a -> a_oidx a' = a_oidx a -> a_dirties a' = a_dirties a ->
  a_jidx a' = a_jidx a -> a_revs a' = a_revs a -> a_nextid a' = a_nextid a -> a_refund a' = a_refund a ->
  a_entries a' = a_entries a ++ new -> Forall (fun e => entry_ok (a_pers a) e /\ needs_live e = None) new ->
  accts c2 = accts (cur s) -> refund c2 = refund (cur s) -> aux a' = saux c2 ->
  sundo_list (rev new) c2 = cur s ->
  Inv a' (with_cur s c2).
Proof.
  intros HI Hp Ho Hoi Hd Hj Hr Hn Hf He Hok Hac Hrf Hx Hu. split; simpl.
  - unfold WO. rewrite Ho, Hoi. exact (i_wo _ _ HI).
  - unfold JOK. rewrite Hd, Hj. exact (i_jok _ _ HI).
  - rewrite Hp. exact (i_nr _ _ HI).
  - split; [|rewrite Hf, Hrf; exact (proj2 (i_crel _ _ HI))]. intros y. rewrite Hp, Hac.
    assert (look a' y = look a y) as -> by (unfold look; rewrite Hoi, Ho, Hp; reflexivity).
    apply (proj1 (i_crel _ _ HI)).
  - rewrite Hn. exact (i_id _ _ HI).
  - apply (SR_extend a a' s c2 new Hr He Hu (i_sr _ _ HI)).
  - rewrite Hp, He. apply Forall_app. split; [exact (i_ent _ _ HI)|].
    eapply Forall_impl; [exact Hok|]. intros e [H _]. exact H.
  - rewrite Hp. exact (i_ne _ _ HI).
  - exact Hx.
  - rewrite He. apply (ex_extend _ _ (cur s)); [exact (i_ex _ _ HI)|exact Hu|].
    apply ex_ok_nolive. apply Forall_rev. eapply Forall_impl; [exact Hok|]. intros e [_ H]. exact H.
Qed.

Lemma aux_eqs a s : Inv a s ->
  a_logs a = logs (cur s) /\ a_logsize a = logsize (cur s) /\ a_al_addrs a = al_addrs (cur s) /\ a_al_slots a = al_slots (cur s).
Proof. intros HI. pose proof (i_aux _ _ HI) as Hx. unfold aux, saux in Hx. inversion Hx. done. Qed.

Lemma core_eta c : {| accts := accts c; refund := refund c; logs := logs c; logsize := logsize c;
                      al_addrs := al_addrs c; al_slots := al_slots c |} = c.
Proof. destruct c; reflexivity. Qed.

Lemma sim_AddLog a s x t : Inv a s -> simo a s (AddLog x t).
Proof.
  intros HI. destruct (aux_eqs a s HI) as (Hlg & Hsz & Haa & Hsl).
  unfold simo. simpl. unfold j_append; simpl. eexists _, _, _. split; [reflexivity|]. split; [reflexivity|].
  apply (inv_aux a s _ _ [ELog] HI); try reflexivity.
  - repeat constructor.
  - unfold aux, saux; simpl. rewrite Hlg, Hsz, Haa, Hsl. reflexivity.
  - unfold sundo_list; simpl. rewrite removelast_last. replace (logsize (cur s) + 1 - 1) with (logsize (cur s)) by lia.
    apply core_eta.
Qed.
Lemma sim_GetLogs a s : Inv a s -> simo a s GetLogs.
Proof.
  intros HI. destruct (aux_eqs a s HI) as (Hlg & _). exists (OList (flat_logs (a_logs a))), a, s.
  split; [reflexivity|]. split; [simpl; rewrite Hlg; reflexivity|exact HI].
Qed.
Lemma sim_AlHasAddr a s x : Inv a s -> simo a s (AlHasAddr x).
Proof.
  intros HI. destruct (aux_eqs a s HI) as (_ & _ & Haa & _). eexists _, a, s.
  split; [reflexivity|]. split; [simpl; rewrite Haa; reflexivity|exact HI].
Qed.
Lemma sim_AlHasSlot a s x k : Inv a s -> simo a s (AlHasSlot x k).
Proof.
  intros HI. destruct (aux_eqs a s HI) as (_ & _ & Haa & Hsl). eexists _, a, s.
  split; [reflexivity|]. split; [simpl; rewrite Haa, Hsl; reflexivity|exact HI].
Qed.

Lemma insert_unit_id {K} `{Countable K} (m : gmap K unit) k u : m !! k = Some u -> <[k := tt]> m = m.
Proof. intros Hk. destruct u. apply insert_id. exact Hk. Qed.

Lemma sim_AlAddAddr a s x : Inv a s -> simo a s (AlAddAddr x).
Proof.
  intros HI. destruct (aux_eqs a s HI) as (Hlg & Hsz & Haa & Hsl).
  unfold simo. simpl. destruct (a_al_addrs a !! x) as [u|] eqn:Hx.
  - eexists _, _, _. split; [reflexivity|]. split; [reflexivity|].
    apply (inv_aux a s a _ [] HI); try reflexivity.
    + rewrite app_nil_r. reflexivity.
    + constructor.
    + unfold aux, saux; simpl. rewrite <- Haa, (insert_unit_id _ _ _ Hx), Hlg, Hsz, Hsl. reflexivity.
    + unfold sundo_list; simpl. rewrite <- Haa, (insert_unit_id _ _ _ Hx), Haa. apply core_eta.
  - unfold j_append; simpl. eexists _, _, _. split; [reflexivity|]. split; [reflexivity|].
    apply (inv_aux a s _ _ [EAlAddr x] HI); try reflexivity.
    + repeat constructor.
    + unfold aux, saux; simpl. rewrite Hlg, Hsz, Haa, Hsl. reflexivity.
    + unfold sundo_list; simpl. rewrite delete_insert by (rewrite <- Haa; exact Hx). apply core_eta.
Qed.

Lemma sim_AlAddSlot a s x k : Inv a s -> simo a s (AlAddSlot x k).
Proof.
  intros HI. destruct (aux_eqs a s HI) as (Hlg & Hsz & Haa & Hsl).
  unfold simo. simpl. destruct (a_al_addrs a !! x) as [u|] eqn:Hx; simpl.
  - destruct (a_al_slots a !! (x, k)) as [u2|] eqn:Hk.
    + eexists _, _, _. split; [reflexivity|]. split; [reflexivity|].
      apply (inv_aux a s a _ [] HI); try reflexivity.
      * rewrite app_nil_r. reflexivity.
      * constructor.
      * unfold aux, saux; simpl. rewrite <- Haa, <- Hsl, (insert_unit_id _ _ _ Hx), (insert_unit_id _ _ _ Hk), Hlg, Hsz. reflexivity.
      * unfold sundo_list; simpl. rewrite <- Haa, <- Hsl, (insert_unit_id _ _ _ Hx), (insert_unit_id _ _ _ Hk), Haa, Hsl. apply core_eta.
    + unfold j_append; simpl. eexists _, _, _. split; [reflexivity|]. split; [reflexivity|].
      apply (inv_aux a s _ _ [EAlSlot x k] HI); try reflexivity.
      * repeat constructor.
      * unfold aux, saux; simpl. rewrite <- Haa, (insert_unit_id _ _ _ Hx), Hlg, Hsz, Hsl. reflexivity.
      * unfold sundo_list; simpl. rewrite delete_insert by (rewrite <- Hsl; exact Hk).
        rewrite <- Haa, (insert_unit_id _ _ _ Hx), Haa. apply core_eta.
  - unfold j_append; simpl. destruct (a_al_slots a !! (x, k)) as [u2|] eqn:Hk.
    + eexists _, _, _. split; [reflexivity|]. split; [reflexivity|].
      apply (inv_aux a s _ _ [EAlAddr x] HI); try reflexivity.
      * repeat constructor.
      * unfold aux, saux; simpl. rewrite <- Hsl, (insert_unit_id _ _ _ Hk), Hlg, Hsz, Haa. reflexivity.
      * unfold sundo_list; simpl. rewrite delete_insert by (rewrite <- Haa; exact Hx).
        rewrite <- Hsl, (insert_unit_id _ _ _ Hk), Hsl. apply core_eta.
    + simpl. eexists _, _, _. split; [reflexivity|]. split; [reflexivity|].
      apply (inv_aux a s _ _ [EAlAddr x; EAlSlot x k] HI); try reflexivity.
      * simpl. rewrite <- app_assoc. reflexivity.
      * repeat constructor.
      * unfold aux, saux; simpl. rewrite Hlg, Hsz, Haa, Hsl. reflexivity.
      * unfold sundo_list; simpl.
        rewrite !delete_insert by (first [rewrite <- Hsl; exact Hk | rewrite <- Haa; exact Hx]). apply core_eta.
Qed.

(* ---- every operation of the proved core, every sequence, every client ---------------------- *)
Lemma step_ok_pre a o : step_ok a o = true -> pre_violated a o = false.
Proof.
  unfold step_ok, step_class. destruct (trig_residue a o); [done|]. destruct (trig_create_over a o); [done|].
  destruct (pre_violated a o); done.
Qed.

Lemma step_sim a s o : Inv a s -> pstep_ok a o = true -> sim a s o.
Proof.
  intros HI Hok. unfold pstep_ok in Hok. apply andb_prop in Hok. destruct Hok as [Hok Hfresh].
  apply andb_prop in Hok. destruct Hok as [Hok Hcore]. pose proof Hok as Hsok. apply step_ok_pre in Hok.
  destruct o; simpl in Hcore; try done.
  - apply simo_sim, sim_CreateAccount; [assumption|]. simpl in Hfresh. apply negb_true_iff. exact Hfresh.
  - apply simo_sim, sim_SubBalance; assumption.
  - apply simo_sim, sim_AddBalance; assumption.
  - apply simo_sim, sim_GetBalance; assumption.
  - apply simo_sim, sim_GetNonce; assumption.
  - apply simo_sim, sim_SetNonce; assumption.
  - apply simo_sim, (sim_read_code a s x Z.of_N (-1) 0 HI). left. done.
  - apply simo_sim, (sim_read_code a s x Z.of_N 0 0 HI). right. left. done.
  - apply simo_sim, sim_SetCode; assumption.
  - apply simo_sim, (sim_read_code a s x code_size 0 0 HI). right. right. done.
  - apply sim_AddRefund; assumption.
  - apply sim_SubRefund; assumption.
  - apply sim_GetRefund; assumption.
  - apply simo_sim, (sim_read_slot a s x k true); assumption.
  - apply simo_sim, (sim_read_slot a s x k false); assumption.
  - apply simo_sim, sim_SetState; assumption.
  - apply simo_sim, sim_Suicide; assumption.
  - apply simo_sim, sim_HasSuicided; assumption.
  - apply simo_sim, sim_Exist; assumption.
  - apply simo_sim, sim_Empty; assumption.
  - apply simo_sim, sim_AlAddAddr; assumption.
  - apply simo_sim, sim_AlAddSlot; assumption.
  - apply simo_sim, sim_AlHasAddr; assumption.
  - apply simo_sim, sim_AlHasSlot; assumption.
  - apply sim_Snapshot; assumption.
  - apply sim_Revert; assumption.
  - apply simo_sim, sim_AddLog; assumption.
  - apply simo_sim, sim_GetLogs; assumption.
  - apply sim_Finalise; assumption.
  - apply sim_BlockCommit; assumption.
Qed.

Lemma bisim ops : forall a s, Inv a s -> pguardedb a ops = true ->
  aoutputs a ops = spec_outputs s ops /\ Inv (arun a ops).2 (spec_run s ops).2.
Proof.
  induction ops as [|o ops IH]; intros a s HI Hg.
  - split; [reflexivity|exact HI].
  - simpl in Hg. apply andb_prop in Hg. destruct Hg as [Hok Hrest].
    destruct (step_sim a s o HI Hok) as (r & a' & s' & Ha & Hs & HI').
    unfold aoutputs, spec_outputs in *. simpl. rewrite Ha, Hs. rewrite Ha in Hrest. simpl in Hrest.
    destruct (IH a' s' HI' Hrest) as [Ho Hi].
    destruct (arun a' ops) as [rs a''] eqn:Ea. destruct (spec_run s' ops) as [rs' s''] eqn:Es.
    simpl in *. split; [f_equal; exact Ho|exact Hi].
Qed.

Lemma any_client strat : forall n a s h, Inv a s -> client_guard n strat a h = true ->
  client_run_a n strat a h = client_run_s n strat s h.
Proof.
  induction n as [|n IH]; intros a s h HI Hg; [reflexivity|].
  simpl in *. destruct (strat h) as [o|]; [|reflexivity].
  apply andb_prop in Hg. destruct Hg as [Hok Hrest].
  destruct (step_sim a s o HI Hok) as (r & a' & s' & Ha & Hs & HI').
  rewrite Ha, Hs. rewrite Ha in Hrest. f_equal. apply IH; assumption.
Qed.

Lemma Inv_empty : Inv (a_init []) (spec_init []).
Proof.
  split.
  - intros x i. simpl. rewrite lookup_empty. split; [done|]. intros [o Ho]. rewrite lookup_nil in Ho. done.
  - intros x i. simpl. rewrite lookup_empty. done.
  - intros x _ k. unfold pslot; simpl. rewrite lookup_empty. reflexivity.
  - split; [|reflexivity]. intros x. unfold look; simpl. rewrite lookup_empty. unfold load, pbal; simpl.
    rewrite !lookup_empty. simpl. exact I.
  - reflexivity.
  - split; [constructor|]. intros i j r1 r2 H. simpl in H. rewrite lookup_nil in H. done.
  - constructor.
  - intros x o. unfold load, pbal; simpl. rewrite !lookup_empty. simpl. done.
  - reflexivity.
  - exact I.
Qed.

(* ---- starting states --------------------------------------------------------------------- *)
Lemma fold_insert_other x l : forall (m : gmap (addr * key) Z) y k, y <> x ->
  fold_left (fun m (kv : key * Z) => <[(x, kv.1) := kv.2]> m) l m !! (y, k) = m !! (y, k).
Proof.
  induction l as [|kv l IH]; intros m y k Hne; simpl; [reflexivity|].
  rewrite IH by done. rewrite lookup_insert_ne; [reflexivity|congruence].
Qed.
Lemma fold_insert_own x l : forall (m : gmap (addr * key) Z) k, NoDup l.*1 ->
  fold_left (fun m (kv : key * Z) => <[(x, kv.1) := kv.2]> m) l m !! (x, k) =
    match (list_to_map l : gmap key Z) !! k with Some v => Some v | None => m !! (x, k) end.
Proof.
  induction l as [|[k0 v0] l IH]; intros m k Hnd; simpl; [rewrite lookup_empty; reflexivity|].
  inversion Hnd as [|? ? Hnotin Hnd']; subst. rewrite IH by done.
  destruct (decide (k = k0)) as [->|Hne].
  - assert (<[k0:=v0]> (list_to_map l : gmap key Z) !! k0 = Some v0) as -> by apply lookup_insert.
    rewrite (not_elem_of_list_to_map_1 _ _ Hnotin). rewrite lookup_insert. reflexivity.
  - assert (<[k0:=v0]> (list_to_map l : gmap key Z) !! k = (list_to_map l : gmap key Z) !! k) as ->
      by (apply lookup_insert_ne; congruence).
    destruct ((list_to_map l : gmap key Z) !! k); [reflexivity|].
    rewrite lookup_insert_ne; [reflexivity|congruence].
Qed.

Lemma pers_add_other p s y : y <> sa_addr s -> agree_at y p (pers_add p s).
Proof.
  intros Hne. unfold pers_add. destruct (sa_native s); split; simpl.
  - reflexivity.
  - split; [rewrite lookup_insert_ne by done; reflexivity|reflexivity].
  - rewrite lookup_insert_ne by done. reflexivity.
  - split; [rewrite lookup_insert_ne by done; reflexivity|]. intros k. apply fold_insert_other. exact Hne.
Qed.
Lemma pers_add_codes p s h : is_Some (p_codes p !! h) -> is_Some (p_codes (pers_add p s) !! h).
Proof.
  intros H. unfold pers_add. destruct (sa_native s); simpl; [exact H|].
  destruct (sa_code s =? 0)%N; [exact H|].
  destruct (decide (sa_code s = h)) as [->|]; [rewrite lookup_insert; eauto|rewrite lookup_insert_ne by done; exact H].
Qed.
Lemma fold_pers_codes st : forall p h, is_Some (p_codes p !! h) -> is_Some (p_codes (fold_left pers_add st p) !! h).
Proof. induction st as [|s st IH]; intros p h H; simpl; [exact H|]. apply IH, pers_add_codes, H. Qed.
Lemma fold_pers_absent st : forall p x, x ∉ sa_addr <$> st -> agree_at x p (fold_left pers_add st p).
Proof.
  induction st as [|s st IH]; intros p x Hx; simpl; [apply agree_refl|].
  rewrite fmap_cons, not_elem_of_cons in Hx. destruct Hx as [Hne Hx].
  eapply agree_trans; [apply pers_add_other; exact Hne|apply IH; exact Hx].
Qed.
Lemma fold_pers_present st : forall p s0, NoDup (sa_addr <$> st) -> s0 ∈ st ->
  exists p0, agree_at (sa_addr s0) p p0 /\ agree_at (sa_addr s0) (pers_add p0 s0) (fold_left pers_add st p) /\
    (forall h, is_Some (p_codes (pers_add p0 s0) !! h) -> is_Some (p_codes (fold_left pers_add st p) !! h)).
Proof.
  induction st as [|s st IH]; intros p s0 Hnd Hin; [inversion Hin|].
  rewrite fmap_cons in Hnd. inversion Hnd as [|? ? Hnotin Hnd']; subst. simpl.
  apply elem_of_cons in Hin. destruct Hin as [->|Hin].
  - exists p. split; [apply agree_refl|]. split; [apply fold_pers_absent; exact Hnotin|]. intros h H. apply fold_pers_codes, H.
  - assert (sa_addr s0 <> sa_addr s) as Hne.
    { intros Heq. apply Hnotin. rewrite <- Heq. apply elem_of_list_fmap. eauto. }
    destruct (IH (pers_add p s) s0 Hnd' Hin) as (p0 & A & B & K).
    exists p0. split; [eapply agree_trans; [apply pers_add_other; exact Hne|exact A]|]. split; [exact B|exact K].
Qed.

Lemma Inv_start st : start_okb st = true -> Inv (a_init st) (spec_init st).
Proof.
  intros Hok. unfold start_okb in Hok. apply andb_prop in Hok. destruct Hok as [Hall Hnd].
  apply bool_decide_eq_true in Hnd. rewrite forallb_forall in Hall.
  set (pe := {| p_keeper := ∅; p_bal := ∅; p_cstore := ∅; p_codes := ∅ |}).
  set (p := fold_left pers_add st pe).
  set (m := (list_to_map ((fun a => (sa_addr a, start_acct_of a)) <$> st) : gmap addr acct)).
  assert (forall x, orel p x (load p x) (m !! x) /\ (load p x = None -> forall k, pslot p x k = 0) /\
                    (forall o, load p x = Some o -> obj_empty o = false)) as Hx.
  { intros x. destruct (decide (x ∈ sa_addr <$> st)) as [Hin|Hnin].
    - apply elem_of_list_fmap in Hin. destruct Hin as (s0 & -> & Hin).
      destruct (fold_pers_present st pe s0 Hnd Hin) as (p0 & A0 & A1 & K). fold p in A1, K.
      assert (m !! sa_addr s0 = Some (start_acct_of s0)) as ->.
      { apply elem_of_list_to_map_1.
        - rewrite <- list_fmap_compose. exact Hnd.
        - apply elem_of_list_fmap. exists s0. split; [reflexivity|exact Hin]. }
      assert (start_acct_okb s0 = true) as Hs0 by (apply Hall; apply elem_of_list_In; exact Hin).
      destruct A0 as (Ak & Ab & Ac). unfold pe in Ak, Ab, Ac. simpl in Ak, Ab, Ac. rewrite lookup_empty in Ak. rewrite lookup_empty in Ab.
      unfold start_acct_okb in Hs0. unfold start_acct_of.
      rewrite (agree_load _ _ _ A1).
      assert (forall k, pslot p (sa_addr s0) k = pslot (pers_add p0 s0) (sa_addr s0) k) as Hps by (intros k; apply (agree_pslot _ _ _ k A1)).
      unfold pers_add in *. destruct (sa_native s0) eqn:Hnat.
      + apply negb_true_iff, Z.eqb_neq in Hs0.
        assert (load {| p_keeper := p_keeper p0; p_bal := <[sa_addr s0 := sa_bal s0]> (p_bal p0); p_cstore := p_cstore p0; p_codes := p_codes p0 |} (sa_addr s0)
                = Some (mk_obj (sa_bal s0) 0 0%N)) as Hld.
        { unfold load, pbal; simpl. rewrite Ak, lookup_insert. simpl. destruct (sa_bal s0 =? 0) eqn:E; [apply Z.eqb_eq in E; done|reflexivity]. }
        rewrite Hld. split; [|split; [done|]].
        * apply arel_mk; simpl.
          -- reflexivity.
          -- reflexivity.
          -- reflexivity.
          -- done.
          -- reflexivity.
          -- intros k. rewrite Hps. unfold pslot, sget; simpl. rewrite Ac, !lookup_empty. reflexivity.
          -- intros k. rewrite Hps. unfold pslot, sget; simpl. rewrite Ac, !lookup_empty. reflexivity.
          -- intros k. rewrite lookup_empty. done.
        * intros o [= <-]. unfold obj_empty; simpl. destruct (sa_bal s0 =? 0) eqn:E; [apply Z.eqb_eq in E; done|reflexivity].
      + apply andb_prop in Hs0. destruct Hs0 as [Hs0 Hndk]. apply andb_prop in Hs0. destruct Hs0 as [Hne Hnz].
        apply bool_decide_eq_true in Hndk.
        set (q := {| p_keeper := <[sa_addr s0 := (sa_nonce s0, sa_code s0)]> (p_keeper p0);
                     p_bal := <[sa_addr s0 := sa_bal s0]> (p_bal p0);
                     p_cstore := fold_left (fun m (kv : key * Z) => <[(sa_addr s0, kv.1) := kv.2]> m) (sa_stor s0) (p_cstore p0);
                     p_codes := if (sa_code s0 =? 0)%N then p_codes p0 else <[sa_code s0 := tt]> (p_codes p0) |}) in *.
        assert (load q (sa_addr s0) = Some (mk_obj (sa_bal s0) (sa_nonce s0) (sa_code s0))) as Hld.
        { unfold load, pbal; simpl. rewrite !lookup_insert. reflexivity. }
        assert (forall k, pslot p (sa_addr s0) k = sget (list_to_map (sa_stor s0)) k) as Hsl.
        { intros k. rewrite Hps. unfold pslot, sget; simpl. rewrite (fold_insert_own _ _ _ _ Hndk).
          destruct (list_to_map (sa_stor s0) !! k); [reflexivity|]. rewrite Ac, lookup_empty. reflexivity. }
        rewrite Hld. split; [|split; [done|]].
        * apply arel_mk; simpl.
          -- reflexivity.
          -- reflexivity.
          -- reflexivity.
          -- intros Hc. apply K. simpl. destruct (sa_code s0 =? 0)%N eqn:E; [apply N.eqb_eq in E; done|]. rewrite lookup_insert. eauto.
          -- reflexivity.
          -- exact Hsl.
          -- exact Hsl.
          -- intros k Hk. apply elem_of_list_to_map_2 in Hk. rewrite forallb_forall in Hnz.
             apply elem_of_list_In in Hk. specialize (Hnz _ Hk). simpl in Hnz. done.
        * intros o [= <-]. unfold obj_empty; simpl.
          destruct (sa_nonce s0 =? 0), (sa_bal s0 =? 0), (sa_code s0 =? 0)%N; simpl in *; done.
    - assert (m !! x = None) as ->.
      { apply not_elem_of_list_to_map_1. rewrite <- list_fmap_compose. exact Hnin. }
      pose proof (fold_pers_absent st pe x Hnin) as A. fold p in A.
      assert (load p x = None) as Hld.
      { rewrite (agree_load _ _ _ A). unfold load, pbal, pe; simpl. rewrite !lookup_empty. reflexivity. }
      rewrite Hld. split; [exact I|]. split; [|done].
      intros _ k. rewrite (agree_pslot _ _ _ k A). unfold pslot, pe; simpl. rewrite lookup_empty. reflexivity. }
  split.
  - intros x i. simpl. rewrite lookup_empty. split; [done|]. intros [o Ho]. rewrite lookup_nil in Ho. done.
  - intros x i. simpl. rewrite lookup_empty. done.
  - intros x Hl k. exact (proj1 (proj2 (Hx x)) Hl k).
  - split; [|reflexivity]. intros x. unfold look; simpl. rewrite lookup_empty. exact (proj1 (Hx x)).
  - reflexivity.
  - split; [constructor|]. intros i j r1 r2 H. simpl in H. rewrite lookup_nil in H. done.
  - constructor.
  - intros x o Hl. exact (proj2 (proj2 (Hx x)) o Hl).
  - reflexivity.
  - exact I.
Qed.
