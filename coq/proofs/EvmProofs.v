(* EvmProofs.v — lemmas for C16 (EVM state adapter vs reference state). *)
From stdpp Require Import gmap list.
From Coq Require Import ZArith Lia.
From OL Require Import theories.EvmSpec theories.EvmAdapter theories.EvmCheck.
Local Open Scope Z_scope.
