(* ReplayGuardProofs.v — at-most-once through guard records. *)
From Coq Require Import ZArith List Bool Lia.
Import ListNotations.
From OL Require Import theories.ReplayGuard.

Lemma gmem_filter_other g g' l : Z.eqb g g' = false -> gmem g (filter (fun x => negb (Z.eqb g' x)) l) = gmem g l.
Proof.
  intros Hne. unfold gmem. induction l as [|x l IH]; [reflexivity|]. cbn [filter].
  destruct (Z.eqb g' x) eqn:E; cbn [negb existsb].
  - apply Z.eqb_eq in E; subst x. rewrite IH, Hne. reflexivity.
  - rewrite IH. reflexivity.
Qed.

Lemma gcount_cons g x l : gcount g (x :: l) = if Z.eqb g x then S (gcount g l) else gcount g l.
Proof. unfold gcount. cbn [filter]. destruct (Z.eqb g x); reflexivity. Qed.

Lemma gmem_cons g x l : gmem g (x :: l) = Z.eqb g x || gmem g l.
Proof. reflexivity. Qed.

(* the invariant: g took effect at most once, and if it did, g is taken *)
Definition ginv (g : Z) (s : gst) : Prop :=
  (gcount g (effects s) <= 1)%nat /\ (gcount g (effects s) = 1%nat -> gmem g (taken s) = true).

Lemma gstep_inv g s o : ginv g s -> never_removes g [o] = true -> ginv g (gstep s o).
Proof.
  unfold ginv; intros [Hle Htk] Hnr. destruct o as [g'|g'|]; cbn [gstep]; [| |split; assumption].
  - destruct (gmem g' (taken s)) eqn:Hm; [split; assumption|]. cbn [taken effects].
    rewrite gcount_cons, gmem_cons. destruct (Z.eqb g g') eqn:E.
    + apply Z.eqb_eq in E; subst g'.
      assert (gcount g (effects s) = 0)%nat as H0.
      { destruct (gcount g (effects s)) as [|[|n]] eqn:Hc; [reflexivity| |lia]. rewrite (Htk eq_refl) in Hm. discriminate. }
      rewrite H0. split; [lia|]. intros _. reflexivity.
    + split; [assumption|]. intros H1. cbn [orb]. exact (Htk H1).
  - cbn [never_removes forallb] in Hnr. rewrite andb_true_r in Hnr. apply negb_true_iff in Hnr.
    cbn [taken effects]. split; [assumption|]. intros H1. rewrite (gmem_filter_other g g' _ Hnr). exact (Htk H1).
Qed.

Lemma grun_inv g : forall ops s, ginv g s -> never_removes g ops = true -> ginv g (grun s ops).
Proof.
  induction ops as [|o r IH]; intros s Hi Hn; [exact Hi|].
  cbn [never_removes forallb] in Hn. apply andb_prop in Hn as [Ho Hr].
  cbn [grun fold_left]. apply IH; [|exact Hr]. apply gstep_inv; [exact Hi|]. cbn [never_removes forallb]. now rewrite Ho.
Qed.

(* over ALL histories of submissions (any number, any encodings — the id is a function of the signed
   content), removals of OTHER records and unrelated operations: the transaction with guard id g takes
   effect at most once *)
Theorem guard_at_most_once : forall g ops, never_removes g ops = true ->
  (gcount g (effects (grun ginit ops)) <= 1)%nat.
Proof.
  intros g ops Hn. apply (grun_inv g ops ginit); [|exact Hn]. split; cbn; [lia|discriminate].
Qed.

(* once taken, a submission changes nothing at all *)
Theorem guard_taken_noop : forall s g, gmem g (taken s) = true -> gstep s (GSubmit g) = s.
Proof. intros s g H. cbn. now rewrite H. Qed.

(* and an executed transaction's id IS taken, for as long as nothing removes it *)
Theorem guard_executed_stays_refused : forall g pre post,
  never_removes g post = true ->
  let s := grun (gstep (grun ginit pre) (GSubmit g)) post in
  gmem g (taken s) = true /\ gstep s (GSubmit g) = s.
Proof.
  intros g pre post Hn s.
  assert (gmem g (taken (gstep (grun ginit pre) (GSubmit g))) = true) as H0.
  { cbn [gstep]. destruct (gmem g (taken (grun ginit pre))) eqn:E; [exact E|]. cbn [taken]. rewrite gmem_cons, Z.eqb_refl. reflexivity. }
  assert (forall ops s0, gmem g (taken s0) = true -> never_removes g ops = true -> gmem g (taken (grun s0 ops)) = true) as Hk.
  { induction ops as [|o r IH]; intros s0 Hm Hnr; [exact Hm|].
    cbn [never_removes forallb] in Hnr. apply andb_prop in Hnr as [Ho Hr]. cbn [grun fold_left]. apply IH; [|exact Hr].
    destruct o as [g'|g'|]; cbn [gstep]; [| |exact Hm].
    - destruct (gmem g' (taken s0)); [exact Hm|]. cbn [taken]. rewrite gmem_cons, Hm. apply orb_true_r.
    - cbn [taken]. apply negb_true_iff in Ho. now rewrite (gmem_filter_other g g' _ Ho). }
  pose proof (Hk post _ H0 Hn) as Hm. split; [exact Hm|]. now apply guard_taken_noop.
Qed.

(* the hypothesis is necessary: one removal of the record in between and the same signed content takes
   effect twice (the seeded ONS range bug, the deleted empty OLVM account, the archived tracker written
   under the wrong prefix are all of this shape; on the unchanged tree: an allegation after an INNOCENT verdict) *)
Theorem guard_removed_executes_twice : exists g ops,
  never_removes g ops = false /\ gcount g (effects (grun ginit ops)) = 2%nat.
Proof. exists 7%Z, [GSubmit 7%Z; GRemove 7%Z; GSubmit 7%Z]. split; reflexivity. Qed.

Example guard_nonvacuous :
  let ops := [GSubmit 1; GSubmit 2; GSubmit 1; GRemove 2; GOther; GSubmit 2; GSubmit 1]%Z in
  never_removes 1%Z ops = true /\ effects (grun ginit ops) = [2; 2; 1]%Z /\ gcount 1%Z (effects (grun ginit ops)) = 1%nat.
Proof. cbn. repeat split; reflexivity. Qed.
