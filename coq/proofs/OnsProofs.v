(* OnsProofs.v — lemmas about the domain-name model (theories/Ons.v). *)
From Coq Require Import ZArith Ascii String Lia.
From stdpp Require Import gmap list strings.
From OL Require Import theories.Ons.
Local Open Scope Z_scope.

(* ---- arithmetic ---- *)
Lemma wrap64_id z : - 2^63 <= z < 2^63 -> wrap64 z = z.
Proof. intros H. unfold wrap64. rewrite Z.mod_small; lia. Qed.

Lemma wrap64_range z : - 2^63 <= wrap64 z < 2^63.
Proof. unfold wrap64. pose proof (Z.mod_pos_bound (z + 2^63) (2^64)). lia. Qed.

Lemma blocks_bought_spec a p q : blocks_bought a p = Some q -> q = a / p /\ - 2^63 <= q < 2^63.
Proof.
  unfold blocks_bought. destruct ((- 2^63 <=? a / p) && (a / p <? 2^63)) eqn:H; [|discriminate].
  intros [= <-]. apply andb_true_iff in H as [H1 H2]. apply Z.leb_le in H1. apply Z.ltb_lt in H2. lia.
Qed.

Lemma expiry_overflows_false from extend : expiry_overflows from extend = false ->
  from <= 0 \/ from + extend < 2^63.
Proof.
  unfold expiry_overflows. intros H. apply andb_false_iff in H as [H|H].
  - apply Z.ltb_ge in H. by left.
  - apply Z.ltb_ge in H. right. lia.
Qed.

(* ---- balances ---- *)
Lemma getbal_insert b a x y : getbal (<[a:=x]> b) y = if decide (y = a) then x else getbal b y.
Proof.
  unfold getbal. destruct (decide (y = a)) as [->|Hne].
  - by rewrite lookup_insert.
  - by rewrite lookup_insert_ne.
Qed.

Lemma getbal_debit b a x b' : debit b a x = Some b' ->
  0 <= getbal b a - x /\ forall y, getbal b' y = getbal b y - (if decide (y = a) then x else 0).
Proof.
  unfold debit. destruct (getbal b a - x <? 0) eqn:Hlt; [discriminate|].
  intros [= <-]. apply Z.ltb_ge in Hlt. split; [done|]. intros y. rewrite getbal_insert.
  destruct (decide (y = a)) as [->|]; lia.
Qed.

Lemma getbal_credit b a x y : getbal (credit b a x) y = getbal b y + (if decide (y = a) then x else 0).
Proof. unfold credit. rewrite getbal_insert. destruct (decide (y = a)) as [->|]; lia. Qed.

(* ---- sub-name iteration ---- *)
Lemma lookup_delete_subs s p n :
  delete_subs s p !! n = if visited s p n then None else reg s !! n.
Proof.
  unfold delete_subs. rewrite map_lookup_imap.
  destruct (reg s !! n); simpl; destruct (visited s p n); reflexivity.
Qed.

Lemma lookup_map_subs s p f r n :
  map_subs s p f r !! n = if visited s p n then f <$> r !! n else r !! n.
Proof.
  unfold map_subs. rewrite map_lookup_imap.
  destruct (r !! n); simpl; destruct (visited s p n); reflexivity.
Qed.

Lemma visited_sub s p n : visited s p n = true -> is_sub_of p n = true.
Proof. unfold visited. intros H. apply andb_true_iff in H. tauto. Qed.

Lemma is_sub_of_ne p n : is_sub_of p n = true -> p <> n.
Proof.
  unfold is_sub_of. intros H ->. apply andb_true_iff in H as [H _].
  apply Nat.ltb_lt in H. lia.
Qed.

(* label-level meaning of the iteration range: n = pre ++ p with a non-empty pre *)
Lemma is_sub_of_spec p n : is_sub_of p n = true <-> exists pre, pre <> [] /\ n = pre ++ p.
Proof.
  unfold is_sub_of. rewrite andb_true_iff, Nat.ltb_lt, bool_decide_eq_true. split.
  - intros [Hl Hd]. exists (take (length n - length p) n). split.
    + intros Hnil. apply (f_equal length) in Hnil. rewrite take_length in Hnil. simpl in Hnil. lia.
    + transitivity (take (length n - length p) n ++ drop (length n - length p) n);
        [by rewrite take_drop|by rewrite Hd].
  - intros (pre & Hpre & ->). rewrite app_length. split.
    + destruct pre; [done|simpl; lia].
    + replace (length pre + length p - length p)%nat with (length pre) by lia.
      by rewrite drop_app.
Qed.

(* a name in the range of a two-label name has that name as its parent (GetParentName) *)
Lemma is_sub_of_parent p n : length p = 2%nat -> is_sub_of p n = true ->
  parent_name n = p /\ is_sub n = true.
Proof.
  intros Hp H. unfold is_sub_of in H. apply andb_true_iff in H as [Hl Hd].
  apply Nat.ltb_lt in Hl. apply bool_decide_eq_true in Hd. rewrite Hp in *. split.
  - exact Hd.
  - unfold is_sub. apply Nat.leb_le. lia.
Qed.

Lemma parent_is_sub_of n : is_sub n = true -> is_sub_of (parent_name n) n = true.
Proof.
  unfold is_sub, parent_name. intros H. apply Nat.leb_le in H.
  apply is_sub_of_spec. exists (take (length n - 2) n). split.
  - intros Hnil. apply (f_equal length) in Hnil. rewrite take_length in Hnil. simpl in Hnil. lia.
  - by rewrite take_drop.
Qed.

(* ---- authority ---- *)
Definition owns (s : state) (a : addr) (n : name) : Prop :=
  exists d, reg s !! n = Some d /\ d_owner d = a.
(* a owns n, or owns a name of which n is a sub-name *)
Definition authority (s : state) (a : addr) (n : name) : Prop :=
  owns s a n \/ exists p, is_sub_of p n = true /\ owns s a p.

(* what a successful purchase of p by [buyer] for [offer] did to the balances, handler only *)
Definition purchase_paid (e : env) (s s1 : state) (p : name) (buyer : addr) (offer : Z) : Prop :=
  exists d, reg s !! p = Some d /\
   ((sale_branch e d = true /\ exists q, d_price d = Some q /\ q <= offer /\
      (forall a, getbal (bal s1) a = getbal (bal s) a + (if decide (a = d_owner d) then q else 0)
                                     - (if decide (a = buyer) then offer else 0)) /\
      pool s1 = pool s + (offer - q))
    \/ (sale_branch e d = false /\ d_expiry d < e_v e /\ o_base (e_opts e) <= offer /\
      (forall a, getbal (bal s1) a = getbal (bal s) a - (if decide (a = buyer) then offer else 0)) /\
      pool s1 = pool s + offer)).

Ltac owner_eq H := apply negb_false_iff in H; apply bool_decide_eq_true in H.

Lemma update_changes e s a b n0 act uo u s1 : run_update e s a b n0 act uo u = Some s1 ->
  bal s1 = bal s /\ pool s1 = pool s /\ snap s1 = snap s /\
  forall n, reg s1 !! n <> reg s !! n -> authority s a n.
Proof.
  unfold run_update. intros H.
  destruct (reg s !! n0) as [d|] eqn:Hd; [|discriminate].
  destruct (negb (is_changeable d (e_h e))); [discriminate|].
  destruct (negb (bool_decide (d_owner d = a))) eqn:Ho; [discriminate|]. owner_eq Ho.
  destruct (negb (u =? "")%string && negb uo); [discriminate|].
  injection H as <-. simpl. repeat split; try reflexivity.
  intros n Hn. destruct (decide (n = n0)) as [->|Hne].
  - left. by exists d.
  - rewrite lookup_insert_ne in Hn by done. right. exists n0.
    destruct (negb act && negb (is_sub n0)); [|done].
    rewrite lookup_map_subs in Hn. destruct (visited s n0 n) eqn:Hv; [|done].
    split; [by apply (visited_sub s)|by exists d].
Qed.

Lemma sell_changes e s a n0 price c s1 : run_sell e s a n0 price c = Some s1 ->
  bal s1 = bal s /\ pool s1 = pool s /\ snap s1 = snap s /\
  forall n, reg s1 !! n <> reg s !! n -> authority s a n.
Proof.
  unfold run_sell. intros H.
  destruct (price <=? o_perblock (e_opts e)); [discriminate|].
  destruct (price <? 0); [discriminate|]. destruct (is_sub n0); [discriminate|].
  destruct (reg s !! n0) as [d|] eqn:Hd; [|discriminate].
  destruct (negb (bool_decide (d_owner d = a))) eqn:Ho; [discriminate|]. owner_eq Ho.
  destruct (negb (is_changeable d (e_h e))); [discriminate|].
  destruct (is_expired d (e_h e)); [discriminate|].
  injection H as <-. simpl. repeat split; try reflexivity.
  intros n Hn. destruct (decide (n = n0)) as [->|Hne].
  - left. by exists d.
  - by rewrite lookup_insert_ne in Hn.
Qed.

Lemma send_changes e s a n0 amount s1 : run_send e s a n0 amount = Some s1 ->
  reg s1 = reg s /\ pool s1 = pool s /\ snap s1 = snap s.
Proof.
  unfold run_send. intros H. repeat case_match; try discriminate. by injection H as <-.
Qed.

Lemma renew_changes e s a n0 price s1 : run_renew e s a n0 price = Some s1 ->
  snap s1 = snap s /\ forall n, reg s1 !! n <> reg s !! n -> authority s a n.
Proof.
  unfold run_renew. intros H.
  destruct (price <=? o_perblock (e_opts e)); [discriminate|].
  destruct (is_sub n0); [discriminate|].
  destruct (reg s !! n0) as [d|] eqn:Hd; [|discriminate].
  destruct (negb (is_changeable d (e_h e))); [discriminate|].
  destruct (is_expired d (e_v e)); [discriminate|].
  destruct (negb (bool_decide (d_owner d = a))) eqn:Ho; [discriminate|]. owner_eq Ho.
  destruct (debit (bal s) a price); [|discriminate].
  destruct (blocks_bought price (o_perblock (e_opts e))); [|discriminate].
  destruct (expiry_overflows (d_expiry d) z); [discriminate|].
  injection H as <-. simpl. split; [reflexivity|].
  intros n Hn. destruct (decide (n = n0)) as [->|Hne].
  - left. by exists d.
  - rewrite lookup_insert_ne in Hn by done. right. exists n0.
    rewrite lookup_map_subs in Hn. destruct (visited s n0 n) eqn:Hv; [|done].
    split; [by apply (visited_sub s)|by exists d].
Qed.

Lemma deletesub_changes e s a n0 s1 : run_deletesub e s a n0 = Some s1 ->
  bal s1 = bal s /\ pool s1 = pool s /\ snap s1 = snap s /\
  forall n, reg s1 !! n <> reg s !! n -> authority s a n.
Proof.
  unfold run_deletesub. intros H.
  destruct (reg s !! (if is_sub n0 then parent_name n0 else n0)) as [p|] eqn:Hp; [|discriminate].
  destruct (negb (is_changeable p (e_h e))); [discriminate|].
  destruct (negb (bool_decide (d_owner p = a))) eqn:Ho; [discriminate|]. owner_eq Ho.
  destruct (is_sub n0) eqn:Hsub.
  - destruct (reg s !! n0) as [d|] eqn:Hd; [|discriminate].
    injection H as <-. simpl. repeat split; try reflexivity.
    intros n Hn. destruct (decide (n = n0)) as [->|Hne].
    + right. exists (parent_name n0). split; [by apply parent_is_sub_of|by exists p].
    + by rewrite lookup_delete_ne in Hn.
  - injection H as <-. simpl. repeat split; try reflexivity.
    intros n Hn. rewrite lookup_delete_subs in Hn.
    destruct (visited s n0 n) eqn:Hv; [|done].
    right. exists n0. split; [by apply (visited_sub s)|by exists p].
Qed.

Lemma create_changes e s a b n0 uo u price s1 : run_create e s a b n0 uo u price = Some s1 ->
  snap s1 = snap s /\
  forall n, reg s1 !! n <> reg s !! n ->
    n = n0 /\ reg s !! n = None /\ owns s1 a n /\
    (is_sub n = true -> authority s a n).
Proof.
  unfold run_create. intros H.
  destruct (price <=? o_base (e_opts e)); [discriminate|].
  destruct (bool_decide (is_Some (reg s !! n0))) eqn:Hex; [discriminate|].
  apply bool_decide_eq_false in Hex. rewrite <- eq_None_not_Some in Hex.
  destruct (debit (bal s) a price); [|discriminate].
  destruct (negb (name_valid (e_opts e) n0)); [discriminate|].
  destruct (negb (u =? "")%string && negb uo); [discriminate|].
  destruct (is_sub n0) eqn:Hsub.
  - destruct (reg s !! parent_name n0) as [p|] eqn:Hp; [|discriminate].
    destruct (bool_decide (d_owner p = a)) eqn:Ho; [|discriminate]. apply bool_decide_eq_true in Ho.
    injection H as <-. simpl. split; [reflexivity|].
    intros n Hn. destruct (decide (n = n0)) as [->|Hne].
    + repeat split; try done.
      * unfold owns. simpl. eexists. rewrite lookup_insert. done.
      * intros _. right. exists (parent_name n0). split; [by apply parent_is_sub_of|by exists p].
    + by rewrite lookup_insert_ne in Hn.
  - destruct (blocks_bought (price - o_base (e_opts e)) (o_perblock (e_opts e))); [|discriminate].
    destruct (expiry_overflows (e_v e) z); [discriminate|].
    injection H as <-. simpl. split; [reflexivity|].
    intros n Hn. destruct (decide (n = n0)) as [->|Hne].
    + repeat split; try done.
      * unfold owns. simpl. eexists. rewrite lookup_insert. done.
      * intros Hs. congruence.
    + by rewrite lookup_insert_ne in Hn.
Qed.

Lemma purchase_changes e s buyer acct n0 offer s1 :
  run_purchase e s buyer acct n0 offer = Some s1 ->
  snap s1 = snap s /\ purchase_paid e s s1 n0 buyer offer /\
  forall n, reg s1 !! n <> reg s !! n -> n = n0 \/ (is_sub_of n0 n = true /\ reg s1 !! n = None).
Proof.
  unfold run_purchase. intros H.
  destruct (reg s !! n0) as [d|] eqn:Hd; [|discriminate].
  destruct (negb (d_onsale d) && (e_v e <=? d_expiry d)) eqn:Hgate; [discriminate|].
  destruct (is_sub n0); [discriminate|].
  assert (Hreg : forall (d' : domain) n,
     (<[n0:=d']> (delete_subs s n0) : gmap name domain) !! n <> reg s !! n ->
     n = n0 \/ (is_sub_of n0 n = true /\ (<[n0:=d']> (delete_subs s n0) : gmap name domain) !! n = None)).
  { intros d' n Hn. destruct (decide (n = n0)) as [->|Hne]; [by left|right].
    rewrite lookup_insert_ne in Hn |- * by done. rewrite lookup_delete_subs in Hn |- *.
    destruct (visited s n0 n) eqn:Hv; [|done]. split; [by apply (visited_sub s)|done]. }
  destruct (sale_branch e d) eqn:Hsb.
  - destruct (d_price d) as [q|] eqn:Hq; [|discriminate].
    destruct (negb (q <=? offer)) eqn:Hqo; [discriminate|].
    apply negb_false_iff, Z.leb_le in Hqo.
    destruct (debit (bal s) buyer q) as [b1|] eqn:Hb1; [|discriminate].
    destruct (blocks_bought (offer - q) (o_perblock (e_opts e))) as [ext|]; [|discriminate].
    destruct (expiry_overflows _ ext); [discriminate|].
    destruct (debit (credit b1 (d_owner d) q) buyer (offer - q)) as [b3|] eqn:Hb3; [|discriminate].
    injection H as <-. simpl. split; [reflexivity|]. split.
    + exists d. split; [done|]. left. split; [done|]. exists q. repeat split; try done.
      intros x. simpl.
      apply getbal_debit in Hb1 as [_ Hb1]. apply getbal_debit in Hb3 as [_ Hb3].
      rewrite Hb3, getbal_credit, Hb1.
      destruct (decide (x = buyer)), (decide (x = d_owner d)); lia.
    + eapply Hreg; eauto.
  - destruct (offer <? o_base (e_opts e)) eqn:Hob; [discriminate|]. apply Z.ltb_ge in Hob.
    destruct (blocks_bought (offer - o_base (e_opts e)) (o_perblock (e_opts e))) as [ext|]; [|discriminate].
    destruct (expiry_overflows _ ext); [discriminate|].
    destruct (debit (bal s) buyer offer) as [b3|] eqn:Hb3; [|discriminate].
    injection H as <-. simpl. split; [reflexivity|]. split.
    + exists d. split; [done|]. right. split; [done|].
      assert (d_expiry d < e_v e) as Hexp.
      { unfold sale_branch in Hsb. destruct (d_onsale d); simpl in *.
        - rewrite andb_true_r in Hsb. apply Z.leb_gt in Hsb. lia.
        - apply Z.leb_gt in Hgate. lia. }
      repeat split; try done.
      intros x. simpl. apply getbal_debit in Hb3 as [_ Hb3]. rewrite Hb3. done.
    + eapply Hreg; eauto.
Qed.

(* ---- the fee step and the wrapper ---- *)
Lemma fee_step_spec s t s2 : fee_step s t = Some s2 ->
  exists f, t_fee t = Some f /\ reg s2 = reg s /\ snap s2 = snap s /\ pool s2 = pool s + f /\
    forall a, getbal (bal s2) a = getbal (bal s) a - (if decide (a = t_payer t) then f else 0).
Proof.
  unfold fee_step. destruct (t_fee t) as [f|]; [|discriminate].
  destruct (debit (bal s) (t_payer t) f) as [b|] eqn:Hb; [|discriminate].
  intros [= <-]. exists f. simpl. repeat split; try done. by apply getbal_debit in Hb as [_ Hb].
Qed.

Lemma deliver_failed s t s' : deliver s t = (s', false) -> s' = s.
Proof.
  unfold deliver. destruct (negb (validate t)); [by intros [= <-]|].
  destruct (run_op (t_env t) s (t_op t)) as [s1|]; [|by intros [= <-]].
  destruct (fee_step s1 t); [discriminate|]. by intros [= <-].
Qed.

Lemma deliver_ok s t s' : deliver s t = (s', true) ->
  exists s1, run_op (t_env t) s (t_op t) = Some s1 /\ fee_step s1 t = Some s'.
Proof.
  unfold deliver. destruct (negb (validate t)); [discriminate|]. destruct (run_op (t_env t) s (t_op t)) as [s1|]; [|discriminate].
  destruct (fee_step s1 t) as [s2|] eqn:Hf; [|discriminate]. intros [= <-]. by exists s1.
Qed.

(* the purchase facts, after the fee step *)
Definition paid_purchase_of (s s' : state) (t : tx) (p : name) : Prop :=
  exists buyer acct offer d f, t_op t = Purchase buyer acct p offer /\ reg s !! p = Some d /\
   t_fee t = Some f /\
   ((sale_branch (t_env t) d = true /\ exists q, d_price d = Some q /\ q <= offer /\
      (forall a, getbal (bal s') a = getbal (bal s) a + (if decide (a = d_owner d) then q else 0)
                  - (if decide (a = buyer) then offer else 0) - (if decide (a = t_payer t) then f else 0)) /\
      pool s' = pool s + (offer - q) + f)
    \/ (sale_branch (t_env t) d = false /\ d_expiry d < e_v (t_env t) /\
      o_base (e_opts (t_env t)) <= offer /\
      (forall a, getbal (bal s') a = getbal (bal s) a - (if decide (a = buyer) then offer else 0)
                  - (if decide (a = t_payer t) then f else 0)) /\
      pool s' = pool s + offer + f)).

(* (1) every change of a record is caused by its owner's (or an ancestor name's owner's)
   signature, by a first registration, or by a paid purchase *)
Definition change_justified (s s' : state) (t : tx) (n : name) : Prop :=
  authority s (signer (t_op t)) n
  \/ (exists b uo u price, t_op t = Create (signer (t_op t)) b n uo u price /\ reg s !! n = None /\
        is_sub n = false /\ owns s' (signer (t_op t)) n)
  \/ paid_purchase_of s s' t n
  \/ (exists p, is_sub_of p n = true /\ reg s' !! n = None /\ paid_purchase_of s s' t p).

Theorem deliver_authorised s t s' ok : deliver s t = (s', ok) ->
  forall n, reg s' !! n <> reg s !! n -> ok = true /\ change_justified s s' t n.
Proof.
  intros H n Hn. destruct ok; [|apply deliver_failed in H; by subst].
  split; [done|]. apply deliver_ok in H as (s1 & Hop & Hfee).
  apply fee_step_spec in Hfee as (f & Hf & Hreg & _ & Hpool & Hbal).
  rewrite Hreg in Hn. unfold change_justified.
  destruct (t_op t) as [a b n0 uo u p|a b n0 act uo u|a n0 p c|a b n0 p|a n0 p|a n0 p|a n0] eqn:Ht;
    simpl in Hop |- *.
  - apply create_changes in Hop as [_ Hc]. destruct (Hc n Hn) as (-> & Hnone & Hown & Hsub).
    destruct (is_sub n0) eqn:Hs.
    + left. by apply Hsub.
    + right; left. exists b, uo, u, p. repeat split; try done.
      destruct Hown as (d & Hd & Ho). exists d. by rewrite Hreg.
  - left. apply update_changes in Hop as (_ & _ & _ & Hc). by apply Hc.
  - left. apply sell_changes in Hop as (_ & _ & _ & Hc). by apply Hc.
  - apply purchase_changes in Hop as (_ & Hpaid & Hc).
    assert (paid_purchase_of s s' t n0) as Hpp.
    { destruct Hpaid as (d & Hd & Hcases). exists a, b, p, d, f. rewrite Ht. repeat split; try done.
      destruct Hcases as [(Hsb & q & Hq & Hle & Hb1 & Hp1)|(Hsb & Hexp & Hbase & Hb1 & Hp1)].
      - left. split; [done|]. exists q. repeat split; try done.
        + intros x. rewrite Hbal, Hb1. done.
        + rewrite Hpool, Hp1. done.
      - right. repeat split; try done.
        + intros x. rewrite Hbal, Hb1. done.
        + rewrite Hpool, Hp1. done. }
    destruct (Hc n Hn) as [->|[Hs Hnone]].
    + right; right; left. done.
    + right; right; right. exists n0. repeat split; try done. by rewrite Hreg.
  - apply send_changes in Hop as (Hr & _). by rewrite Hr in Hn.
  - left. apply renew_changes in Hop as (_ & Hc). by apply Hc.
  - left. apply deletesub_changes in Hop as (_ & _ & _ & Hc). by apply Hc.
Qed.

(* (2) frame: a transaction whose signer has no authority over n, and which is not a purchase of
   n or of a name above n, and not the first registration of n, leaves n's record alone *)
Definition targets (o : op) (n : name) : Prop :=
  match o with
  | Purchase _ _ p _ => p = n \/ is_sub_of p n = true
  | Create _ _ p _ _ _ => p = n
  | _ => False
  end.

Theorem strangers_frame s t n : ~ authority s (signer (t_op t)) n -> ~ targets (t_op t) n ->
  reg (deliver s t).1 !! n = reg s !! n.
Proof.
  intros Hna Hnt. destruct (deliver s t) as [s' ok] eqn:H. simpl.
  destruct (decide (reg s' !! n = reg s !! n)) as [|Hn]; [done|exfalso].
  destruct (deliver_authorised _ _ _ _ H n Hn) as (_ & [Ha|[Hc|[Hp|Hp]]]).
  - done.
  - destruct Hc as (b & uo & u & price & Ht & _). rewrite Ht in Hnt. by apply Hnt.
  - destruct Hp as (buyer & acct & offer & d & f & Ht & _). rewrite Ht in Hnt. apply Hnt. by left.
  - destruct Hp as (p & Hs & _ & (buyer & acct & offer & d & f & Ht & _)). rewrite Ht in Hnt.
    apply Hnt. by right.
Qed.

(* over whole histories: a record can only differ between two points of a history if one of the
   transactions in between is justified for it *)
Fixpoint history_justified (s : state) (evs : list event) (n : name) : Prop :=
  match evs with
  | [] => False
  | Tx t :: rest =>
      (reg (deliver s t).1 !! n <> reg s !! n /\ (deliver s t).2 = true /\
         change_justified s (deliver s t).1 t n)
      \/ history_justified (deliver s t).1 rest n
  | EndBlock :: rest => history_justified (end_block s) rest n
  end.

Theorem history_authorised evs : forall s n,
  reg (run s evs) !! n <> reg s !! n -> history_justified s evs n.
Proof.
  induction evs as [|ev evs IH]; intros s n Hn; simpl in *; [done|].
  destruct ev as [t|]; simpl in *.
  - destruct (decide (reg (deliver s t).1 !! n = reg s !! n)) as [Heq|Hne].
    + right. apply IH. by rewrite Heq.
    + left. destruct (deliver s t) as [s' ok] eqn:H. simpl in *.
      destruct (deliver_authorised _ _ _ _ H n Hne) as [-> Hj]. done.
  - apply IH. done.
Qed.

(* (4) one record per name: the registry is a function of the name; records of different names
   are independent cells *)
Theorem one_record_per_name s n d1 d2 : reg s !! n = Some d1 -> reg s !! n = Some d2 -> d1 = d2.
Proof. congruence. Qed.

(* ---- (3) expiry ---- *)
Definition int64 (z : Z) : Prop := - 2^63 <= z < 2^63.

Lemma create_expiry e s a b n uo u price s1 : run_create e s a b n uo u price = Some s1 ->
  exists d, reg s1 !! n = Some d /\ d_owner d = a /\ pool s1 = pool s + price /\
    o_base (e_opts e) < price /\
    (forall x, getbal (bal s1) x = getbal (bal s) x - (if decide (x = a) then price else 0)) /\
    if is_sub n
    then exists p, reg s !! parent_name n = Some p /\ d_expiry d = d_expiry p
    else exists extend, blocks_bought (price - o_base (e_opts e)) (o_perblock (e_opts e)) = Some extend /\
           expiry_overflows (e_v e) extend = false /\ d_expiry d = wrap64 (e_v e + extend).
Proof.
  unfold run_create. intros H.
  destruct (price <=? o_base (e_opts e)) eqn:Hpb; [discriminate|]. apply Z.leb_gt in Hpb.
  destruct (bool_decide (is_Some (reg s !! n))); [discriminate|].
  destruct (debit (bal s) a price) as [b1|] eqn:Hb; [|discriminate].
  apply getbal_debit in Hb as [_ Hb].
  destruct (negb (name_valid (e_opts e) n)); [discriminate|].
  destruct (negb (u =? "")%string && negb uo); [discriminate|].
  destruct (is_sub n).
  - destruct (reg s !! parent_name n) as [p|]; [|discriminate].
    destruct (bool_decide (d_owner p = a)); [|discriminate].
    injection H as <-. simpl. eexists. rewrite lookup_insert. repeat split; try done. by exists p.
  - destruct (blocks_bought (price - o_base (e_opts e)) (o_perblock (e_opts e))) as [ext|] eqn:Hbb; [|discriminate].
    destruct (expiry_overflows (e_v e) ext) eqn:Hov; [discriminate|].
    injection H as <-. simpl. eexists. rewrite lookup_insert. repeat split; try done. by exists ext.
Qed.

(* FULL: a paid registration of a top-level name expires exactly the blocks bought after the
   current version — for ALL amounts (a block count that does not fit is refused, never wrapped) *)
Theorem create_expiry_exact e s a b n uo u price s1 :
  run_create e s a b n uo u price = Some s1 -> is_sub n = false ->
  0 < o_perblock (e_opts e) -> 0 <= e_v e ->
  exists d, reg s1 !! n = Some d /\
    d_expiry d = e_v e + (price - o_base (e_opts e)) / o_perblock (e_opts e) /\
    e_v e <= d_expiry d.
Proof.
  intros H Hs Hpb Hv. apply create_expiry in H as (d & Hd & _ & _ & Hlt & _ & Hexp).
  rewrite Hs in Hexp. destruct Hexp as (ext & Hbb & Hov & Hexp). exists d. split; [done|].
  apply blocks_bought_spec in Hbb as [-> Hr]. apply expiry_overflows_false in Hov.
  assert (0 <= (price - o_base (e_opts e)) / o_perblock (e_opts e)) by (apply Z.div_pos; lia).
  set (k := (price - o_base (e_opts e)) / o_perblock (e_opts e)) in *.
  rewrite Hexp, wrap64_id by lia. lia.
Qed.

Theorem create_sub_expiry e s a b n uo u price s1 :
  run_create e s a b n uo u price = Some s1 -> is_sub n = true ->
  exists d p, reg s1 !! n = Some d /\ reg s !! parent_name n = Some p /\ d_expiry d = d_expiry p.
Proof.
  intros H Hs. apply create_expiry in H as (d & Hd & _ & _ & _ & _ & Hexp).
  rewrite Hs in Hexp. destruct Hexp as (p & Hp & He). by exists d, p.
Qed.

(* FULL: renewal by the owner extends the expiry by exactly price/perBlock blocks, for all
   amounts; every committed sub-name follows *)
Theorem renew_expiry_exact e s a n price s1 : run_renew e s a n price = Some s1 ->
  0 < o_perblock (e_opts e) ->
  exists d d', reg s !! n = Some d /\ reg s1 !! n = Some d' /\ d_owner d = a /\
    pool s1 = pool s + price /\ e_v e <= d_expiry d /\
    (int64 (d_expiry d) ->
     d_expiry d' = d_expiry d + price / o_perblock (e_opts e) /\ d_expiry d <= d_expiry d') /\
    (forall m dm, visited s n m = true -> reg s !! m = Some dm ->
       exists dm', reg s1 !! m = Some dm' /\ d_expiry dm' = d_expiry d').
Proof.
  unfold run_renew. intros H Hpb.
  destruct (price <=? o_perblock (e_opts e)) eqn:Hpp; [discriminate|]. apply Z.leb_gt in Hpp.
  destruct (is_sub n); [discriminate|].
  destruct (reg s !! n) as [d|] eqn:Hd; [|discriminate].
  destruct (negb (is_changeable d (e_h e))); [discriminate|].
  destruct (is_expired d (e_v e)) eqn:Hex; [discriminate|].
  unfold is_expired in Hex. apply Z.ltb_ge in Hex.
  destruct (negb (bool_decide (d_owner d = a))) eqn:Ho; [discriminate|]. owner_eq Ho.
  destruct (debit (bal s) a price); [|discriminate].
  destruct (blocks_bought price (o_perblock (e_opts e))) as [ext|] eqn:Hbb; [|discriminate].
  destruct (expiry_overflows (d_expiry d) ext) eqn:Hov; [discriminate|].
  injection H as <-. simpl. eexists d, _. rewrite lookup_insert.
  do 4 (split; [done|]). split; [lia|]. split.
  - simpl. intros Hi. apply blocks_bought_spec in Hbb as [-> Hr]. apply expiry_overflows_false in Hov.
    assert (0 <= price / o_perblock (e_opts e)) by (apply Z.div_pos; lia).
    set (k := price / o_perblock (e_opts e)) in *. unfold int64 in Hi.
    rewrite wrap64_id by lia. lia.
  - intros m dm Hv Hm. assert (m <> n) as Hne.
    { intros ->. apply visited_sub, is_sub_of_ne in Hv. done. }
    rewrite lookup_insert_ne by done. rewrite lookup_map_subs, Hv, Hm. simpl.
    eexists. split; [done|]. done.
Qed.

(* FULL: a purchase makes the buyer the owner, takes the name off sale, and sets the expiry to
   max(old expiry, version) + exactly the blocks the part of the offer not paid to the seller
   (or above the base price) buys — for all amounts; never in the past *)
Theorem purchase_expiry_exact e s buyer acct n offer s1 :
  run_purchase e s buyer acct n offer = Some s1 -> 0 < o_perblock (e_opts e) -> 0 <= e_v e ->
  exists d d', reg s !! n = Some d /\ reg s1 !! n = Some d' /\ d_owner d' = buyer /\
    d_onsale d' = false /\ d_price d' = None /\ d_active d' = true /\
    let paid_for_time := if sale_branch e d then offer - default 0 (d_price d)
                         else offer - o_base (e_opts e) in
    (int64 (d_expiry d) ->
     d_expiry d' = Z.max (d_expiry d) (e_v e) + paid_for_time / o_perblock (e_opts e) /\
     e_v e <= d_expiry d').
Proof.
  unfold run_purchase. intros H Hpb Hv.
  destruct (reg s !! n) as [d|] eqn:Hd; [|discriminate].
  destruct (negb (d_onsale d) && (e_v e <=? d_expiry d)); [discriminate|].
  destruct (is_sub n); [discriminate|].
  assert (Hfrom : (if e_v e <? d_expiry d then d_expiry d else e_v e) = Z.max (d_expiry d) (e_v e)).
  { destruct (e_v e <? d_expiry d) eqn:Hlt; [apply Z.ltb_lt in Hlt|apply Z.ltb_ge in Hlt]; lia. }
  destruct (sale_branch e d) eqn:Hsb.
  - destruct (d_price d) as [q|] eqn:Hq; [|discriminate].
    destruct (negb (q <=? offer)) eqn:Hqo; [discriminate|].
    apply negb_false_iff, Z.leb_le in Hqo.
    destruct (debit (bal s) buyer q) as [b1|]; [|discriminate].
    destruct (blocks_bought (offer - q) (o_perblock (e_opts e))) as [ext|] eqn:Hbb; [|discriminate].
    destruct (expiry_overflows _ ext) eqn:Hov; [discriminate|].
    destruct (debit (credit b1 (d_owner d) q) buyer (offer - q)) as [b3|]; [|discriminate].
    injection H as <-. simpl. eexists d, _. rewrite lookup_insert. do 6 (split; [done|]).
    rewrite Hsb, Hq. simpl. intros Hi. rewrite Hfrom in *.
    apply blocks_bought_spec in Hbb as [-> Hr]. apply expiry_overflows_false in Hov.
    assert (0 <= (offer - q) / o_perblock (e_opts e)) by (apply Z.div_pos; lia).
    set (k := (offer - q) / o_perblock (e_opts e)) in *. unfold int64 in Hi.
    rewrite wrap64_id by lia. lia.
  - destruct (offer <? o_base (e_opts e)) eqn:Hob; [discriminate|]. apply Z.ltb_ge in Hob.
    destruct (blocks_bought (offer - o_base (e_opts e)) (o_perblock (e_opts e))) as [ext|] eqn:Hbb; [|discriminate].
    destruct (expiry_overflows _ ext) eqn:Hov; [discriminate|].
    destruct (debit (bal s) buyer offer) as [b3|]; [|discriminate].
    injection H as <-. simpl. eexists d, _. rewrite lookup_insert. do 6 (split; [done|]).
    rewrite Hsb. simpl. intros Hi. rewrite Hfrom in *.
    apply blocks_bought_spec in Hbb as [-> Hr]. apply expiry_overflows_false in Hov.
    assert (0 <= (offer - o_base (e_opts e)) / o_perblock (e_opts e)) by (apply Z.div_pos; lia).
    set (k := (offer - o_base (e_opts e)) / o_perblock (e_opts e)) in *. unfold int64 in Hi.
    rewrite wrap64_id by lia. lia.
Qed.

(* ---- sale status: a listing is made only by the owner's own sell transaction ---- *)
(* the listing of n in the new state (owner, on sale, asking price) was there before, for the same
   owner at the same price, or the transaction is the owner's Sell of n at that price *)
Definition listing_ok (s : state) (o : op) (n : name) (d' : domain) : Prop :=
  (exists d, reg s !! n = Some d /\ d_onsale d = true /\ d_owner d = d_owner d' /\
             d_price d = d_price d')
  \/ (exists price, o = Sell (d_owner d') n price false /\ owns s (d_owner d') n /\
                    d_price d' = Some price).

Lemma listing_carried s o n d' : reg s !! n = Some d' -> d_onsale d' = true -> listing_ok s o n d'.
Proof. intros H Ho. left. by exists d'. Qed.

Lemma run_op_listing e s o s1 : run_op e s o = Some s1 ->
  forall n d', reg s1 !! n = Some d' -> d_onsale d' = true -> listing_ok s o n d'.
Proof.
  intros H n d' Hn Hon.
  destruct o as [a b n0 uo u p|a b n0 act uo u|a n0 p c|a b n0 p|a n0 p|a n0 p|a n0]; simpl in H.
  - unfold run_create in H.
    destruct (p <=? o_base (e_opts e)); [discriminate|].
    destruct (bool_decide (is_Some (reg s !! n0))); [discriminate|].
    destruct (debit (bal s) a p); [|discriminate].
    destruct (negb (name_valid (e_opts e) n0)); [discriminate|].
    destruct (negb (u =? "")%string && negb uo); [discriminate|].
    match type of H with match ?X with _ => _ end = _ => destruct X as [x|]; [|discriminate] end.
    injection H as <-. simpl in Hn. destruct (decide (n = n0)) as [->|Hne].
    + rewrite lookup_insert in Hn. injection Hn as <-. discriminate.
    + rewrite lookup_insert_ne in Hn by done. by apply listing_carried.
  - unfold run_update in H.
    destruct (reg s !! n0) as [d|] eqn:Hd; [|discriminate].
    destruct (negb (is_changeable d (e_h e))); [discriminate|].
    destruct (negb (bool_decide (d_owner d = a))); [discriminate|].
    destruct (negb (u =? "")%string && negb uo); [discriminate|].
    injection H as <-. simpl in Hn. destruct (decide (n = n0)) as [->|Hne].
    + rewrite lookup_insert in Hn. injection Hn as <-. simpl in Hon. left. by exists d.
    + rewrite lookup_insert_ne in Hn by done.
      destruct (negb act && negb (is_sub n0)); [|by apply listing_carried].
      rewrite lookup_map_subs in Hn. destruct (visited s n0 n); [|by apply listing_carried].
      destruct (reg s !! n) as [dn|] eqn:Hdn; [|discriminate]. injection Hn as <-.
      left. by exists dn.
  - unfold run_sell in H.
    destruct (p <=? o_perblock (e_opts e)); [discriminate|].
    destruct (p <? 0); [discriminate|]. destruct (is_sub n0); [discriminate|].
    destruct (reg s !! n0) as [d|] eqn:Hd; [|discriminate].
    destruct (negb (bool_decide (d_owner d = a))) eqn:Ho; [discriminate|]. owner_eq Ho.
    destruct (negb (is_changeable d (e_h e))); [discriminate|].
    destruct (is_expired d (e_h e)); [discriminate|].
    injection H as <-. simpl in Hn. destruct (decide (n = n0)) as [->|Hne].
    + rewrite lookup_insert in Hn. injection Hn as <-. destruct c; [discriminate|].
      right. exists p. simpl. rewrite Ho. repeat split; try done. by exists d.
    + rewrite lookup_insert_ne in Hn by done. by apply listing_carried.
  - unfold run_purchase in H.
    destruct (reg s !! n0) as [d|] eqn:Hd; [|discriminate].
    destruct (negb (d_onsale d) && (e_v e <=? d_expiry d)); [discriminate|].
    destruct (is_sub n0); [discriminate|].
    assert (forall d0 : domain, d_onsale d0 = false ->
      (<[n0:=d0]> (delete_subs s n0) : gmap name domain) !! n = Some d' -> listing_ok s (Purchase a b n0 p) n d') as Hg.
    { intros d0 Hoff Hl. destruct (decide (n = n0)) as [->|Hne].
      - rewrite lookup_insert in Hl. injection Hl as <-. congruence.
      - rewrite lookup_insert_ne in Hl by done. rewrite lookup_delete_subs in Hl.
        destruct (visited s n0 n); [discriminate|]. by apply listing_carried. }
    repeat (match type of H with
            | match ?X with _ => _ end = _ => destruct X eqn:?; try discriminate
            | (if ?X then _ else _) = _ => destruct X eqn:?; try discriminate
            end).
    all: injection H as <-; simpl in Hn; eapply Hg; [|exact Hn]; reflexivity.
  - apply send_changes in H as (Hr & _). rewrite Hr in Hn. by apply listing_carried.
  - unfold run_renew in H.
    destruct (p <=? o_perblock (e_opts e)); [discriminate|].
    destruct (is_sub n0); [discriminate|].
    destruct (reg s !! n0) as [d|] eqn:Hd; [|discriminate].
    destruct (negb (is_changeable d (e_h e))); [discriminate|].
    destruct (is_expired d (e_v e)); [discriminate|].
    destruct (negb (bool_decide (d_owner d = a))); [discriminate|].
    destruct (debit (bal s) a p); [|discriminate].
    destruct (blocks_bought p (o_perblock (e_opts e))); [|discriminate].
    destruct (expiry_overflows (d_expiry d) z); [discriminate|].
    injection H as <-. simpl in Hn. destruct (decide (n = n0)) as [->|Hne].
    + rewrite lookup_insert in Hn. injection Hn as <-. simpl in Hon. left. by exists d.
    + rewrite lookup_insert_ne in Hn by done. rewrite lookup_map_subs in Hn.
      destruct (visited s n0 n); [|by apply listing_carried].
      destruct (reg s !! n) as [dn|] eqn:Hdn; [|discriminate]. injection Hn as <-.
      left. by exists dn.
  - unfold run_deletesub in H.
    destruct (reg s !! (if is_sub n0 then parent_name n0 else n0)) as [p|]; [|discriminate].
    destruct (negb (is_changeable p (e_h e))); [discriminate|].
    destruct (negb (bool_decide (d_owner p = a))); [discriminate|].
    destruct (is_sub n0).
    + destruct (reg s !! n0); [|discriminate]. injection H as <-. simpl in Hn.
      destruct (decide (n = n0)) as [->|Hne]; [by rewrite lookup_delete in Hn|].
      rewrite lookup_delete_ne in Hn by done. by apply listing_carried.
    + injection H as <-. simpl in Hn. rewrite lookup_delete_subs in Hn.
      destruct (visited s n0 n); [discriminate|]. by apply listing_carried.
Qed.

Theorem listing_authored s t : forall n d',
  reg (deliver s t).1 !! n = Some d' -> d_onsale d' = true -> listing_ok s (t_op t) n d'.
Proof.
  intros n d' Hn Hon. destruct (deliver s t) as [s' ok] eqn:H. simpl in Hn.
  destruct ok; [|apply deliver_failed in H; subst; by apply listing_carried].
  apply deliver_ok in H as (s1 & Hop & Hfee).
  apply fee_step_spec in Hfee as (f & _ & Hreg & _). rewrite Hreg in Hn.
  by eapply run_op_listing.
Qed.

(* hence, over histories from the empty registry: whoever owns a name that is on sale has signed
   a sell transaction for it at that price while owning it *)
Fixpoint listed_by (s : state) (evs : list event) (n : name) (a : addr) (q : option Z) : Prop :=
  match evs with
  | [] => False
  | Tx t :: rest =>
      (exists price, t_op t = Sell a n price false /\ owns s a n /\ q = Some price)
      \/ listed_by (deliver s t).1 rest n a q
  | EndBlock :: rest => listed_by (end_block s) rest n a q
  end.

Theorem history_listing_authored evs : forall s n d',
  reg (run s evs) !! n = Some d' -> d_onsale d' = true ->
  (exists d, reg s !! n = Some d /\ d_onsale d = true /\ d_owner d = d_owner d' /\ d_price d = d_price d')
  \/ listed_by s evs n (d_owner d') (d_price d').
Proof.
  intros s n d' Hn Hon. revert s Hn.
  induction evs as [|ev evs IH]; intros s Hn; simpl in *.
  - left. by exists d'.
  - destruct ev as [t|]; simpl in *.
    + destruct (IH _ Hn) as [(d & Hd & Hdon & Hdo & Hdp)|Hl]; [|by right; right].
      destruct (listing_authored s t n d Hd Hdon) as [(d0 & H0 & H0on & H0o & H0p)|(price & Ht & Hown & Hp)].
      * left. exists d0. repeat split; congruence.
      * right. left. exists price. rewrite <- Hdo, <- Hdp. by repeat split.
    + destruct (IH _ Hn) as [Hl|Hl]; [by left|by right].
Qed.
